import Operon.Model.Proto
import Operon.Model.Genome
/-! Line-protocol driver for the genome model (C20).

  adv <set> <script>            set: `-` | `n:v,n:*,…` (pairs a callback with EVEN id approves; an ODD id approves
                                the complement); script: `-` | string over a/r/x/. indexed by global call number
                                (a approve, r refuse, x raise, . fall back to the set)
  new <allow> <cb|none> <rate> <gene>*      gene = name:value:type:required:defaultExpression
  add <id> <gene> · mutate <id> <name> <val> · rollback <id> <name> · expr <id> <name> <lvl> ·
  silence <id> <name> · activate <id> <name> · replicate <id> <inherit> <n:v,…|-> · express <id> <none|-|n,n,…> ·
  setallow <id> <0|1> · setcb <id> <cb|none> · setrate <id> <0|1>   (assignment to the public attributes
  allow_mutations / on_mutation / mutation_rate of a live genome) · setsilent <id> <0|1> (g.silent; no effect on the model) ·
  repeat <n> <op> [/ <op>]*   (the operation lines between the `/`, n times over: a long history in one line) ·
  poke <id> <name> <gene|getv|express|export>   in-place mutation (`.append(0)`) of the value OBJECT obtained through
                                get_gene(n).value / get_value(n) / express({n: 1})[n] / export(); only the mutable
                                value codes 200..299 denote objects that can be mutated; a value is printed as
                                identity + 1000 * (number of in-place mutations so far) ·
  stats <id> (get_statistics) · getv <id> <name> · validate <id> · list <id> · diff <id> <id> · fromdict <allow> <cb|none> <rate> <n:v,…|->
  Every output line: the observation, then the full state of every genome (genes and expression sorted by
  name, log in order, hash class, parent-hash class).  Hash classes number the distinct canonical lists in
  order of first appearance inside the case. -/
open Operon Operon.Proto Operon.Genome

structure DSt where
  store : Store Nat := Store.empty
  advSet : List (Nat × Option Nat) := []
  script : List Char := []
  seen : List (List (Nat × Nat)) := []
  heap : List (Nat × Nat) := []      -- object identity ↦ number of in-place mutations
  phash : List (Nat × Nat) := []     -- child ↦ class of the parent's hash when it was replicated
  quiet : Bool := false              -- inside a `repeat` line: hash classes are registered, nothing is rendered

def gtypeOf : String → Option GType
  | "s" => some .structural | "r" => some .regulatory | "h" => some .housekeeping
  | "c" => some .conditional | "d" => some .dormant | _ => none

def showGType : GType → String
  | .structural => "s" | .regulatory => "r" | .housekeeping => "h" | .conditional => "c" | .dormant => "d"

def levelOf : String → Option Level
  | "0" => some .silenced | "1" => some .low | "2" => some .normal | "3" => some .high | "4" => some .over
  | _ => none

def showLevel : Level → String
  | .silenced => "0" | .low => "1" | .normal => "2" | .high => "3" | .over => "4"

def showReason : Reason → String
  | .user => "u" | .rollback => "rb" | .replication => "rep" | .random => "rnd" | .readd => "add"

def geneOf (s : String) : Option (Gene Nat) :=
  match s.splitOn ":" with
  | [n, v, t, r, e] =>
    match n.toNat?, v.toNat?, gtypeOf t, levelOf e with
    | some n, some v, some t, some e => some ⟨n, v, t, boolOf r, e⟩
    | _, _, _, _ => none
  | _ => none

def genesOf : List String → Option (List (Gene Nat))
  | [] => some []
  | s :: rest =>
    match geneOf s, genesOf rest with
    | some g, some gs => some (g :: gs)
    | _, _ => none

def pairsOf (s : String) : Option (List (Nat × Nat)) :=
  if s = "-" then some []
  else
    let r := (s.splitOn ",").foldr (fun p acc =>
      match p.splitOn ":", acc with
      | [n, v], some l =>
        match n.toNat?, v.toNat? with
        | some n, some v => some ((n, v) :: l)
        | _, _ => none
      | _, _ => none) (some [])
    -- the argument is a Python dict: names are distinct
    match r with
    | some l => if (l.map (·.1)).eraseDups.length = l.length then some l else none
    | none => none

def setOf (s : String) : Option (List (Nat × Option Nat)) :=
  if s = "-" then some []
  else (s.splitOn ",").foldr (fun p acc =>
    match p.splitOn ":", acc with
    | [n, v], some l =>
      match n.toNat? with
      | some n => if v = "*" then some ((n, none) :: l) else
        match v.toNat? with
        | some v => some ((n, some v) :: l)
        | none => none
      | none => none
    | _, _ => none) (some [])

def namesOf (s : String) : Option (List Nat) :=
  if s = "-" || s = "none" then some []
  else (s.splitOn ",").foldr (fun p acc =>
    match p.toNat?, acc with
    | some n, some l => some (n :: l)
    | _, _ => none) (some [])

def inSet (set : List (Nat × Option Nat)) (n v : Nat) : Bool :=
  set.any fun p => p.1 == n && (p.2 == none || p.2 == some v)

def mkEnv (st : DSt) : Env Nat :=
  { adv := fun c k n _ v _ =>
      match st.script[k]? with
      | some 'a' => .approve
      | some 'r' => .refuse
      | some 'x' => .raise
      | _ => if (inSet st.advSet n v) != (c % 2 == 1) then .approve else .refuse
    -- the pinned random pass: int -> same int; code 104 (True) -> 1; code 105 (1.0) -> 1.0; others not numeric
    rnd := fun _ _ v => if v < 100 then some v else if v = 104 then some 1 else if v = 105 then some 105 else none
    -- Python `==` on the value table: 1, True (104) and 1.0 (105) are equal; everything else only to itself
    veq := fun a b => a == b || ((a == 1 || a == 104 || a == 105) && (b == 1 || b == 104 || b == 105))
    isNone := fun v => v == 101 }

/-- content of the object `r` as one number: identity + 1000 * in-place mutations -/
def encOf (heap : List (Nat × Nat)) (r : Nat) : Nat :=
  r + 1000 * ((heap.find? (·.1 == r)).map (·.2)).getD 0

def classOf (seen : List (List (Nat × Nat))) (c : List (Nat × Nat)) : List (List (Nat × Nat)) × Nat :=
  match seen.findIdx? (· == c) with
  | some i => (seen, i)
  | none => (seen ++ [c], seen.length)

def showGenome (render : Bool) (enc : Nat → Nat) (ph : Option Nat) (seen : List (List (Nat × Nat))) (g : Genome Nat) :
    List (List (Nat × Nat)) × String :=
  let (seen1, h) := classOf seen (canonView enc g)
  let (seen2, p) :=
    match g.parentHash, ph with
    | none, _ => (seen1, "none")
    | some _, some i => (seen1, toString i)       -- recorded when the child was made (the parent's objects as they were then)
    | some c, none => let (s, i) := classOf seen1 (c.map fun (q : Nat × Nat) => (q.1, enc q.2)); (s, toString i)
  if !render then (seen2, "") else
  let gs := (g.genes.mergeSort (fun a b => a.name ≤ b.name)).map fun x =>
    s!"{x.name}={enc x.value}:{showGType x.gtype}:{showBool x.required}:{showLevel x.defExpr}"
  let es := (g.expr.mergeSort (fun a b => a.1 ≤ b.1)).map fun p => s!"{p.1}={showLevel p.2}"
  let ls := g.log.map fun m => s!"{m.gene}:{enc m.orig}>{enc m.new}:{showReason m.reason}:{showBool m.approved}"
  let cb := match g.cb with | none => "none" | some c => toString c
  (seen2, s!"a{showBool g.allow} c{cb} r{showBool g.rate} g{g.generation} G{showList gs} E{showList es} L{showList ls} H{h} P{p}")

def showStore (st : DSt) : DSt × String :=
  let enc := encOf st.heap
  let (seen, strs) := st.store.genomes.zipIdx.foldl (fun (acc : List (List (Nat × Nat)) × List String) gi =>
    let (s, str) := showGenome (!st.quiet) enc ((st.phash.find? (·.1 == gi.2)).map (·.2)) acc.1 gi.1
    (s, acc.2 ++ [str])) (st.seen, [])
  ({ st with seen := seen }, " | ".intercalate strs)

def showObs (enc : Nat → Nat) : Obs Nat → String
  | .created i => s!"created {i}"
  | .ret b => s!"ret {showBool b}"
  | .raised => "raise:RuntimeError"
  | .child i => s!"child {i}"
  | .config c => "cfg " ++ showList ((c.mergeSort (fun a b => a.1 ≤ b.1)).map fun p => s!"{p.1}={enc p.2}")
  | .value none => "val none"
  | .value (some v) => s!"val {enc v}"
  | .invalid [] => "valid"
  | .invalid l => s!"invalid {l.length}"
  | .listing l => "list " ++ showList ((l.mergeSort (fun a b => a.1 ≤ b.1)).map fun (n, v, t, lv, r) =>
      let ls := match lv with | some x => showLevel x | none => "?"
      s!"{n}={enc v}:{showGType t}:{ls}:{showBool r}")
  | .assigned => "ok"
  | .statistics s => s!"stats n{s.total} g{s.generation} m{s.mutations} a{s.approved} T{showList (s.byType.map toString)} E{showList (s.byExpr.map toString)}"
  | .diffs d => "diff " ++ showList ((d.mergeSort (fun a b => a.1 ≤ b.1)).map fun (n, a, b) =>
      let sh := fun (o : Option Nat) => match o with | some x => toString (enc x) | none => "none"
      s!"{n}:{sh a}/{sh b}")
  | .bad => "bad"

def tagOf (st : DSt) (op : Op Nat) (o : Obs Nat) : String :=
  let g? := fun (i : Nat) => st.store.genomes[i]?
  let gate := fun (i : Nat) => match g? i with
    | none => "noid"
    | some g => if g.allow then "allow" else match g.cb with | none => "nocb" | some _ => "cb"
  match op, o with
  | .new .., _ => "new"
  | .add i _, .ret b => s!"add:{gate i}:{showBool b}"
  | .mutate i _ _, .ret b => s!"mutate:{gate i}:{showBool b}"
  | .mutate i _ _, .raised => s!"mutate:{gate i}:raise"
  | .rollback i _, .ret b => s!"rollback:{gate i}:{showBool b}"
  | .rollback i _, .raised => s!"rollback:{gate i}:raise"
  | .setExpr _ _ _, .ret b => s!"expr:{showBool b}"
  | .replicate i _ _, .child _ => s!"replicate:{gate i}:ok"
  | .replicate i _ _, .raised => s!"replicate:{gate i}:raise"
  | .express .., .config _ => "express"
  | .getValue .., .value none => "getv:none"
  | .getValue .., .value (some _) => "getv:some"
  | .validate _, .invalid [] => "validate:ok"
  | .validate _, .invalid _ => "validate:bad"
  | .listGenes _, .listing _ => "list"
  | .diff .., .diffs [] => "diff:empty"
  | .diff .., .diffs _ => "diff:some"
  | .stats _, .statistics _ => "stats"
  | .assign _ (.allow b), .assigned => s!"assign:allow:{showBool b}"
  | .assign _ (.cb none), .assigned => "assign:cb:none"
  | .assign _ (.cb (some _)), .assigned => "assign:cb:some"
  | .assign _ (.rate b), .assigned => s!"assign:rate:{showBool b}"
  | _, .bad => "badid"
  | _, _ => "other"

def exec (st : DSt) (op : Op Nat) : DSt × String :=
  let (s', o) := Genome.step (mkEnv st) st.store op
  -- a child remembers the parent's hash as it was when the child was made
  let st1 : DSt :=
    match op, o with
    | .replicate i _ _, .child id =>
      match st.store.genomes[i]? with
      | some p =>
        let (seen, c) := classOf st.seen (canonView (encOf st.heap) p)
        { st with seen := seen, phash := st.phash ++ [(id, c)] }
      | none => st
    | _, _ => st
  let (st', str) := showStore { st1 with store := s' }
  (st', showObs (encOf st.heap) o ++ " | " ++ str ++ " ## " ++ tagOf st op o)

/-- `poke`: the object the caller gets hold of through the named accessor (a reference of the model), if it is one
    of the mutable objects 200..299 -/
def handleOf (g : Genome Nat) (n : Nat) (via : String) : Option Nat :=
  let r? : Option Nat :=
    match via with
    | "gene" => valueOf g n
    | "export" => valueOf g n
    | "getv" => getValue g n
    | "express" => ((express g [n]).find? (·.1 == n)).map (·.2)
    | _ => none
  r?.bind fun r => if 200 ≤ r && r < 300 then some r else none

def doPoke (st : DSt) (i n : Nat) (via : String) : DSt × String :=
  match st.store.genomes[i]? with
  | none => let (st', str) := showStore st; (st', "bad | " ++ str ++ " ## badid")
  | some g =>
    match handleOf g n via with
    | none => let (st', str) := showStore st; (st', "poke none | " ++ str ++ " ## poke:none")
    | some r =>
      let cnt := ((st.heap.find? (·.1 == r)).map (·.2)).getD 0
      let heap := (st.heap.filter (·.1 != r)) ++ [(r, cnt + 1)]
      let (st', str) := showStore { st with heap := heap }
      (st', s!"poked {r} | " ++ str ++ " ## poke:" ++ (if (st.store.genomes.filter (holds · r)).length > 1 then "shared" else "own"))

def dstep1 (st : DSt) (toks : List String) : DSt × String :=
  match toks with
  | ["adv", set, script] =>
    match setOf set with
    | some s => ({ st with advSet := s, script := if script = "-" then [] else script.toList }, "ok")
    | none => (st, "bad-op")
  | "new" :: allow :: cb :: rate :: genes =>
    match genesOf genes with
    | some gs =>
      if cb = "none" then exec st (.new (boolOf allow) none (boolOf rate) gs)
      else match cb.toNat? with
        | some c => exec st (.new (boolOf allow) (some c) (boolOf rate) gs)
        | none => (st, "bad-op")
    | none => (st, "bad-op")
  | ["add", i, g] =>
    match i.toNat?, geneOf g with
    | some i, some g => exec st (.add i g)
    | _, _ => (st, "bad-op")
  | ["mutate", i, n, v] =>
    match i.toNat?, n.toNat?, v.toNat? with
    | some i, some n, some v => exec st (.mutate i n v)
    | _, _, _ => (st, "bad-op")
  | ["rollback", i, n] =>
    match i.toNat?, n.toNat? with
    | some i, some n => exec st (.rollback i n)
    | _, _ => (st, "bad-op")
  | ["expr", i, n, l] =>
    match i.toNat?, n.toNat?, levelOf l with
    | some i, some n, some l => exec st (.setExpr i n l)
    | _, _, _ => (st, "bad-op")
  | ["silence", i, n] =>
    match i.toNat?, n.toNat? with
    | some i, some n => exec st (.setExpr i n .silenced)
    | _, _ => (st, "bad-op")
  | ["activate", i, n] =>
    match i.toNat?, n.toNat? with
    | some i, some n => exec st (.setExpr i n .normal)
    | _, _ => (st, "bad-op")
  | ["replicate", i, inh, muts] =>
    match i.toNat?, pairsOf muts with
    | some i, some m => exec st (.replicate i m (boolOf inh))
    | _, _ => (st, "bad-op")
  | ["express", i, ctx] =>
    match i.toNat?, namesOf ctx with
    | some i, some c => exec st (.express i c)
    | _, _ => (st, "bad-op")
  | ["validate", i] =>
    match i.toNat? with
    | some i => exec st (.validate i)
    | none => (st, "bad-op")
  | ["list", i] =>
    match i.toNat? with
    | some i => exec st (.listGenes i)
    | none => (st, "bad-op")
  | ["diff", i, j] =>
    match i.toNat?, j.toNat? with
    | some i, some j => exec st (.diff i j)
    | _, _ => (st, "bad-op")
  | ["fromdict", allow, cb, rate, cfg] =>
    -- `Genome.from_dict(config, **kwargs)`: every gene structural, not required, NORMAL
    match pairsOf cfg with
    | some ps =>
      let gs := ps.map fun (n, v) => (⟨n, v, .structural, false, .normal⟩ : Gene Nat)
      if cb = "none" then exec st (.new (boolOf allow) none (boolOf rate) gs)
      else match cb.toNat? with
        | some c => exec st (.new (boolOf allow) (some c) (boolOf rate) gs)
        | none => (st, "bad-op")
    | none => (st, "bad-op")
  | ["setallow", i, b] =>
    match i.toNat? with
    | some i => if b = "0" || b = "1" then exec st (.assign i (.allow (boolOf b))) else (st, "bad-op")
    | none => (st, "bad-op")
  | ["setrate", i, b] =>
    match i.toNat? with
    | some i => if b = "0" || b = "1" then exec st (.assign i (.rate (boolOf b))) else (st, "bad-op")
    | none => (st, "bad-op")
  | ["setcb", i, c] =>
    match i.toNat? with
    | some i =>
      if c = "none" then exec st (.assign i (.cb none))
      else match c.toNat? with
        | some c => exec st (.assign i (.cb (some c)))
        | none => (st, "bad-op")
    | none => (st, "bad-op")
  | ["poke", i, n, via] =>
    match i.toNat?, n.toNat? with
    | some i, some n =>
      if via = "gene" || via = "getv" || via = "express" || via = "export" then doPoke st i n via else (st, "bad-op")
    | _, _ => (st, "bad-op")
  | ["stats", i] =>
    match i.toNat? with
    | some i => exec st (.stats i)
    | none => (st, "bad-op")
  | ["setsilent", i, b] =>
    -- `g.silent = <truthy | falsy>`: console output is not modelled, so nothing in the model changes
    match i.toNat? with
    | some i =>
      if b = "0" || b = "1" then
        match st.store.genomes[i]? with
        | none => let (st', str) := showStore st; (st', "bad | " ++ str ++ " ## badid")
        | some _ => let (st', str) := showStore st; (st', "ok | " ++ str ++ " ## assign:silent")
      else (st, "bad-op")
    | none => (st, "bad-op")
  | ["getv", i, n] =>
    match i.toNat?, n.toNat? with
    | some i, some n => exec st (.getValue i n)
    | _, _ => (st, "bad-op")
  | _ => (st, "bad-op")

/-- split the token list of a `repeat` body at the `/` tokens -/
def splitBodies (toks : List String) : List (List String) :=
  toks.foldr (fun t acc =>
    match acc with
    | [] => if t = "/" then [[], []] else [[t]]
    | b :: rest => if t = "/" then [] :: b :: rest else (t :: b) :: rest) []

/-- run-length encoding of a sequence of observations -/
def rle : List String → List (String × Nat)
  | [] => []
  | x :: xs =>
    match rle xs with
    | (y, c) :: rest => if x = y then (y, c + 1) :: rest else (x, 1) :: (y, c) :: rest
    | [] => [(x, 1)]

/-- one pass over the bodies of a `repeat` line (quiet: nothing is rendered); observations and tags in order -/
def passOnce (st : DSt) (bodies : List (List String)) : DSt × List String × List String :=
  bodies.foldl (fun (acc : DSt × List String × List String) b =>
    let (st', out) := dstep1 acc.1 b
    let obs := ((out.splitOn " | ").headD out)
    let obs := ((obs.splitOn " ## ").headD obs)
    let tag := match out.splitOn " ## " with | [_, t] => [t] | _ => []
    (st', acc.2.1 ++ [obs], acc.2.2 ++ tag)) (st, [], [])

def repeatLoop : Nat → DSt → List (List String) → List String → List String → DSt × List String × List String
  | 0, st, _, obs, tags => (st, obs, tags)
  | n + 1, st, bodies, obs, tags =>
    let (st', o, t) := passOnce st bodies
    repeatLoop n st' bodies (o.reverse ++ obs) ((t.filter fun x => !tags.contains x).eraseDups ++ tags)

/-- `repeat <n> <op> [/ <op>]*`: the operation lines between the `/` tokens, in order, `n` times over (1 ≤ n ≤ 5000) —
    a long history on the same objects in one protocol line.  It is an ABBREVIATION: the model executes `n × (number of
    bodies)` ordinary `step`s.  Output: the run-length encoded observations, then the state after the last one.
    `adv`, `new`, `fromdict`, `poke` and `repeat` are not allowed inside. -/
def dstep (st : DSt) (toks : List String) : DSt × String :=
  match toks with
  | "repeat" :: n :: rest =>
    match n.toNat? with
    | some n =>
      let bodies := splitBodies rest
      let okHead := fun (b : List String) => match b with
        | [] => false
        | h :: _ => !(h = "adv" || h = "new" || h = "fromdict" || h = "poke" || h = "repeat")
      if n = 0 || n > 5000 || bodies.isEmpty || !(bodies.all okHead) then (st, "bad-op")
      else
        let (st1, obsR, tags) := repeatLoop n { st with quiet := true } bodies [] []
        if obsR.contains "bad-op" then (st, "bad-op")
        else
          let (st2, str) := showStore { st1 with quiet := false }
          let runs := (rle obsR.reverse).map fun p => s!"{p.1} *{p.2}"
          (st2, "rep " ++ "; ".intercalate runs ++ " | " ++ str ++ " ## " ++ " ".intercalate tags.reverse)
    | none => (st, "bad-op")
  | _ => dstep1 st toks

def main : IO Unit := runDriver ({} : DSt) dstep
