import Operon.Model.Proto
import Operon.Model.Gates
import Operon.Model.Membrane
import Operon.Model.Innate
import Operon.Model.Regex
import Operon.Gen.GatesConsts
import Operon.Gen.GatesRegex
/-!
Line-protocol driver for the injection-gate models (C10).  Imports the models and the generated constants
(`Operon.Gen.GatesConsts`, core Lean only) — the window length, the inflammation cut-offs and the default
validator list come from the source on every run.

Environment: `lower` is `foldStd`; the results of the real `re` / `json` calls arrive on the line after `@`
(recorded by the harness from the implementation's own calls) and are looked up by pattern text.
-/
open Operon Operon.Proto Operon.Gates

structure DSt where
  mem : Membrane := Membrane.new [] 2 true none 0
  /-- every membrane alive in this case (slot `cur` is stale while `mem` is being worked on) -/
  slots : List Membrane := []
  cur : Nat := 0
  /-- the signatures of the `mem` line (the class's shipped table is a prefix of it) -/
  base : List Sig := []
  islots : List Innate := []
  icur : Nat := 0
  ibase : List Sig := []
  inn : Innate := Innate.new [] none [] 3 0 ⟨0, 0, 0, 0, 0, 0, 0, 0⟩
  now : Nat := 0

def windowUs : Nat := (Operon.Gen.Gates.membraneWindowS.getD 0) * 1000000

def cutsOf : InflCuts :=
  match Operon.Gen.Gates.inflCuts with
  | some (a, b, c, d, e, f, g, h) => ⟨a, b, c, d, e, f, g, h⟩
  | none => ⟨0, 0, 0, 0, 0, 0, 0, 0⟩

def valOf : Nat × Nat × Nat → Validator
  | (0, a, b) => .length a b
  | (1, a, b) => .charset (a != 0) (b != 0)
  | (_, a, b) => .json a b

def defaultVals : List Validator := (Operon.Gen.Gates.innateDefaultValidators.getD []).map valOf

/-- content token: segments joined by `+`, each `<hex>` or `<hex>*<count>` (repetition) -/
def decodeStr (t : String) : Str :=
  (t.splitOn "+").flatMap fun seg =>
    match seg.splitOn "*" with
    | [h, n] => (List.replicate (natD n) (decodeCps h)).flatten
    | _ => decodeCps seg

/-- short key of a regex pattern (length and a position-weighted checksum); the harness computes the same key
    and checks at start-up that the patterns it uses have distinct keys -/
def rxKey (p : Str) : String :=
  let rec go (xs : List Nat) (i acc : Nat) : Nat :=
    match xs with
    | [] => acc
    | x :: r => go r (i + 1) ((acc + i * x) % 1000003)
  s!"k{p.length}_{go p 1 0}"

def parseSig (t : String) : Sig :=
  match t.splitOn "/" with
  | [p, l, r] => ⟨decodeCps p, natD l, boolOf r⟩
  | _ => ⟨[], 0, false⟩

def showSig (s : Sig) : String := s!"{encodeCps s.pat}/{s.level}/{showBool s.isRegex}"

def sorted (xs : List String) : List String := (xs.toArray.qsort (· < ·)).toList

def showSigs (xs : List Sig) : String := showList (sorted (xs.map showSig))

def parseVal (t : String) : Option Validator :=
  match t.splitOn ":" with
  | ["L", a, b] => some (.length (natD a) (natD b))
  | ["C", a, b] => some (.charset (boolOf a) (boolOf b))
  | ["J", a, b] => some (.json (natD a) (natD b))
  | _ => none

def parseVals (t : String) : Option (List Validator) :=
  if t = "none" then none
  else if t = "empty" then some []
  else some ((t.splitOn ",").filterMap parseVal)

-- tree syntax: `(` children `)` | `s`
mutual
partial def parseJ (cs : List Char) : J × List Char :=
  match cs with
  | '(' :: rest =>
    let (ks, r) := parseKids rest []
    (.node ks, r)
  | _ :: rest => (.scalar, rest)
  | [] => (.scalar, [])
partial def parseKids (cs : List Char) (acc : List J) : List J × List Char :=
  match cs with
  | ')' :: r => (acc.reverse, r)
  | [] => (acc.reverse, [])
  | _ => let (j, r) := parseJ cs; parseKids r (j :: acc)
end

def parseJsonOut (t : String) : JsonOut :=
  if t = "D" then .decodeError
  else if t = "V" then .valueError
  else if t = "R" then .recursionError
  else if t.startsWith "P:" then .parsed (parseJ (t.drop 2).toString.toList).1
  else .other

/-- split the tokens of a line at `@` and `;` : (args, regex table, json outcome) -/
def splitEnv (toks : List String) : List String × List (String × Bool) × List String × JsonOut :=
  let args := toks.takeWhile (· ≠ "@")
  let rest := (toks.dropWhile (· ≠ "@")).drop 1
  let rxs := rest.takeWhile (fun t => t ≠ ";" && t ≠ ";;")
  let js := (rest.dropWhile (· ≠ ";")).drop 1
  let table := rxs.filterMap fun t =>
    match t.splitOn "=" with
    | [p, b] => some (p, boolOf b)
    | _ => none
  (args, table, rxs, match js with | j :: _ => parseJsonOut j | [] => .other)

/-- split a token list at every token equal to `sep` -/
def splitAtTok (sep : String) (xs : List String) : List (List String) :=
  xs.foldr (fun t acc => if t = sep then [] :: acc else match acc with
    | g :: gs => (t :: g) :: gs
    | [] => [[t]]) [[]]

def parseTable (rxs : List String) : List (String × Bool) :=
  rxs.filterMap fun t =>
    match t.splitOn "=" with
    | [p, b] => some (p, boolOf b)
    | _ => none

def mkEnv (table : List (String × Bool)) (compiles : Bool) (js : JsonOut) : Env :=
  { lower := foldStd
    rx := fun p _ => (fun k => ((table.find? (fun e => e.1 = k)).map (·.2)).getD false) (rxKey p)
    compiles := fun _ => compiles
    json := fun _ => js }

/-- `1x3.0x2` → #[true, true, true, false, false] -/
def unrleBits (t : String) : Array Bool :=
  if t = "-" then #[] else
  (t.splitOn ".").foldl (fun acc seg =>
    match seg.splitOn "x" with
    | [b, k] => acc ++ Array.replicate (min (natD k) 40000) (boolOf b)
    | _ => acc) #[]

/-- run-length form of a list of strings: `<count>x <string>` per run -/
def rleStrings (xs : List String) : List String :=
  let rec go (xs : List String) (cur : Option (String × Nat)) (acc : List String) : List String :=
    match xs, cur with
    | [], none => acc.reverse
    | [], some (s, k) => (s!"{k}x {s}" :: acc).reverse
    | x :: r, none => go r (some (x, 1)) acc
    | x :: r, some (s, k) => if x = s then go r (some (s, k + 1)) acc else go r (some (x, 1)) (s!"{k}x {s}" :: acc)
  go xs none []

def showRx (ps : List Str) : String := showList (sorted (ps.map rxKey))

/-- the shipped regex signatures whose parse tree the model understands, by key -/
def shippedKeyed : List (String × Rx.Re) :=
  ((Operon.Gen.Gates.membraneRegexes ++ Operon.Gen.Gates.innateRegexes).filter (·.2.supported)).map
    fun e => (rxKey e.1, e.2)

/-- **`re` as modelled against the real `re`**: for every shipped regex among the recorded calls of this line, the
    model's `search` on the parse tree (character tables `stdEnv`) must give what the real compiled pattern gave.
    Empty when they agree; the implementation side never prints this field, so a disagreement is a diff.
    (Inputs above 600 code points are not re-evaluated: the interpreter's stack and the time budget.) -/
def rxModelCheck (table : List (String × Bool)) (content : Str) : String :=
  if content.length > 600 then "" else
  let bad := table.filterMap fun (k, b) =>
    match shippedKeyed.find? (·.1 = k) with
    | some (_, r) => if Rx.search Rx.stdEnv r content != b then some k else none
    | none => none
  if bad.isEmpty then "" else " rxmodel-differs=" ++ ",".intercalate bad

def memStats (m : Membrane) : String :=
  s!"tf={m.totalFiltered} tb={m.totalBlocked} ln={m.learned.length} bh={m.blocked.length}"

/-- how many times the validators call `json.loads` (stops at the first raising validator) -/
def jsonCalls (env : Env) : List Validator → Str → Nat
  | [], _ => 0
  | v :: vs, c =>
    match v with
    | .json _ ms =>
      if c.length > ms then jsonCalls env vs c
      else match v.run env c with
        | .raise _ => 1
        | .ok _ => 1 + jsonCalls env vs c
    | _ => jsonCalls env vs c

def valTag (env : Env) (c : Str) : Validator → String
  | .length mn _ => if c.length < mn then "v:len-short" else "v:len-long"
  | .charset _ allowNull => if !allowNull && c.contains 0 then "v:null" else "v:ctl"
  | .json md ms =>
    if c.length > ms then "v:json-size"
    else match env.json c with
      | .parsed t => if measure md t 0 > md then "v:json-depth" else "v:json-ok"
      | .decodeError => "v:json-dec"
      | .valueError => "v:json-val"
      | .recursionError => "v:json-rec"
      | .other => "v:json-other"

/-- scripted `on_threat` adversaries: return, raise (several classes), raise depending on what the hook reads -/
def mkHook : String → Option Hook
  | "ok" => some fun _ _ => none
  | "R" => some fun _ _ => some "RuntimeError"
  | "K" => some fun _ _ => some "KeyError"
  | "E" => some fun v _ => if v.totalBlocked % 2 = 0 then some "ValueError" else none
  | "A" => some fun v r => if v.audit.getLast? == some r then none else some "AssertionError"
  -- re-entrant hooks (call back into the membrane while they run): the marker is interpreted by `step`, the hook
  -- does not raise
  | "F" => some fun _ _ => some "__reent:F"
  | "G" => some fun _ _ => some "__reent:G"
  | "L" => some fun _ _ => some "__reent:L"
  | _ => none

/-- what a re-entrant hook of kind `k` does when it is told about the blocked input `c` -/
def reentOps (k : String) (c : Str) : List MOp :=
  if k = "F" then [.filter ("re-entrant probe".toList.map Char.toNat)]
  else if k = "G" then [.filter c]
  else [.learn ⟨"hooked".toList.map Char.toNat, 3, false⟩]

/-- scripted `on_inflammation` adversaries -/
def mkInnHook : String → Option InnHook
  | "ok" => some fun _ _ => none
  | "R" => some fun _ _ => some "RuntimeError"
  | "K" => some fun _ _ => some "KeyError"
  | "E" => some fun v _ => if v.checkCount % 2 = 0 then some "ValueError" else none
  | _ => none

/-- a number given as an `int` (`3`), a `bool` (`b1` = True = 1) or an integral `float` (`f3` = 3.0): legal values of
    `rate_limit` / `severity_threshold` that compare like the integer -/
def numTok (t : String) : Nat :=
  if t.startsWith "b" || t.startsWith "f" then natD (t.drop 1).toString else natD t

def step (st : DSt) (toks : List String) : DSt × String :=
  let (args, table, _, js) := splitEnv toks
  match args with
  | "mem" :: thr :: rate :: adaptive :: sigs =>
    let m := Membrane.new (sigs.map parseSig) (natD thr) (boolOf adaptive)
                        (if rate = "none" then none else some (natD rate)) windowUs
    ({ st with mem := m, slots := [m], cur := 0, base := sigs.map parseSig, now := 0 }, "ok")
  | "new" :: thr :: rate :: adaptive :: sigs =>
    if st.slots.isEmpty then (st, "bad-op") else
    let nb := match (toks.dropWhile (· ≠ "@")).drop 1 with
      | t :: _ => if t.startsWith "nb=" then natD (t.drop 3).toString else 0
      | [] => 0
    let m := Membrane.new (st.base.take nb ++ sigs.map parseSig) (natD thr) (boolOf adaptive)
                        (if rate = "none" then none else some (natD rate)) windowUs
    let slots := st.slots.set st.cur st.mem ++ [m]
    ({ st with mem := m, slots := slots, cur := slots.length - 1 }, s!"ok k={slots.length - 1}")
  | ["use", k] =>
    let slots := st.slots.set st.cur st.mem
    match k.toNat? with
    | some i => match slots[i]? with
      | some m => ({ st with mem := m, slots := slots, cur := i }, "ok")
      | none => (st, "bad-op")
    | none => (st, "bad-op")
  | ["xfer", k] =>
    let slots := st.slots.set st.cur st.mem
    match k.toNat? with
    | some i => match slots[i]? with
      | some d =>
        let m' := st.mem.importAb d.exportAb
        ({ st with mem := m' }, s!"ok ln={m'.learned.length}")
      | none => (st, "bad-op")
    | none => (st, "bad-op")
  | ["filter", c] =>
    let env := mkEnv table true js
    let content := decodeStr c
    let (m', o) := st.mem.filter env st.now content
    let r := o.decision
    let tag := match r.reason with
      | .rate => "f:rate" | .replay => "f:replay" | .scan => if r.allowed then "f:allow" else "f:block"
    let tag2 := if r.reason = .scan ∧ r.matched.any (·.isRegex) then " f:rx-hit" else ""
    let tag3 := if r.reason = .scan ∧ r.matched.any (fun s => !s.isRegex) then " f:sub-hit" else ""
    let calls := if r.reason = .scan then rxCalls st.mem.active else []
    let hooked := r.reason = .scan ∧ r.allowed = false ∧ st.mem.onThreat.isSome
    let hk := if hooked then
        s!"{m'.view.audit.length}/{showBool (m'.view.audit.getLast? == some r)}/{m'.view.totalBlocked}" else "-"
    let tag4 := if hooked then (if o.raised.isSome then " h:raise" else " h:ok") else ""
    match (o.raised.filter (·.startsWith "__reent:")) with
    | some mk =>
      -- the hook re-entered the membrane: its calls run on the booked state with the hook un-installed
      let kind := (mk.drop 8).toString
      let env2 := mkEnv (parseTable ((toks.dropWhile (· ≠ ";;")).drop 1)) true js
      let (st2, evs) := m'.reenter env2 st.now st.mem.onThreat (reentOps kind content)
      let inner := match evs.head? with
        | some e =>
          let ri := e.out.decision
          s!"{showBool ri.allowed} {ri.level} m={showSigs ri.matched} audit={st2.m.audit.length} last={showBool (st2.m.audit.getLast? == some ri)} rx={showRx (if ri.reason = Reason.scan then rxCalls m'.active else [])}"
        | none => "ok"
      ({ st with mem := st2.m },
       s!"{showBool r.allowed} {r.level} m={showSigs r.matched} audit={m'.audit.length} last={showBool (m'.audit.getLast? == some r)} {memStats st2.m} rx={showRx calls} hk={hk}{rxModelCheck table content} | inner {inner} ## {tag}{tag2}{tag3} h:reenter")
    | none =>
    let head := match o.raised with
      | some k => s!"raise:hook:{k}"
      | none => s!"{showBool r.allowed} {r.level} m={showSigs r.matched}"
    ({ st with mem := m' },
     s!"{head} audit={m'.audit.length} last={showBool (m'.audit.getLast? == some r)} {memStats m'} rx={showRx calls} hk={hk}{rxModelCheck table content} ## {tag}{tag2}{tag3}{tag4}")
  | "par" :: _ :: cs =>
    -- threads filtering concurrently: recorded critical-section order `o=…`, then one regex table per thread
    let groups := splitAtTok ";" ((toks.dropWhile (· ≠ "@")).drop 1)
    let contents := cs.map decodeStr
    let n := contents.length
    if st.mem.onThreat.isSome || n < 2 || contents.eraseDups.length != n then (st, "bad-op") else
    let recorded := match groups.head? with
      | some (o :: _) => if o.startsWith "o=" then ((o.drop 2).toString.splitOn ".").filterMap String.toNat? else []
      | _ => []
    let order := ((recorded ++ List.range n).filter (· < n)).eraseDups
    let envOf := fun i => mkEnv (parseTable (groups.getD (i + 1) [])) true js
    let (m', outs) := st.mem.filterSeq envOf st.now (order.map fun i => (i, contents.getD i []))
    let calls := rxCalls st.mem.active
    let part := fun i => match outs.find? (·.1 = i) with
      | some (_, o) =>
        let r := o.decision
        s!"{showBool r.allowed} {r.level} m={showSigs r.matched} in={showBool (m'.audit.contains r)} rx={showRx (if r.reason = .scan then calls else [])}{rxModelCheck (parseTable (groups.getD (i + 1) [])) (contents.getD i [])}"
      | none => "missing"
    let anyRate := outs.any fun o => o.2.decision.reason = .rate
    let tag := (if order = List.range n then "p:seq" else "p:reorder") ++ (if anyRate then " p:rate" else "")
    ({ st with mem := m' },
     s!"par o={".".intercalate (order.map toString)} | {" | ".intercalate ((List.range n).map part)} | audit={m'.audit.length} {memStats m'} ## {tag}")
  | ["bulk", n, pre, suf] =>
    -- a LONG run of filter calls on the one membrane: inputs `pre ++ decimal(i) ++ suf`, i < n; after `@` one
    -- run-length bit vector per regex key (`k=1x4999.0x1`): what the real `re` returned in call i
    let n := natD n
    if st.mem.onThreat.isSome || n > 30000 then (st, "bad-op") else
    let rest := (toks.dropWhile (· ≠ "@")).drop 1
    let vecs : List (String × Array Bool) := rest.filterMap fun t =>
      match t.splitOn "=" with
      | [k, v] => some (k, unrleBits v)
      | _ => none
    let envOf := fun i => mkEnv (vecs.map fun (k, bits) => (k, bits.getD i false)) true js
    let inputs := bulkInputs (decodeCps pre) (decodeCps suf) n
    let (m', outs) := st.mem.filterLoop envOf st.now inputs []
    let calls := showRx (rxCalls st.mem.active)
    let head := fun (o : FilterOut) =>
      let r := o.decision
      s!"{showBool r.allowed} {r.level} m={showSigs r.matched} rx={if r.reason = .scan then calls else "[]"}"
    let segs := rleStrings (outs.map fun o => head o.2)
    let inlog := m'.audit.drop (m'.audit.length - n) == outs.map (·.2.decision)
    let probe := (inputs.take 40 ++ inputs.drop (n - 3)).map fun (i, c) =>
      rxModelCheck (vecs.map fun (k, bits) => (k, bits.getD i false)) c
    let has := fun (p : FilterRes → Bool) => outs.any fun o => p o.2.decision
    let tags := " b:bulk" ++ (if has (·.reason = .rate) then " f:rate" else "")
      ++ (if has (·.reason = .replay) then " f:replay" else "")
      ++ (if has (fun r => r.reason = .scan && r.allowed) then " f:allow" else "")
      ++ (if has (fun r => r.reason = .scan && !r.allowed) then " f:block" else "")
    ({ st with mem := m' },
     s!"bulk | {" | ".intercalate segs} | in={showBool inlog} audit={m'.audit.length} {memStats m'}{String.join probe.eraseDups} ##{tags}")
  | ["bulklearn", n, pre, lvl] =>
    -- `learn_threat(pre + decimal(i), level)` for i < n: a LONG run of learned substring signatures
    let n := natD n
    if n > 30000 then (st, "bad-op") else
    let env := mkEnv [] true js
    let m' := (bulkInputs (decodeCps pre) [] n).foldl (fun m p => (m.learn env ⟨p.2, natD lvl, false⟩).1) st.mem
    ({ st with mem := m' }, s!"ok ln={m'.learned.length}")
  | ["learn", s] =>
    let sg := parseSig s
    let compiles := match toks.dropWhile (· ≠ "@") with | _ :: "bad" :: _ => false | _ => true
    let env := mkEnv [] compiles js
    let existed := st.mem.learned.any (fun x => x.pat = sg.pat)
    let (m', o) := st.mem.learn env sg
    match o with
    | .raise k => ({ st with mem := m' }, s!"raise:{k} ## l:bad")
    | .ok _ =>
      let comp := if st.mem.adaptive && sg.isRegex then "I" else "-"
      let tag := if !st.mem.adaptive then "l:off" else if existed then "l:replace" else "l:new"
      ({ st with mem := m' }, s!"ok ln={m'.learned.length} compile={comp} ## {tag}")
  | ["forget", p] =>
    let m' := st.mem.forget (decodeCps p)
    ({ st with mem := m' }, s!"ok ln={m'.learned.length} ## " ++ (if m'.learned.length < st.mem.learned.length then "g:hit" else "g:miss"))
  | "import" :: sigs =>
    let m' := st.mem.importAb (sigs.map parseSig)
    ({ st with mem := m' }, s!"ok ln={m'.learned.length}")
  -- the antibodies handed over as a one-shot generator / a tuple instead of a list: the same operation
  | "importg" :: sigs =>
    let m' := st.mem.importAb (sigs.map parseSig)
    ({ st with mem := m' }, s!"ok ln={m'.learned.length}")
  | "importt" :: sigs =>
    let m' := st.mem.importAb (sigs.map parseSig)
    ({ st with mem := m' }, s!"ok ln={m'.learned.length}")
  | ["thr", t] => ({ st with mem := st.mem.setThreshold (natD t) }, "ok")
  | ["thrattr", t] => ({ st with mem := st.mem.setThreshold (natD t) }, "ok")
  | ["rate", r] => ({ st with mem := st.mem.setRate (if r = "none" then none else some (numTok r)) }, "ok")
  | "sigop" :: kind :: args =>
    -- the PUBLIC list `m.signatures` edited directly (append / insert / pop / del / clear / re-assignment), not through
    -- `add_signature` (`MOp.setSigs`: the histories of the theorems contain these edits)
    let sg := (args.map parseSig)
    let cur := st.mem.sigs
    let upd := fun (l : List Sig) => ({ st with mem := st.mem.setSigs l }, "ok")
    match kind with
    | "append" => upd (cur ++ sg.take 1)
    | "insert0" => upd (sg.take 1 ++ cur)
    | "pop" => if cur.isEmpty then (st, "bad-op") else upd cur.dropLast
    | "remove0" => if cur.isEmpty then (st, "bad-op") else upd (cur.drop 1)
    | "clear" => upd []
    | "assign" => upd sg
    | _ => (st, "bad-op")
  | "patop" :: kind :: args =>
    let sg := (args.map parseSig)
    let cur := st.inn.patterns
    let upd := fun (l : List Sig) => ({ st with inn := { st.inn with patterns := l } }, "ok")
    match kind with
    | "append" => upd (cur ++ sg.take 1)
    | "insert0" => upd (sg.take 1 ++ cur)
    | "pop" => if cur.isEmpty then (st, "bad-op") else upd cur.dropLast
    | "remove0" => if cur.isEmpty then (st, "bad-op") else upd (cur.drop 1)
    | "clear" => upd []
    | "assign" => upd sg
    | _ => (st, "bad-op")
  -- how the input string is wrapped (fields of the Signal other than `content`; the same Signal object sent again or
  -- edited in place): no decision depends on it, the model has nothing to do
  -- the caller edits what a getter returned (`m.get_audit_log().clear()`, `m.export_antibodies().clear()`,
  -- `m.get_statistics().clear()`): the getters hand out copies, nothing happens to the gate
  | ["mutret", _] => (st, "ok")
  | ["envelope", _] => (st, "ok")
  | ["sigobj", _] => (st, "ok")
  | ["adaptive", b] => ({ st with mem := st.mem.setAdaptive (boolOf b) }, "ok")
  | ["hook", k] => ({ st with mem := st.mem.setHook (mkHook k) }, "ok")
  | ["addsig", s] => ({ st with mem := st.mem.addSig (parseSig s) }, "ok")
  | ["setsig", i, s] =>
    -- `m.signatures[i] = sig`: the public list edited in place (`MOp.setSigs`)
    if st.mem.sigs.isEmpty then (st, "bad-op")
    else ({ st with mem := st.mem.setSigs (st.mem.sigs.set (natD i % st.mem.sigs.length) (parseSig s)) }, "ok")
  | ["clearaudit"] => ({ st with mem := st.mem.clearAudit }, "ok")
  | ["adv", d] => ({ st with now := st.now + natD d }, "ok")
  | ["export"] => (st, showList (st.mem.learned.map showSig))
  | ["stats"] => (st, s!"{memStats st.mem} audit={st.mem.audit.length} thr={st.mem.threshold}")
  | "inn" :: thr :: decayMin :: vals :: sigs =>
    let im := Innate.new (sigs.map parseSig) (parseVals vals) defaultVals (natD thr)
                        (natD decayMin * 60000000) cutsOf
    ({ st with inn := im, islots := [im], icur := 0, ibase := sigs.map parseSig, now := 0 }, "ok")
  | "inew" :: thr :: decayMin :: vals :: sigs =>
    if st.islots.isEmpty then (st, "bad-op") else
    let nb := match (toks.dropWhile (· ≠ "@")).drop 1 with
      | t :: _ => if t.startsWith "nb=" then natD (t.drop 3).toString else 0
      | [] => 0
    let im := Innate.new (st.ibase.take nb ++ sigs.map parseSig) (parseVals vals) defaultVals (natD thr)
                        (natD decayMin * 60000000) cutsOf
    let slots := st.islots.set st.icur st.inn ++ [im]
    ({ st with inn := im, islots := slots, icur := slots.length - 1 }, s!"ok k={slots.length - 1}")
  | ["iuse", k] =>
    let slots := st.islots.set st.icur st.inn
    match k.toNat? with
    | some i => match slots[i]? with
      | some im => ({ st with inn := im, islots := slots, icur := i }, "ok")
      | none => (st, "bad-op")
    | none => (st, "bad-op")
  | ["check", c] =>
    let env := mkEnv table true js
    let content := decodeStr c
    let (im', o) := st.inn.check env st.now content
    let calls := rxCalls st.inn.patterns
    let nj := jsonCalls env st.inn.validators content
    let tail := s!"st={im'.inflLevel} tc={im'.triggerCount} cool={showBool (im'.cooling st.now)} cc={im'.checkCount} bc={im'.blockCount} rx={showRx calls} json={nj}{rxModelCheck table content}"
    match o with
    | .raise k =>
      if k.startsWith "hook:" then
        -- the hook ran after the inflammation state was recorded and before the block counter
        ({ st with inn := im' }, s!"raise:{k} {tail} hk={im'.inflLevel}/{im'.triggerCount}/{im'.checkCount}/{im'.blockCount} ## c:hook-raise")
      else ({ st with inn := im' }, s!"raise:{k} {tail} hk=- ## c:raise")
    | .ok r =>
      let sevHit := !(maxLevel r.matched < st.inn.sevThreshold)
      let tag := if r.allowed then "c:allow"
        else if sevHit then "c:block-sev" else if r.errors ≠ [] then "c:block-err" else "c:block-acute"
      let tag2 := if r.matched = [] ∧ r.errors = [] ∧ r.level = lvlLow then " c:cooling-low" else ""
      let vt := r.errors.map (valTag env content)
      let hooked := r.level > lvlNone ∧ st.inn.onInflammation.isSome
      let hk := if hooked then
          s!"{im'.inflLevel}/{im'.triggerCount}/{im'.checkCount}/{if r.allowed then im'.blockCount else im'.blockCount - 1}" else "-"
      ({ st with inn := im' },
       s!"{showBool r.allowed} m={showSigs r.matched} err={r.errors.length} lvl={r.level} {tail} hk={hk} ## {tag}{tag2} i:lvl{r.level} {joinSp vt}" ++ (if hooked then " c:hook-ok" else ""))
  | ["bulkcheck", n, pre, suf] =>
    -- a LONG run of `check` calls on the one innate filter (inputs `pre ++ decimal(i) ++ suf`); driver-level loop
    let n := natD n
    if st.inn.onInflammation.isSome || n > 30000 then (st, "bad-op") else
    let rest := (toks.dropWhile (· ≠ "@")).drop 1
    let vecs : List (String × Array Bool) := (rest.takeWhile (· ≠ ";")).filterMap fun t =>
      match t.splitOn "=" with
      | [k, v] => some (k, unrleBits v)
      | _ => none
    let calls := showRx (rxCalls st.inn.patterns)
    let (im', heads) := (bulkInputs (decodeCps pre) (decodeCps suf) n).foldl (fun (acc : Innate × List String) p =>
      let env := mkEnv (vecs.map fun (k, bits) => (k, bits.getD p.1 false)) true js
      let (im1, o) := acc.1.check env st.now p.2
      let h := match o with
        | .raise k => s!"raise:{k}"
        | .ok r => s!"{showBool r.allowed} m={showSigs r.matched} err={r.errors.length} lvl={r.level} rx={calls} json={jsonCalls env acc.1.validators p.2}"
      (im1, h :: acc.2)) (st.inn, [])
    ({ st with inn := im' },
     s!"bulkcheck | {" | ".intercalate (rleStrings heads.reverse)} | st={im'.inflLevel} tc={im'.triggerCount} cool={showBool (im'.cooling st.now)} cc={im'.checkCount} bc={im'.blockCount} ## b:bulk")
  | ["addpat", s] => ({ st with inn := st.inn.addPattern (parseSig s) }, "ok")
  | ["addval", v] =>
    match parseVal v with
    | some vv => ({ st with inn := st.inn.addValidator vv }, "ok")
    | none => (st, "bad-op")
  | ["setvals", v] => ({ st with inn := st.inn.setValidators ((parseVals v).getD []) }, "ok")
  | ["sevthr", t] => ({ st with inn := st.inn.setSevThreshold (numTok t) }, "ok")
  | ["ihook", k] => ({ st with inn := st.inn.setHook (mkInnHook k) }, "ok")
  | ["resetinfl"] => ({ st with inn := st.inn.resetInflammation }, "ok")
  | ["istats"] =>
    (st, s!"cc={st.inn.checkCount} bc={st.inn.blockCount} np={st.inn.patterns.length} nv={st.inn.validators.length} st={st.inn.inflLevel} tc={st.inn.triggerCount} cool={showBool (st.inn.cooling st.now)}")
  | _ => (st, "bad-op")

def main : IO Unit := runDriver ({} : DSt) step
