import Operon.Model.MitoProto
def main : IO Unit := Operon.Mito.mainW
