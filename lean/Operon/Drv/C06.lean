import Operon.Model.Proto
import Operon.Model.Quorum
/-!
Line-protocol driver for the quorum model (C06).

  cfg <strategy|emergency> <custom Rat|none> <minVoters>     (emergency: `none` = constructor default; minVoters ignored)
  setstrat <strategy> <custom Rat|none>                      `set_strategy`
  vote <K:weight:rel:conf>*                                  K ∈ P E B D U X (PERMIT EXECUTE BLOCK DEFER other raises)
                                                             conf ∈ Rat | none (no confidence in payload) | bad
  realvote <safe|danger|inject> <atpBudget> <n>              a fresh colony of n real BioAgent voters, current configuration
  → reached decision permit block abstain total thresholdTag [vote kinds:weight:conf] ## branch tags
-/
open Operon Operon.Proto Operon.Quorum

structure DSt where
  cfg : Option Cfg := some ⟨.majority, none, 1⟩

def strategyOf? : String → Option Strategy
  | "majority" => some .majority
  | "supermajority" => some .supermajority
  | "unanimous" => some .unanimous
  | "weighted" => some .weighted
  | "confidence" => some .confidence
  | "bayesian" => some .bayesian
  | "threshold" => some .threshold
  | _ => none

def customOf (s : String) : Option Rat := if s = "none" then none else some (ratOf s)

def kindOf? : String → Option Kind
  | "P" => some .permit
  | "E" => some .execute
  | "B" => some .block
  | "D" => some .defer
  | "U" => some .other
  | "X" => some .raises
  | _ => none

def confOf (s : String) : Conf :=
  if s = "none" then .absent else if s = "bad" then .bad else .num (ratOf s)

def voterOf? (s : String) : Option Voter :=
  match s.splitOn ":" with
  | [k, w, r, c] =>
    match kindOf? k with
    | some kd => some ⟨kd, confOf c, ratOf w, ratOf r⟩
    | none => none
  | _ => none

def votersOf? : List String → Option (List Voter)
  | [] => some []
  | s :: rest =>
    match voterOf? s, votersOf? rest with
    | some v, some vs => some (v :: vs)
    | _, _ => none

def showVT : VoteType → String
  | .permit => "permit" | .block => "block" | .abstain => "abstain" | .defer => "defer"

def showStrategy : Strategy → String
  | .majority => "majority" | .supermajority => "supermajority" | .unanimous => "unanimous"
  | .weighted => "weighted" | .confidence => "confidence" | .bayesian => "bayesian" | .threshold => "threshold"

/-- what the harness can observe of `threshold_used` without comparing floats: the value itself for the
    ratio strategies (an input constant), the permit count needed for the count strategy -/
def thresholdTag (cfg : Cfg) (colony : Nat) (r : Result) (gated : Bool) : String :=
  if gated then "0"
  else if cfg.strategy = .threshold then s!"cnt:{showRat (r.thresholdUsed * natR colony)}"
  else showRat r.thresholdUsed

def voteLine (st : DSt) (cfg : Cfg) (voters : List Voter) (tagPrefix : String) : DSt × String :=
  if runVoteRaises cfg voters then (st, s!"raise:ZeroDivisionError ## {tagPrefix}{showStrategy cfg.strategy}:raise")
  else
    let r := runVote cfg voters
    let gated := decide (activeCount (collect voters) < cfg.minVoters)
    let tag := if gated then s!"{tagPrefix}gate"
      else s!"{tagPrefix}{showStrategy cfg.strategy}:{if r.reached then "permit" else "block"}"
    (st, joinSp [showBool r.reached, showVT r.decision, toString r.permit, toString r.block,
      toString r.abstain, toString r.total, thresholdTag cfg voters.length r gated,
      showList (r.votes.map fun v => s!"{showVT v.kind}:{showRat v.weight}:{showRat v.conf}")]
      ++ s!" ## {tag}")

def step (st : DSt) (toks : List String) : DSt × String :=
  match toks with
  | ["cfg", "emergency", c, _] =>
    let cfg := if c = "none" then emergencyDefaultCfg else emergencyCfg (customOf c)
    ({ cfg := cfg }, if cfg.isSome then "ok" else "bad-op")
  | ["cfg", s, c, m] =>
    match strategyOf? s with
    | some strat => ({ cfg := some ⟨strat, customOf c, natD m⟩ }, "ok")
    | none => (st, "bad-op")
  | ["setstrat", s, c] =>
    match strategyOf? s, st.cfg with
    | some strat, some cfg => ({ cfg := some ⟨strat, customOf c, cfg.minVoters⟩ }, "ok")
    | _, _ => (st, "bad-op")
  | ["realvote", pc, budget, n] =>
    let p? : Option PromptClass :=
      match pc with
      | "safe" => some .safe
      | "danger" => some .dangerous
      | "inject" => some .rejected
      | _ => none
    match p?, st.cfg with
    | some p, some cfg => voteLine st cfg (bioVoters p (natD budget) (natD n)) "real:"
    | _, _ => (st, "bad-op")
  | "vote" :: vs =>
    match votersOf? vs, st.cfg with
    | some voters, some cfg => voteLine st cfg voters ""
    | _, _ => (st, "bad-op")
  | _ => (st, "bad-op")

def main : IO Unit := runDriver ({} : DSt) step
