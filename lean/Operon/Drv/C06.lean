import Operon.Model.Proto
import Operon.Model.Quorum
import Operon.Model.QuorumTab
/-!
Line-protocol driver for the quorum model (C06).

  cfg <strategy|emergency> <custom Rat|none> <minVoters>     (emergency: `none` = constructor default; minVoters ignored)
  setstrat <strategy> <custom Rat|none>                      `set_strategy`
  vote <K:weight:rel:conf>*                                  K ∈ P E B D U X (PERMIT EXECUTE BLOCK DEFER other raises)
                                                             conf ∈ Rat | none (no confidence in payload) | bad
  realvote <safe|danger|inject> <atpBudget> <n>              a fresh colony of n real BioAgent voters, current configuration
  colony <n>                                                 construct the object now with n built-in members
  add <nameHex> <w> · addsame <idx> <w> · remove <nameHex> · setw <nameHex> <w>
  relupd <nameHex> <0|1> · relall <permit|block|abstain|defer>      `update_reliability` / `update_all_reliability`
  attr strategy <s> · attr threshold <c|none> · attr minvoters <n>  direct assignment of the public attributes
  ldel <idx> · linsert <idx> <nameHex> <w> · pset <idx> <w|_> <rel|_>   direct edits of `colony` / profile fields
  cb <reached|failed> <none|ok|raise>                         install / remove `on_quorum_reached` / `on_quorum_failed` (a raising one: `raise`)
  attr tracking <0|1>                                         `enable_reliability_tracking`
  obj <k>                                                     switch to quorum object k (several objects alive; each has its own state)
  every number (threshold, min_voters, weight, reliability) may carry a tag `<value>@<carrier>` naming the Python type
  that carries it into the real code (int, bool, Fraction, Decimal, float / int subclass): the model reads the value.
  conf may also be unstr | unbool | unlen | unrepr | unkey: an answer that cannot be turned into a ballot
  (`answerBehaviour`: the payload cannot be rendered / read).
  (weight / rel of a vote token may be `_`: keep the profile's value; the colony persists between votes and is
   grown / shrunk to the ballot's length through add_agent / remove_agent)
  → reached decision permit block abstain total thresholdTag [vote kinds:weight:conf] strategy st=<total_votes>/<quorums_reached>/<quorums_failed>/<history length> cb=<reached|failed|none> ## branch tags
    (a raising callback: `raise:CallbackError <reached|failed> <the result it was handed>`)
-/
open Operon Operon.Proto Operon.Quorum

/-- one quorum object -/
structure DSt where
  cfg : Option Cfg := some ⟨.majority, none, 1⟩
  colony : Option (List Member) := none       -- none: the object has not been constructed yet
  last : Option (List (List Nat × VoteType)) := none
  cbReached : Nat := 0                        -- `on_quorum_reached`: 0 not installed, 1 installed, 2 installed and raising
  cbFailed : Nat := 0                         -- `on_quorum_failed`
  tracking : Bool := true                     -- `enable_reliability_tracking`
  ledger : Ledger := {}                       -- `get_statistics()` counters and `_vote_history`

/-- all quorum objects alive: the current one and the parked ones -/
structure World where
  cur : DSt := {}
  curId : Nat := 0
  parked : List (Nat × DSt) := []

def strategyOf? : String → Option Strategy
  | "majority" => some .majority
  | "supermajority" => some .supermajority
  | "unanimous" => some .unanimous
  | "weighted" => some .weighted
  | "confidence" => some .confidence
  | "bayesian" => some .bayesian
  | "threshold" => some .threshold
  | _ => none

/-- `<value>@<carrier>`: the value; the carrier (which numeric Python type holds it) is not part of the model -/
def num (s : String) : String := (s.splitOn "@").headD s

def customOf (s : String) : Option Rat := if s = "none" then none else some (ratOf (num s))

/-- the answer a voter of kind K gives: the action-type string of a returned protein, or no usable answer (X: the
    harness lets `express` raise, or return None / a string / a bare object / a protein whose payload cannot be read) -/
def actionOf? : String → Option (Option (List Nat))
  | "P" => some (some permitCps)
  | "E" => some (some executeCps)
  | "B" => some (some blockCps)
  | "D" => some (some deferCps)
  | "U" => some (some [85, 78, 75, 78, 79, 87, 78])     -- "UNKNOWN": any action type but the four words
  | "X" => some none
  | _ => none

/-- the payload shape behind a conf token.  `inf` / `-inf`: float("inf") is a number beyond the clamp (any such value
    gives confidence 1 / 0); `nan`: float("nan") is rejected like a non-numeric confidence; `unkey`: the key lookup
    raises; `unstr` / `unbool` / `unlen` / `unrepr`: the payload cannot be rendered into the reasoning text -/
def payloadOf (s : String) : Payload :=
  if s = "none" then .notDict else if s = "bad" || s = "nan" || s = "unkey" then .confBad
  else if s = "unstr" || s = "unbool" || s = "unlen" then .unrenderable false
  else if s = "unrepr" then .unrenderable true
  else if s = "inf" then .confNumeric 2 else if s = "-inf" then .confNumeric (-1) else .confNumeric (ratOf s)

/-- what one member's agent does at one vote, through the model of the per-voter step (`answerBehaviour`) -/
def behaviourOf? (k c : String) : Option Behaviour :=
  match actionOf? k with
  | some (some a) => some (answerBehaviour (.protein a (payloadOf c)))
  | some none => some (answerBehaviour .raised)
  | none => none

/-- one ballot token `K:weight:rel:conf`; weight / rel `_` = keep what the profile has -/
structure Tok where
  beh : Behaviour
  w : Option Rat
  rel : Option Rat

def optRat (s : String) : Option Rat := if s = "_" then none else some (ratOf (num s))

def tokOf? (s : String) : Option Tok :=
  match s.splitOn ":" with
  | [k, w, r, c] =>
    match behaviourOf? k c with
    | some b => some ⟨b, optRat w, optRat r⟩
    | none => none
  | _ => none

def toksOf? : List String → Option (List Tok)
  | [] => some []
  | s :: rest =>
    match tokOf? s, toksOf? rest with
    | some v, some vs => some (v :: vs)
    | _, _ => none

def strCps (s : String) : List Nat := s.toList.map Char.toNat

/-- the harness grows a colony with `add_agent(f"Added_{len(colony)}", 1.0)` … -/
def growTo : Nat → Nat → List Member → List Member
  | 0, _, c => c
  | fuel + 1, n, c => if c.length < n then growTo fuel n (addAgent c (strCps s!"Added_{c.length}") 1) else c

/-- … and shrinks it with `remove_agent(colony[-1].agent.name)` (which pops the FIRST member of that name) -/
def shrinkTo : Nat → Nat → List Member → List Member
  | 0, _, c => c
  | fuel + 1, n, c =>
    if c.length > n then
      match c.getLast? with
      | some m => shrinkTo fuel n (removeAgent c m.name).1
      | none => c
    else c

def assignAll : Nat → List Tok → List Member → List Member
  | _, [], c => c
  | i, t :: rest, c => assignAll (i + 1) rest (assignProfile c i t.w t.rel)

def isPow2 (n : Nat) : Bool := n != 0 && (n &&& (n - 1)) == 0

def showMember (m : Member) : String :=
  s!"{encodeCps m.name}:{showRat m.weight}:{showRat m.rel}:{m.votesCast}:{m.correct}"

def showColony (c : List Member) : String := showList (c.map showMember)

def showVT : VoteType → String
  | .permit => "permit" | .block => "block" | .abstain => "abstain" | .defer => "defer"

def showStrategy : Strategy → String
  | .majority => "majority" | .supermajority => "supermajority" | .unanimous => "unanimous"
  | .weighted => "weighted" | .confidence => "confidence" | .bayesian => "bayesian" | .threshold => "threshold"

/-- what the harness can observe of `threshold_used` without comparing floats: the value itself for the
    ratio strategies (an input constant), the permit count needed for the count strategy -/
def thresholdTag (cfg : Cfg) (colony : Nat) (r : Result) (gated : Bool) : String :=
  if gated then "0"
  else if cfg.strategy = .threshold then s!"cnt:{showRat (r.thresholdUsed * natR colony)}"
  else showRat r.thresholdUsed

def voteTypeOf? : String → Option VoteType
  | "permit" => some .permit | "block" => some .block | "abstain" => some .abstain | "defer" => some .defer
  | _ => none

/-- which callback `run_vote` invokes with the result (`on_quorum_reached` exactly when reached), as the driver's
    callback slots see it: (its name, installed?, raising?) -/
def firedCallback (st : DSt) (r : Result) : String × Nat :=
  match callbackFor r with
  | .onReached => ("reached", st.cbReached)
  | .onFailed => ("failed", st.cbFailed)

/-- `get_statistics()` total_votes / quorums_reached / quorums_failed and `len(get_vote_history(10**6))` after the vote -/
def showLedger (l : Ledger) : String :=
  s!"st={l.totalVotes}/{l.reached}/{l.failed}/{l.history.length}"

def showResult (st : DSt) (cfg : Cfg) (voters : List Voter) (names : List (List Nat)) (r : Result) (tagPrefix : String) : String :=
  let gated := decide (activeCount (collect voters) < cfg.minVoters)
  let tag := if gated then s!"{tagPrefix}gate"
    else s!"{tagPrefix}{showStrategy cfg.strategy}:{if r.reached then "permit" else "block"}"
  let obs := joinSp [showBool r.reached, showVT r.decision, toString r.permit, toString r.block,
    toString r.abstain, toString r.total, thresholdTag cfg voters.length r gated,
    showList (List.zipWith (fun v n => s!"{showVT v.kind}:{showRat v.weight}:{showRat v.conf}:{encodeCps n}") r.votes names),
    showStrategy cfg.strategy, showLedger (st.ledger.record r)]
  let (kind, mode) := firedCallback st r
  (if mode = 2 then s!"raise:CallbackError {kind} {obs}"
   else if mode = 1 then s!"{obs} cb={kind}" else s!"{obs} cb=none") ++ s!" ## {tag}"

/-- a vote of a fresh, un-stubbed colony (does not touch the driver's own colony) -/
def realVoteLine (st : DSt) (cfg : Cfg) (voters : List Voter) : DSt × String :=
  match runVoteE cfg voters with
  | none => (st, s!"raise:ZeroDivisionError ## real:{showStrategy cfg.strategy}:raise")
  | some r => (st, showResult {} cfg voters ((List.range voters.length).map builtinName) r "real:")

/-- a vote of the driver's colony, through `stepOp` -/
def voteLine (st : DSt) (cfg : Cfg) (toks : List Tok) : DSt × String :=
  let n := toks.length
  let c0 := st.colony.getD (newColony n)
  let c1 := assignAll 0 toks (shrinkTo (c0.length + 1) n (growTo (n + 1) n c0))
  let beh : Nat → Behaviour := fun i => (toks.map (·.beh)).getD i ⟨.permit, .absent⟩
  let voters := electorate c1 beh
  let (q, res) := stepOp ⟨cfg, c1, st.last⟩ (.vote beh)
  let st' : DSt := { st with cfg := some cfg, colony := some q.colony, last := q.last,
                              ledger := match res with | some r => st.ledger.record r | none => st.ledger }
  match res with
  | none => (st', s!"raise:ZeroDivisionError ## {showStrategy cfg.strategy}:raise")
  | some r =>
    let weightSensitive := cfg.strategy = .weighted || cfg.strategy = .confidence || cfg.strategy = .bayesian
    if weightSensitive && c1.any (fun m => !isPow2 m.rel.den) then (st', "skip:nondyadic ## skip")
    else (st', showResult st cfg voters (c1.map (·.name)) r "")

/-- an operation on the (constructed-on-demand) colony through `stepOp`; prints the colony afterwards -/
def colonyOp (st : DSt) (op : Op) (flag : Option Bool) : DSt × String :=
  match st.cfg with
  | none => (st, "bad-op")
  | some cfg =>
    let (q, _) := stepOp ⟨cfg, st.colony.getD [], st.last⟩ op
    ({ st with cfg := some q.cfg, colony := some q.colony, last := q.last },
      (match flag with | some b => showBool b ++ " " | none => "") ++ showColony q.colony)

def step (st : DSt) (toks : List String) : DSt × String :=
  match toks with
  | ["cfg", "emergency", c, _] =>
    let cfg := if c = "none" then emergencyDefaultCfg else emergencyCfg (customOf c)
    ({ cfg := cfg }, if cfg.isSome then "ok" else "bad-op")
  | ["cfg", s, c, m] =>
    match strategyOf? s with
    | some strat => ({ cfg := some ⟨strat, customOf c, natD (num m)⟩ }, "ok")
    | none => (st, "bad-op")
  | ["colony", n] =>
    match st.colony with
    | none => ({ st with colony := some (newColony (natD n)) }, "ok")
    | some _ => (st, "bad-op")
  | ["setstrat", s, c] =>
    match strategyOf? s, st.cfg with
    | some strat, some _ => ((colonyOp st (.setStrategy strat (customOf c)) none).1, "ok")
    | _, _ => (st, "bad-op")
  | ["add", name, w] => colonyOp st (.add (decodeCps name) (ratOf (num w))) none
  | ["addsame", i, w] =>
    match (st.colony.getD [])[natD i]? with
    | some m => colonyOp st (.add m.name (ratOf (num w))) none
    | none => (st, "bad-op")
  | ["remove", name] =>
    colonyOp st (.remove (decodeCps name)) (some (removeAgent (st.colony.getD []) (decodeCps name)).2)
  | ["setw", name, w] =>
    colonyOp st (.setWeight (decodeCps name) (ratOf (num w))) (some (setAgentWeight (st.colony.getD []) (decodeCps name) (ratOf (num w))).2)
  | ["attr", "strategy", s] =>
    match strategyOf? s, st.cfg with
    | some strat, some _ => ((colonyOp st (.assignStrategy strat) none).1, "ok")
    | _, _ => (st, "bad-op")
  | ["attr", "threshold", c] => ((colonyOp st (.assignThreshold (customOf c)) none).1, if st.cfg.isSome then "ok" else "bad-op")
  | ["attr", "minvoters", n] => ((colonyOp st (.assignMinVoters (natD (num n))) none).1, if st.cfg.isSome then "ok" else "bad-op")
  | ["ldel", i] =>
    if natD i < (st.colony.getD []).length then colonyOp st (.deleteAt (natD i)) none else (st, "bad-op")
  | ["linsert", i, name, w] => colonyOp st (.insertAt (natD i) (decodeCps name) (ratOf (num w))) none
  | ["pset", i, w, r] =>
    if natD i < (st.colony.getD []).length then colonyOp st (.assign (natD i) (optRat w) (optRat r)) none
    else (st, "bad-op")
  | ["relupd", name, ok] =>
    if st.tracking then colonyOp st (.updateReliability (decodeCps name) (boolOf ok)) none
    else colonyOp st (.setStrategy ((st.cfg.getD ⟨.majority, none, 1⟩).strategy) ((st.cfg.getD ⟨.majority, none, 1⟩).custom)) none
  | ["relall", d] =>
    match voteTypeOf? d with
    | some vt =>
      if st.tracking then colonyOp st (.updateAll vt) none
      else colonyOp st (.setStrategy ((st.cfg.getD ⟨.majority, none, 1⟩).strategy) ((st.cfg.getD ⟨.majority, none, 1⟩).custom)) none
    | none => (st, "bad-op")
  | ["cb", which, mode] =>
    let m? : Option Nat := match mode with | "none" => some 0 | "ok" => some 1 | "raise" => some 2 | _ => none
    match which, m? with
    | "reached", some m => ({ st with cbReached := m }, "ok")
    | "failed", some m => ({ st with cbFailed := m }, "ok")
    | _, _ => (st, "bad-op")
  | ["attr", "tracking", b] => ({ st with tracking := boolOf b }, "ok")
  | ["realvote", pc, budget, n] =>
    let p? : Option PromptClass :=
      match pc with
      | "safe" => some .safe
      | "danger" => some .dangerous
      | "inject" => some .rejected
      | _ => none
    match p?, st.cfg with
    | some p, some cfg => realVoteLine st cfg (bioVoters p (natD budget) (natD n))
    | _, _ => (st, "bad-op")
  | "vote" :: vs =>
    match toksOf? vs, st.cfg with
    | some ts, some cfg => voteLine st cfg ts
    | _, _ => (st, "bad-op")
  | _ => (st, "bad-op")

/-- `obj k` parks the current object and makes object k current (a fresh one when k was never used) -/
def stepWorld (w : World) (toks : List String) : World × String :=
  match toks with
  | ["obj", k] =>
    let id := natD k
    if id = w.curId then (w, "ok")
    else
      let parked := (w.curId, w.cur) :: w.parked.filter (fun e => e.1 ≠ w.curId)
      let nxt : DSt := match parked.find? (fun e => e.1 = id) with
        | some e => e.2
        | none => {}
      ({ cur := nxt, curId := id, parked := parked.filter (fun e => e.1 ≠ id) }, "ok")
  | _ =>
    let (st, out) := step w.cur toks
    ({ w with cur := st }, out)

def main : IO Unit := runDriver ({} : World) stepWorld
