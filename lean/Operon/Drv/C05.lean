import Operon.Model.Proto
import Operon.Model.AtpConc
/-! Line-protocol driver for the concurrent store model (C05): runs atomic actions in a given order.

    new <budget> <gtp> <nadh> <maxDebt>            -> ok <id>        (stores are numbered 0,1,..)
    setatp <id> <v>                                -> ok             (balance below capacity)
    act <thread> consume <id> <cost> <cur> <allowDebt> <prio>
    act <thread> regen <id> <n> <cur>
    act <thread> conv <id> <n>
    act <thread> withdraw <id> <n> <cur>
    act <thread> deposit <id> <n> <cur>            -> <store> (the locked store when the region ends)
    rate <id> <num> <den>                          -> ok             (constructor argument regeneration_rate = num/den: the
                                                                      store has a background regeneration thread)
    act <thread> tick <id>                         -> <store>        (one pass of that thread's loop: regenerate(int(rate)))
    pre <call>                                     -> <store>        (a call made before the threads start; calls as in the
                                                                      `thread` lines: consume | regen | conv | xfer | tick)
    final <nthreads> <nstores>                     -> all returns | all stores
  <store> = atp gtp nadh debt consumed state -/
open Operon Operon.Proto Operon.Atp Operon.AtpConc Operon.Lock

/-- the IEEE-double computation of `_update_state` (same definition as in Drv/C04, validated there by `fcheck`) -/
def floatCls : Classifier := fun r p =>
  let q (x : Quo) : Float := Float.ofInt x.num / Float.ofInt x.den
  let ratio : Float := match r with | none => 0.0 | some x => q x
  let ratio : Float := match p with | none => ratio | some x => ratio - (q x) * 0.5
  if ratio <= 0.1 then .starving
  else if ratio <= 0.3 then .conserving
  else if ratio >= 0.9 then .feasting
  else .normal

structure DSt where
  stores : List Store := []
  obs : List (Nat × String × String) := []      -- (store, kind always|state, state name)
  rates : List (Nat × Nat × Nat) := []          -- (store, num, den) of regeneration_rate
  w : World := ⟨fun _ => Store.fresh 0 0 0 0 0 1, fun _ => {}⟩

def stateOf : String → MState
  | "conserving" => .conserving | "starving" => .starving | "feasting" => .feasting | "dormant" => .dormant
  | _ => .normal

/-- the scripted stateless observers of the harness: raise on every change / on changes to one state -/
def obsOf (l : List (Nat × String × String)) (j : Nat) : Obs := fun st =>
  match l.find? (fun e => e.1 == j) with
  | some (_, "always", _) => some 1
  | some (_, "state", nm) => if st = stateOf nm then some 1 else none
  | _ => none

def curOf : String → Cur
  | "gtp" => .gtp | "nadh" => .nadh | _ => .atp

def showState : MState → String
  | .normal => "normal" | .conserving => "conserving" | .starving => "starving"
  | .feasting => "feasting" | .dormant => "dormant"

def showStore (s : Store) : String :=
  joinSp [toString s.atp, toString s.gtp, toString s.nadh, toString s.debt, toString s.consumed, showState s.state]

def showRet : Ret → String
  | .bool b => showBool b
  | .none => "none"
  | .int k => toString k
  | .raised _ => "raise"
  | .noSuchStore => "nostore"

def showRets (l : Loc) : String := showList (l.rets.map showRet)

def parseAct : List String → Option Act
  | ["consume", i, c, cur, d, p] => some (.consume (natD i) (natD c) (curOf cur) (boolOf d) (natD p))
  | ["regen", i, n, cur] => some (.regenerate (natD i) (natD n) (curOf cur))
  | ["conv", i, n] => some (.convert (natD i) (natD n))
  | ["withdraw", i, n, cur] => some (.withdraw (natD i) (natD n) (curOf cur))
  | ["deposit", i, n, cur] => some (.deposit (natD i) (natD n) (curOf cur))
  | _ => none

/-- `int(regeneration_rate)` of store `j` (0 when none was configured) -/
def rateOf (l : List (Nat × Nat × Nat)) (j : Nat) : Nat :=
  match l.find? (fun e => e.1 == j) with
  | some (_, n, d) => n / d
  | none => 0

/-- the critical regions of one API call, in order (`tick` = one pass of the background loop) -/
def parseCall (rates : List (Nat × Nat × Nat)) : List String → Option (List Act)
  | ["xfer", i, j, n, cur] => some (Call.acts (.transfer (natD i) (natD j) (natD n) (curOf cur)))
  | ["tick", i] => some [tickAct (natD i) (rateOf rates (natD i))]
  | toks => (parseAct toks).map fun a => [a]

def step (d : DSt) (toks : List String) : DSt × String :=
  match toks with
  | ["rate", i, n, m] =>
    if natD m = 0 then (d, "bad-op") else
    ({ d with rates := (natD i, natD n, natD m) :: d.rates.filter (fun e => e.1 != natD i) }, "ok")
  | ["act", t, "tick", i] =>
    let a := tickAct (natD i) (rateOf d.rates (natD i))
    let w' := applyAct floatCls (obsOf d.obs) d.w (natD t) a
    ({ d with w := w' }, showStore (w'.st a.lock))
  | "pre" :: rest =>
    match parseCall d.rates rest with
    | some (a :: as) =>
      -- thread number 1000000 is nobody's: the prelude's return values are not part of the final observation
      let w' := (a :: as).foldl (fun w x => applyAct floatCls (obsOf d.obs) w 1000000 x) d.w
      let w'' : World := ⟨w'.st, fun u => if u = 1000000 then {} else w'.locs u⟩
      ({ d with w := w'' }, showStore (w''.st (as.getLast?.getD a).lock))
    | _ => (d, "bad-op")
  | ["new", b, g, n, md] =>
    let s := Store.fresh (natD b) (natD g) (natD n) (natD md) 1 10
    let id := d.stores.length
    let stores := d.stores ++ [s]
    ({ d with stores := stores, w := ⟨upd1 d.w.st id s, d.w.locs⟩ }, s!"ok {id}")
  | ["setatp", i, v] =>
    let j := natD i
    ({ d with w := ⟨upd1 d.w.st j { d.w.st j with atp := intD v }, d.w.locs⟩ }, "ok")
  | "act" :: t :: rest =>
    match parseAct rest with
    | some a =>
      let w' := applyAct floatCls (obsOf d.obs) d.w (natD t) a
      ({ d with w := w' }, showStore (w'.st a.lock))
    | none => (d, "bad-op")
  | ["final", nt, ns] =>
    let rets := (List.range (natD nt)).map fun t => showRets (d.w.locs t)
    let sts := (List.range (natD ns)).map fun j => showStore (d.w.st j)
    (d, s!"{joinSp rets} | {" ; ".intercalate sts}")
  | ["obs", j, kind, nm] => ({ d with obs := (natD j, kind, nm) :: d.obs.filter (fun e => e.1 != natD j) }, "ok")
  | "thread" :: _ => (d, "ok")      -- program text: information for the implementation side only
  | "sched" :: _ => (d, "ok")
  | "sched2" :: _ => (d, "ok")
  | _ => (d, "bad-op")

def main : IO Unit := runDriver ({} : DSt) step
