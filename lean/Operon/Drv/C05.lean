import Operon.Model.Proto
import Operon.Model.AtpConc
/-! Line-protocol driver for the concurrent store model (C05): runs atomic actions in a given order.

    new <budget> <gtp> <nadh> <maxDebt>            -> ok <id>        (stores are numbered 0,1,..)
    setatp <id> <v>                                -> ok             (balance below capacity)
    act <thread> consume <id> <cost> <cur> <allowDebt> <prio>
    act <thread> regen <id> <n> <cur>
    act <thread> conv <id> <n>
    act <thread> withdraw <id> <n> <cur>
    act <thread> deposit <id> <n> <cur>            -> <store> (the locked store when the region ends)
    final <nthreads> <nstores>                     -> all returns | all stores
  <store> = atp gtp nadh debt consumed state -/
open Operon Operon.Proto Operon.Atp Operon.AtpConc Operon.Lock

/-- the IEEE-double computation of `_update_state` (same definition as in Drv/C04, validated there by `fcheck`) -/
def floatCls : Classifier := fun r p =>
  let q (x : Quo) : Float := Float.ofInt x.num / Float.ofInt x.den
  let ratio : Float := match r with | none => 0.0 | some x => q x
  let ratio : Float := match p with | none => ratio | some x => ratio - (q x) * 0.5
  if ratio <= 0.1 then .starving
  else if ratio <= 0.3 then .conserving
  else if ratio >= 0.9 then .feasting
  else .normal

structure DSt where
  stores : List Store := []
  obs : List (Nat × String × String) := []      -- (store, kind always|state, state name)
  w : World := ⟨fun _ => Store.fresh 0 0 0 0 0 1, fun _ => {}⟩

def stateOf : String → MState
  | "conserving" => .conserving | "starving" => .starving | "feasting" => .feasting | "dormant" => .dormant
  | _ => .normal

/-- the scripted stateless observers of the harness: raise on every change / on changes to one state -/
def obsOf (l : List (Nat × String × String)) (j : Nat) : Obs := fun st =>
  match l.find? (fun e => e.1 == j) with
  | some (_, "always", _) => some 1
  | some (_, "state", nm) => if st = stateOf nm then some 1 else none
  | _ => none

def curOf : String → Cur
  | "gtp" => .gtp | "nadh" => .nadh | _ => .atp

def showState : MState → String
  | .normal => "normal" | .conserving => "conserving" | .starving => "starving"
  | .feasting => "feasting" | .dormant => "dormant"

def showStore (s : Store) : String :=
  joinSp [toString s.atp, toString s.gtp, toString s.nadh, toString s.debt, toString s.consumed, showState s.state]

def showRet : Ret → String
  | .bool b => showBool b
  | .none => "none"
  | .int k => toString k
  | .raised _ => "raise"
  | .noSuchStore => "nostore"

def showRets (l : Loc) : String := showList (l.rets.map showRet)

def parseAct : List String → Option Act
  | ["consume", i, c, cur, d, p] => some (.consume (natD i) (natD c) (curOf cur) (boolOf d) (natD p))
  | ["regen", i, n, cur] => some (.regenerate (natD i) (natD n) (curOf cur))
  | ["conv", i, n] => some (.convert (natD i) (natD n))
  | ["withdraw", i, n, cur] => some (.withdraw (natD i) (natD n) (curOf cur))
  | ["deposit", i, n, cur] => some (.deposit (natD i) (natD n) (curOf cur))
  | _ => none

def step (d : DSt) (toks : List String) : DSt × String :=
  match toks with
  | ["new", b, g, n, md] =>
    let s := Store.fresh (natD b) (natD g) (natD n) (natD md) 1 10
    let id := d.stores.length
    let stores := d.stores ++ [s]
    ({ d with stores := stores, w := ⟨upd1 d.w.st id s, d.w.locs⟩ }, s!"ok {id}")
  | ["setatp", i, v] =>
    let j := natD i
    ({ d with w := ⟨upd1 d.w.st j { d.w.st j with atp := intD v }, d.w.locs⟩ }, "ok")
  | "act" :: t :: rest =>
    match parseAct rest with
    | some a =>
      let w' := applyAct floatCls (obsOf d.obs) d.w (natD t) a
      ({ d with w := w' }, showStore (w'.st a.lock))
    | none => (d, "bad-op")
  | ["final", nt, ns] =>
    let rets := (List.range (natD nt)).map fun t => showRets (d.w.locs t)
    let sts := (List.range (natD ns)).map fun j => showStore (d.w.st j)
    (d, s!"{joinSp rets} | {" ; ".intercalate sts}")
  | ["obs", j, kind, nm] => ({ d with obs := (natD j, kind, nm) :: d.obs.filter (fun e => e.1 != natD j) }, "ok")
  | "thread" :: _ => (d, "ok")      -- program text: information for the implementation side only
  | "sched" :: _ => (d, "ok")
  | "sched2" :: _ => (d, "ok")
  | _ => (d, "bad-op")

def main : IO Unit := runDriver ({} : DSt) step
