/-
  Model of `operon_ai/topology/cascade.py :: Cascade.run` (sequential mode).

  Signals are an arbitrary type `σ`; the checkpoint, processor and error handler of every stage are
  arbitrary functions that either return or raise (`Out`).  Amplification is over `Rat`; the
  correspondence harness only uses dyadic factors, on which Python's float arithmetic is exact.

  Not modelled: the `on_stage_complete` / `on_cascade_complete` callbacks, console output, wall-clock
  fields, run statistics/history, `run_parallel`.
-/
namespace Operon.Cascade

inductive Out (α : Type) where
  | ok (v : α)
  | raise
  deriving Repr, DecidableEq

inductive Status where
  | completed | failed | skipped | blocked
  deriving Repr, DecidableEq

structure Stage (σ : Type) where
  checkpoint : Option (σ → Out Bool)
  processor : σ → Out σ
  onError : Option (σ → Out σ)
  required : Bool
  amp : Rat

/-- Callback log: which user callback ran, for which stage index, on which signal. -/
inductive Ev (σ : Type) where
  | cp (i : Nat) (sig : σ) (r : Out Bool)
  | proc (i : Nat) (sig : σ)
  | eh (i : Nat)
  deriving Repr, DecidableEq

def Ev.idx {σ : Type} : Ev σ → Nat
  | .cp i _ _ => i
  | .proc i _ => i
  | .eh i => i

structure StageRes (σ : Type) where
  idx : Nat
  status : Status
  input : σ
  output : Option σ
  factor : Rat

structure Cfg where
  halt : Bool
  maxAmp : Rat

/-- What the loop carries from stage to stage. -/
structure Acc (σ : Type) where
  cur : σ
  amp : Rat
  blockedAt : Option Nat

structure Run (σ : Type) where
  acc : Acc σ
  results : List (StageRes σ)
  log : List (Ev σ)

def clamp (cfg : Cfg) (a : Rat) : Rat := if a > cfg.maxAmp then cfg.maxAmp else a

/-- Outcome of one stage: the new accumulator, the stage result (if one is recorded), the events, and
    whether the loop `break`s. -/
structure StepOut (σ : Type) where
  acc : Acc σ
  res : Option (StageRes σ)
  evs : List (Ev σ)
  stop : Bool

/-- What the processor / error-handler pair of a stage did on signal `x`. -/
inductive PO (σ : Type) where
  | ok (v : σ)                  -- processor returned
  | recovered (v : σ)           -- processor raised, handler returned
  | failed (handlerRan : Bool)  -- processor raised, no handler or handler raised
  deriving Repr, DecidableEq

def procOutcome {σ : Type} (s : Stage σ) (x : σ) : PO σ :=
  match s.processor x with
  | .ok v => .ok v
  | .raise =>
    match s.onError with
    | none => .failed false
    | some h =>
      match h x with
      | .ok v => .recovered v
      | .raise => .failed true

def procEvs {σ : Type} (i : Nat) (x : σ) : PO σ → List (Ev σ)
  | .ok _ => [.proc i x]
  | .recovered _ => [.proc i x, .eh i]
  | .failed true => [.proc i x, .eh i]
  | .failed false => [.proc i x]

/-- The "Process stage" half of the loop body (after the gate let the signal through). -/
def process {σ : Type} (cfg : Cfg) (i : Nat) (s : Stage σ) (a : Acc σ) (pre : List (Ev σ)) : StepOut σ :=
  match procOutcome s a.cur with
  | .ok v =>
    { acc := { a with cur := v, amp := clamp cfg (a.amp * s.amp) }
      res := some ⟨i, .completed, a.cur, some v, s.amp⟩
      evs := pre ++ procEvs i a.cur (.ok v), stop := false }
  | .recovered v =>
    { acc := { a with cur := v }, res := some ⟨i, .completed, a.cur, some v, 1⟩
      evs := pre ++ procEvs i a.cur (.recovered v), stop := false }
  | .failed hr =>
    if cfg.halt && s.required then
      { acc := { a with blockedAt := some i }, res := some ⟨i, .failed, a.cur, none, 1⟩
        evs := pre ++ procEvs i a.cur (.failed hr), stop := true }
    else if !s.required then
      { acc := a, res := some ⟨i, .skipped, a.cur, none, 1⟩
        evs := pre ++ procEvs i a.cur (.failed hr), stop := false }
    else
      { acc := a, res := some ⟨i, .failed, a.cur, none, 1⟩
        evs := pre ++ procEvs i a.cur (.failed hr), stop := false }

/-- One iteration of the `for i, stage in enumerate(self._stages)` loop. -/
def stageStep {σ : Type} (cfg : Cfg) (i : Nat) (s : Stage σ) (a : Acc σ) : StepOut σ :=
  match s.checkpoint with
  | none => process cfg i s a []
  | some cp =>
    match cp a.cur with
    | .ok true => process cfg i s a [.cp i a.cur (.ok true)]
    | .ok false =>
      { acc := { a with blockedAt := some i }, res := some ⟨i, .blocked, a.cur, none, 1⟩
        evs := [.cp i a.cur (.ok false)], stop := cfg.halt }
    | .raise =>
      -- fail closed: a raising gate never lets the stage run
      if cfg.halt then
        { acc := { a with blockedAt := some i }, res := some ⟨i, .failed, a.cur, none, 1⟩
          evs := [.cp i a.cur .raise], stop := true }
      else
        { acc := { a with blockedAt := some i }, res := some ⟨i, .blocked, a.cur, none, 1⟩
          evs := [.cp i a.cur .raise], stop := false }

/-- The loop from stage index `i` on. -/
def runFrom {σ : Type} (cfg : Cfg) : Nat → List (Stage σ) → Acc σ → Run σ
  | _, [], a => ⟨a, [], []⟩
  | i, s :: rest, a =>
    let o := stageStep cfg i s a
    if o.stop then ⟨o.acc, o.res.toList, o.evs⟩
    else
      let r := runFrom cfg (i + 1) rest o.acc
      ⟨r.acc, o.res.toList ++ r.results, o.evs ++ r.log⟩

/-- the running gain starts at 1, held at the maximum like every later value (`min(1.0, self.max_amplification)`) -/
def run {σ : Type} (cfg : Cfg) (stages : List (Stage σ)) (x : σ) : Run σ :=
  runFrom cfg 0 stages ⟨x, clamp cfg 1, none⟩

def completedCount {σ : Type} (rs : List (StageRes σ)) : Nat :=
  (rs.filter (fun r => r.status = .completed)).length

structure Result (σ : Type) where
  success : Bool
  final : Option σ
  completed : Nat
  total : Nat
  amplification : Rat
  blockedAt : Option Nat
  results : List (StageRes σ)
  log : List (Ev σ)

def result {σ : Type} (cfg : Cfg) (stages : List (Stage σ)) (x : σ) : Result σ :=
  let r := run cfg stages x
  let c := completedCount r.results
  let ok := c == stages.length && r.acc.blockedAt.isNone
  { success := ok, final := if ok then some r.acc.cur else none, completed := c, total := stages.length
    amplification := r.acc.amp, blockedAt := r.acc.blockedAt, results := r.results, log := r.log }

end Operon.Cascade
