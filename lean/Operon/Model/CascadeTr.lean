import Operon.Model.Cascade
import Operon.Model.CascadeObs
/-
  What the Python→Lean translator of `Cascade.run` (harness/vf/extract/py2lean_cascade.py) is compared with.

  The translator executes the SOURCE of `Cascade.run` symbolically (helpers inlined, every path of one loop iteration
  explored, callbacks as the branching points) and emits three definitions into `Gen/CascadeTranslated.lean`:
    `init cfg x`              — the loop-carried state before the first stage,
    `body cfg obs i s a`      — one iteration of `for i, stage in enumerate(self._stages)` as a decision tree,
    `finish cobs n r`         — everything after the loop (result record, `on_cascade_complete`).
  `none` marks a path the translator could not follow (fail closed).  `runTr` folds such pieces over a stage list exactly as
  a Python `for` loop with `break` / `continue` does; `Props/C19.lean` proves the pieces equal to the model's and the fold
  equal to the model's run.
-/
namespace Operon.Cascade

/-- one loop iteration as the translator reports it -/
structure TrStep (σ : Type) where
  acc : Acc σ
  res : List (StageRes σ)      -- stage results appended during this iteration
  evs : List (Ev σ)            -- user callbacks called during this iteration, in order
  stop : Bool                  -- left by `break`
  seen : List Nat              -- stages whose result was shown to `on_stage_complete`

/-- the model's iteration in the same shape -/
def modelStep {σ : Type} (cfg : Cfg) (obs : Option StageObs) (i : Nat) (s : Stage σ) (a : Acc σ) : TrStep σ :=
  let o := stageStep cfg i s a
  ⟨o.acc, o.res.toList, o.evs, o.stop, stageSeen obs i s a⟩

/-- `on_cascade_complete`: returns / raises (what it is shown is the result that `run` is about to return) -/
abbrev CascObs := Unit → Out Unit

/-- the part of `run` after the loop -/
def finish {σ : Type} (n : Nat) (r : Run σ) : Result σ :=
  let c := completedCount r.results
  let ok := c == n && r.acc.blockedAt.isNone
  { success := ok, final := if ok then some r.acc.cur else none, completed := c, total := n
    amplification := r.acc.amp, blockedAt := r.acc.blockedAt, results := r.results, log := r.log }

/-- … including the `on_cascade_complete` callback: called last, with the finished result; if it raises, `run` raises -/
def finishC {σ : Type} (cobs : Option CascObs) (n : Nat) (r : Run σ) : Out (Result σ) :=
  match cobs with
  | none => .ok (finish n r)
  | some f =>
    match f () with
    | .ok _ => .ok (finish n r)
    | .raise => .raise

/-- `run` with both observers: what the call returns (or that it raises) and the stages shown to `on_stage_complete` -/
def resultC {σ : Type} (cfg : Cfg) (obs : Option StageObs) (cobs : Option CascObs) (stages : List (Stage σ)) (x : σ) :
    Out (Result σ) × List Nat :=
  let r := runFromO cfg obs 0 stages ⟨x, clamp cfg 1, none⟩
  (finishC cobs stages.length r.1, r.2)

/-- a Python `for` loop with `break`: fold a translated body over the stages -/
def loopTr {σ : Type} (body : Nat → Stage σ → Acc σ → Option (TrStep σ)) :
    Nat → List (Stage σ) → Acc σ → Option (Run σ × List Nat)
  | _, [], a => some (⟨a, [], []⟩, [])
  | i, s :: rest, a =>
    match body i s a with
    | none => none
    | some o =>
      if o.stop then some (⟨o.acc, o.res, o.evs⟩, o.seen)
      else
        match loopTr body (i + 1) rest o.acc with
        | none => none
        | some r => some (⟨r.1.acc, o.res ++ r.1.results, o.evs ++ r.1.log⟩, o.seen ++ r.2)

/-- prologue, loop, epilogue -/
def runTr {σ : Type} (init : σ → Option (Acc σ)) (body : Nat → Stage σ → Acc σ → Option (TrStep σ))
    (fin : Nat → Run σ → Option (Out (Result σ))) (stages : List (Stage σ)) (x : σ) :
    Option (Out (Result σ) × List Nat) :=
  match init x with
  | none => none
  | some a =>
    match loopTr body 0 stages a with
    | none => none
    | some r =>
      match fin stages.length r.1 with
      | none => none
      | some o => some (o, r.2)

end Operon.Cascade
