import Operon.Model.Gates
/-
  Model of `operon_ai/organelles/membrane.py :: Membrane` (C10).

  State mirrors the instance attributes: `signatures`, `_learned_patterns` (an insertion-ordered dict keyed
  by the pattern text), `threshold`, `enable_adaptive`, `rate_limit`, `_request_times`, `_blocked_hashes`,
  `_audit_log`, `_total_filtered`, `_total_blocked`.  Time is a `Nat` (microseconds); the window length is the
  module constant (60 s) and reaches the driver through `Operon/Gen/GatesConsts.lean`.

  `_blocked_hashes` holds the first 16 hex digits of sha256 of the UTF-8 encoding (lone surrogates are
  passed through since the `fix:` commit); the model keeps the content itself — i.e. the hash prefix is treated as injective
  on the strings explored (trusted-base item).

  Not modelled: `on_threat` callback, console output, `processing_time_ms`, descriptions.
-/
namespace Operon.Gates

/-- which exit of `filter` produced a result (ghost tag; not a field of `FilterResult`) -/
inductive Reason where
  | rate | replay | scan
  deriving Repr, DecidableEq

structure FilterRes where
  allowed : Bool
  level : Nat
  matched : List Sig
  key : Str
  reason : Reason
  deriving Repr, DecidableEq

structure Membrane where
  sigs : List Sig
  learned : List Sig
  threshold : Nat
  adaptive : Bool
  rateLimit : Option Nat
  window : Nat
  reqTimes : List Nat
  blocked : List Str
  audit : List FilterRes
  totalFiltered : Nat
  totalBlocked : Nat
  deriving Repr

/-- `ThreatLevel.CRITICAL.value` -/
def critical : Nat := 3

def Membrane.new (sigs : List Sig) (threshold : Nat) (adaptive : Bool) (rateLimit : Option Nat)
    (window : Nat) : Membrane :=
  { sigs := sigs, learned := [], threshold := threshold, adaptive := adaptive, rateLimit := rateLimit,
    window := window, reqTimes := [], blocked := [], audit := [], totalFiltered := 0, totalBlocked := 0 }

/-- every signature a scan consults: innate + custom, then the learned ones in dict order -/
def Membrane.active (m : Membrane) : List Sig := m.sigs ++ m.learned

/-- `[t for t in self._request_times if t > now - 60]` (written without subtraction) -/
def prune (window now : Nat) (ts : List Nat) : List Nat := ts.filter (fun t => t + window > now)

/-- `_check_rate_limit`: (limited?, new `_request_times`) -/
def rateCheck (m : Membrane) (now : Nat) : Bool × List Nat :=
  match m.rateLimit with
  | none => (false, m.reqTimes)
  | some r =>
    if (prune m.window now m.reqTimes).length ≥ r then (true, prune m.window now m.reqTimes)
    else (false, prune m.window now m.reqTimes ++ [now])

/-- `d[s.pat] = s` on an insertion-ordered dict -/
def dictSet (d : List Sig) (s : Sig) : List Sig :=
  if d.any (fun x => x.pat = s.pat) then d.map (fun x => if x.pat = s.pat then s else x) else d ++ [s]

/-- `d.pop(p, None)` -/
def dictPop (d : List Sig) (p : Str) : List Sig := d.filter (fun x => x.pat ≠ p)

/-- last part of `filter`: the decision once the scan produced `ms` with maximum `lvl`
    (`ts` = the request list left by the rate check) -/
def Membrane.decide (m : Membrane) (ts : List Nat) (c : Str) (ms : List Sig) (lvl : Nat) : Membrane × Out FilterRes :=
  if lvl < m.threshold then
    ({ m with reqTimes := ts
              audit := m.audit ++ [⟨true, lvl, ms, c, .scan⟩]
              totalFiltered := m.totalFiltered + 1 },
     .ok ⟨true, lvl, ms, c, .scan⟩)
  else
    ({ m with reqTimes := ts
              blocked := c :: m.blocked
              audit := m.audit ++ [⟨false, lvl, ms, c, .scan⟩]
              totalFiltered := m.totalFiltered + 1, totalBlocked := m.totalBlocked + 1 },
     .ok ⟨false, lvl, ms, c, .scan⟩)

/-- `filter` after `_check_rate_limit` returned `rc` = (limited?, new request list): rate-limit exit, replay
    exit, or the scan over innate + custom + learned signatures -/
def Membrane.afterRate (env : Env) (m : Membrane) (c : Str) (rc : Bool × List Nat) : Membrane × Out FilterRes :=
  if rc.1 then
    ({ m with reqTimes := rc.2
              audit := m.audit ++ [⟨false, critical, [], c, .rate⟩]
              totalFiltered := m.totalFiltered + 1, totalBlocked := m.totalBlocked + 1 },
     .ok ⟨false, critical, [], c, .rate⟩)
  else if c ∈ m.blocked then
    ({ m with reqTimes := rc.2
              audit := m.audit ++ [⟨false, critical, [], c, .replay⟩]
              totalFiltered := m.totalFiltered + 1, totalBlocked := m.totalBlocked + 1 },
     .ok ⟨false, critical, [], c, .replay⟩)
  else
    (fun ms => m.decide rc.2 c ms (maxLevel ms)) (matched env m.active c)

/-- `Membrane.filter(signal)` at time `now` on content `c`.  (Since the `fix:` commit the hash is taken with
    `surrogatepass`, so no input raises; the `Out` type keeps the possibility visible.) -/
def Membrane.filter (env : Env) (m : Membrane) (now : Nat) (c : Str) : Membrane × Out FilterRes :=
  m.afterRate env c (rateCheck m now)

/-- `learn_threat`: constructs the signature (compiling a regex may raise `re.error`), stores it only when
    adaptive immunity is enabled. -/
def Membrane.learn (env : Env) (m : Membrane) (s : Sig) : Membrane × Out Unit :=
  if m.adaptive then
    if s.isRegex && !env.compiles s.pat then (m, .raise "error")
    else ({ m with learned := dictSet m.learned s }, .ok ())
  else (m, .ok ())

def Membrane.forget (m : Membrane) (p : Str) : Membrane := { m with learned := dictPop m.learned p }

/-- `import_antibodies` (not guarded by `enable_adaptive`) -/
def Membrane.importAb (m : Membrane) (abs : List Sig) : Membrane :=
  { m with learned := abs.foldl dictSet m.learned }

def Membrane.setThreshold (m : Membrane) (t : Nat) : Membrane := { m with threshold := t }

def Membrane.addSig (m : Membrane) (s : Sig) : Membrane := { m with sigs := m.sigs ++ [s] }

def Membrane.clearAudit (m : Membrane) : Membrane := { m with audit := [] }

/-! ### histories -/

inductive MOp where
  | filter (c : Str)
  | learn (s : Sig)
  | forget (p : Str)
  | importAb (abs : List Sig)
  | setThr (t : Nat)
  | addSig (s : Sig)
  | clearAudit
  | adv (d : Nat)
  deriving Repr

structure MSt where
  m : Membrane
  now : Nat

/-- one step of a history; the observation is the filter outcome, if the op was a filter call, stamped with
    the time of the call -/
def mstep (env : Env) (st : MSt) : MOp → MSt × Option (Nat × Out FilterRes)
  | .filter c => (⟨(st.m.filter env st.now c).1, st.now⟩, some (st.now, (st.m.filter env st.now c).2))
  | .learn s => (⟨(st.m.learn env s).1, st.now⟩, none)
  | .forget p => (⟨st.m.forget p, st.now⟩, none)
  | .importAb abs => (⟨st.m.importAb abs, st.now⟩, none)
  | .setThr t => (⟨st.m.setThreshold t, st.now⟩, none)
  | .addSig s => (⟨st.m.addSig s, st.now⟩, none)
  | .clearAudit => (⟨st.m.clearAudit, st.now⟩, none)
  | .adv d => (⟨st.m, st.now + d⟩, none)

/-- run a history: final state and the filter outcomes in order -/
def mrun (env : Env) : MSt → List MOp → MSt × List (Nat × Out FilterRes)
  | st, [] => (st, [])
  | st, op :: ops =>
    ((mrun env (mstep env st op).1 ops).1, (mstep env st op).2.toList ++ (mrun env (mstep env st op).1 ops).2)

end Operon.Gates
