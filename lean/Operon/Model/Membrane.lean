import Operon.Model.Gates
/-
  Model of `operon_ai/organelles/membrane.py :: Membrane` (C10).

  State mirrors the instance attributes: `signatures`, `_learned_patterns` (an insertion-ordered dict keyed
  by the pattern text), `threshold`, `enable_adaptive`, `rate_limit`, `on_threat`, `_request_times`,
  `_blocked_hashes`, `_audit_log`, `_total_filtered`, `_total_blocked`.  Time is a `Nat` (microseconds); the window
  length is the module constant (60 s) and reaches the driver through `Operon/Gen/GatesConsts.lean`.

  The public configuration attributes are read by `filter` at decision time, so histories contain their direct
  assignment (`m.rate_limit = …`, `m.threshold = …`, `m.enable_adaptive = …`, `m.on_threat = …`) besides the
  methods.

  `on_threat` is an adversary: a function of what it can observe through the public API at the moment it is
  called (`HookView`: audit trail, statistics) and of the result it is handed; it returns (`none`) or raises
  (`some cls`).  `filter` therefore yields the *decision* it took and, separately, the exception a hook raised
  (in which case the caller receives no result, but the decision was taken and must be fully booked).

  `_blocked_hashes` holds the first 16 hex digits of sha256 of the UTF-8 encoding (lone surrogates are
  passed through since the `fix:` commit); the model keeps the content itself — i.e. the hash prefix is treated as
  injective on the strings explored (trusted-base item).

  Not modelled: console output, `processing_time_ms`, descriptions.
-/
namespace Operon.Gates

/-- which exit of `filter` produced a result (ghost tag; not a field of `FilterResult`) -/
inductive Reason where
  | rate | replay | scan
  deriving Repr, DecidableEq

structure FilterRes where
  allowed : Bool
  level : Nat
  matched : List Sig
  key : Str
  reason : Reason
  deriving Repr, DecidableEq

/-- what a hook can read through `get_audit_log()` / `get_statistics()` while it runs -/
structure HookView where
  audit : List FilterRes
  totalFiltered : Nat
  totalBlocked : Nat
  learned : Nat
  blockedCount : Nat

/-- an `on_threat` callback: returns (`none`) or raises an exception of class `cls` (`some cls`) -/
abbrev Hook := HookView → FilterRes → Option String

structure Membrane where
  sigs : List Sig
  learned : List Sig
  threshold : Nat
  adaptive : Bool
  rateLimit : Option Nat
  window : Nat
  onThreat : Option Hook
  reqTimes : List Nat
  blocked : List Str
  audit : List FilterRes
  totalFiltered : Nat
  totalBlocked : Nat

/-- outcome of one `filter` call: the decision taken, and the exception class raised by the `on_threat` hook
    if it raised (then the caller gets the exception instead of the result) -/
structure FilterOut where
  decision : FilterRes
  raised : Option String

instance : Inhabited FilterRes := ⟨⟨false, 0, [], [], .rate⟩⟩
instance : Inhabited FilterOut := ⟨⟨default, none⟩⟩
instance : Inhabited Membrane := ⟨⟨[], [], 0, false, none, 0, none, [], [], [], 0, 0⟩⟩

/-- `ThreatLevel.CRITICAL.value` -/
def critical : Nat := 3

def Membrane.new (sigs : List Sig) (threshold : Nat) (adaptive : Bool) (rateLimit : Option Nat)
    (window : Nat) : Membrane :=
  { sigs := sigs, learned := [], threshold := threshold, adaptive := adaptive, rateLimit := rateLimit,
    window := window, onThreat := none, reqTimes := [], blocked := [], audit := [], totalFiltered := 0,
    totalBlocked := 0 }

def Membrane.view (m : Membrane) : HookView :=
  ⟨m.audit, m.totalFiltered, m.totalBlocked, m.learned.length, m.blocked.length⟩

/-- `if self.on_threat: self.on_threat(result)` -/
def hookRaise (h : Option Hook) (v : HookView) (r : FilterRes) : Option String :=
  match h with
  | none => none
  | some f => f v r

/-- every signature a scan consults: innate + custom, then the learned ones in dict order -/
def Membrane.active (m : Membrane) : List Sig := m.sigs ++ m.learned

/-- `[t for t in self._request_times if t > now - 60]` (written without subtraction) -/
def prune (window now : Nat) (ts : List Nat) : List Nat := ts.filter (fun t => t + window > now)

/-- `_check_rate_limit`: (limited?, new `_request_times`); reads the live `rate_limit` attribute -/
def rateCheck (m : Membrane) (now : Nat) : Bool × List Nat :=
  match m.rateLimit with
  | none => (false, m.reqTimes)
  | some r =>
    if (prune m.window now m.reqTimes).length ≥ r then (true, prune m.window now m.reqTimes)
    else (false, prune m.window now m.reqTimes ++ [now])

/-- `d[s.pat] = s` on an insertion-ordered dict -/
def dictSet (d : List Sig) (s : Sig) : List Sig :=
  if d.any (fun x => x.pat = s.pat) then d.map (fun x => if x.pat = s.pat then s else x) else d ++ [s]

/-- `d.pop(p, None)` -/
def dictPop (d : List Sig) (p : Str) : List Sig := d.filter (fun x => x.pat ≠ p)

/-- state after a blocking scan decision `res` has been booked (audit, counter, immune memory) -/
def Membrane.bookBlock (m : Membrane) (ts : List Nat) (c : Str) (res : FilterRes) : Membrane :=
  { m with reqTimes := ts
           blocked := c :: m.blocked
           audit := m.audit ++ [res]
           totalFiltered := m.totalFiltered + 1, totalBlocked := m.totalBlocked + 1 }

/-- last part of `filter`: the decision once the scan produced `ms` with maximum `lvl`
    (`ts` = the request list left by the rate check).  A blocking decision is booked first; the `on_threat`
    hook runs last and sees the booked state. -/
def Membrane.decide (m : Membrane) (ts : List Nat) (c : Str) (ms : List Sig) (lvl : Nat) : Membrane × FilterOut :=
  if lvl < m.threshold then
    ({ m with reqTimes := ts
              audit := m.audit ++ [⟨true, lvl, ms, c, .scan⟩]
              totalFiltered := m.totalFiltered + 1 },
     ⟨⟨true, lvl, ms, c, .scan⟩, none⟩)
  else
    (m.bookBlock ts c ⟨false, lvl, ms, c, .scan⟩,
     ⟨⟨false, lvl, ms, c, .scan⟩,
      hookRaise m.onThreat (m.bookBlock ts c ⟨false, lvl, ms, c, .scan⟩).view ⟨false, lvl, ms, c, .scan⟩⟩)

/-- `filter` after `_check_rate_limit` returned `rc` = (limited?, new request list): rate-limit exit, replay
    exit, or the scan over innate + custom + learned signatures -/
def Membrane.afterRate (env : Env) (m : Membrane) (c : Str) (rc : Bool × List Nat) : Membrane × FilterOut :=
  if rc.1 then
    ({ m with reqTimes := rc.2
              audit := m.audit ++ [⟨false, critical, [], c, .rate⟩]
              totalFiltered := m.totalFiltered + 1, totalBlocked := m.totalBlocked + 1 },
     ⟨⟨false, critical, [], c, .rate⟩, none⟩)
  else if c ∈ m.blocked then
    ({ m with reqTimes := rc.2
              audit := m.audit ++ [⟨false, critical, [], c, .replay⟩]
              totalFiltered := m.totalFiltered + 1, totalBlocked := m.totalBlocked + 1 },
     ⟨⟨false, critical, [], c, .replay⟩, none⟩)
  else
    (fun ms => m.decide rc.2 c ms (maxLevel ms)) (matched env m.active c)

/-- `Membrane.filter(signal)` at time `now` on content `c`.  (Since the `fix:` commit the hash is taken with
    `surrogatepass`; the only exception that can leave `filter` is one raised by the user's hook.) -/
def Membrane.filter (env : Env) (m : Membrane) (now : Nat) (c : Str) : Membrane × FilterOut :=
  m.afterRate env c (rateCheck m now)

/-- Several `filter` calls at one instant, one after the other in the listed order, call `i` under its own
    environment `envOf i`.  This is what `par` lines of the protocol mean in the model: the calls of concurrent
    threads, serialised in the order in which the threads passed through the critical section of
    `_check_rate_limit` (see `Operon/Model/RateConc.lean` for the statement-level model of that section and
    `c10_rate_check_linearizable` for why the serial order is faithful). -/
def Membrane.filterSeq (envOf : Nat → Env) (m : Membrane) (now : Nat) :
    List (Nat × Str) → Membrane × List (Nat × FilterOut)
  | [] => (m, [])
  | (i, c) :: rest =>
    ((Membrane.filterSeq envOf (m.filter (envOf i) now c).1 now rest).1,
     (i, (m.filter (envOf i) now c).2) :: (Membrane.filterSeq envOf (m.filter (envOf i) now c).1 now rest).2)

/-- The same calls as `filterSeq`, written as a loop with an accumulator (each call evaluated once, constant stack):
    what the driver executes for a `bulk` line — a LONG run of calls on one membrane (thousands of distinct inputs,
    so that any bound on what the membrane remembers would be crossed).  `c10_bulk_is_sequential_history` shows it
    is `filterSeq`, hence a history of `filter` operations. -/
def Membrane.filterLoop (envOf : Nat → Env) (now : Nat) :
    Membrane → List (Nat × Str) → List (Nat × FilterOut) → Membrane × List (Nat × FilterOut)
  | m, [], acc => (m, acc.reverse)
  | m, (i, c) :: rest, acc =>
    match m.filter (envOf i) now c with
    | (m', o) => Membrane.filterLoop envOf now m' rest ((i, o) :: acc)

/-- the inputs of a `bulk` line: `pre ++ decimal(i) ++ suf` for `i < n` (pairwise distinct) -/
def bulkInputs (pre suf : Str) (n : Nat) : List (Nat × Str) :=
  (List.range n).map fun i => (i, pre ++ (toString i).toList.map Char.toNat ++ suf)

/-- `learn_threat`: constructs the signature (compiling a regex may raise `re.error`), stores it only when
    adaptive immunity is enabled. -/
def Membrane.learn (env : Env) (m : Membrane) (s : Sig) : Membrane × Out Unit :=
  if m.adaptive then
    if s.isRegex && !env.compiles s.pat then (m, .raise "error")
    else ({ m with learned := dictSet m.learned s }, .ok ())
  else (m, .ok ())

def Membrane.forget (m : Membrane) (p : Str) : Membrane := { m with learned := dictPop m.learned p }

/-- `import_antibodies` (not guarded by `enable_adaptive`) -/
def Membrane.importAb (m : Membrane) (abs : List Sig) : Membrane :=
  { m with learned := abs.foldl dictSet m.learned }

/-- `export_antibodies()`: `list(self._learned_patterns.values())` -/
def Membrane.exportAb (m : Membrane) : List Sig := m.learned

/-- `set_threshold(t)` and the direct assignment `m.threshold = t` -/
def Membrane.setThreshold (m : Membrane) (t : Nat) : Membrane := { m with threshold := t }

def Membrane.addSig (m : Membrane) (s : Sig) : Membrane := { m with sigs := m.sigs ++ [s] }

def Membrane.clearAudit (m : Membrane) : Membrane := { m with audit := [] }

/-- the PUBLIC list `m.signatures` edited directly — `m.signatures = l`, and with `l` computed from the current list
    also `m.signatures.append(x)` / `.insert(0, x)` / `.pop()` / `del m.signatures[0]` / `.clear()` /
    `m.signatures[i] = x` (not through `add_signature`) -/
def Membrane.setSigs (m : Membrane) (l : List Sig) : Membrane := { m with sigs := l }

/-- `m.rate_limit = r` -/
def Membrane.setRate (m : Membrane) (r : Option Nat) : Membrane := { m with rateLimit := r }

/-- `m.enable_adaptive = b` -/
def Membrane.setAdaptive (m : Membrane) (b : Bool) : Membrane := { m with adaptive := b }

/-- `m.on_threat = h` -/
def Membrane.setHook (m : Membrane) (h : Option Hook) : Membrane := { m with onThreat := h }

/-! ### histories -/

inductive MOp where
  | filter (c : Str)
  | learn (s : Sig)
  | forget (p : Str)
  | importAb (abs : List Sig)
  | setThr (t : Nat)
  | addSig (s : Sig)
  | clearAudit
  | adv (d : Nat)
  | setRate (r : Option Nat)
  | setAdaptive (b : Bool)
  | setHook (h : Option Hook)
  | setSigs (l : List Sig)

structure MSt where
  m : Membrane
  now : Nat

/-- what a history records about one filter call: when, the rate limit in force, the outcome -/
structure MEv where
  t : Nat
  limit : Option Nat
  out : FilterOut

/-- one step of a history -/
def mstep (env : Env) (st : MSt) : MOp → MSt × Option MEv
  | .filter c => (⟨(st.m.filter env st.now c).1, st.now⟩, some ⟨st.now, st.m.rateLimit, (st.m.filter env st.now c).2⟩)
  | .learn s => (⟨(st.m.learn env s).1, st.now⟩, none)
  | .forget p => (⟨st.m.forget p, st.now⟩, none)
  | .importAb abs => (⟨st.m.importAb abs, st.now⟩, none)
  | .setThr t => (⟨st.m.setThreshold t, st.now⟩, none)
  | .addSig s => (⟨st.m.addSig s, st.now⟩, none)
  | .clearAudit => (⟨st.m.clearAudit, st.now⟩, none)
  | .adv d => (⟨st.m, st.now + d⟩, none)
  | .setRate r => (⟨st.m.setRate r, st.now⟩, none)
  | .setAdaptive b => (⟨st.m.setAdaptive b, st.now⟩, none)
  | .setHook h => (⟨st.m.setHook h, st.now⟩, none)
  | .setSigs l => (⟨st.m.setSigs l, st.now⟩, none)

/-- run a history: final state and the filter events in order -/
def mrun (env : Env) : MSt → List MOp → MSt × List MEv
  | st, [] => (st, [])
  | st, op :: ops =>
    ((mrun env (mstep env st op).1 ops).1, (mstep env st op).2.toList ++ (mrun env (mstep env st op).1 ops).2)

/-- **A re-entrant `on_threat` hook.**  The user's hook, while it runs (the blocking decision is booked at that point),
    un-installs itself (`m.on_threat = None`, a public attribute), calls back into the membrane — the operations
    `ops`: `m.filter(…)`, `m.learn_threat(…)`, … —, re-installs itself (`h`) and returns.  Nothing follows the hook
    inside `filter`, so this is the state in which the outer call returns. -/
def Membrane.reenter (env : Env) (m : Membrane) (now : Nat) (h : Option Hook) (ops : List MOp) : MSt × List MEv :=
  match mrun env ⟨m.setHook none, now⟩ ops with
  | (st, evs) => (⟨st.m.setHook h, st.now⟩, evs)

end Operon.Gates
