/-
  Models of the three budgeted loops of property C18:

  * `operon_ai/healing/chaperone_loop.py :: ChaperoneLoop.heal`
  * `operon_ai/healing/regenerative_swarm.py :: RegenerativeSwarm.supervise / _spawn_worker / _run_worker`
  * `operon_ai/organelles/nucleus.py :: Nucleus.transcribe_with_tools` (and the `transcribe` it falls back to)

  Adversaries (DESIGN 6.4).  Every user-supplied callable — generator, validator (chaperone), worker factory,
  worker step, summarizer, LLM provider, tool executor — is a transition function of an *arbitrary* state type
  `σ` (a Mealy machine): it sees the adversary state and everything the code shows it, and answers with a new
  state and either a value or `raise`.  This subsumes "an arbitrary function of the call index and of
  everything it was shown" (take `σ := Nat × history`), and lets the callables of one loop share state.
  Theorems quantify over `σ`, the transition functions and the start state.

  Limits are `Int` (Python ints): `range(n)` runs `n.toNat` times, `while k <= n` / `while k < n` compare
  integers, so zero and negative limits are covered.

  Float-valued classifiers that the property does not depend on are *parameters* of the model (true for every
  choice): the confidence arithmetic of `heal` (`ConfOps`) and the entropy test of `_run_worker`
  (`SwarmCode.low`).  The driver instantiates them with IEEE doubles (`Float`), the same arithmetic Python uses.

  `while` loops are written with their real guard and an explicit fuel; an exhausted fuel yields `res = none`,
  a value the code cannot produce.  The budget theorems are proved for *every* fuel (so they follow from the
  guard, not from the fuel) and `*_fuel_sufficient` shows the entry points never run out.

  Sections 1–3 are the three loops with their limits fixed for the call.  Section 4: one live object serving a
  history of calls, its public attributes part of the adversary-visible state (assigned by the caller between
  calls and by the callbacks during them).  Section 5: the swarm with every limit read where the code reads it
  (`max_regenerations` at each loop test, `max_steps_per_worker` at each worker start, `entropy_threshold` at each
  entropy test).  `Model/LoopsDecay.lean`: `heal` with `confidence_decay` read at every attempt.

  Not modelled: console output, timestamps, `details` text of apoptosis events, the exact wording of the
  error-context / tool-result prompts (only which trace and which prefix of the raw output they carry),
  the `...` suffix after the 200-character prefix, `step_timeout` (unused by the code), provider auto-detection,
  `energy_cost` of log entries, an unbounded `tool_calls` iterable.
-/
namespace Operon.Loops

inductive Out (α : Type) where
  | ok (v : α)
  | raise
  deriving Repr, DecidableEq

def Out.toOption {α : Type} : Out α → Option α
  | .ok v => some v
  | .raise => none

/-! ## 1. `ChaperoneLoop.heal` -/

/-- The float arithmetic of the loop, kept abstract: `zero` is `0.0`, `cur k` is
    `max(0.0, 1.0 - k * confidence_decay)`, `min` is Python's `min`. -/
structure ConfOps (C : Type) where
  zero : C
  cur : Nat → C
  min : C → C → C

/-- What `chaperone.fold_enhanced(raw, schema)` returned (`EnhancedFoldedProtein`); `payload` stands for
    every field the loop does not touch (structure, strategy, attempts …). -/
structure Fold (κ C : Type) where
  valid : Bool
  conf : C
  trace : Option String
  payload : κ

/-- The error context a retry is shown: the error trace of the previous attempt and the first 200 characters
    of the previous raw output. -/
structure ErrCtx where
  trace : String
  rawShown : String
  deriving Repr, DecidableEq

def defaultTrace : String := "Unknown folding error"

/-- `folded.error_trace or "Unknown folding error"` -/
def traceOr : Option String → String
  | some s => if s = "" then defaultTrace else s
  | none => defaultTrace

/-- `raw_output[:200]` -/
def shownPrefix (raw : String) : String := String.ofList (raw.toList.take 200)

def mkCtx (trace : Option String) (raw : String) : ErrCtx := ⟨traceOr trace, shownPrefix raw⟩

structure HealAdv (σ κ C : Type) where
  /-- `generator(prompt, error_context)` -/
  gen : σ → String → Option ErrCtx → σ × Out String
  /-- `chaperone.fold_enhanced(raw_output, schema)` -/
  fold : σ → String → σ × Out (Fold κ C)

inductive Outcome where
  | validFirstTry | healed | degraded
  deriving Repr, DecidableEq

structure Attempt (C : Type) where
  num : Nat
  raw : String
  trace : Option String
  success : Bool
  conf : C

structure HealResult (κ C : Type) where
  outcome : Outcome
  folded : Option (Fold κ C)
  attempts : List (Attempt C)
  finalConf : C
  tagged : Bool

/-- `HealingResult.valid` -/
def HealResult.isValid {κ C : Type} (r : HealResult κ C) : Bool :=
  match r.outcome with
  | .validFirstTry => true
  | .healed => true
  | .degraded => false

/-- Ghost record of one generator invocation: what it was shown, what it did, and what the validator
    answered on its output (`none` when the generator raised). -/
structure GenCall (κ C : Type) where
  prompt : String
  ctx : Option ErrCtx
  out : Out String
  fold : Option (Out (Fold κ C))

structure HealRun (σ κ C : Type) where
  st : σ
  res : Out (HealResult κ C)
  calls : List (GenCall κ C)

structure HealCfg where
  maxRetries : Int

/-- The body of `for attempt_num in range(self.max_retries + 1)`: `rem` iterations remain, `k` is
    `attempt_num`, `ctx` is `error_context`, `atts` is `attempts`. -/
def healLoop {σ κ C : Type} (ops : ConfOps C) (adv : HealAdv σ κ C) (prompt : String) :
    Nat → Nat → Option ErrCtx → List (Attempt C) → σ → HealRun σ κ C
  | 0, _, _, atts, s =>
    { st := s
      res := .ok { outcome := .degraded, folded := none, attempts := atts, finalConf := ops.zero, tagged := true }
      calls := [] }
  | rem + 1, k, ctx, atts, s =>
    match adv.gen s prompt ctx with
    | (s1, .raise) => { st := s1, res := .raise, calls := [⟨prompt, ctx, .raise, none⟩] }
    | (s1, .ok raw) =>
      match adv.fold s1 raw with
      | (s2, .raise) => { st := s2, res := .raise, calls := [⟨prompt, ctx, .ok raw, some .raise⟩] }
      | (s2, .ok f) =>
        if f.valid then
          { st := s2
            res := .ok
              { outcome := if k = 0 then .validFirstTry else .healed
                folded := some ⟨f.valid, ops.min f.conf (ops.cur k), f.trace, f.payload⟩
                attempts := atts ++ [⟨k, raw, none, true, ops.cur k⟩]
                finalConf := ops.min f.conf (ops.cur k)
                tagged := false }
            calls := [⟨prompt, ctx, .ok raw, some (.ok f)⟩] }
        else
          let r := healLoop ops adv prompt rem (k + 1) (some (mkCtx f.trace raw))
            (atts ++ [⟨k, raw, some (traceOr f.trace), false, ops.zero⟩]) s2
          { st := r.st, res := r.res, calls := ⟨prompt, ctx, .ok raw, some (.ok f)⟩ :: r.calls }

/-- `ChaperoneLoop.heal(prompt)` -/
def heal {σ κ C : Type} (ops : ConfOps C) (cfg : HealCfg) (adv : HealAdv σ κ C) (s : σ) (prompt : String) :
    HealRun σ κ C :=
  healLoop ops adv prompt (cfg.maxRetries + 1).toNat 0 none [] s

/-! ## 2. `RegenerativeSwarm.supervise` -/

/-- The pure functions of the code over worker outputs.  `marker` is `_is_success`; `distinct` counts the
    distinct md5 prefixes of the window (distinct outputs, md5 taken as injective on them); `low u n` is
    `u / n < 1 - entropy_threshold` in floats. -/
structure SwarmCode (ω : Type) where
  marker : ω → Bool
  distinct : List ω → Nat
  low : Nat → Nat → Bool

structure SwarmCfg where
  maxRegen : Int
  maxSteps : Int

structure SwarmAdv (σ W ω η ι τ : Type) where
  /-- `worker_factory(f"worker_{n}", memory_hints)` -/
  factory : σ → Nat → η → σ × Out W
  /-- `worker.step(task)` -/
  step : σ → W → τ → σ × Out ω
  /-- `summarizer(worker.memory)` -/
  summarize : σ → W → σ × Out η
  /-- `worker.id` -/
  wid : W → ι

/-- Instance state that survives `supervise` calls (`_worker_counter`, `_apoptosis_events`,
    `_regeneration_events`; never reset by the code). -/
structure SwarmSt (ι η : Type) where
  counter : Nat
  apop : List (ι × η)
  regen : List (ι × Nat × η)

structure SwarmResult (ω ι : Type) where
  success : Bool
  output : Option ω
  total : Nat
  finalId : Option ι

/-- Ghost record of one spawn: the name counter and hints the factory was shown, what it returned, the
    outcome of every `step` call made on that worker during this spawn, and the summarizer's answer. -/
structure Spawn (W ω η : Type) where
  name : Nat
  hints : η
  worker : Out W
  steps : List (Out ω)
  summ : Option (Out η)

structure WorkerRun (σ ω : Type) where
  st : σ
  res : Out (Option ω)
  steps : List (Out ω)

/-- `recent_outputs.append(output); if len(recent_outputs) > 3: recent_outputs.pop(0)` -/
def window {ω : Type} (recent : List ω) (o : ω) : List ω :=
  if (recent ++ [o]).length > 3 then (recent ++ [o]).drop 1 else recent ++ [o]

/-- `_run_worker`: `n` iterations of `for _ in range(self.max_steps_per_worker)` remain. -/
def runWorker {σ W ω η ι τ : Type} (code : SwarmCode ω) (adv : SwarmAdv σ W ω η ι τ) (w : W) (task : τ) :
    Nat → List ω → σ → WorkerRun σ ω
  | 0, _, s => { st := s, res := .ok none, steps := [] }
  | n + 1, recent, s =>
    match adv.step s w task with
    | (s1, .raise) => { st := s1, res := .raise, steps := [.raise] }
    | (s1, .ok o) =>
      if code.marker o then { st := s1, res := .ok (some o), steps := [.ok o] }
      else if (window recent o).length ≥ 3 && code.low (code.distinct (window recent o)) (window recent o).length then
        { st := s1, res := .ok none, steps := [.ok o] }
      else
        let r := runWorker code adv w task n (window recent o) s1
        { st := r.st, res := r.res, steps := .ok o :: r.steps }

structure SwarmRun (σ W ω η ι : Type) where
  st : σ
  sw : SwarmSt ι η
  res : Option (Out (SwarmResult ω ι))
  spawns : List (Spawn W ω η)

/-- The `while regenerations <= self.max_regenerations` loop; `k` is `regenerations`. -/
def superviseLoop {σ W ω η ι τ : Type} (code : SwarmCode ω) (cfg : SwarmCfg) (adv : SwarmAdv σ W ω η ι τ)
    (task : τ) : Nat → Nat → η → SwarmSt ι η → σ → SwarmRun σ W ω η ι
  | 0, _, _, sw, s => { st := s, sw := sw, res := none, spawns := [] }
  | fuel + 1, k, hints, sw, s =>
    if (k : Int) ≤ cfg.maxRegen then
      -- _spawn_worker: the counter is incremented before the factory is called
      match adv.factory s (sw.counter + 1) hints with
      | (s1, .raise) =>
        { st := s1, sw := ⟨sw.counter + 1, sw.apop, sw.regen⟩, res := some .raise
          spawns := [⟨sw.counter + 1, hints, .raise, [], none⟩] }
      | (s1, .ok w) =>
        match runWorker code adv w task cfg.maxSteps.toNat [] s1 with
        | ⟨s2, .raise, steps⟩ =>
          { st := s2, sw := ⟨sw.counter + 1, sw.apop, sw.regen⟩, res := some .raise
            spawns := [⟨sw.counter + 1, hints, .ok w, steps, none⟩] }
        | ⟨s2, .ok (some o), steps⟩ =>
          { st := s2, sw := ⟨sw.counter + 1, sw.apop, sw.regen⟩
            res := some (.ok ⟨true, some o, sw.counter + 1, some (adv.wid w)⟩)
            spawns := [⟨sw.counter + 1, hints, .ok w, steps, none⟩] }
        | ⟨s2, .ok none, steps⟩ =>
          -- _trigger_apoptosis
          match adv.summarize s2 w with
          | (s3, .raise) =>
            { st := s3, sw := ⟨sw.counter + 1, sw.apop, sw.regen⟩, res := some .raise
              spawns := [⟨sw.counter + 1, hints, .ok w, steps, some .raise⟩] }
          | (s3, .ok h) =>
            let r := superviseLoop code cfg adv task fuel (k + 1) h
              ⟨sw.counter + 1, sw.apop ++ [(adv.wid w, h)],
                if ((k + 1 : Nat) : Int) ≤ cfg.maxRegen then sw.regen ++ [(adv.wid w, sw.counter + 2, h)]
                else sw.regen⟩ s3
            { st := r.st, sw := r.sw, res := r.res
              spawns := ⟨sw.counter + 1, hints, .ok w, steps, some (.ok h)⟩ :: r.spawns }
    else
      { st := s, sw := sw, res := some (.ok ⟨false, none, sw.counter, none⟩), spawns := [] }

/-- Fuel that always suffices for `superviseLoop` started at `k = 0`. -/
def superviseFuel (cfg : SwarmCfg) : Nat := (cfg.maxRegen + 1).toNat + 1

/-- `RegenerativeSwarm.supervise(task)`; `hints0` is the initial `memory_hints = []`. -/
def supervise {σ W ω η ι τ : Type} (code : SwarmCode ω) (cfg : SwarmCfg) (adv : SwarmAdv σ W ω η ι τ)
    (task : τ) (hints0 : η) (sw : SwarmSt ι η) (s : σ) : SwarmRun σ W ω η ι :=
  superviseLoop code cfg adv task (superviseFuel cfg) 0 hints0 sw s

/-! ### `_is_success` on strings (used by the driver and by the string-level corollary) -/

/-- `p` occurs as a contiguous block of `s` -/
def hasInfix (p : List Char) : List Char → Bool
  | [] => p.isEmpty
  | c :: cs => p.isPrefixOf (c :: cs) || hasInfix p cs

def markers : List String := ["SUCCESS", "SOLVED", "COMPLETE", "DONE", "FINISHED"]

/-- `any(marker in output.upper() for marker in success_markers)`; `String.toUpper` is ASCII upper-casing, which
    agrees with Python's `str.upper` on the ASCII outputs the correspondence uses. -/
def strMarker (o : String) : Bool := markers.any fun m => hasInfix m.toList o.toUpper.toList

/-! ## 3. `Nucleus.transcribe_with_tools` -/

structure ToolCfg where
  maxIter : Int
  autoExec : Bool
  /-- `mitochondria.export_tool_schemas()` is non-empty -/
  hasSchemas : Bool
  /-- `hasattr(self.provider, 'complete_with_tools')` -/
  hasToolApi : Bool

/-- What a prompt carries besides the caller's text: `none` for the original prompt, `some rs` for
    "prompt + tool results `rs`" (the results of the latest round only, as in the code). -/
abbrev PromptView (θ : Type) := Option (List θ)

structure ToolAdv (σ ρ κ θ : Type) where
  /-- `provider.complete_with_tools(current_prompt, tools=…, config=…)`: the response and the calls `tool_calls`
      yields when iterated (none for `None`) -/
  completeTools : σ → PromptView θ → σ × Out (ρ × List κ)
  /-- Python truthiness of the returned `tool_calls` object (`if not tool_calls`), a property of what the provider
      returned: a list is truthy iff non-empty (`fun _ calls => !calls.isEmpty`), `None` is falsy, a generator
      object is truthy whatever it yields -/
  truthy : ρ → List κ → Bool
  /-- `provider.complete(prompt, config)` -/
  complete : σ → PromptView θ → σ × Out ρ
  /-- `mitochondria.execute_tool_call(call)` -/
  exec : σ → κ → σ × Out θ

/-- Ghost event log of the adversary calls made. -/
inductive TEv (ρ κ θ : Type) where
  | tools (p : PromptView θ) (out : Out (ρ × List κ))
  | exec (c : κ) (out : Out θ)
  | complete (p : PromptView θ) (out : Out ρ)

/-- A `Transcription` appended to `transcription_log`. -/
structure TLog (ρ θ : Type) where
  prompt : PromptView θ
  response : ρ

structure ToolRun (σ ρ κ θ : Type) where
  st : σ
  res : Option (Out ρ)
  logged : List (TLog ρ θ)
  evs : List (TEv ρ κ θ)

/-- `for call in tool_calls: tool_results.append(mitochondria.execute_tool_call(call))` -/
def execAll {σ ρ κ θ : Type} (adv : ToolAdv σ ρ κ θ) : List κ → σ → σ × Out (List θ) × List (TEv ρ κ θ)
  | [], s => (s, .ok [], [])
  | c :: cs, s =>
    match adv.exec s c with
    | (s1, .raise) => (s1, .raise, [.exec c .raise])
    | (s1, .ok r) =>
      match execAll adv cs s1 with
      | (s2, .raise, evs) => (s2, .raise, .exec c (.ok r) :: evs)
      | (s2, .ok rs, evs) => (s2, .ok (r :: rs), .exec c (.ok r) :: evs)

/-- `Nucleus.transcribe(prompt, config)` -/
def transcribe {σ ρ κ θ : Type} (adv : ToolAdv σ ρ κ θ) (p : PromptView θ) (s : σ) : ToolRun σ ρ κ θ :=
  match adv.complete s p with
  | (s1, .raise) => { st := s1, res := some .raise, logged := [], evs := [.complete p .raise] }
  | (s1, .ok r) => { st := s1, res := some (.ok r), logged := [⟨p, r⟩], evs := [.complete p (.ok r)] }

/-- The `while iterations < max_iterations` loop; `k` is `iterations` at the loop test, `cur` is
    `current_prompt`. -/
def toolLoop {σ ρ κ θ : Type} (cfg : ToolCfg) (adv : ToolAdv σ ρ κ θ) :
    Nat → Nat → PromptView θ → σ → ToolRun σ ρ κ θ
  | 0, _, _, s => { st := s, res := none, logged := [], evs := [] }
  | fuel + 1, k, cur, s =>
    if (k : Int) < cfg.maxIter then
      match adv.completeTools s cur with
      | (s1, .raise) => { st := s1, res := some .raise, logged := [], evs := [.tools cur .raise] }
      | (s1, .ok (resp, calls)) =>
        if !adv.truthy resp calls then
          { st := s1, res := some (.ok resp), logged := [⟨none, resp⟩], evs := [.tools cur (.ok (resp, calls))] }
        else if !cfg.autoExec then
          { st := s1, res := some (.ok resp), logged := [], evs := [.tools cur (.ok (resp, calls))] }
        else
          match execAll adv calls s1 with
          | (s2, .raise, evs) =>
            { st := s2, res := some .raise, logged := [], evs := .tools cur (.ok (resp, calls)) :: evs }
          | (s2, .ok results, evs) =>
            let r := toolLoop cfg adv fuel (k + 1) (some results) s2
            { st := r.st, res := r.res, logged := r.logged
              evs := .tools cur (.ok (resp, calls)) :: (evs ++ r.evs) }
    else
      transcribe adv cur s

def toolFuel (cfg : ToolCfg) : Nat := cfg.maxIter.toNat + 1

/-- `Nucleus.transcribe_with_tools(prompt, mitochondria, config, max_iterations, auto_execute)` -/
def transcribeWithTools {σ ρ κ θ : Type} (cfg : ToolCfg) (adv : ToolAdv σ ρ κ θ) (s : σ) : ToolRun σ ρ κ θ :=
  if !cfg.hasSchemas then transcribe adv none s
  else if !cfg.hasToolApi then transcribe adv none s
  else toolLoop cfg adv (toolFuel cfg) 0 none s

/-- `transcribe_with_tools` including its very first step: `mitochondria.export_tool_schemas()` is a callback of the
    mitochondria too — it answers non-empty / empty, or raises, and then no provider is ever called. -/
def transcribeWithToolsM {σ ρ κ θ : Type} (schemas : Out Bool) (cfg : ToolCfg) (adv : ToolAdv σ ρ κ θ) (s : σ) :
    ToolRun σ ρ κ θ :=
  match schemas with
  | .raise => { st := s, res := some .raise, logged := [], evs := [] }
  | .ok b => transcribeWithTools ⟨cfg.maxIter, cfg.autoExec, b, cfg.hasToolApi⟩ adv s

/-! ### event counters used by the theorems -/

def TEv.isTools {ρ κ θ : Type} : TEv ρ κ θ → Bool
  | .tools _ _ => true
  | _ => false

def TEv.isComplete {ρ κ θ : Type} : TEv ρ κ θ → Bool
  | .complete _ _ => true
  | _ => false

def TEv.isExec {ρ κ θ : Type} : TEv ρ κ θ → Bool
  | .exec _ _ => true
  | _ => false

/-- number of `complete_with_tools` calls = tool rounds -/
def toolRounds {ρ κ θ : Type} (evs : List (TEv ρ κ θ)) : Nat := (evs.filter TEv.isTools).length

/-- number of plain `complete` calls -/
def completions {ρ κ θ : Type} (evs : List (TEv ρ κ θ)) : Nat := (evs.filter TEv.isComplete).length

/-! ## 4. Histories on one live object: public attributes re-assigned between (and during) calls

  `ChaperoneLoop`, `RegenerativeSwarm` and `Nucleus` are dataclasses whose limits are plain public attributes
  (`loop.max_retries = 1`, `swarm.max_regenerations = 0`, `nucleus.transcription_log = []` …) and one object
  serves many calls.  The attributes are part of the *environment state* `σ` — the same state the adversarial
  callbacks carry — because everybody who holds the object can assign them: the caller between two calls
  (`ObjOp.assign`, an arbitrary function `σ → σ`) and the callbacks themselves while a call is running (their
  transition functions return the new `σ`).  `heal` reads `self.max_retries` once, when it is entered
  (`range(self.max_retries + 1)`), and the tool loop's budget is an argument of the call, so for these two the
  limit in force is the one of the state the call is *entered with*.  The swarm re-reads its limits while it
  runs: its live object (`SwarmObj`, after section 5) uses `superviseLoopL`, the swarm with every read made
  where the code makes it.
  `self.confidence_decay` is likewise read at every attempt: `Model/LoopsDecay.lean` (`healLoopL`, and the live
  loop object `HealObj`).  Private instance state `π` (`_worker_counter` and
  the event lists of the swarm, the `transcription_log` of the nucleus) is kept from call to call. -/

inductive ObjOp (σ α : Type) where
  /-- anything the holder of the object does between two calls: `obj.attr = v`, new scripts for the callbacks … -/
  | assign (f : σ → σ)
  /-- one call of the entry point with argument `a` (prompt / task / per-call configuration) -/
  | call (a : α)

/-- one operation on the object: new private state, new environment state, the call's result -/
def objStep {σ π α ρ : Type} (call : π → σ → α → π × σ × ρ) (p : π) (s : σ) : ObjOp σ α → π × σ × Option ρ
  | .assign f => (p, f s, none)
  | .call a => ((call p s a).1, (call p s a).2.1, some (call p s a).2.2)

/-- A history on one object: for every operation the private and environment state it *started in* and, for a
    call, its result. -/
def runObj {σ π α ρ : Type} (call : π → σ → α → π × σ × ρ) : π → σ → List (ObjOp σ α) → List (π × σ × Option ρ)
  | _, _, [] => []
  | p, s, op :: ops =>
    (p, s, (objStep call p s op).2.2) :: runObj call (objStep call p s op).1 (objStep call p s op).2.1 ops

/-- `nucleus.transcribe_with_tools(…, max_iterations, auto_execute)` on a live `Nucleus`: the budget is an
    argument of each call, the private state is `transcription_log`. -/
def nucCall {σ ρ κ θ : Type} (adv : ToolAdv σ ρ κ θ) (log : List (TLog ρ θ)) (s : σ) (cfg : ToolCfg) :
    List (TLog ρ θ) × σ × ToolRun σ ρ κ θ :=
  (log ++ (transcribeWithTools cfg adv s).logged, (transcribeWithTools cfg adv s).st, transcribeWithTools cfg adv s)

/-- the same with `export_tool_schemas()` as a callback that may raise -/
def nucCallM {σ ρ κ θ : Type} (adv : ToolAdv σ ρ κ θ) (log : List (TLog ρ θ)) (s : σ) (a : Out Bool × ToolCfg) :
    List (TLog ρ θ) × σ × ToolRun σ ρ κ θ :=
  (log ++ (transcribeWithToolsM a.1 a.2 adv s).logged, (transcribeWithToolsM a.1 a.2 adv s).st,
   transcribeWithToolsM a.1 a.2 adv s)

/-! ## 5. The swarm with its limits read where the code reads them

  `supervise` does not take a snapshot of its limits: `while regenerations <= self.max_regenerations` and
  `if regenerations <= self.max_regenerations` read the attribute every time round, `range(self.max_steps_per_worker)`
  is evaluated when a worker is started, and `self.entropy_threshold` is read at every entropy test.  A factory,
  worker or summarizer that holds the swarm can therefore move the budget *while the call runs* (a factory that
  raises `max_regenerations` on every call keeps the loop going for ever).  `superviseLoopL` reads each limit off
  the environment state at exactly those points; `reads` records, per spawn, the regeneration limit seen by the
  loop test that admitted it and the step budget its worker was started with.  With callbacks that leave the
  limits alone it is `superviseLoop` (`Lemmas/C18Live.lean`), for which the fuel `superviseFuel` suffices; in
  general no fuel suffices and `res = none` (out of fuel) stands for a call that has not returned yet. -/

structure SwarmLive (σ ω : Type) where
  /-- `self.max_regenerations` -/
  regenOf : σ → Int
  /-- `self.max_steps_per_worker` -/
  stepsOf : σ → Int
  marker : ω → Bool
  distinct : List ω → Nat
  /-- `entropy < 1 - self.entropy_threshold` with the threshold as it is in that state -/
  lowOf : σ → Nat → Nat → Bool

def SwarmLive.codeAt {σ ω : Type} (L : SwarmLive σ ω) (s : σ) : SwarmCode ω := ⟨L.marker, L.distinct, L.lowOf s⟩

def SwarmLive.cfgAt {σ ω : Type} (L : SwarmLive σ ω) (s : σ) : SwarmCfg := ⟨L.regenOf s, L.stepsOf s⟩

/-- `_run_worker` with the entropy threshold read at every test (in the state the step left) -/
def runWorkerL {σ W ω η ι τ : Type} (L : SwarmLive σ ω) (adv : SwarmAdv σ W ω η ι τ) (w : W) (task : τ) :
    Nat → List ω → σ → WorkerRun σ ω
  | 0, _, s => { st := s, res := .ok none, steps := [] }
  | n + 1, recent, s =>
    match adv.step s w task with
    | (s1, .raise) => { st := s1, res := .raise, steps := [.raise] }
    | (s1, .ok o) =>
      if L.marker o then { st := s1, res := .ok (some o), steps := [.ok o] }
      else if (window recent o).length ≥ 3 && L.lowOf s1 (L.distinct (window recent o)) (window recent o).length then
        { st := s1, res := .ok none, steps := [.ok o] }
      else
        let r := runWorkerL L adv w task n (window recent o) s1
        { st := r.st, res := r.res, steps := .ok o :: r.steps }

structure SwarmRunL (σ W ω η ι : Type) where
  st : σ
  sw : SwarmSt ι η
  res : Option (Out (SwarmResult ω ι))
  spawns : List (Spawn W ω η)
  /-- per spawn: `max_regenerations` as read by the loop test before it, `max_steps_per_worker` as read when its
      worker was started (0 when the factory raised) -/
  reads : List (Int × Int)

def SwarmRunL.toRun {σ W ω η ι : Type} (r : SwarmRunL σ W ω η ι) : SwarmRun σ W ω η ι := ⟨r.st, r.sw, r.res, r.spawns⟩

/-- the `while regenerations <= self.max_regenerations` loop with every read of a limit made where the code makes it -/
def superviseLoopL {σ W ω η ι τ : Type} (L : SwarmLive σ ω) (adv : SwarmAdv σ W ω η ι τ)
    (task : τ) : Nat → Nat → η → SwarmSt ι η → σ → SwarmRunL σ W ω η ι
  | 0, _, _, sw, s => { st := s, sw := sw, res := none, spawns := [], reads := [] }
  | fuel + 1, k, hints, sw, s =>
    if (k : Int) ≤ L.regenOf s then
      match adv.factory s (sw.counter + 1) hints with
      | (s1, .raise) =>
        { st := s1, sw := ⟨sw.counter + 1, sw.apop, sw.regen⟩, res := some .raise
          spawns := [⟨sw.counter + 1, hints, .raise, [], none⟩], reads := [(L.regenOf s, 0)] }
      | (s1, .ok w) =>
        match runWorkerL L adv w task (L.stepsOf s1).toNat [] s1 with
        | ⟨s2, .raise, steps⟩ =>
          { st := s2, sw := ⟨sw.counter + 1, sw.apop, sw.regen⟩, res := some .raise
            spawns := [⟨sw.counter + 1, hints, .ok w, steps, none⟩], reads := [(L.regenOf s, L.stepsOf s1)] }
        | ⟨s2, .ok (some o), steps⟩ =>
          { st := s2, sw := ⟨sw.counter + 1, sw.apop, sw.regen⟩
            res := some (.ok ⟨true, some o, sw.counter + 1, some (adv.wid w)⟩)
            spawns := [⟨sw.counter + 1, hints, .ok w, steps, none⟩], reads := [(L.regenOf s, L.stepsOf s1)] }
        | ⟨s2, .ok none, steps⟩ =>
          match adv.summarize s2 w with
          | (s3, .raise) =>
            { st := s3, sw := ⟨sw.counter + 1, sw.apop, sw.regen⟩, res := some .raise
              spawns := [⟨sw.counter + 1, hints, .ok w, steps, some .raise⟩], reads := [(L.regenOf s, L.stepsOf s1)] }
          | (s3, .ok h) =>
            let r := superviseLoopL L adv task fuel (k + 1) h
              ⟨sw.counter + 1, sw.apop ++ [(adv.wid w, h)],
                if ((k + 1 : Nat) : Int) ≤ L.regenOf s3 then sw.regen ++ [(adv.wid w, sw.counter + 2, h)]
                else sw.regen⟩ s3
            { st := r.st, sw := r.sw, res := r.res
              spawns := ⟨sw.counter + 1, hints, .ok w, steps, some (.ok h)⟩ :: r.spawns
              reads := (L.regenOf s, L.stepsOf s1) :: r.reads }
    else
      { st := s, sw := sw, res := some (.ok ⟨false, none, sw.counter, none⟩), spawns := [], reads := [] }

/-- `RegenerativeSwarm.supervise(task)` run for at most `fuel` turns of its `while` loop -/
def superviseL {σ W ω η ι τ : Type} (L : SwarmLive σ ω) (adv : SwarmAdv σ W ω η ι τ)
    (task : τ) (hints0 : η) (fuel : Nat) (sw : SwarmSt ι η) (s : σ) : SwarmRunL σ W ω η ι :=
  superviseLoopL L adv task fuel 0 hints0 sw s

/-! ### the live swarm object (uses `superviseL`, section 5) -/

/-- A live `RegenerativeSwarm`: its callbacks, how its public limits are read off the environment state (at every
    point where the code reads them), and how many turns of the `while` loop the model follows. -/
structure SwarmObj (σ W ω η ι τ : Type) where
  adv : SwarmAdv σ W ω η ι τ
  live : SwarmLive σ ω
  /-- the initial `memory_hints = []` -/
  hints0 : η
  fuel : Nat

/-- `swarm.supervise(task)` on the live object; the private state is `SwarmSt` -/
def SwarmObj.call {σ W ω η ι τ : Type} (o : SwarmObj σ W ω η ι τ) (sw : SwarmSt ι η) (s : σ) (task : τ) :
    SwarmSt ι η × σ × SwarmRunL σ W ω η ι :=
  ((superviseL o.live o.adv task o.hints0 o.fuel sw s).sw,
   (superviseL o.live o.adv task o.hints0 o.fuel sw s).st,
   superviseL o.live o.adv task o.hints0 o.fuel sw s)

end Operon.Loops
