import Operon.Model.CoordHist
/-
  Life-cycle calls on a live operation that do not go through the lock / graph machinery:

  * `controller.advance(ctx)` — one phase forward when the checkpoint of the current phase passes, also round the
    cycle (M → G0): the code calls `ctx.enter_phase(next)`, which writes `phase` and `phase_entered_at` and nothing
    else
  * public attributes of the context assigned from outside (`ctx.resources_acquired = b`, `.execution_complete`,
    `.validation_passed`, `metadata["watchdog_exempt"]`) — with the three flags `advance` can take an operation
    through every phase
  * virtual time passing

  `lstep` is what the line-protocol driver runs for `advance o` / `flag o f b` / `exempt o b` / `adv d`
  (Model/CoordDrv.lean), so the correspondence run validates exactly the function the theorems of Props/C15.lean
  (`c15_phase_cycling_*`) speak about.
-/
namespace Operon.Coord

inductive Flag where
  | resAcq | execDone | valPassed
  deriving DecidableEq, Repr

def setFlag (c : Ctx) : Flag → Bool → Ctx
  | .resAcq, b => { c with resAcq := b }
  | .execDone, b => { c with execDone := b }
  | .valPassed, b => { c with valPassed := b }

inductive LOp where
  | tick (d : Nat)
  | advance (o : Nat) (out : CpOut)
  | flag (o : Nat) (f : Flag) (b : Bool)
  | exempt (o : Nat) (b : Bool)
  deriving DecidableEq, Repr

/-- one life-cycle call; calls naming an operation that is not active are not made (as in the line protocol) -/
def lstep (s : Sys) : LOp → Sys
  | .tick d => { s with now := s.now + d }
  | .advance o out =>
    match s.ctx? o with
    | none => s
    | some c => s.setCtx (advance s.now c out).1
  | .flag o f b =>
    match s.ctx? o with
    | none => s
    | some c => s.setCtx (setFlag c f b)
  | .exempt o b =>
    match s.ctx? o with
    | none => s
    | some c => s.setCtx { c with exempt := b }

def lrun (s : Sys) (ops : List LOp) : Sys := ops.foldl lstep s

/-- every (phase, resources_acquired, execution_complete, validation_passed): the complete domain of `advance` with
    the default checkpoints -/
def advanceDomain : List (Phase × Bool × Bool × Bool) :=
  [Phase.g0, .g1, .s, .g2, .m].flatMap fun ph =>
    [false, true].flatMap fun a => [false, true].flatMap fun b => [false, true].map fun c => (ph, a, b, c)

/-- what the model's `advance` does to a context that is in phase `ph` with the three flags as given and entered its
    phase at time 0, when the clock shows 1: (passed?, phase afterwards, phase time written?, anything else — id,
    priority, tracked resources, flags, creation time, exemption — different?) -/
def advanceRow (ph : Phase) (a b c : Bool) : Bool × Phase × Bool × Bool :=
  let c0 : Ctx := { id := 5, prio := 7, phase := ph, phaseAt := 0, acquired := [1], resAcq := a, execDone := b,
                    valPassed := c, created := 0, exempt := false }
  let r := advance 1 c0 .base
  (r.2, r.1.phase, r.1.phaseAt == 1, r.1 != { c0 with phase := r.1.phase, phaseAt := r.1.phaseAt })

/-- the three-party ring of the victim probe: op1 → op2 → op3 → op1 recorded, the three operations active with the
    given priorities and creation times, no limits configured -/
def victimSys (st : Strategy) (p1 p2 p3 : Int) (c1 c2 c3 : Nat) : Sys :=
  { active := [{ id := 1, prio := p1, created := c1, phaseAt := c1 }, { id := 2, prio := p2, created := c2, phaseAt := c2 },
               { id := 3, prio := p3, created := c3, phaseAt := c3 }]
    edges := [(1, [(2, 1)]), (2, [(3, 2)]), (3, [(1, 3)])]
    strategy := st }

/-- whom the model's `Watchdog.check` names for the reason DEADLOCK on that ring -/
def victimRow (st : Strategy) (p1 p2 p3 : Int) (c1 c2 c3 : Nat) : List Nat :=
  (wdCheck (victimSys st p1 p2 p3 c1 c2 c3)).filterMap fun e => if e.2 = .deadlock then some e.1 else none

def victimDomain : List (Strategy × Int × Int × Int × Nat × Nat × Nat) :=
  let ps : List Int := [0, 1, 2]
  let cs : List Nat := [0, 90000000000, 255600000000]     -- 0, 25 h, 71 h in microseconds (ages of 3 d, 1 d 23 h, 1 h at 72 h)
  [Strategy.priority, .oldest, .other].flatMap fun st =>
    ps.flatMap fun p1 => ps.flatMap fun p2 => ps.flatMap fun p3 =>
      cs.flatMap fun c1 => cs.flatMap fun c2 => cs.map fun c3 => (st, p1, p2, p3, c1, c2, c3)

/-- what the victim rule of the watchdog reads of a context -/
def victimKey (c : Ctx) : Nat × Int × Nat := (c.id, c.prio, c.created)

/-- histories that mix controller calls with life-cycle calls -/
inductive XOp where
  | ctl (op : HOp)
  | life (op : LOp)
  deriving DecidableEq, Repr

def xstep (h : HSt) : XOp → HSt
  | .ctl op => hstep h op
  | .life op => { h with sys := lstep h.sys op }

def xrun (h : HSt) (ops : List XOp) : HSt := ops.foldl xstep h

end Operon.Coord
