import Operon.Model.CoordHist
/-
  Life-cycle calls on a live operation that do not go through the lock / graph machinery:

  * `controller.advance(ctx)` — one phase forward when the checkpoint of the current phase passes, also round the
    cycle (M → G0): the code calls `ctx.enter_phase(next)`, which writes `phase` and `phase_entered_at` and nothing
    else
  * public attributes of the context assigned from outside (`ctx.resources_acquired = b`, `.execution_complete`,
    `.validation_passed`, `metadata["watchdog_exempt"]`) — with the three flags `advance` can take an operation
    through every phase
  * virtual time passing

  `lstep` is what the line-protocol driver runs for `advance o` / `flag o f b` / `exempt o b` / `adv d`
  (Model/CoordDrv.lean), so the correspondence run validates exactly the function the theorems of Props/C15.lean
  (`c15_phase_cycling_*`) speak about.
-/
namespace Operon.Coord

inductive Flag where
  | resAcq | execDone | valPassed
  deriving DecidableEq, Repr

def setFlag (c : Ctx) : Flag → Bool → Ctx
  | .resAcq, b => { c with resAcq := b }
  | .execDone, b => { c with execDone := b }
  | .valPassed, b => { c with valPassed := b }

inductive LOp where
  | tick (d : Nat)
  | advance (o : Nat) (out : CpOut)
  | flag (o : Nat) (f : Flag) (b : Bool)
  | exempt (o : Nat) (b : Bool)
  deriving DecidableEq, Repr

/-- one life-cycle call; calls naming an operation that is not active are not made (as in the line protocol) -/
def lstep (s : Sys) : LOp → Sys
  | .tick d => { s with now := s.now + d }
  | .advance o out =>
    match s.ctx? o with
    | none => s
    | some c => s.setCtx (advance s.now c out).1
  | .flag o f b =>
    match s.ctx? o with
    | none => s
    | some c => s.setCtx (setFlag c f b)
  | .exempt o b =>
    match s.ctx? o with
    | none => s
    | some c => s.setCtx { c with exempt := b }

def lrun (s : Sys) (ops : List LOp) : Sys := ops.foldl lstep s

/-- what the victim rule of the watchdog reads of a context -/
def victimKey (c : Ctx) : Nat × Int × Nat := (c.id, c.prio, c.created)

/-- histories that mix controller calls with life-cycle calls -/
inductive XOp where
  | ctl (op : HOp)
  | life (op : LOp)
  deriving DecidableEq, Repr

def xstep (h : HSt) : XOp → HSt
  | .ctl op => hstep h op
  | .life op => { h with sys := lstep h.sys op }

def xrun (h : HSt) (ops : List XOp) : HSt := ops.foldl xstep h

end Operon.Coord
