import Operon.Model.Cascade
/-
  `Cascade.run` with the optional `on_stage_complete` observer.

  The observer is shown the stage result right after a processor returned and its COMPLETED result was recorded
  (never for a blocked, failed, skipped or handler-recovered stage).  It is called in a try block of its own: whether
  it returns or raises (`StageObs : stage index ↦ returns / raises`) is not consulted by anything that follows.
  The model therefore carries the observer's behaviour as a parameter that no definition below inspects, and records
  which stages it was shown (`seen`), oldest first.

  (Up to /repo commit 2a7a84c the call sat inside the processor's try block and a raising observer was handled as a
  processor failure that happened after the fact — second result for the same stage, signal replaced; see
  `known_findings.json`, C19-raising-observer.)
-/
namespace Operon.Cascade

/-- `on_stage_complete`: stage index ↦ returns / raises -/
abbrev StageObs := Nat → Out Unit

/-- the gate of stage `s` lets signal `x` through -/
def gateOpen {σ : Type} (s : Stage σ) (x : σ) : Bool :=
  match s.checkpoint with
  | none => true
  | some cp => (match cp x with | .ok true => true | _ => false)

/-- the stages the observer is shown while stage `i` is worked: `[i]` when the processor returned, else nothing -/
def stageSeen {σ : Type} (obs : Option StageObs) (i : Nat) (s : Stage σ) (a : Acc σ) : List Nat :=
  match obs with
  | none => []
  | some _ =>
    if gateOpen s a.cur then
      (match procOutcome s a.cur with | .ok _ => [i] | _ => [])
    else []

def runFromO {σ : Type} (cfg : Cfg) (obs : Option StageObs) : Nat → List (Stage σ) → Acc σ → Run σ × List Nat
  | _, [], a => (⟨a, [], []⟩, [])
  | i, s :: rest, a =>
    let o := stageStep cfg i s a
    let sn := stageSeen obs i s a
    if o.stop then (⟨o.acc, o.res.toList, o.evs⟩, sn)
    else
      let r := runFromO cfg obs (i + 1) rest o.acc
      (⟨r.1.acc, o.res.toList ++ r.1.results, o.evs ++ r.1.log⟩, sn ++ r.2)

/-- the reported result and the list of stages the observer was shown -/
def resultO {σ : Type} (cfg : Cfg) (obs : Option StageObs) (stages : List (Stage σ)) (x : σ) : Result σ × List Nat :=
  let r := runFromO cfg obs 0 stages ⟨x, clamp cfg 1, none⟩
  let c := completedCount r.1.results
  let ok := c == stages.length && r.1.acc.blockedAt.isNone
  ({ success := ok, final := if ok then some r.1.acc.cur else none, completed := c, total := stages.length
     amplification := r.1.acc.amp, blockedAt := r.1.acc.blockedAt, results := r.1.results, log := r.1.log }, r.2)

/-- Everything user code is called for during a run, in call order: the callbacks of the stages (`cb`) and the notifications
    of `on_stage_complete` (`shown i`: the observer is handed the result of stage `i`). -/
inductive Note (σ : Type) where
  | cb (e : Ev σ)
  | shown (i : Nat)
  deriving Repr, DecidableEq

/-- the calls made while stage `i` is worked: its callbacks, then — if its processor returned — the notification (the observer
    is called after the COMPLETED result was recorded and before the next stage's gate is consulted) -/
def stepNotes {σ : Type} (cfg : Cfg) (obs : Option StageObs) (i : Nat) (s : Stage σ) (a : Acc σ) : List (Note σ) :=
  (stageStep cfg i s a).evs.map .cb ++ (stageSeen obs i s a).map .shown

def notesFrom {σ : Type} (cfg : Cfg) (obs : Option StageObs) : Nat → List (Stage σ) → Acc σ → List (Note σ)
  | _, [], _ => []
  | i, s :: rest, a =>
    if (stageStep cfg i s a).stop then stepNotes cfg obs i s a
    else stepNotes cfg obs i s a ++ notesFrom cfg obs (i + 1) rest (stageStep cfg i s a).acc

/-- the call sequence of `run` -/
def notes {σ : Type} (cfg : Cfg) (obs : Option StageObs) (stages : List (Stage σ)) (x : σ) : List (Note σ) :=
  notesFrom cfg obs 0 stages ⟨x, clamp cfg 1, none⟩

def Note.cb? {σ : Type} : Note σ → Option (Ev σ)
  | .cb e => some e
  | .shown _ => none

def Note.shown? {σ : Type} : Note σ → Option Nat
  | .cb _ => none
  | .shown i => some i

end Operon.Cascade
