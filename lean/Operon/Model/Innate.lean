import Operon.Model.Gates
/-
  Model of `operon_ai/surveillance/innate.py :: InnateImmunity` with the three shipped structural
  validators (C10).

  TLR patterns are `Sig`s (level = severity).  Validators: `LengthValidator`, `CharacterSetValidator` concretely,
  `JSONValidator` with `json.loads` as `Env.json` and `_measure_depth` concretely.  Inflammation: the cut-offs of
  `_evaluate_inflammation` are parameters (`InflCuts`, regenerated from the source into
  `Operon/Gen/GatesConsts.lean`); time is a `Nat` of microseconds.

  `on_inflammation` is an adversary like the membrane's `on_threat` (returns or raises, sees the public state).
  Not modelled: console output, `recent_alerts`, `triggered_at`, the
  response's `actions` / `escalate_to` / `rate_limit_factor` (functions of the level only), messages,
  user-written validators.  `_measure_depth` is modelled without CPython's recursion limit (the harness keeps
  `max_depth` small, so its recursion is at most `max_depth + 2` deep).
-/
namespace Operon.Gates

inductive Validator where
  | length (min max : Nat)
  | charset (allowCtl allowNull : Bool)
  | json (maxDepth maxSize : Nat)
  deriving Repr, DecidableEq

mutual
/-- `JSONValidator._measure_depth(obj, current)` -/
def measure (md : Nat) : J → Nat → Nat
  | .scalar, cur => cur
  | .node xs, cur =>
    if cur > md then cur
    else match xs with
      | [] => cur + 1
      | y :: ys => measureMax md (y :: ys) (cur + 1)
/-- `max(self._measure_depth(v, current) for v in children)` (non-empty) -/
def measureMax (md : Nat) : List J → Nat → Nat
  | [], _ => 0
  | x :: xs, cur => max (measure md x cur) (measureMax md xs cur)
end

/-- control character other than tab, newline, carriage return -/
def isBadCtl (c : Nat) : Bool := c < 32 && c != 9 && c != 10 && c != 13

/-- `validator.validate(content)`: `ok true` = valid, `ok false` = rejected with a message. -/
def Validator.run (env : Env) (v : Validator) (c : Str) : Out Bool :=
  match v with
  | .length mn mx => .ok (!(c.length < mn) && !(c.length > mx))
  | .charset allowCtl allowNull =>
    if !allowNull && c.contains 0 then .ok false
    else if !allowCtl && c.any isBadCtl then .ok false
    else .ok true
  | .json md ms =>
    if c.length > ms then .ok false
    else match env.json c with
      | .parsed t => .ok (!(measure md t 0 > md))
      | .decodeError => .ok false
      | .valueError => .ok false        -- `except (ValueError, RecursionError)` since the fix: commit
      | .recursionError => .ok false
      | .other => .raise "other"

/-- the validators that rejected, in order; a raising validator aborts the loop -/
def runValidators (env : Env) : List Validator → Str → Out (List Validator)
  | [], _ => .ok []
  | v :: vs, c =>
    match v.run env c with
    | .raise k => .raise k
    | .ok valid =>
      match runValidators env vs c with
      | .raise k => .raise k
      | .ok es => .ok (if valid then es else v :: es)

/-- cut-offs of `_evaluate_inflammation` -/
structure InflCuts where
  acuteTotal : Nat
  acuteMax : Nat
  highTotal : Nat
  highMax : Nat
  medTotal : Nat
  medCount : Nat
  lowCount : Nat
  errWeight : Nat
  deriving Repr, DecidableEq

/-- `InflammationLevel` values -/
def lvlNone : Nat := 0
def lvlLow : Nat := 1
def lvlMedium : Nat := 2
def lvlHigh : Nat := 3
def lvlAcute : Nat := 4

def newLevel (k : InflCuts) (total maxSev count : Nat) (cooling : Bool) : Nat :=
  if total ≥ k.acuteTotal ∨ maxSev ≥ k.acuteMax then lvlAcute
  else if total ≥ k.highTotal ∨ maxSev ≥ k.highMax then lvlHigh
  else if total ≥ k.medTotal ∨ count ≥ k.medCount then lvlMedium
  else if count ≥ k.lowCount then lvlLow
  else if cooling then lvlLow
  else lvlNone

def sumLevels : List Sig → Nat
  | [] => 0
  | s :: r => s.level + sumLevels r

/-- what an `on_inflammation` hook can read through `stats()` / `get_inflammation_state()` while it runs -/
structure InnView where
  inflLevel : Nat
  triggerCount : Nat
  checkCount : Nat
  blockCount : Nat

/-- an `on_inflammation` callback: handed the response level; returns (`none`) or raises (`some cls`) -/
abbrev InnHook := InnView → Nat → Option String

structure Innate where
  patterns : List Sig
  validators : List Validator
  sevThreshold : Nat
  decay : Nat
  cuts : InflCuts
  onInflammation : Option InnHook
  inflLevel : Nat
  triggerCount : Nat
  cooldownUntil : Option Nat
  checkCount : Nat
  blockCount : Nat

def Innate.view (im : Innate) : InnView := ⟨im.inflLevel, im.triggerCount, im.checkCount, im.blockCount⟩

/-- `if self.on_inflammation and new_level > NONE: self.on_inflammation(response)` -/
def innHookRaise (h : Option InnHook) (v : InnView) (lvl : Nat) : Option String :=
  match h with
  | none => none
  | some f => f v lvl

/-- constructor glue: `validators or [LengthValidator(max_length=100_000), CharacterSetValidator()]` — an
    empty list is falsy and gets the defaults too -/
def Innate.new (patterns : List Sig) (validators : Option (List Validator)) (defaults : List Validator)
    (sevThreshold decay : Nat) (cuts : InflCuts) : Innate :=
  { patterns := patterns
    validators := match validators with
      | none => defaults
      | some [] => defaults
      | some (v :: vs) => v :: vs
    sevThreshold := sevThreshold, decay := decay, cuts := cuts, onInflammation := none
    inflLevel := lvlNone, triggerCount := 0, cooldownUntil := none, checkCount := 0, blockCount := 0 }

structure CheckRes where
  allowed : Bool
  matched : List Sig
  errors : List Validator
  level : Nat
  deriving Repr, DecidableEq

def Innate.cooling (im : Innate) (now : Nat) : Bool :=
  match im.cooldownUntil with
  | none => false
  | some t => now < t

/-- the inflammation level for matched patterns `ms` and rejecting validators `errs` at time `now` -/
def Innate.levelOf (im : Innate) (now : Nat) (ms : List Sig) (errs : List Validator) : Nat :=
  newLevel im.cuts (sumLevels ms + errs.length * im.cuts.errWeight) (maxLevel ms) (ms.length + errs.length)
    (im.cooling now)

/-- the inflammation level `check` computes for content `c` at time `now`, given the rejecting validators -/
def Innate.levelFor (env : Env) (im : Innate) (now : Nat) (c : Str) (errs : List Validator) : Nat :=
  im.levelOf now (matched env im.patterns c) errs

/-- state after `_evaluate_inflammation` recorded a level above NONE (the check counter was bumped on entry) -/
def Innate.inflame (im : Innate) (now lvl : Nat) : Innate :=
  { im with checkCount := im.checkCount + 1
            inflLevel := lvl, triggerCount := im.triggerCount + 1
            cooldownUntil := some (now + im.decay) }

/-- last part of `check`: inflammation state update, the `on_inflammation` hook (only for a level above NONE;
    if it raises, `check` propagates the exception before the block counter is touched), then the allow rule -/
def Innate.conclude (im : Innate) (now : Nat) (ms : List Sig) (errs : List Validator) (lvl : Nat) :
    Innate × Out CheckRes :=
  if lvl > lvlNone then
    match innHookRaise im.onInflammation (im.inflame now lvl).view lvl with
    | some k => (im.inflame now lvl, .raise ("hook:" ++ k))
    | none =>
      if maxLevel ms < im.sevThreshold ∧ errs = [] ∧ lvl < lvlAcute then
        (im.inflame now lvl, .ok ⟨true, ms, errs, lvl⟩)
      else
        ({ im.inflame now lvl with blockCount := im.blockCount + 1 }, .ok ⟨false, ms, errs, lvl⟩)
  else
    if maxLevel ms < im.sevThreshold ∧ errs = [] ∧ lvl < lvlAcute then
      ({ im with checkCount := im.checkCount + 1 }, .ok ⟨true, ms, errs, lvl⟩)
    else
      ({ im with checkCount := im.checkCount + 1, blockCount := im.blockCount + 1 }, .ok ⟨false, ms, errs, lvl⟩)

/-- `check` after phase 1 (pattern matching gave `ms`) and phase 2 (the validator loop returned or raised) -/
def Innate.checkWith (im : Innate) (now : Nat) (ms : List Sig) : Out (List Validator) → Innate × Out CheckRes
  | .raise k => ({ im with checkCount := im.checkCount + 1 }, .raise k)
  | .ok errs => im.conclude now ms errs (im.levelOf now ms errs)

/-- `InnateImmunity.check(content)` at time `now`. -/
def Innate.check (env : Env) (im : Innate) (now : Nat) (c : Str) : Innate × Out CheckRes :=
  im.checkWith now (matched env im.patterns c) (runValidators env im.validators c)

def Innate.addPattern (im : Innate) (s : Sig) : Innate := { im with patterns := im.patterns ++ [s] }

def Innate.addValidator (im : Innate) (v : Validator) : Innate := { im with validators := im.validators ++ [v] }

/-- `im.validators = vs` (direct assignment: no `or defaults` glue, an empty list stays empty) -/
def Innate.setValidators (im : Innate) (vs : List Validator) : Innate := { im with validators := vs }

/-- `im.severity_threshold = t` -/
def Innate.setSevThreshold (im : Innate) (t : Nat) : Innate := { im with sevThreshold := t }

/-- `im.on_inflammation = h` -/
def Innate.setHook (im : Innate) (h : Option InnHook) : Innate := { im with onInflammation := h }

def Innate.resetInflammation (im : Innate) : Innate :=
  { im with inflLevel := lvlNone, triggerCount := 0, cooldownUntil := none }

end Operon.Gates
