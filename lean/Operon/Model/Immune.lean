/-
  Model of `operon_ai/surveillance` (C17): `thymus.BaselineProfile.check`, `thymus.Thymus.train`,
  `tcell.TCell` (inspect / flag_manually / reset / reset_without_confirmation), `treg.RegulatoryTCell.evaluate`
  (+ `SuppressionRule.can_suppress`, `_downgrade_action`, `ToleranceRecord.record_inspection`),
  `memory.ImmuneMemory` (store with pruning, recall_by_hashes with touch) and the `immune_system.ImmuneSystem`
  pipeline (register_agent, train_agent, inspect, flag_agent) for any number of agents sharing one Treg and
  one memory.

  Numbers are core `Rat`.  Hashes are natural numbers (md5 prefixes are treated as injective on the strings
  explored).  Square roots do not appear: a fingerprint carries its reported standard deviations as data, and
  the sample standard deviations `statistics.stdev(values)` used by `Thymus.train` are an explicit environment
  argument `Sds` (the theorems hold for every value of it).  Rule conditions are arbitrary functions that
  answer yes / no or raise.  Time is a logical clock in microseconds: one tick per stamp, `expire` adds two hours
  (the update tolerance is one hour, `prune_old` takes whole hours), which fixes the order of stamps and the outcome
  of every age comparison.

  Read-only accessors (`ImmuneSystem.health`, `ImmuneMemory.stats` / `export_signatures`, `repr`, `is_anergic`,
  `get_record`, `recent_update`, `generate_peptide` called from outside, `IntegratedCell.health`) are the history
  operation `Op.peek`: a pure read (`Sys.health` computes the report from the state); direct assignment to the public
  list `memory.signatures` (clearing it, dropping entries) is `Op.forget`.

  Not modelled: the regular expressions, json parsing and md5 inside `MHCDisplay.generate_peptide` (an observation
  arrives with its length, word ids and structure id; in `Sys` the display is a slot holding the current fingerprint,
  which `Display.generate` fills), NaN, `MHCPeptide.similarity`, `recall_count` / `utilization` in the statistics,
  wall-clock fields, message texts (a violation is its kind).
-/
namespace Operon.Immune

inductive Signal1 where
  | self | nonSelf | unknown
  deriving Repr, DecidableEq

inductive Signal2 where
  | absent | canary | cross | repeated | manual
  deriving Repr, DecidableEq

inductive Level where
  | noThreat | suspicious | confirmed | critical
  deriving Repr, DecidableEq

inductive Action where
  | ignore | monitor | isolate | shutdown | alert
  deriving Repr, DecidableEq

/-- kind of a baseline violation, in the order `BaselineProfile.check` tests them -/
inductive Viol where
  | outputLength | responseTime | confidence | errorRate | vocab | struct | canary | recalled
  deriving Repr, DecidableEq

/-- `MHCPeptide`: the behavioural fingerprint -/
structure Peptide where
  lenMean : Rat
  lenStd : Rat
  timeMean : Rat
  timeStd : Rat
  confMean : Rat
  confStd : Rat
  vocab : Nat
  struct : Nat
  errRate : Rat
  canary : Option Rat

/-- `BaselineProfile` -/
structure Profile where
  lenLo : Rat
  lenHi : Rat
  timeLo : Rat
  timeHi : Rat
  confLo : Rat
  confHi : Rat
  errMax : Rat
  vocabs : List Nat
  structs : List Nat
  canaryMin : Rat

def inBounds (lo hi x : Rat) : Bool := decide (lo ≤ x) && decide (x ≤ hi)

def canaryFails (pr : Profile) (p : Peptide) : Bool :=
  match p.canary with
  | some c => decide (c < pr.canaryMin)
  | none => false

/-- `BaselineProfile.check` -/
def check (pr : Profile) (p : Peptide) : List Viol :=
  (if inBounds pr.lenLo pr.lenHi p.lenMean then [] else [Viol.outputLength]) ++
  ((if inBounds pr.timeLo pr.timeHi p.timeMean then [] else [Viol.responseTime]) ++
  ((if inBounds pr.confLo pr.confHi p.confMean then [] else [Viol.confidence]) ++
  ((if decide (pr.errMax < p.errRate) then [Viol.errorRate] else []) ++
  ((if pr.vocabs.contains p.vocab then [] else [Viol.vocab]) ++
  ((if pr.structs.contains p.struct then [] else [Viol.struct]) ++
  (if canaryFails pr p then [Viol.canary] else []))))))

/-! ### T cell -/

structure Response where
  level : Level
  action : Action
  s1 : Signal1
  s2 : Signal2
  viols : List Viol
  anergic : Bool

/-- the enum part of `TCell._determine_response`: signal 1, signal 2, `violation_count >= 3`,
    `canary_accuracy is not None and canary_accuracy < 0.5` -/
def respond (s1 : Signal1) (s2 : Signal2) (vc3 clow : Bool) : Level × Action :=
  match s1, s2 with
  | .self, _ => (.noThreat, .ignore)
  | _, .absent => (.suspicious, .monitor)
  | _, _ => if vc3 || clow then (.critical, .shutdown) else (.confirmed, .isolate)

def canaryLow (p : Peptide) : Bool :=
  match p.canary with
  | some c => decide (c < 1 / 2)
  | none => false

structure TCell where
  profile : Profile
  repThr : Int
  anergyThr : Int
  anomaly : Nat
  anergy : Nat
  /-- truthiness of `manual_flag` (an empty reason string is falsy) -/
  flag : Bool
  /-- `state.signal1` / `state.signal2` of the last inspection that got past the anergy test -/
  lastS1 : Signal1
  lastS2 : Signal2

def TCell.fresh (pr : Profile) (rep anergy : Int) : TCell :=
  ⟨pr, rep, anergy, 0, 0, false, .self, .absent⟩

def TCell.isAnergic (t : TCell) : Bool := decide (t.anergyThr ≤ (t.anergy : Int))

/-- which second signal the inspection ends up with: manual flag, overridden by a canary failure, overridden by
    a repeated anomaly (the streak including the current inspection) -/
def signal2Of (t : TCell) (p : Peptide) (nonSelf : Bool) : Signal2 :=
  if nonSelf && decide (t.repThr ≤ (t.anomaly : Int) + 1) then .repeated
  else if canaryFails t.profile p then .canary
  else if t.flag then .manual
  else .absent

/-- `TCell.inspect` -/
def TCell.inspect (t : TCell) (p : Peptide) : TCell × Response :=
  if t.isAnergic then
    (t, ⟨.noThreat, .ignore, .unknown, .absent, [], true⟩)
  else if (check t.profile p).isEmpty then
    (⟨t.profile, t.repThr, t.anergyThr, 0, t.anergy, t.flag, .self, signal2Of t p false⟩,
     ⟨(respond .self (signal2Of t p false) false (canaryLow p)).1,
      (respond .self (signal2Of t p false) false (canaryLow p)).2,
      .self, signal2Of t p false, [], false⟩)
  else
    (⟨t.profile, t.repThr, t.anergyThr, t.anomaly + 1, t.anergy, t.flag, .nonSelf, signal2Of t p true⟩,
     ⟨(respond .nonSelf (signal2Of t p true) (decide (3 ≤ (check t.profile p).length)) (canaryLow p)).1,
      (respond .nonSelf (signal2Of t p true) (decide (3 ≤ (check t.profile p).length)) (canaryLow p)).2,
      .nonSelf, signal2Of t p true, check t.profile p, false⟩)

/-- `flag_manually(reason)`; `nonEmpty` = the reason string is truthy -/
def TCell.flagManually (t : TCell) (nonEmpty : Bool) : TCell :=
  ⟨t.profile, t.repThr, t.anergyThr, t.anomaly, t.anergy, nonEmpty, t.lastS1, t.lastS2⟩

/-- `reset()`: clears streak, flag and last signals; the anergy count stays -/
def TCell.reset (t : TCell) : TCell :=
  ⟨t.profile, t.repThr, t.anergyThr, 0, t.anergy, false, .self, .absent⟩

/-- `reset_without_confirmation()`: a false alarm (signal 1 without signal 2) counts towards anergy; the manual
    flag stays -/
def TCell.resetFA (t : TCell) : TCell :=
  ⟨t.profile, t.repThr, t.anergyThr, 0,
    if t.lastS1 = .nonSelf ∧ t.lastS2 = .absent then t.anergy + 1 else t.anergy,
    t.flag, .self, .absent⟩

/-! ### Regulatory T cell -/

structure Record where
  clean : Nat
  total : Nat
  /-- `recent_update`: `mark_updated` was called and the tolerance hour has not elapsed since -/
  recent : Bool

def Record.recordInspection (r : Record) (clean : Bool) : Record :=
  ⟨if clean then r.clean + 1 else 0, r.total + 1, r.recent⟩

inductive CondOut where
  | yes | no | raise
  deriving Repr, DecidableEq

structure Rule where
  cond : Response → Record → CondOut
  maxSev : Level

structure Treg where
  rules : List Rule
  stability : Int

def Level.rank : Level → Nat
  | .noThreat => 0 | .suspicious => 1 | .confirmed => 2 | .critical => 3

/-- `SuppressionRule.can_suppress` -/
def Rule.canSuppress (r : Rule) (l : Level) : Bool := decide (l.rank ≤ r.maxSev.rank)

/-- `_downgrade_action` -/
def downgrade : Action → Action
  | .shutdown => .isolate
  | .isolate => .monitor
  | .monitor => .ignore
  | .alert => .monitor
  | .ignore => .ignore

inductive Fire where
  | nothing | fired | raised
  deriving Repr, DecidableEq

/-- the `for rule in self.rules` loop: first rule that may suppress this level and whose condition holds -/
def firstFiring : List Rule → Response → Record → Fire
  | [], _, _ => .nothing
  | r :: rs, resp, rec =>
    if r.canSuppress resp.level then
      match r.cond resp rec with
      | .yes => .fired
      | .no => firstFiring rs resp rec
      | .raise => .raised
    else firstFiring rs resp rec

inductive EvalOut where
  | ok (suppressed : Bool) (orig modified : Action)
  | raise
  deriving Repr, DecidableEq

/-- `RegulatoryTCell.evaluate` -/
def Treg.evaluate (g : Treg) (resp : Response) (rec : Record) : EvalOut :=
  if resp.level = .critical then .ok false resp.action resp.action
  else if decide (g.stability ≤ (rec.clean : Int)) && decide (resp.level = .suspicious) then
    .ok true resp.action .ignore
  else
    match firstFiring g.rules resp rec with
    | .fired => .ok true resp.action (downgrade resp.action)
    | .nothing => .ok false resp.action resp.action
    | .raised => .raise

/-! ### Thymus -/

/-- the three `statistics.stdev(values)` results `Thymus.train` computes (environment: no square roots here) -/
structure Sds where
  len : Rat
  time : Rat
  conf : Rat

structure ThymusCfg where
  minSamples : Int
  tol : Rat
  varThr : Rat

def mean (l : List Rat) : Rat := l.sum / (l.length : Rat)

def rmax (a b : Rat) : Rat := if a ≤ b then b else a

def rmin (a b : Rat) : Rat := if a ≤ b then a else b

def lmax : List Rat → Rat
  | [] => 0
  | [x] => x
  | x :: y :: r => rmax x (lmax (y :: r))

def lmin : List Rat → Rat
  | [] => 0
  | [x] => x
  | x :: y :: r => rmin x (lmin (y :: r))

/-- `max(actual_std, reported_std, 0.01)` -/
def combinedStd (values stds : List Rat) (actualStd : Rat) : Rat :=
  rmax (rmax (if 1 < values.length then actualStd else 0) (if stds.isEmpty then 0 else mean stds)) (1 / 100)

/-- `calc_bounds` -/
def calcBounds (tol : Rat) (values stds : List Rat) (actualStd : Rat) : Rat × Rat :=
  (mean values - tol * combinedStd values stds actualStd, mean values + tol * combinedStd values stds actualStd)

def errMaxOf (samples : List Peptide) : Rat := rmax (lmax (samples.map (·.errRate)) * 2) (1 / 20)

def canaryMinOf (samples : List Peptide) : Rat :=
  if (samples.filterMap (·.canary)).isEmpty then 0 else lmin (samples.filterMap (·.canary)) * (9 / 10)

def profileOf (cfg : ThymusCfg) (sd : Sds) (samples : List Peptide) : Profile :=
  { lenLo := (calcBounds cfg.tol (samples.map (·.lenMean)) (samples.map (·.lenStd)) sd.len).1
    lenHi := (calcBounds cfg.tol (samples.map (·.lenMean)) (samples.map (·.lenStd)) sd.len).2
    timeLo := (calcBounds cfg.tol (samples.map (·.timeMean)) (samples.map (·.timeStd)) sd.time).1
    timeHi := (calcBounds cfg.tol (samples.map (·.timeMean)) (samples.map (·.timeStd)) sd.time).2
    confLo := (calcBounds cfg.tol (samples.map (·.confMean)) (samples.map (·.confStd)) sd.conf).1
    confHi := (calcBounds cfg.tol (samples.map (·.confMean)) (samples.map (·.confStd)) sd.conf).2
    errMax := errMaxOf samples
    vocabs := samples.map (·.vocab)
    structs := samples.map (·.struct)
    canaryMin := canaryMinOf samples }

inductive ThymusOut where
  | insufficient
  | anergic
  | raiseStats
  | positive (pr : Profile)

/-- `Thymus.train` -/
def trainThymus (cfg : ThymusCfg) (sd : Sds) (samples : List Peptide) : ThymusOut :=
  if (samples.length : Int) < cfg.minSamples then .insufficient
  else if decide (1 < samples.length) && decide (0 < mean (samples.map (·.lenMean))) &&
      decide (cfg.varThr < sd.len / mean (samples.map (·.lenMean))) then .anergic
  else if samples.isEmpty then .raiseStats
  else .positive (profileOf cfg sd samples)

/-! ### MHC display

`MHCDisplay.record` / `record_canary_result` / `generate_peptide`.  The text analysis of an output (its length, the
ids of its `\b\w+\b` words after lower-casing, the id of its detected structure) arrives with the observation; a hash
is the set of ids it covers, as a bit mask (equal hashes iff equal sets: md5 prefixes are treated as injective).  The
three sample standard deviations are the environment argument `Sds`.  Not modelled: an empty window together with
`min_observations <= 0` (the code divides by zero). -/

structure Ob where
  /-- `obs.output` is truthy (neither `None` nor the empty string) -/
  hasOutput : Bool
  len : Nat
  words : List Nat
  struct : Nat
  time : Rat
  conf : Rat
  /-- id of the error string when it is truthy -/
  err : Option Nat

structure Display where
  windowSize : Int
  minObs : Int
  obs : List Ob
  canaries : List Bool

/-- `record`: append, then drop the oldest observation once if the window is over its size -/
def Display.record (d : Display) (o : Ob) : Display :=
  ⟨d.windowSize, d.minObs,
    if d.windowSize < ((d.obs ++ [o]).length : Int) then (d.obs ++ [o]).drop 1 else d.obs ++ [o], d.canaries⟩

def Display.recordCanary (d : Display) (passed : Bool) : Display :=
  ⟨d.windowSize, d.minObs, d.obs, d.canaries ++ [passed]⟩

/-- `clear()`: all observations and canary results are dropped -/
def Display.clear (d : Display) : Display := ⟨d.windowSize, d.minObs, [], []⟩

/-- the public attributes of the display assigned or mutated by hand, past `record` / `record_canary_result` / `clear`:
    `display.canary_results` appended to, cleared, re-assigned, cut down to its newest entries … -/
def Display.setCanaries (d : Display) (l : List Bool) : Display := ⟨d.windowSize, d.minObs, d.obs, l⟩

/-- `display.observations` popped / cut / re-assigned by hand -/
def Display.setObs (d : Display) (l : List Ob) : Display := ⟨d.windowSize, d.minObs, l, d.canaries⟩

/-- `display.window_size = k` after construction (read by the next `record`, which evicts at most one observation) -/
def Display.setWindow (d : Display) (k : Int) : Display := ⟨k, d.minObs, d.obs, d.canaries⟩

/-- `display.min_observations = k` after construction (read by every `generate_peptide`) -/
def Display.setMinObs (d : Display) (k : Int) : Display := ⟨d.windowSize, k, d.obs, d.canaries⟩

/-- a set of small ids as a bit mask -/
def bitsOf (l : List Nat) : Nat := l.foldl (fun acc i => acc ||| (1 <<< i)) 0

def ratio (k n : Nat) : Rat := (k : Rat) / (n : Rat)

/-- `generate_peptide` -/
def Display.generate (d : Display) (sd : Sds) : Option Peptide :=
  if (d.obs.length : Int) < d.minObs then none
  else some
    { lenMean := mean (d.obs.map fun o => (o.len : Rat))
      lenStd := if 1 < d.obs.length then sd.len else 0
      timeMean := mean (d.obs.map (·.time))
      timeStd := if 1 < d.obs.length then sd.time else 0
      confMean := mean (d.obs.map (·.conf))
      confStd := if 1 < d.obs.length then sd.conf else 0
      vocab := bitsOf (d.obs.flatMap fun o => if o.hasOutput then o.words else [])
      struct := bitsOf ((d.obs.filter (·.hasOutput)).map (·.struct))
      errRate := ratio (d.obs.filter (·.err.isSome)).length d.obs.length
      canary := if d.canaries.isEmpty then none
        else some (ratio (d.canaries.filter id).length d.canaries.length) }

/-! ### Immune memory -/

structure Sig where
  agent : Nat
  vocab : Nat
  struct : Nat
  level : Level
  action : Action
  accessed : Nat
  /-- `created_at` in microseconds of the logical clock (can lie before the start for imported signatures) -/
  created : Int

structure Memory where
  cap : Int
  sigs : List Sig

def minAccessed : Sig → List Sig → Nat
  | s, [] => s.accessed
  | s, x :: r => min s.accessed (minAccessed x r)

def eraseFirstAccessed (k : Nat) : List Sig → List Sig
  | [] => []
  | s :: r => if s.accessed = k then r else s :: eraseFirstAccessed k r

/-- `_prune_least_accessed` -/
def pruneOldest : List Sig → List Sig
  | [] => []
  | s :: r => eraseFirstAccessed (minAccessed s r) (s :: r)

/-- `ImmuneMemory.store` -/
def Memory.store (m : Memory) (s : Sig) : Memory :=
  ⟨m.cap, (if m.cap ≤ (m.sigs.length : Int) then pruneOldest m.sigs else m.sigs) ++ [s]⟩

def Sig.hits (s : Sig) (agent vocab struct : Nat) : Bool :=
  s.agent == agent && s.vocab == vocab && s.struct == struct

/-- `recall_by_hashes`: first signature of this agent with both hashes; it is touched -/
def recallGo (agent vocab struct now : Nat) : List Sig → List Sig × Option Sig
  | [] => ([], none)
  | s :: r =>
    if s.hits agent vocab struct then
      (⟨s.agent, s.vocab, s.struct, s.level, s.action, now, s.created⟩ :: r, some s)
    else ((s :: (recallGo agent vocab struct now r).1), (recallGo agent vocab struct now r).2)

/-! ### The pipeline -/

structure Agent where
  /-- `agent_id in displays` -/
  registered : Bool
  /-- what `display.generate_peptide()` returns now (`none` = not enough observations) -/
  display : Option Peptide
  tcell : Option TCell
  /-- `treg.records.get(agent_id)` -/
  record : Option Record

def Agent.blank : Agent := ⟨false, none, none, none⟩

structure Sys where
  minTrain : Int
  tol : Rat
  varThr : Rat
  treg : Treg
  mem : Memory
  clock : Nat
  agents : Nat → Agent

def Sys.setAgent (s : Sys) (a : Nat) (ag : Agent) : Sys :=
  ⟨s.minTrain, s.tol, s.varThr, s.treg, s.mem, s.clock, fun b => if b = a then ag else s.agents b⟩

def Sys.init (minTrain : Int) (tol varThr : Rat) (treg : Treg) (cap : Int) : Sys :=
  ⟨minTrain, tol, varThr, treg, ⟨cap, []⟩, 0, fun _ => Agent.blank⟩

/-- `register_agent`: a new (empty) display and a new tolerance record; an existing T cell stays -/
def Sys.register (s : Sys) (a : Nat) : Sys :=
  s.setAgent a ⟨true, none, (s.agents a).tcell, some ⟨0, 0, false⟩⟩

/-- the display slot: what the agent currently shows -/
def Sys.showPeptide (s : Sys) (a : Nat) (p : Option Peptide) : Sys :=
  if (s.agents a).registered then
    s.setAgent a ⟨true, p, (s.agents a).tcell, (s.agents a).record⟩
  else s

inductive Selection where
  | positive | anergic | insufficient
  deriving Repr, DecidableEq

inductive TrainOut where
  | sel (r : Selection)
  | raiseValue
  | raiseStats
  deriving Repr, DecidableEq

/-- `train_agent`: the current fingerprint, `min_training_samples` times -/
def Sys.train (s : Sys) (a : Nat) : Sys × TrainOut :=
  if (s.agents a).registered then
    match (s.agents a).display with
    | none => (s, .sel .insufficient)
    | some p =>
      match trainThymus ⟨s.minTrain, s.tol, s.varThr⟩ ⟨0, 0, 0⟩ (List.replicate s.minTrain.toNat p) with
      | .positive pr =>
        (s.setAgent a ⟨true, some p, some (TCell.fresh pr 3 5), (s.agents a).record⟩, .sel .positive)
      | .anergic => (s, .sel .anergic)
      | .insufficient => (s, .sel .insufficient)
      | .raiseStats => (s, .raiseStats)
  else (s, .raiseValue)

inductive InspectOut where
  | resp (r : Response)
  | raiseValue
  | raiseCond

/-- what the pipeline does after the T cell answered: Treg filtering, inspection record, memory store -/
def Sys.afterTCell (s : Sys) (a : Nat) (ag : Agent) (p : Peptide) (mem : Memory) (t' : TCell) (r : Response) :
    Sys × InspectOut :=
  match ag.record with
  | none =>
    if r.level = .confirmed ∨ r.level = .critical then
      (⟨s.minTrain, s.tol, s.varThr, s.treg,
        mem.store ⟨a, p.vocab, p.struct, r.level, r.action, s.clock + 2, ((s.clock + 2 : Nat) : Int)⟩, s.clock + 2,
        fun b => if b = a then ⟨ag.registered, ag.display, some t', none⟩ else s.agents b⟩, .resp r)
    else
      (⟨s.minTrain, s.tol, s.varThr, s.treg, mem, s.clock + 1,
        fun b => if b = a then ⟨ag.registered, ag.display, some t', none⟩ else s.agents b⟩, .resp r)
  | some rec =>
    match s.treg.evaluate r rec with
    | .raise =>
      (⟨s.minTrain, s.tol, s.varThr, s.treg, mem, s.clock + 1,
        fun b => if b = a then ⟨ag.registered, ag.display, some t', some rec⟩ else s.agents b⟩, .raiseCond)
    | .ok supp _ modified =>
      if r.level = .confirmed ∨ r.level = .critical then
        (⟨s.minTrain, s.tol, s.varThr, s.treg,
          mem.store ⟨a, p.vocab, p.struct, r.level, if supp then modified else r.action, s.clock + 2,
            ((s.clock + 2 : Nat) : Int)⟩,
          s.clock + 2,
          fun b => if b = a then
            ⟨ag.registered, ag.display, some t', some (rec.recordInspection (decide (r.level = .noThreat)))⟩
          else s.agents b⟩,
         .resp ⟨r.level, if supp then modified else r.action, r.s1, r.s2, r.viols,
                if supp then false else r.anergic⟩)
      else
        (⟨s.minTrain, s.tol, s.varThr, s.treg, mem, s.clock + 1,
          fun b => if b = a then
            ⟨ag.registered, ag.display, some t', some (rec.recordInspection (decide (r.level = .noThreat)))⟩
          else s.agents b⟩,
         .resp ⟨r.level, if supp then modified else r.action, r.s1, r.s2, r.viols,
                if supp then false else r.anergic⟩)

/-- what a recall hit answers: the stored pair — unless the current fingerprint is CRITICAL by the T cell's own table
    with memory as the second signal (`_determine_response(NON_SELF, CROSS_VALIDATED, len(violations), peptide)`):
    memory never softens a critical threat -/
def recalledPair (t : TCell) (p : Peptide) (sig : Sig) : Level × Action :=
  if (respond .nonSelf .cross (decide (3 ≤ (check t.profile p).length)) (canaryLow p)).1 = .critical then
    respond .nonSelf .cross (decide (3 ≤ (check t.profile p).length)) (canaryLow p)
  else (sig.level, sig.action)

/-- `ImmuneSystem.inspect`.  A remembered threat answers only when the watcher is not anergic and the current
    fingerprint violates the baseline (memory is a second signal, never a substitute for the first). -/
def Sys.inspect (s : Sys) (a : Nat) : Sys × InspectOut :=
  match (s.agents a).tcell with
  | none => (s, .raiseValue)
  | some t =>
    match (s.agents a).display with
    | none => (s, .resp ⟨.noThreat, .ignore, .unknown, .absent, [], false⟩)
    | some p =>
      match (recallGo a p.vocab p.struct (s.clock + 1) s.mem.sigs).2 with
      | some sig =>
        if !t.isAnergic && !(check t.profile p).isEmpty then
          (⟨s.minTrain, s.tol, s.varThr, s.treg,
            ⟨s.mem.cap, (recallGo a p.vocab p.struct (s.clock + 1) s.mem.sigs).1⟩, s.clock + 1, s.agents⟩,
           .resp ⟨(recalledPair t p sig).1, (recalledPair t p sig).2, .nonSelf, .cross, [.recalled], false⟩)
        else
          s.afterTCell a (s.agents a) p ⟨s.mem.cap, (recallGo a p.vocab p.struct (s.clock + 1) s.mem.sigs).1⟩
            (t.inspect p).1 (t.inspect p).2
      | none =>
        s.afterTCell a (s.agents a) p ⟨s.mem.cap, (recallGo a p.vocab p.struct (s.clock + 1) s.mem.sigs).1⟩
          (t.inspect p).1 (t.inspect p).2

/-- `flag_agent` -/
def Sys.flag (s : Sys) (a : Nat) (nonEmpty : Bool) : Sys :=
  match (s.agents a).tcell with
  | none => s
  | some t => s.setAgent a ⟨(s.agents a).registered, (s.agents a).display, some (t.flagManually nonEmpty),
      (s.agents a).record⟩

/-- `tcells[a].reset()` / `tcells[a].reset_without_confirmation()` -/
def Sys.resetT (s : Sys) (a : Nat) (falseAlarm : Bool) : Sys :=
  match (s.agents a).tcell with
  | none => s
  | some t => s.setAgent a ⟨(s.agents a).registered, (s.agents a).display,
      some (if falseAlarm then t.resetFA else t.reset), (s.agents a).record⟩

/-- `del treg.records[a]` (the pipeline tolerates a missing record) -/
def Sys.dropRecord (s : Sys) (a : Nat) : Sys :=
  s.setAgent a ⟨(s.agents a).registered, (s.agents a).display, (s.agents a).tcell, none⟩

/-- assignment to the public attributes of an agent's T cell (`tcells[a].repeated_anomaly_threshold = k`, …) -/
def Sys.configT (s : Sys) (a : Nat) (f : TCell → TCell) : Sys :=
  match (s.agents a).tcell with
  | none => s
  | some t => s.setAgent a ⟨(s.agents a).registered, (s.agents a).display, some (f t), (s.agents a).record⟩

def TCell.setRep (t : TCell) (k : Int) : TCell :=
  ⟨t.profile, k, t.anergyThr, t.anomaly, t.anergy, t.flag, t.lastS1, t.lastS2⟩

def TCell.setAnergy (t : TCell) (k : Int) : TCell :=
  ⟨t.profile, t.repThr, k, t.anomaly, t.anergy, t.flag, t.lastS1, t.lastS2⟩

def TCell.setProfile (t : TCell) (pr : Profile) : TCell :=
  ⟨pr, t.repThr, t.anergyThr, t.anomaly, t.anergy, t.flag, t.lastS1, t.lastS2⟩

/-- `treg.rules = …; treg.stability_threshold = …` -/
def Sys.setTreg (s : Sys) (g : Treg) : Sys := ⟨s.minTrain, s.tol, s.varThr, g, s.mem, s.clock, s.agents⟩

/-- `ims.thymus.tolerance = tol; ims.thymus.variance_threshold = varThr` assigned after construction: the next
    `train_agent` uses them (watchers trained earlier keep their baselines) -/
def Sys.setThymus (s : Sys) (tol varThr : Rat) : Sys := ⟨s.minTrain, tol, varThr, s.treg, s.mem, s.clock, s.agents⟩

/-- `memory.capacity = c` -/
def Sys.setCap (s : Sys) (c : Int) : Sys :=
  ⟨s.minTrain, s.tol, s.varThr, s.treg, ⟨c, s.mem.sigs⟩, s.clock, s.agents⟩

/-- `mark_agent_updated` -/
def Sys.markUpdated (s : Sys) (a : Nat) : Sys :=
  match (s.agents a).record with
  | none => s
  | some r => s.setAgent a ⟨(s.agents a).registered, (s.agents a).display, (s.agents a).tcell,
      some ⟨r.clean, r.total, true⟩⟩

/-- two hours pass (in microseconds of the logical clock): every update tolerance (one hour) runs out -/
def twoHours : Nat := 7200000000

def Sys.expire (s : Sys) : Sys :=
  ⟨s.minTrain, s.tol, s.varThr, s.treg, s.mem, s.clock + twoHours,
    fun b => ⟨(s.agents b).registered, (s.agents b).display, (s.agents b).tcell,
      match (s.agents b).record with
      | none => none
      | some r => some ⟨r.clean, r.total, false⟩⟩⟩

/-- `memory.prune_old(timedelta(hours = h))`: keeps `created_at > now - max_age` -/
def Sys.pruneOld (s : Sys) (hours : Nat) : Sys :=
  ⟨s.minTrain, s.tol, s.varThr, s.treg,
    ⟨s.mem.cap, s.mem.sigs.filter fun x => decide (((s.clock + 1 : Nat) : Int) < x.created + (hours * 3600000000 : Nat))⟩,
    s.clock + 1, s.agents⟩

/-- `import_signatures`: one by one, while there is room (no pruning); `last_accessed` is the time of the import -/
def importGo (cap : Int) (now : Nat) : List Sig → List Sig → List Sig
  | acc, [] => acc
  | acc, x :: rest =>
    if (acc.length : Int) < cap then
      importGo cap now (acc ++ [⟨x.agent, x.vocab, x.struct, x.level, x.action, now, x.created⟩]) rest
    else importGo cap now acc rest

def Sys.importSigs (s : Sys) (data : List Sig) : Sys :=
  ⟨s.minTrain, s.tol, s.varThr, s.treg, ⟨s.mem.cap, importGo s.mem.cap (s.clock + 1) s.mem.sigs data⟩,
    s.clock + 1, s.agents⟩

/-- `memory.recall(query)` (exact match) called from outside the pipeline: like `recall_by_hashes`, the first hit is
    touched — the order in which signatures are pruned at capacity changes, nothing else -/
def Sys.recall (s : Sys) (a v st : Nat) : Sys × Option Sig :=
  (⟨s.minTrain, s.tol, s.varThr, s.treg, ⟨s.mem.cap, (recallGo a v st (s.clock + 1) s.mem.sigs).1⟩, s.clock + 1,
    s.agents⟩, (recallGo a v st (s.clock + 1) s.mem.sigs).2)

/-- `memory.signatures = [the entries whose position carries `true`]` (positions beyond the mask are dropped):
    clearing the list, `pop(0)`, `del signatures[-1]`, re-assigning a slice -/
def keepMask : List Bool → List Sig → List Sig
  | _, [] => []
  | [], _ :: _ => []
  | b :: bs, x :: xs => if b then x :: keepMask bs xs else keepMask bs xs

def Sys.forget (s : Sys) (mask : List Bool) : Sys :=
  ⟨s.minTrain, s.tol, s.varThr, s.treg, ⟨s.mem.cap, keepMask mask s.mem.sigs⟩, s.clock, s.agents⟩

/-- what `ImmuneSystem.health()` reports (without `utilization` / `total_recalls`): number of registered agents,
    number of trained agents, signatures stored, capacity, and per registered agent whether it is trained and how many
    observations its display holds.  `regs` = the keys of `displays` in insertion order, `nobs` = observation counts
    (the display's window is not part of `Sys`).  `none` = `ZeroDivisionError` (`memory.stats()` divides by the
    capacity).  It is a function of the state: a pure read. -/
structure HealthReport where
  registered : Nat
  trained : Nat
  stored : Nat
  cap : Int
  agents : List (Nat × Bool × Nat)
  deriving DecidableEq

def Sys.health (s : Sys) (regs : List Nat) (nobs : Nat → Nat) : Option HealthReport :=
  if s.mem.cap = 0 then none
  else some ⟨regs.length, (regs.filter fun a => (s.agents a).tcell.isSome).length, s.mem.sigs.length, s.mem.cap,
    regs.map fun a => (a, (s.agents a).tcell.isSome, nobs a)⟩

/-! ### Histories -/

inductive Op where
  | register (a : Nat)
  | showP (a : Nat) (p : Option Peptide)
  | train (a : Nat)
  | inspect (a : Nat)
  | flag (a : Nat) (nonEmpty : Bool)
  | reset (a : Nat)
  | resetFA (a : Nat)
  | dropRecord (a : Nat)
  | markUpdated (a : Nat)
  | expire
  | pruneOld (hours : Nat)
  /-- `import_signatures(data)`; `export_signatures()` is a pure read of the memory -/
  | importSigs (data : List Sig)
  /-- direct assignment to public configuration attributes after construction -/
  | setRep (a : Nat) (k : Int)
  | setAnergy (a : Nat) (k : Int)
  | setProfile (a : Nat) (pr : Profile)
  | setTreg (g : Treg)
  | setCap (c : Int)
  | setThymus (tol varThr : Rat)
  /-- a read-only accessor called between operations: `health()`, `memory.stats()`, `export_signatures()`, `repr`,
      `is_anergic`, `get_record`, `recent_update`, `generate_peptide()` from outside, `IntegratedCell.health()` -/
  | peek
  /-- `memory.signatures` re-assigned / mutated directly: keep the entries at the positions marked `true` -/
  | forget (mask : List Bool)
  /-- `memory.recall(query)` from outside: touches the first signature of agent `a` with hashes `v`, `st` -/
  | recall (a v st : Nat)

/-- what an operation shows to the outside -/
inductive Obs where
  | done
  | trained (r : TrainOut)
  | inspected (a : Nat) (shown : Option Peptide) (r : InspectOut)
  | imported (data : List Sig)

def Sys.step (s : Sys) : Op → Sys × Obs
  | .register a => (s.register a, .done)
  | .showP a p => (s.showPeptide a p, .done)
  | .train a => ((s.train a).1, .trained (s.train a).2)
  | .inspect a => ((s.inspect a).1, .inspected a (s.agents a).display (s.inspect a).2)
  | .flag a b => (s.flag a b, .done)
  | .reset a => (s.resetT a false, .done)
  | .resetFA a => (s.resetT a true, .done)
  | .dropRecord a => (s.dropRecord a, .done)
  | .markUpdated a => (s.markUpdated a, .done)
  | .expire => (s.expire, .done)
  | .pruneOld h => (s.pruneOld h, .done)
  | .importSigs data => (s.importSigs data, .imported data)
  | .setRep a k => (s.configT a (·.setRep k), .done)
  | .setAnergy a k => (s.configT a (·.setAnergy k), .done)
  | .setProfile a pr => (s.configT a (·.setProfile pr), .done)
  | .setTreg g => (s.setTreg g, .done)
  | .setCap c => (s.setCap c, .done)
  | .setThymus t v => (s.setThymus t v, .done)
  | .peek => (s, .done)
  | .forget mask => (s.forget mask, .done)
  | .recall a v st => ((s.recall a v st).1, .done)

/-- run a history; the observations come out in order -/
def Sys.run (s : Sys) : List Op → Sys × List Obs
  | [] => (s, [])
  | op :: rest => (((s.step op).1.run rest).1, (s.step op).2 :: ((s.step op).1.run rest).2)

/-! ### T-cell histories -/

inductive TOp where
  | inspect (p : Peptide)
  | flag (nonEmpty : Bool)
  | reset
  | resetFA
  | setRep (k : Int)
  | setAnergy (k : Int)
  | setProfile (pr : Profile)

def TCell.step (t : TCell) : TOp → TCell × Option Response
  | .inspect p => ((t.inspect p).1, some (t.inspect p).2)
  | .flag b => (t.flagManually b, none)
  | .reset => (t.reset, none)
  | .resetFA => (t.resetFA, none)
  | .setRep k => (t.setRep k, none)
  | .setAnergy k => (t.setAnergy k, none)
  | .setProfile pr => (t.setProfile pr, none)

/-- the history as the watcher lived it: every operation with whether the watcher was anergic and which baseline was
    in force when it happened -/
def TCell.log (t : TCell) : List TOp → List (TOp × Bool × Profile)
  | [] => []
  | op :: rest => (op, t.isAnergic, t.profile) :: ((t.step op).1).log rest

def TCell.run (t : TCell) : List TOp → TCell
  | [] => t
  | op :: rest => ((t.step op).1).run rest

end Operon.Immune
