import Lean.Meta.Tactic.Simp.RegisterCommand
import Operon.Model.Lysosome
/-!
  Target language of the Python→Lean translator for `operon_ai/organelles/lysosome.py`
  (`harness/vf/extract/py2lean_lysosome.py`, output `Operon/Gen/LysosomeTranslated.lean`).

  The translated methods work on `PyS`: exactly the fields of the Python object that the methods read and write
  (`_queue`, the three counters, `_recycling_bin`) plus what the environment sees besides return values (calls of
  `on_toxic`, WARNING records by emitting function, the fake clock).  The hand-written model state `State`
  (Model/Lysosome.lean) carries the same data *and* the ghost fate lists; `conc` forgets the ghosts.  The agreement
  theorems `c13_translation_agrees_*` (Props/C13.lean) say: translated method on `conc s` = `conc` of the
  hand-written step on `s`, with the same return value.

  Everything the generated code may mention is defined here: Python slices, truthiness, `dict.update` (which raises on
  a value it cannot merge, after merging a prefix), a filter
  whose test may raise, the environment's digester table and callback.
-/

/-- simp set of the generated definitions (`Tr.*`): `simp only [lysTr]` unfolds translated code whatever helper
    methods it is split into and whatever they are called -/
register_simp_attr lysTr

namespace Operon.Lysosome

instance : Inhabited Item := ⟨⟨0, .expired, 0, false, 0, 0⟩⟩

/-- the Python object (its modelled fields) and the environment's observation accumulators -/
structure PyS where
  queue : List Item                     -- _queue
  clock : Nat                           -- datetime.now() (µs)
  ingested : Nat                        -- _total_ingested
  digested : Nat                        -- _total_digested
  recycled : Nat                        -- _total_recycled
  bin : List (Nat × Item)               -- _recycling_bin (key ↦ ghost source item)
  toxicLog : List Item                  -- calls of `on_toxic`, in order
  autoLogged : Nat                      -- WARNING+ records emitted by a function called `_auto_digest`
  emLogged : Nat                        -- … by a function called `_emergency_digest`
  deriving Repr, DecidableEq, Inhabited

/-- forget the ghost bookkeeping and the accumulators of return values -/
def conc (s : State) : PyS :=
  ⟨s.queue, s.clock, s.items.length, s.digested, s.recycled, s.bin, s.toxicLog, s.autoLogged, s.emLogged⟩

/-- `DigestResult` (error messages as opaque strings: only their number is observable in the model) -/
structure PyDigestResult where
  success : Bool
  recycled : List (Nat × Item)
  disposed : Nat
  errors : List Unit
  deriving Repr, DecidableEq, Inhabited

def PyDigestResult.ofModel (r : DigestRes) : PyDigestResult :=
  ⟨decide (r.errors = 0), r.recycledKeys, r.disposed, List.replicate r.errors ()⟩

/-- marks a method that left the translator's subset; its agreement theorem fails -/
def untranslatable {α : Type} [Inhabited α] (_construct : String) : α := default

/-- truthiness of an `int | None` -/
def pyTruthyOInt : Option Int → Bool
  | none => false
  | some k => k != 0

/-- `l[:k]` -/
def pySliceTo {α : Type} (l : List α) (k : Int) : List α :=
  if 0 ≤ k then l.take k.toNat else l.take (l.length - (-k).toNat)

/-- `l[k:]` -/
def pySliceFrom {α : Type} (l : List α) (k : Int) : List α :=
  if 0 ≤ k then l.drop k.toNat else l.drop (l.length - (-k).toNat)

/-- `now - w.created_at` with a naive `now`: TypeError (`none`) on a timezone-aware `created_at` -/
def pyTimeSub (now : Nat) (it : Item) : Option Int :=
  if it.tz then none else some ((now : Int) - it.created)

/-- `[x for x in l if p x]` where the test may raise: the first raise abandons the comprehension -/
def pyFilterM {α : Type} (p : α → Option Bool) : List α → Option (List α)
  | [] => some []
  | x :: xs =>
    match p x with
    | none => none
    | some b =>
      match pyFilterM p xs with
      | none => none
      | some r => some (if b then x :: r else r)

/-- a value handed back by a digester (foreign code: not necessarily a dict) -/
inductive PyVal where
  | dict (kvs : List (Nat × Item))          -- anything `dict.update` merges completely; `[]` = one of the falsy results
  | unmergeable (kvs : List (Nat × Item))   -- truthy; `dict.update` raises on it after merging `kvs`
  deriving Repr, DecidableEq, Inhabited

/-- `if result:` -/
def PyVal.truthy : PyVal → Bool
  | .dict kvs => !kvs.isEmpty
  | .unmergeable _ => true

/-- `d.update(result)` on a local dict: the dict afterwards (mutated in place, also when the call raises part-way) and
    whether it raised -/
def pyDictUpdateM (d : List (Nat × Item)) : PyVal → List (Nat × Item) × Bool
  | .dict kvs => (dictUpdate d kvs, false)
  | .unmergeable kvs => (dictUpdate d kvs, true)

/-- what looking the item's type up in the digester table and calling the entry does: the returned value (keys with
    the ghost source item) or `none` = it raised; and the `on_toxic` calls made on the way -/
def pyCallDigester (cfg : Cfg) (it : Item) : Option PyVal × List Item :=
  (match (digestOne cfg it).1 with
    | .ret ks => some (.dict (ks.map fun k => (k, it)))
    | .raise => none
    | .bad ks => some (.unmergeable (ks.map fun k => (k, it))),
   if (digestOne cfg it).2 then [it] else [])

/-- `self.on_toxic(w)` for an installed callback: `true` = it returned, `false` = it raised -/
def pyCallback (cfg : Cfg) (it : Item) : Bool :=
  match cfg.onToxic with
  | some f => f it
  | none => true

/-- the `Waste` object built by a caller of `ingest` (id, type, content, timestamp) as the model numbers it -/
def mkItem (s : State) (id : Nat) (ty : WType) (content : Nat) (st : Stamp) : Item :=
  ⟨id, ty, (match st with | .at us => us | _ => (s.clock : Int)), st = .aware, content, s.items.length⟩

end Operon.Lysosome
