import Operon.Model.Proto
import Operon.Model.Mito
import Operon.Model.MitoWork
import Operon.Model.MitoBox
import Operon.Model.MitoText
import Operon.Model.MitoSpec
/-!
  Line-protocol driver shared by C01 and C02 (`Drv/C01.lean`, `Drv/C02.lean` only call `Mito.main`).

  The environment of a case is a *scripted adversary*: results of primitives, calls, tools and `bool()` are
  content-addressed handles computed by the same integer mixing function in `harness/vf/mito.py`
  (tracer objects) and here, so the identical lines go to the real code and to the model, and the full
  trace of environment interactions is compared.  The float state of the ROS latch lives here, not in the
  model (`Mito.metabolize` takes `latched` as an input).
-/
namespace Operon.Mito
open Operon.Proto

/-! ### scripted environment -/

def hM : Nat := 2305843009213693951

def mix (a b : Nat) : Nat := ((a * 1000003 + b + 12345) * 2654435761 + 97) % hM

def hashStr (s : String) : Nat := s.toList.foldl (fun acc c => mix acc c.toNat) 7

mutual
partial def encVal : Val → Nat
  | .h n => mix 1 n
  | .bool b => mix 2 (if b then 1 else 0)
  | .list vs => mix 3 (encVals 11 vs)
  | .tuple vs => mix 4 (encVals 13 vs)
partial def encVals (acc : Nat) : List Val → Nat
  | [] => acc
  | v :: vs => encVals (mix acc (encVal v)) vs
end

def primNames : List (Prim × String) :=
  [(.add, "add"), (.sub, "sub"), (.mul, "mul"), (.truediv, "truediv"), (.floordiv, "floordiv"), (.mod, "mod"),
   (.pow, "pow"), (.lshift, "lshift"), (.rshift, "rshift"), (.or_, "or_"), (.xor, "xor"), (.and_, "and_"),
   (.matmul, "matmul"), (.neg, "neg"), (.pos, "pos"), (.invert, "invert"), (.eq, "eq"), (.ne, "ne"), (.lt, "lt"),
   (.le, "le"), (.gt, "gt"), (.ge, "ge"), (.is_, "is_"), (.isNot, "is_not"), (.isIn, "in"), (.notIn, "not_in")]

def primName (p : Prim) : String :=
  match p with
  | .other n => "other_" ++ n
  | _ => (primNames.find? (·.1 == p)).map (·.2) |>.getD "?"

def primOfName (s : String) : Prim :=
  match primNames.find? (·.2 == s) with
  | some (p, _) => p
  | none => .other s

def isCmpPrim (p : Prim) : Bool :=
  p == .eq || p == .ne || p == .lt || p == .le || p == .gt || p == .ge

def hashKws (acc : Nat) (kws : List (String × Val)) : Nat :=
  kws.foldl (fun a kv => mix (mix a (hashStr kv.1)) (encVal kv.2)) acc

def scriptEnv (seed : Nat) : Env where
  lookup n := .h (mix 5 (hashStr n))
  prim p args :=
    let r := encVals (mix seed (hashStr (primName p))) args
    if r % 8 = 0 then .error "TracerError"
    else if isCmpPrim p then .ok (.bool (r / 8 % 2 = 1)) else .ok (.h r)
  truthy n :=
    let r := mix (mix seed 77) n
    if r % 16 = 0 then .error "TracerError" else .ok (r / 16 % 2 = 1)
  apply f args kws :=
    let r := hashKws (mix (encVals (mix (mix seed 200) (encVal f)) args) 99) kws
    if r % 8 = 0 then .error "TracerError" else .ok (.h r)
  tool n args kws :=
    let r := hashKws (mix (encVals (mix (mix seed 300) (hashStr n)) args) 99) kws
    if r % 8 = 0 then .error "TracerError" else .ok (.h r)

/-! ### printing -/

mutual
partial def showVal : Val → String
  | .h n => s!"h{n}"
  | .bool true => "T"
  | .bool false => "F"
  | .list vs => "[" ++ ",".intercalate (showVals vs) ++ "]"
  | .tuple vs => "(" ++ ",".intercalate (showVals vs) ++ ")"
partial def showVals : List Val → List String
  | [] => []
  | v :: vs => showVal v :: showVals vs
end

def hexOfStr (s : String) : String := encodeCps (s.toList.map Char.toNat)
def strOfHex (h : String) : String := String.ofList ((decodeCps h).map Char.ofNat)

def showKws (kws : List (String × Val)) : String :=
  ",".intercalate (kws.map fun kv => hexOfStr kv.1 ++ "=" ++ showVal kv.2)

def showAct : Act → String
  | .lookup n => "lk:" ++ hexOfStr n
  | .prim p args => "pr:" ++ primName p ++ ":" ++ ";".intercalate (showVals args)
  | .truthy n => s!"tr:{n}"
  | .apply f args kws => "ap:" ++ showVal f ++ ":" ++ ";".intercalate (showVals args) ++ ":" ++ showKws kws
  | .tool n args kws => "tl:" ++ hexOfStr n ++ ":" ++ ";".intercalate (showVals args) ++ ":" ++ showKws kws

def showTrace (t : List Act) : String := "{" ++ "|".intercalate (t.map showAct) ++ "}"

/-! ### parsing -/

/-- values in the `showVal` format -/
partial def parseVal (cs : List Char) : Option (Val × List Char) :=
  match cs with
  | 'T' :: r => some (.bool true, r)
  | 'F' :: r => some (.bool false, r)
  | 'h' :: r =>
    let ds := r.takeWhile Char.isDigit
    some (.h ((String.ofList ds).toNat?.getD 0), r.dropWhile Char.isDigit)
  | '[' :: r => (parseSeq r ']').map fun (vs, r') => (.list vs, r')
  | '(' :: r => (parseSeq r ')').map fun (vs, r') => (.tuple vs, r')
  | _ => none
where
  parseSeq (cs : List Char) (close : Char) : Option (List Val × List Char) :=
    match cs with
    | c :: r =>
      if c = close then some ([], r)
      else
        let cs' := if c = ',' then r else cs
        match parseVal cs' with
        | some (v, r') => (parseSeq r' close).map fun (vs, r'') => (v :: vs, r'')
        | none => none
    | [] => none

def valOfString (s : String) : Option Val := (parseVal s.toList).map (·.1)

def binOfName : String → Option BinK
  | "add" => some .add | "sub" => some .sub | "mult" => some .mult | "div" => some .div
  | "floordiv" => some .floordiv | "mod" => some .mod | "pow" => some .pow | "lshift" => some .lshift
  | "rshift" => some .rshift | "bitor" => some .bitor | "bitxor" => some .bitxor | "bitand" => some .bitand
  | "matmult" => some .matmult | _ => none
def unOfName : String → Option UnK
  | "usub" => some .usub | "uadd" => some .uadd | "not" => some .not | "invert" => some .invert | _ => none
def cmpOfName : String → Option CmpK
  | "eq" => some .eq | "noteq" => some .noteq | "lt" => some .lt | "lte" => some .lte | "gt" => some .gt
  | "gte" => some .gte | "is" => some .is | "isnot" => some .isnot | "in" => some .isin | "notin" => some .notin
  | _ => none
def boolOfName : String → Option BoolK
  | "and" => some .and | "or" => some .or | _ => none

def splitComma (s : String) : List String := if s = "-" || s = "" then [] else s.splitOn ","

mutual
/-- prefix encoding of an AST, one token per node head (see `harness/vf/mito.py :: enc_ast`) -/
partial def parseExpr (toks : List String) : Option (Expr × List String) :=
  match toks with
  | [] => none
  | t :: rest =>
    let body := (t.drop 1).toString
    match t.front with
    | 'c' => (valOfString body).map fun v => (.const v, rest)
    | 'n' => some (.name (strOfHex body), rest)
    | 'b' => do
      let k ← binOfName body
      let (l, r1) ← parseExpr rest
      let (r, r2) ← parseExpr r1
      pure (.binop k l r, r2)
    | 'u' => do
      let k ← unOfName body
      let (e, r1) ← parseExpr rest
      pure (.unop k e, r1)
    | 'k' =>
      match body.splitOn ":" with
      | [na, kws] => do
        let names : List (Option String) := (splitComma kws).map fun s => if s = "*" then none else some (strOfHex s)
        let (f, r1) ← parseExpr rest
        let (args, r2) ← parseExprs (natD na) r1
        let (kv, r3) ← parseExprs names.length r2
        pure (.call f args names kv, r3)
      | _ => none
    | 'l' => do
      let (es, r1) ← parseExprs (natD body) rest
      pure (.list es, r1)
    | 't' => do
      let (es, r1) ← parseExprs (natD body) rest
      pure (.tuple es, r1)
    | 'C' => do
      let ops ← (splitComma body).mapM cmpOfName
      let (l, r1) ← parseExpr rest
      let (cs, r2) ← parseExprs ops.length r1
      pure (.compare l ops cs, r2)
    | 'B' =>
      match body.splitOn ":" with
      | [k, n] => do
        let k ← boolOfName k
        let (es, r1) ← parseExprs (natD n) rest
        pure (.boolop k es, r1)
      | _ => none
    | 'i' => do
      let (c, r1) ← parseExpr rest
      let (a, r2) ← parseExpr r1
      let (b, r3) ← parseExpr r2
      pure (.ifexp c a b, r3)
    | 'o' =>
      match body.splitOn ":" with
      | [k, n] => do
        let (es, r1) ← parseExprs (natD n) rest
        pure (.other k es, r1)
      | _ => none
    | _ => none
partial def parseExprs (n : Nat) (toks : List String) : Option (List Expr × List String) :=
  match n with
  | 0 => some ([], toks)
  | n + 1 => do
    let (e, r1) ← parseExpr toks
    let (es, r2) ← parseExprs n r1
    pure (e :: es, r2)
end

/-- `!` = the parser raised -/
def parseTree (toks : List String) : Option (Option Expr) :=
  match toks with
  | ["!"] => some none
  | _ => match parseExpr toks with
    | some (e, []) => some (some e)
    | _ => none

def pathwayOfName : String → Option Pathway
  | "math" => some .glycolysis | "logic" => some .krebs | "tool" => some .oxidative | "transform" => some .beta
  | _ => none
def pathwayName : Pathway → String
  | .glycolysis => "math" | .krebs => "logic" | .oxidative => "tool" | .beta => "transform"

/-! ### `_detect_pathway` on code points (`lowered` = `expression.lower().strip()` is supplied by CPython) -/

def isInfix (p : List Nat) : List Nat → Bool
  | [] => p.isEmpty
  | c :: cs => p.isPrefixOf (c :: cs) || isInfix p cs

def cps (s : String) : List Nat := s.toList.map Char.toNat

def detect (toolsLower : List (List Nat)) (raw lowered : List Nat) : Pathway × String :=
  if toolsLower.any fun tl => (tl ++ [40]).isPrefixOf lowered then (.oxidative, "d:tool")
  else if lowered.head? = some 123 || lowered.head? = some 91 then (.beta, "d:literal")
  else if ["true", "false", " and ", " or ", " not "].any fun kw => isInfix (cps kw) lowered then (.krebs, "d:keyword")
  else if ["==", "!=", "<=", ">=", "<", ">"].any fun op => isInfix (cps op) raw then (.krebs, "d:compare")
  else (.glycolysis, "d:math")

/-! ### size estimates for the `bound` probes (driver only; mirrored by `harness/vf/props/c01.py`) -/

def capN : Nat := 1000000000000

/-- exact value while it stays below 2^64 -/
def IExpr.exact : IExpr → Option Nat
  | .lit n => if n < 2 ^ 64 then some n else none
  | .add a b => do let x ← a.exact; let y ← b.exact; if x + y < 2 ^ 64 then some (x + y) else none
  | .mul a b => do let x ← a.exact; let y ← b.exact; if x * y < 2 ^ 64 then some (x * y) else none
  | .pow a b => do
    let x ← a.exact; let y ← b.exact
    if y ≤ 64 && x ≤ 2 ^ 16 && x ^ y < 2 ^ 64 then some (x ^ y) else none

/-- upper bound on the bit length of the value (saturating) -/
def IExpr.up : IExpr → Nat
  | .lit n => n.log2 + 1
  | .add a b => min capN (max a.up b.up + 1)
  | .mul a b => min capN (a.up + b.up)
  | .pow a b =>
    let vb := match b.exact with | some y => y | none => if b.up ≤ 40 then 2 ^ b.up else capN
    min capN (a.up * vb + 1)

/-- lower bound on the bit length of the value (saturating) -/
def IExpr.low : IExpr → Nat
  | .lit n => n.log2 + 1
  | .add a b => max a.low b.low
  | .mul a b => if a.low = 0 || b.low = 0 then 0 else a.low + b.low - 1
  | .pow a b =>
    let vb := match b.exact with | some y => y | none => 2 ^ (min (b.low - 1) 40)
    min capN ((a.low - 1) * vb + 1)

partial def parseIExpr (toks : List String) : Option (IExpr × List String) :=
  match toks with
  | [] => none
  | t :: rest =>
    match t.front with
    | 'I' => some (.lit (natD (t.drop 1).toString), rest)
    | 'A' => do let (a, r1) ← parseIExpr rest; let (b, r2) ← parseIExpr r1; pure (.add a b, r2)
    | 'M' => do let (a, r1) ← parseIExpr rest; let (b, r2) ← parseIExpr r1; pure (.mul a b, r2)
    | 'P' => do let (a, r1) ← parseIExpr rest; let (b, r2) ← parseIExpr r1; pure (.pow a b, r2)
    | _ => none

/-! ### driver -/

structure DSt where
  T : Tables := ⟨[], [], [], [], []⟩
  cfg : Cfg := ⟨10000, true, false, [], none, true, true, true⟩
  toolsLower : List (String × List Nat) := []
  seed : Nat := 0
  /-- per registered tool name: (version of the body currently registered, the body always raises) -/
  toolMeta : List (String × (Nat × Bool)) := []
  ros : Float := 0.0
  maxRos : Float := 1.0
  /-- E1 facts about the result containers (three more tokens of the `cfg` line) -/
  box : Box := ⟨true, true, true⟩
  /-- E1 fact about the TEXT (a fourth extra token of the `cfg` line): the readers are handed the caller's string -/
  pre : PreKind := .identity
  /-- C01 only: `met` / `dg` observations carry the number of walker invocations (`v=…`, see `Model/MitoWork.lean`) -/
  showWork : Bool := false
  /-- C02: the `valueKept` fact decides whether the model vouches for a delivered value.  C01's driver leaves it aside —
      a container that alters a value without executing anything and without raising is C02's matter — and consumes
      `builds` only. -/
  valueFacts : Bool := true
  /-- the console the evaluation entry points write their progress line to (`console` line), and the number of
      calls that have written to that stream -/
  console : Console := .utf8
  written : Nat := 0

def parsePairs {α} (f : String → Option α) (s : String) : List (α × Prim) :=
  (splitComma s).filterMap fun kv =>
    match kv.splitOn "=" with
    | [k, p] => (f k).map fun k => (k, primOfName p)
    | _ => none

def showOutcomeHead : Outcome → String
  | .raised => "raised none"
  | .result true (some v) _ p => s!"ok:{showVal v} {(p.map pathwayName).getD "none"}"
  -- a success whose delivered value the model cannot vouch for (a container that does not keep it)
  | .result true none _ p => s!"ok:? {(p.map pathwayName).getD "none"}"
  | .result _ _ _ p => s!"fail {(p.map pathwayName).getD "none"}"

def rosObs (r : Float) : String := toString (r * 10.0).round.toUInt64

def outcomeTag : Outcome → String
  | .raised => "o:raised"
  | .result true _ _ _ => "o:ok"
  | .result false _ true _ => "o:fail-ros"
  | .result false _ false _ => "o:fail-guard"

/-- the scripted environment with the tool bodies registered right now: a body is identified by its version (mixed
    into its scripted result), and may be a body that always raises -/
def envOf (st : DSt) : Env :=
  let e := scriptEnv st.seed
  { e with tool := fun n args kws =>
      match st.toolMeta.lookup n with
      | some (ver, raises) =>
        if raises then .error "ToolError"
        else if ver = 0 then e.tool n args kws
        else
          let r := hashKws (mix (encVals (mix (mix (mix st.seed 300) (hashStr n)) (1000 + ver)) args) 99) kws
          if r % 8 = 0 then .error "TracerError" else .ok (.h r)
      | none => e.tool n args kws }

def showActV (st : DSt) : Act → String
  | .tool n args kws =>
    let v := match st.toolMeta.lookup n with | some (ver, _) => ver | none => 0
    "tl:" ++ hexOfStr n ++ (if v = 0 then "" else s!"@{v}") ++ ":" ++ ";".intercalate (showVals args) ++ ":" ++ showKws kws
  | a => showAct a

def showTraceV (st : DSt) (t : List Act) : String := "{" ++ "|".intercalate (t.map (showActV st)) ++ "}"

def regTool (st : DSt) (hn hl caps beh : String) : DSt :=
  let n := strOfHex hn
  let reg : ToolReg := ⟨n, splitComma caps⟩
  let tools := if st.cfg.tools.any (·.name = n) then st.cfg.tools.map (fun t => if t.name = n then reg else t)
               else st.cfg.tools ++ [reg]
  let tl := (st.toolsLower.filter (·.1 ≠ n)) ++ [(n, decodeCps hl)]
  let raises := beh.front = 'x'
  let ver := natD ((((beh.drop 1).toString.splitOn ":").headD "0"))
  { st with cfg := { st.cfg with tools := tools }, toolsLower := tl,
            toolMeta := (n, (ver, raises)) :: st.toolMeta.filter (·.1 ≠ n) }

def step (st : DSt) (toks : List String) : DSt × String :=
  match toks with
  | ["tables", b, u, c, bo, n] =>
    ({ st with T := ⟨parsePairs binOfName b, parsePairs unOfName u, parsePairs cmpOfName c,
                     (splitComma bo).filterMap boolOfName, (splitComma n).map strOfHex⟩ }, "ok")
  -- the public allow-list tables re-assigned / edited on the LIVE engine (instance attribute, class attribute, in
  -- place): whichever way, the tables in force from the next call on are the new ones — the model keeps no copy
  | ["retable", _how, b, u, c, bo, n] =>
    ({ st with T := ⟨parsePairs binOfName b, parsePairs unOfName u, parsePairs cmpOfName c,
                     (splitComma bo).filterMap boolOfName, (splitComma n).map strOfHex⟩ }, "ok ## retable")
  | "cfg" :: seed :: silent :: rn :: rd :: tz :: pit :: dit :: maxLen :: allowed :: rest =>
    let al := if allowed = "none" then none else some (splitComma allowed)
    let sg := match rest with | x :: _ => boolOf x | _ => true
    let box : Box := match rest with
      | [_, a, b, c] => ⟨boolOf a, boolOf b, boolOf c⟩
      | [_, a, b, c, _] => ⟨boolOf a, boolOf b, boolOf c⟩
      | _ => ⟨true, true, true⟩
    let pre : PreKind := match rest with | [_, _, _, _, d] => (if boolOf d then .identity else .rewrites) | _ => .identity
    ({ st with seed := natD seed, ros := 0.0, maxRos := Float.ofNat (natD rn) / Float.ofNat (natD rd 1),
               toolsLower := [], toolMeta := [], box := box, pre := pre,
               cfg := ⟨natD maxLen, boolOf silent, boolOf tz, [], al, boolOf pit, boolOf dit, sg⟩ }, "ok")
  | ["tool", hn, hl, caps] => (regTool st hn hl caps "s0", "ok")
  | ["tool", hn, hl, caps, beh] => (regTool st hn hl caps beh, "ok")
  -- the registration route (register_function / engulf_tool with a SimpleTool or a foreign object / the constructor's
  -- `tools=`) makes no difference to the registry
  | ["tool", hn, hl, caps, beh, _route] => (regTool st hn hl caps beh, "ok")
  -- `engine.timeout` re-assigned on the live engine: with 0 / 0.0 / None the efficiency computation of a SUCCESS raises
  -- (ZeroDivisionError / TypeError) — inside the handler, so the call ends as a counted failure
  -- `sys.stdout` replaced for the evaluation calls that follow: a fresh stream of the given kind
  | ["console", kind, k] =>
    let c : Console := match kind with
      | "closed" => .closed
      | "ascii" | "latin1" | "cp1252" => .narrow
      | "asciirepl" | "asciibs" => .lossy
      | "failat" | "failatv" | "failnl" => .failAt (natD k)
      | _ => .utf8
    ({ st with console := c, written := 0 }, "ok ## console:" ++ (match c with
      | .utf8 => "utf8" | .closed => "closed" | .narrow => "narrow" | .lossy => "lossy" | .failAt _ => "failat"))
  | ["retimeout", k] => ({ st with cfg := { st.cfg with timeoutZero := k != "pos" } }, "ok ## retimeout")
  | ["untool", hn] =>
    let n := strOfHex hn
    ({ st with cfg := { st.cfg with tools := st.cfg.tools.filter (·.name ≠ n) },
               toolsLower := st.toolsLower.filter (·.1 ≠ n), toolMeta := st.toolMeta.filter (·.1 ≠ n) }, "ok")
  | ["cleartools"] =>
    ({ st with cfg := { st.cfg with tools := [] }, toolsLower := [], toolMeta := [] }, "ok")
  | "dg" :: pr :: len :: _raw :: _low :: beta :: tree =>
    match parseTree tree with
    | none => (st, "bad-tree")
    | some parsed =>
      let latched := st.ros >= st.maxRos
      let cw := consoleStep st.cfg latched st.console st.written (natD len) (boolOf pr)
      let st := { st with written := cw.2 }
      let inp : Inp := ⟨natD len, parsed, if beta = "none" then none else valOfString beta, cw.1⟩
      -- values of the tracer world always render as text
      let (tr, out) := digestGlucose st.T (envOf st) st.cfg latched inp false
      let failed := match out with | .text true => false | _ => true
      let counted := failed && !latched && inp.len ≤ st.cfg.maxLen && out != .raised
      let ros' := if counted then st.ros + 0.1 else st.ros
      let head := match out with | .text true => "text:ok" | .text false => "text:fail" | .raised => "raised"
      let w := if st.showWork then s!" v={metVisits st.T (envOf st) st.cfg latched .glycolysis inp (some .glycolysis)}" else ""
      ({ st with ros := ros' }, s!"{head} ros={rosObs ros'} {showTraceV st tr}{w} ## dg:{head}")
  | ["cdg", sr, _src] =>
    (st, if st.cfg.strGuarded || !boolOf sr then "returned ## cdg:returned" else "unknown ## cdg:unknown")
  | "met" :: forced :: pr :: len :: raw :: low :: beta :: tree =>
    match parseTree tree with
    | none => (st, "bad-tree")
    | some parsed =>
      -- the literal route of the transform pathway is computed by the model; the environment answers for the rest
      let betaV := match parsed.bind litEval with
        | some v => some v
        | none => if beta = "none" then none else valOfString beta
      let latched := st.ros >= st.maxRos
      let cw := consoleStep st.cfg latched st.console st.written (natD len) (boolOf pr)
      let st := { st with written := cw.2 }
      let inp : Inp := ⟨natD len, parsed, betaV, cw.1⟩
      let (d, dtag) := detect (st.toolsLower.map (·.2)) (decodeCps raw) (decodeCps low)
      -- what the caller sees: the engine's outcome through the result containers
      let box : Box := if st.valueFacts then st.box else { st.box with valueKept := true }
      let (tr, out) := metabolizeD st.T (envOf st) st.cfg box latched d inp (pathwayOfName forced)
      -- an entry point that rewrites the text before its readers see it: the tokens of this line are CPython's reading of
      -- the caller's text, not of what the engine read — the model does not vouch for a value (C02's driver only)
      let out := if st.valueFacts && st.pre != .identity then veil out else out
      let ros' := match out with
        | .result _ _ true _ => st.ros + 0.1
        | _ => st.ros
      let tags := [outcomeTag out] ++ (if forced = "auto" && !latched && inp.len ≤ st.cfg.maxLen then [dtag] else [])
        ++ (if latched then ["latched"] else []) ++ (if inp.len > st.cfg.maxLen then ["too-long"] else [])
      let w := if st.showWork then s!" v={metVisits st.T (envOf st) st.cfg latched d inp (pathwayOfName forced)}" else ""
      ({ st with ros := ros' }, s!"{showOutcomeHead out} ros={rosObs ros'} {showTraceV st tr}{w} ## " ++ joinSp tags)
  | "pyev" :: _src :: tree =>
    match parseTree tree with
    | some (some e) =>
      let (tr, r) := pyRun st.T.names (scriptEnv st.seed) e
      let head := match r with | .ok v => "ok:" ++ showVal v | .error _ => "fail"
      (st, s!"{head} {showTrace tr} ## " ++ (match r with | .ok _ => "py:ok" | .error _ => "py:fail"))
    | some none => (st, "fail {} ## py:syntax")
    | none => (st, "bad-tree")
  | "pyevl" :: _src :: tree =>
    -- Python's evaluation on the logic pathway: the namespace additionally binds true / false; result is bool(value)
    match parseTree tree with
    | some (some e) =>
      let env0 := scriptEnv st.seed
      let lk : String → Val := fun n =>
        if n = "true" then Val.bool true else (if n = "false" then Val.bool false else env0.lookup n)
      let env' : Env := ⟨lk, env0.prim, env0.truthy, env0.apply, env0.tool⟩
      let (tr, r) := (pyRun (st.T.names ++ ["true", "false"]) env' e).bind fun v =>
        (truthyR env' v).bind fun b => R.pure (Val.bool b)
      let head := match r with | .ok v => "ok:" ++ showVal v | .error _ => "fail"
      (st, s!"{head} {showTrace tr} ## " ++ (match r with | .ok _ => "pyl:ok" | .error _ => "pyl:fail"))
    | some none => (st, "fail {} ## py:syntax")
    | none => (st, "bad-tree")
  | "pyevt" :: _src :: tree =>
    -- Python's evaluation of a tool-call text, the registered tools bound to their names (their bodies as registered now)
    match parseTree tree with
    | some (some e) =>
      let (tr, r) := pyToolRun st.T.names (envOf st) st.cfg.tools e
      let head := match r with | .ok v => "ok:" ++ showVal v | .error _ => "fail"
      (st, s!"{head} {showTraceV st tr} ## " ++ (match r with | .ok _ => "pyt:ok" | .error _ => "pyt:fail"))
    | some none => (st, "fail {} ## py:syntax")
    | none => (st, "bad-tree")
  | ["cmet", forced, len, raw, low] =>
    let (d, dtag) := detect (st.toolsLower.map (·.2)) (decodeCps raw) (decodeCps low)
    if natD len > st.cfg.maxLen then
      (st, s!"{((pathwayOfName forced).map pathwayName).getD "none"} ## too-long")
    else
      (st, s!"{pathwayName ((pathwayOfName forced).getD d)} ## " ++ (if forced = "auto" then dtag else "forced"))
  -- concrete text on an engine whose allow-list was narrowed after construction: pathway selection as for `cmet`
  | ["cmetn", _how, _drop, forced, len, raw, low] =>
    let (d, dtag) := detect (st.toolsLower.map (·.2)) (decodeCps raw) (decodeCps low)
    if natD len > st.cfg.maxLen then
      (st, s!"{((pathwayOfName forced).map pathwayName).getD "none"} ## too-long")
    else
      (st, s!"{pathwayName ((pathwayOfName forced).getD d)} ## " ++ (if forced = "auto" then dtag else "forced"))
  -- concrete text on an engine whose table binds names to values of unusual types: pathway selection as for `cmet`
  | ["cmetv", _kind, forced, len, raw, low] =>
    let (d, dtag) := detect [decodeCps "74.76"] (decodeCps raw) (decodeCps low)
    if natD len > st.cfg.maxLen then
      (st, s!"{((pathwayOfName forced).map pathwayName).getD "none"} ## too-long")
    else
      (st, s!"{pathwayName ((pathwayOfName forced).getD d)} ## " ++ (if forced = "auto" then dtag else "forced"))
  | "bound" :: _src :: toks =>
    match parseIExpr toks with
    | some (e, []) =>
      if e.up ≤ 100000 then (st, "returned ## b:within" ++ (if e.powFree then "" else " b:small-pow"))
      else if e.low ≥ 1000000000 then (st, "killed ## b:exceeds") else (st, "gap ## b:gap")
    | _ => (st, "bad-tree")
  | ["repair", n, d] =>
    let amt := Float.ofNat (natD n) / Float.ofNat (natD d 1)
    let r := st.ros - amt
    let r := if r > 0.0 then r else 0.0
    ({ st with ros := r }, s!"ros={rosObs r}")
  | _ => (st, "bad-op")

def main : IO Unit := runDriver ({} : DSt) step

/-- C01's driver: observations carry the walker-invocation count -/
def mainW : IO Unit := runDriver ({ showWork := true, valueFacts := false } : DSt) step

end Operon.Mito
