/-
  Model of `operon_ai/topology/loops.py :: CoherentFeedForwardLoop` (the two-key guard with circuit
  breaker and result cache) — properties C07 and C08.

  What is modelled (mirrors the code branch by branch, including glue):
  * `_apply_gate_logic`: the decision table over the verdict classes of the two agents (`applyGate`);
    the class of a verdict string is `classify` (the code compares `action_type` only against the four
    literals EXECUTE / PERMIT / BLOCK / FAILURE — checked on every run by extractor E2).
  * `run`: total-request counter, circuit check before cache before agents, cache hit returns the
    stored result with `cached=True` and touches nothing else, executor is consulted before the assessor,
    an exception of either agent is caught (`_record_failure`, ERROR result, *not* cached), the outcome
    classification that feeds the breaker (`classifyRun`), caching of every gate result, the
    `UnicodeEncodeError` that `prompt.encode()` raises for prompts with lone surrogates (`Prompt.enc`).
  * `_check_circuit`, `_record_success`, `_record_failure`, `reset_circuit_breaker`, `clear_cache`,
    `_check_cache` (TTL with strict `<`, same gate logic as configured now; otherwise the entry is deleted),
    `_cache_result` (dict insertion order,
    1000-entry cap evicting the first entry with the smallest timestamp).
  * time: microseconds on a virtual clock (`State.now`), advanced only by `Op.adv`.
  * hashing: `Hashes.md5` (cache key) and `Hashes.sha` (token binding) are arbitrary functions on prompt
    identities; theorems that need it assume `md5` injective (the harness uses distinct prompts whose
    truncated md5 digests are distinct).
  * agents: arbitrary — every request carries the response (`Resp`) each agent would give (a verdict
    class or an exception); every invocation costs `Cfg.cost` energy units (the harness' stub agents
    consume exactly that from the shared `ATP_Store` through its plain `consume` path).

  * the tail of `run` (section "callbacks and statistics"): `_total_requests`, `_total_blocked`,
    `_total_permitted`, the length of the results log (cap 1000), the `on_block` / `on_permit` callbacks
    (not set / returns / raises) and what the caller finally gets (`deliver`).  The callbacks come AFTER the
    breaker update and the cache store and are not called for CIRCUIT_OPEN, cache hits and agent
    exceptions, so they cannot influence `State`; a raising callback only takes the reply away from the
    caller (the result is logged, cached and was handed to the callback).

  * rendering of agent exceptions and payloads (section "payloads and exceptions that cannot be rendered"): it
    cannot fail since the `fix:` commits (`_describe`); the pre-fix shape is `runP false` / `deliver … true`.

  Not modelled: console output, processing time, payload/confidence/metadata of the token, callbacks that
  re-enter the loop or mutate the result they are given, thread interleavings finer than agent calls.
-/
namespace Operon.Cffl

inductive Gate where
  | and | or | majority | unanimous | execPrio | assessPrio
  deriving Repr, DecidableEq

/-- Verdict classes: the four literals the code knows and "anything else" (DEFER, UNKNOWN, …). -/
inductive Cls where
  | execute | permit | block | failure | other
  deriving Repr, DecidableEq

def allCls : List Cls := [.execute, .permit, .block, .failure, .other]
def allGates : List Gate := [.and, .or, .majority, .unanimous, .execPrio, .assessPrio]

def classify (s : String) : Cls :=
  if s = "EXECUTE" then .execute
  else if s = "PERMIT" then .permit
  else if s = "BLOCK" then .block
  else if s = "FAILURE" then .failure
  else .other

inductive Action where
  | success | blocked | failure | skipped | error | circuitOpen
  deriving Repr, DecidableEq

inductive Agent where
  | executor | assessor
  deriving Repr, DecidableEq

/-- What `_apply_gate_logic` decides, before prompt-dependent fields are filled in.
    `token` = an approval token is attached to the result. -/
structure GateOut where
  success : Bool
  action : Action
  blocked : Bool
  token : Bool
  deriving Repr, DecidableEq

def errorOut : GateOut := ⟨false, .error, true, false⟩

/-- `_apply_gate_logic`, branch by branch.  `approval` is built iff the assessor's verdict is PERMIT and
    is passed along only by the SUCCESS results. -/
def applyGate (g : Gate) (z y : Cls) : GateOut :=
  let approval := y == .permit
  let zPermits := z == .execute || z == .permit
  let zBlocks := z == .block
  let zFails := z == .failure
  let yPermits := y == .permit
  let yBlocks := y == .block
  match g with
  | .and | .unanimous =>
    if yBlocks then ⟨true, .blocked, true, false⟩
    else if zFails then ⟨false, .failure, true, false⟩
    else if zBlocks then ⟨true, .skipped, true, false⟩
    else if zPermits && yPermits then ⟨true, .success, false, approval⟩
    else errorOut
  | .or =>
    if zPermits || yPermits then ⟨true, .success, false, approval⟩
    else ⟨false, .blocked, true, false⟩
  | .execPrio =>
    if yBlocks then ⟨true, .blocked, true, false⟩
    else if zPermits then ⟨true, .success, false, approval⟩
    else errorOut
  | .assessPrio =>
    if zFails then ⟨false, .failure, true, false⟩
    else if yPermits then ⟨true, .success, false, approval⟩
    else if yBlocks then ⟨true, .blocked, true, false⟩
    else errorOut
  | .majority => errorOut

/-- What the result of one gate evaluation means to the circuit breaker. -/
inductive BEvent where
  | success | neither | failure
  deriving Repr, DecidableEq

/-- The `if / elif / else` in `run` that feeds the breaker, as a function of the result's flags and of
    the two verdict classes (after the C08 fix): a successful un-blocked result is a success; a result the
    gate marks successful, or one where an agent voted BLOCK, is an intentional block (neither); every other
    result (executor FAILURE, signal-mismatch ERROR, rejection without a BLOCK verdict) is a failure. -/
def classifyRun (success blocked : Bool) (z y : Cls) : BEvent :=
  if success && !blocked then .success
  else if success || z == .block || y == .block then .neither
  else .failure

structure Token where
  hash : Nat
  issuer : Agent
  deriving Repr, DecidableEq

structure Result where
  success : Bool
  action : Action
  blocked : Bool
  token : Option Token
  cached : Bool
  deriving Repr, DecidableEq

def circuitOpenResult : Result := ⟨false, .circuitOpen, true, none, false⟩
def errorResult : Result := ⟨false, .error, true, none, false⟩

structure Hashes where
  md5 : Nat → Nat
  sha : Nat → Nat

structure Cfg where
  gate : Gate := .and
  breakerOn : Bool := true
  threshold : Int := 5
  timeout : Int := 60000000
  cacheOn : Bool := true
  ttl : Int := 300000000
  cost : Nat := 10

inductive CState where
  | closed | opened | halfOpen
  deriving Repr, DecidableEq, Inhabited

/-- a cache entry: key, the stored result, the time it was stored, and the gate logic the result was produced
    under (`LoopResult.gate_logic`, which `_apply_gate_logic` sets to the logic in force) -/
structure Entry where
  key : Nat
  res : Result
  ts : Nat
  gate : Gate
  deriving Repr, DecidableEq

/-- The breaker automaton's own state (`_circuit_state`, `_failure_count`, `_success_count`, `_last_failure`,
    `_last_success`, `_trips_count`, `_total_errors`). -/
structure Breaker where
  cstate : CState := .closed
  failures : Nat := 0
  successes : Nat := 0
  lastFailure : Option Nat := none
  lastSuccess : Option Nat := none
  trips : Nat := 0
  totalErrors : Nat := 0
  deriving Repr, DecidableEq, Inhabited

structure State where
  now : Nat := 0
  br : Breaker := {}
  cache : List Entry := []
  execCalls : Nat := 0
  assessCalls : Nat := 0
  spent : Nat := 0
  deriving Repr, DecidableEq

def init : State := {}

/-- A prompt: its identity and whether `str.encode()` succeeds on it (no lone surrogates). -/
structure Prompt where
  id : Nat
  enc : Bool := true
  deriving Repr, DecidableEq

/-- What an agent does when consulted.
    `exc`  : raises an `Exception` that can be rendered as text (the handler of `run` formats it into the
             block reason of the ERROR reply);
    `excU` : raises an `Exception` whose `__str__` raises ("unprintable"): the handler records the failure and
             renders the exception through `_describe` (placeholder `<unprintable Class>`) — the same blocked ERROR
             reply as for `exc` (since the `fix:` commit; before it the handler failed while formatting
             `f"Agent error: {e}"` and `run` raised — that shape is `runP false`, section "payloads" below);
    `excB` : raises a `BaseException` that is not an `Exception` (KeyboardInterrupt, SystemExit, …): the
             `except Exception` handler does not see it — `run` raises, no failure is recorded. -/
inductive Resp where
  | exc
  | ret (c : Cls)
  | excU
  | excB
  deriving Repr, DecidableEq

/-- the agent raised something the `except Exception` handler of `run` catches -/
def Resp.caught : Resp → Bool
  | .exc => true
  | .excU => true
  | _ => false

/-! ### circuit breaker -/

/-- `self._last_failure and datetime.now() - self._last_failure >= self.recovery_timeout` -/
def elapsedOk (cfg : Cfg) (now : Nat) (b : Breaker) : Bool :=
  match b.lastFailure with
  | some t => decide (cfg.timeout ≤ (now : Int) - (t : Int))
  | none => false

/-- `_check_circuit`: new breaker state and whether the request is admitted. -/
def checkCircuit (cfg : Cfg) (now : Nat) (b : Breaker) : Breaker × Bool :=
  match b.cstate with
  | .closed => (b, true)
  | .opened => if elapsedOk cfg now b then ({ b with cstate := .halfOpen }, true) else (b, false)
  | .halfOpen => (b, true)

/-- `_record_success` -/
def recordSuccess (now : Nat) (b : Breaker) : Breaker :=
  match b.cstate with
  | .halfOpen => { b with successes := b.successes + 1, lastSuccess := some now, cstate := .closed, failures := 0 }
  | _ => { b with successes := b.successes + 1, lastSuccess := some now }

/-- `_record_failure` -/
def recordFailure (cfg : Cfg) (now : Nat) (b : Breaker) : Breaker :=
  match b.cstate with
  | .halfOpen =>
    { b with failures := b.failures + 1, totalErrors := b.totalErrors + 1, lastFailure := some now,
             cstate := .opened, trips := b.trips + 1 }
  | .closed =>
    if cfg.threshold ≤ ((b.failures + 1 : Nat) : Int) then
      { b with failures := b.failures + 1, totalErrors := b.totalErrors + 1, lastFailure := some now,
               cstate := .opened, trips := b.trips + 1 }
    else
      { b with failures := b.failures + 1, totalErrors := b.totalErrors + 1, lastFailure := some now }
  | .opened =>
    { b with failures := b.failures + 1, totalErrors := b.totalErrors + 1, lastFailure := some now }

def applyEvent (cfg : Cfg) (now : Nat) (b : Breaker) : BEvent → Breaker
  | .success => recordSuccess now b
  | .neither => b
  | .failure => recordFailure cfg now b

/-- `reset_circuit_breaker` -/
def resetBreaker (b : Breaker) : Breaker := { b with cstate := .closed, failures := 0 }

/-! ### cache -/

def cacheCap : Nat := 1000

def cacheFind (k : Nat) : List Entry → Option Entry
  | [] => none
  | e :: es => if e.key = k then some e else cacheFind k es

def cacheErase (k : Nat) (c : List Entry) : List Entry := c.filter fun e => e.key ≠ k

def minTs : List Entry → Nat
  | [] => 0
  | [e] => e.ts
  | e :: es => min e.ts (minTs es)

/-- delete the first entry (dict order) carrying timestamp `t` -/
def eraseFirstTs (t : Nat) : List Entry → List Entry
  | [] => []
  | e :: es => if e.ts = t then es else e :: eraseFirstTs t es

/-- `self._cache[key] = (result, now)`: an existing key keeps its position in the dict order -/
def cachePut (k : Nat) (r : Result) (now : Nat) (g : Gate) (c : List Entry) : List Entry :=
  if (cacheFind k c).isSome then c.map fun e => if e.key = k then ⟨k, r, now, g⟩ else e
  else c ++ [⟨k, r, now, g⟩]

/-- `_cache_result` -/
def cacheStore (k : Nat) (r : Result) (now : Nat) (g : Gate) (c : List Entry) : List Entry :=
  let c' := cachePut k r now g c
  if cacheCap < c'.length then eraseFirstTs (minTs c') c' else c'

/-- `_check_cache`: an entry that is fresh AND was produced under the gate logic configured now is returned; an
    expired one, or one decided under another gate logic (`gate_logic` re-assigned on the live loop), is deleted. -/
def checkCache (cfg : Cfg) (H : Hashes) (s : State) (p : Prompt) : State × Option Result :=
  match cacheFind (H.md5 p.id) s.cache with
  | some e =>
    if (s.now : Int) - (e.ts : Int) < cfg.ttl ∧ e.gate = cfg.gate then (s, some e.res)
    else ({ s with cache := cacheErase (H.md5 p.id) s.cache }, none)
  | none => (s, none)

/-! ### one request -/

/-- How a request was handled (reported by the driver as a branch tag; used by the theorems to talk
    about "failure outcomes" of a history). -/
inductive Kind where
  | circuitOpen            -- rejected by the open breaker
  | cacheHit
  | agentExc               -- an agent raised: ERROR result, failure recorded
  | gated (e : BEvent)     -- both agents answered, gate applied
  | raised                 -- `run` itself raised (unencodable prompt)
  | admin                  -- not a request (clock advance, reset, clear)
  | aborted                -- an agent raised a BaseException that `run` does not catch: it passes through
  deriving Repr, DecidableEq

def Kind.isFailure : Kind → Bool
  | .agentExc => true
  | .gated .failure => true
  | _ => false

structure Out where
  kind : Kind
  result : Option Result
  deriving Repr, DecidableEq

def callExecutor (cfg : Cfg) (s : State) : State :=
  { s with execCalls := s.execCalls + 1, spent := s.spent + cfg.cost }

def callAssessor (cfg : Cfg) (s : State) : State :=
  { s with assessCalls := s.assessCalls + 1, spent := s.spent + cfg.cost }

def gateResult (H : Hashes) (g : Gate) (p : Prompt) (z y : Cls) : Result :=
  let o := applyGate g z y
  ⟨o.success, o.action, o.blocked, if o.token then some ⟨H.sha p.id, .assessor⟩ else none, false⟩

/-- `run` from "Create signal" on: both agents, gate, breaker update, caching.
    The `except Exception` handler calls `_record_failure()` before anything else and renders the exception with
    `_describe`, which cannot fail: an exception that cannot be rendered (`excU`) is counted and answered with the
    blocked ERROR reply like any other. -/
def consult (cfg : Cfg) (H : Hashes) (s : State) (p : Prompt) (zr yr : Resp) : State × Out :=
  let s1 := callExecutor cfg s
  match zr with
  | .exc => ({ s1 with br := recordFailure cfg s1.now s1.br }, ⟨.agentExc, some errorResult⟩)
  | .excU => ({ s1 with br := recordFailure cfg s1.now s1.br }, ⟨.agentExc, some errorResult⟩)
  | .excB => (s1, ⟨.aborted, none⟩)
  | .ret z =>
    let s2 := callAssessor cfg s1
    match yr with
    | .exc => ({ s2 with br := recordFailure cfg s2.now s2.br }, ⟨.agentExc, some errorResult⟩)
    | .excU => ({ s2 with br := recordFailure cfg s2.now s2.br }, ⟨.agentExc, some errorResult⟩)
    | .excB => (s2, ⟨.aborted, none⟩)
    | .ret y =>
      if p.enc then
        let r := gateResult H cfg.gate p z y
        let ev := classifyRun r.success r.blocked z y
        let s3 := { s2 with br := applyEvent cfg s2.now s2.br ev }
        if cfg.cacheOn then
          ({ s3 with cache := cacheStore (H.md5 p.id) r s3.now cfg.gate s3.cache }, ⟨.gated ev, some r⟩)
        else (s3, ⟨.gated ev, some r⟩)
      else (s2, ⟨.raised, none⟩)   -- sha256(prompt.encode()) raises inside _apply_gate_logic

/-- `run` from "Check cache" on. -/
def afterCircuit (cfg : Cfg) (H : Hashes) (s : State) (p : Prompt) (zr yr : Resp) : State × Out :=
  if cfg.cacheOn then
    if p.enc then
      match checkCache cfg H s p with
      | (s1, some r) => (s1, ⟨.cacheHit, some { r with cached := true }⟩)
      | (s1, none) => consult cfg H s1 p zr yr
    else (s, ⟨.raised, none⟩)       -- md5(prompt.encode()) raises inside _check_cache
  else consult cfg H s p zr yr

/-- `CoherentFeedForwardLoop.run` -/
def run (cfg : Cfg) (H : Hashes) (s : State) (p : Prompt) (zr yr : Resp) : State × Out :=
  if cfg.breakerOn then
    match checkCircuit cfg s.now s.br with
    | (b1, false) => ({ s with br := b1 }, ⟨.circuitOpen, some circuitOpenResult⟩)
    | (b1, true) => afterCircuit cfg H { s with br := b1 } p zr yr
  else afterCircuit cfg H s p zr yr

/-! ### histories -/

inductive Op where
  | run (p : Prompt) (zr yr : Resp)
  | adv (d : Nat)
  | resetcb
  | clearcache
  deriving Repr, DecidableEq

structure Obs where
  op : Op
  out : Out
  deriving Repr, DecidableEq

def step (cfg : Cfg) (H : Hashes) (s : State) : Op → State × Out
  | .run p zr yr => run cfg H s p zr yr
  | .adv d => ({ s with now := s.now + d }, ⟨.admin, none⟩)
  | .resetcb => ({ s with br := resetBreaker s.br }, ⟨.admin, none⟩)
  | .clearcache => ({ s with cache := [] }, ⟨.admin, none⟩)

/-- Run a history; returns the final state and the observations in order. -/
def exec (cfg : Cfg) (H : Hashes) (s : State) : List Op → State × List Obs
  | [] => (s, [])
  | op :: ops =>
    let r := step cfg H s op
    let rest := exec cfg H r.1 ops
    (rest.1, ⟨op, r.2⟩ :: rest.2)

/-! ### the phases of one request — overlapping requests

  `run` is not atomic in the code: between its cache look-up and its cache store it calls the two agents, and
  while an agent is busy another request may run on the same loop (the agent itself consults the loop —
  re-entrancy — or a second thread does).  At the granularity of agent calls a request is the sequence

      look-up (circuit check, cache)  ·  executor consulted  ·  assessor consulted  ·  finish (gate, breaker, store)

  with an agent exception cutting it short (`agentRaised`).  Every phase reads the loop's state afresh (the code
  parks nothing about the request in `self` between the phases); what a request carries from phase to phase are
  its own locals: the prompt and the two verdicts.  A history of overlapping requests is a list of phases in any
  order (`PhaseOp`, `execPhases`); the atomic `run` is the special case in which the phases of one request are
  consecutive (`run_eq_phases`, Lemmas/CfflPhase.lean). -/

/-- The attributes of the loop object behind the part of `State` through which one phase of a request can
    influence a later phase (`State.br`, `State.cache`).  Extractor E2 observes on the real code which attributes
    are modified in one phase of `run` and read in a later one (`Gen.GateTable.carried`); they must all be here
    (`c07_request_state_is_local`), otherwise `finish` would have to take more than `(p, z, y)` and the state. -/
def stateAttrs : List String :=
  ["_circuit_state", "_failure_count", "_success_count", "_last_failure", "_last_success", "_trips_count",
   "_total_errors", "_cache"]

/-- `run` up to "Create signal": circuit check, then cache look-up.  `none`: the agents have to be consulted. -/
def lookupCache (cfg : Cfg) (H : Hashes) (s : State) (p : Prompt) : State × Option Out :=
  if cfg.cacheOn then
    if p.enc then
      match checkCache cfg H s p with
      | (s1, some r) => (s1, some ⟨.cacheHit, some { r with cached := true }⟩)
      | (s1, none) => (s1, none)
    else (s, some ⟨.raised, none⟩)
  else (s, none)

def lookup (cfg : Cfg) (H : Hashes) (s : State) (p : Prompt) : State × Option Out :=
  if cfg.breakerOn then
    match checkCircuit cfg s.now s.br with
    | (b1, false) => ({ s with br := b1 }, some ⟨.circuitOpen, some circuitOpenResult⟩)
    | (b1, true) => lookupCache cfg H { s with br := b1 } p
  else lookupCache cfg H s p

/-- the `except` handler of the agent calls (the exception can be rendered) -/
def agentRaised (cfg : Cfg) (s : State) : State × Out :=
  ({ s with br := recordFailure cfg s.now s.br }, ⟨.agentExc, some errorResult⟩)

/-- the `except` handler when the exception cannot be rendered: failure recorded, the block reason gets the
    placeholder of `_describe` — the same ERROR reply -/
def agentRaisedU (cfg : Cfg) (s : State) : State × Out :=
  ({ s with br := recordFailure cfg s.now s.br }, ⟨.agentExc, some errorResult⟩)

/-- a `BaseException` of an agent passes through `run` -/
def agentAborted (s : State) : State × Out := (s, ⟨.aborted, none⟩)

/-- `run` from "Apply gate logic" on, for the request with prompt `p` whose agents answered `z` and `y`:
    gate, breaker update, cache store — all against the state the loop is in NOW. -/
def finish (cfg : Cfg) (H : Hashes) (s : State) (p : Prompt) (z y : Cls) : State × Out :=
  if p.enc then
    let r := gateResult H cfg.gate p z y
    let ev := classifyRun r.success r.blocked z y
    let s3 := { s with br := applyEvent cfg s.now s.br ev }
    if cfg.cacheOn then
      ({ s3 with cache := cacheStore (H.md5 p.id) r s3.now cfg.gate s3.cache }, ⟨.gated ev, some r⟩)
    else (s3, ⟨.gated ev, some r⟩)
  else (s, ⟨.raised, none⟩)

inductive PhaseOp where
  | lookup (p : Prompt)                 -- a request enters
  | execCall                            -- some pending request consults the executor
  | assessCall                          -- some pending request consults the assessor
  | agentRaised                         -- the agent a pending request consulted raised
  | agentRaisedU                        -- … raised an exception that cannot be rendered
  | agentAborted                        -- … raised a BaseException
  | finish (p : Prompt) (z y : Cls)     -- the pending request for `p` got the verdicts `z`, `y`
  | adv (d : Nat)
  | resetcb
  | clearcache
  deriving Repr, DecidableEq

/-- observation of one phase: the reply, if the request is answered at this phase -/
structure PhaseObs where
  op : PhaseOp
  out : Option Out
  deriving Repr, DecidableEq

def phaseStep (cfg : Cfg) (H : Hashes) (s : State) : PhaseOp → State × Option Out
  | .lookup p => lookup cfg H s p
  | .execCall => (callExecutor cfg s, none)
  | .assessCall => (callAssessor cfg s, none)
  | .agentRaised => ((agentRaised cfg s).1, some (agentRaised cfg s).2)
  | .agentRaisedU => ((agentRaisedU cfg s).1, some (agentRaisedU cfg s).2)
  | .agentAborted => ((agentAborted s).1, some (agentAborted s).2)
  | .finish p z y => ((finish cfg H s p z y).1, some (finish cfg H s p z y).2)
  | .adv d => ({ s with now := s.now + d }, none)
  | .resetcb => ({ s with br := resetBreaker s.br }, none)
  | .clearcache => ({ s with cache := [] }, none)

def execPhases (cfg : Cfg) (H : Hashes) (s : State) : List PhaseOp → State × List PhaseObs
  | [] => (s, [])
  | op :: ops =>
    let r := phaseStep cfg H s op
    let rest := execPhases cfg H r.1 ops
    (rest.1, ⟨op, r.2⟩ :: rest.2)

/-- the phases the atomic `run` goes through from state `s` (the look-up decides whether agents are asked) -/
def phasesOfRun (cfg : Cfg) (H : Hashes) (s : State) (p : Prompt) (zr yr : Resp) : List PhaseOp :=
  match (lookup cfg H s p).2 with
  | some _ => [.lookup p]
  | none =>
    match zr, yr with
    | .exc, _ => [.lookup p, .execCall, .agentRaised]
    | .excU, _ => [.lookup p, .execCall, .agentRaisedU]
    | .excB, _ => [.lookup p, .execCall, .agentAborted]
    | .ret _, .exc => [.lookup p, .execCall, .assessCall, .agentRaised]
    | .ret _, .excU => [.lookup p, .execCall, .assessCall, .agentRaisedU]
    | .ret _, .excB => [.lookup p, .execCall, .assessCall, .agentAborted]
    | .ret z, .ret y => [.lookup p, .execCall, .assessCall, .finish p z y]

/-! ### histories of a loop whose configuration attributes are re-assigned

  `gate_logic`, `enable_cache`, `cache_ttl`, `enable_circuit_breaker`, `failure_threshold`, `recovery_timeout` are
  plain public attributes: assigning one on a live loop replaces the configuration and keeps the state (breaker,
  cache, counters) — nothing is re-validated, except that a cache entry is served only under the gate logic it was
  decided under (`checkCache`; since the `fix:` commit for finding C07-gate-reassigned-cache). -/

inductive ROp where
  | op (o : Op)
  | assign (c : Cfg)

/-- observation of a request together with the configuration in force when it was handled -/
structure RObs where
  cfg : Cfg
  op : Op
  out : Out

def RObs.toObs (o : RObs) : Obs := ⟨o.op, o.out⟩

def execR (H : Hashes) : Cfg → State → List ROp → State × List RObs
  | _, s, [] => (s, [])
  | _, s, .assign c :: rest => execR H c s rest
  | cfg, s, .op o :: rest =>
    let r := step cfg H s o
    let t := execR H cfg r.1 rest
    (t.1, ⟨cfg, o, r.2⟩ :: t.2)

def idHashes : Hashes := ⟨id, id⟩

/-! ### payloads and exceptions that cannot be rendered

  `ActionProtein.payload` is `Any`, and what an agent raises is any `Exception`.  `run` turns both into text: the
  handler of the agent calls formats the exception into the block reason of the ERROR reply; `_apply_gate_logic`
  renders payloads — `str(y_out.payload)` for the approval token, built BEFORE the gate branches whenever the
  assessor's verdict is PERMIT, under every gate logic, and the payload of the agent that stops the request
  (`Risk Assessor: …`, `Executor failure: …`, `Executor skipped: …`); `_print_result` (console on) prints the
  executor's payload of a SUCCESS as the last statement of `run`.

  Since the two `fix:` commits every one of these goes through `_describe`, which falls back to
  `<unprintable Class>` when `__str__` raises: rendering cannot fail, and `run` behaves on a response whatever its
  payload / exception text is like — `runP true = run` (definitionally).

  The shape BEFORE the fixes stays expressible as `runP false` (the witnesses of the two repaired findings are
  stated about it): a payload the gate renders whose `__str__` raises made `_apply_gate_logic` raise — outside the
  `try` of `run`: after both agents were consulted and charged, before the breaker update, the cache store, the log
  and the callbacks; an unrenderable exception made the handler raise after it had recorded the failure. -/

/-- an agent's response together with whether its payload can be rendered (`str()` does not raise) -/
structure RespP where
  resp : Resp
  payloadOk : Bool := true
  deriving Repr, DecidableEq

/-- does `_apply_gate_logic` render the executor's (`.1`) / the assessor's (`.2`) payload on verdicts `z`, `y`? -/
def renders (g : Gate) (z y : Cls) : Bool × Bool :=
  let approval := y == .permit
  let zFails := z == .failure
  let zBlocks := z == .block
  let yBlocks := y == .block
  match g with
  | .and | .unanimous =>
    if yBlocks then (false, true) else if zFails then (true, approval) else if zBlocks then (true, approval)
    else (false, approval)
  | .or => (false, approval)
  | .execPrio => if yBlocks then (false, true) else (false, approval)
  | .assessPrio => if zFails then (true, approval) else if approval then (false, true) else if yBlocks then (false, true)
    else (false, false)
  | .majority => (false, approval)

/-- a payload the gate renders on these responses cannot be rendered (pre-fix: `_apply_gate_logic` raises) -/
def renderFails (g : Gate) (zr yr : RespP) : Bool :=
  match zr.resp, yr.resp with
  | .ret z, .ret y => ((renders g z y).1 && !zr.payloadOk) || ((renders g z y).2 && !yr.payloadOk)
  | _, _ => false

/-- the agent whose exception reaches the handler of `run` raised one that cannot be rendered (pre-fix: the handler
    itself raises after recording the failure) -/
def handlerFails (zr yr : Resp) : Bool :=
  match zr, yr with
  | .excU, _ => true
  | .ret _, .excU => true
  | _, _ => false

/-- `CoherentFeedForwardLoop.run` for agents whose payloads / exceptions may be unrenderable.
    `safe = true` (the code as it is: every rendering goes through `_describe`): `run`, whatever the payloads.
    `safe = false` (the code before the fixes): when the request gets as far as the gate (`Kind.gated`) and rendering
    fails there, what remains of `run` is the look-up phase and the two agent calls — no breaker update, no cache
    store, no reply (`Kind.raised`); when the handler of the agent calls gets an unrenderable exception the failure is
    recorded and nothing comes back. -/
def runP (safe : Bool) (cfg : Cfg) (H : Hashes) (s : State) (p : Prompt) (zr yr : RespP) : State × Out :=
  let r := run cfg H s p zr.resp yr.resp
  if safe then r
  else
    match r.2.kind with
    | .gated _ =>
      if renderFails cfg.gate zr yr then
        (callAssessor cfg (callExecutor cfg (lookup cfg H s p).1), ⟨.raised, none⟩)
      else r
    | .agentExc => if handlerFails zr.resp yr.resp then (r.1, ⟨.agentExc, none⟩) else r
    | _ => r

/-! ### callbacks and statistics — the tail of `run`

  After the breaker update and the cache store `run` logs the result (`_record_result`), bumps `_total_blocked`
  or `_total_permitted` and calls `on_block(result)` / `on_permit(result)` when set.  CIRCUIT_OPEN replies and the
  ERROR reply of the exception handler are only logged; a cache hit is neither logged nor counted; `_total_requests`
  is bumped on entry of every `run`.  None of this reads or writes the modelled `State`. -/

/-- an `on_block` / `on_permit` attribute: not set (`None`), a callable that returns, a callable that raises -/
inductive Hook where
  | unset | ok | raises
  deriving Repr, DecidableEq

structure Hooks where
  onBlock : Hook := .unset
  onPermit : Hook := .unset
  deriving Repr, DecidableEq

/-- `_total_requests`, `_total_blocked`, `_total_permitted`, `len(_results_log)`, number of callback invocations -/
structure Tally where
  requests : Nat := 0
  blocked : Nat := 0
  permitted : Nat := 0
  logged : Nat := 0
  blockHookCalls : Nat := 0
  permitHookCalls : Nat := 0
  deriving Repr, DecidableEq

def logCap : Nat := 1000

/-- what the caller of `run` gets -/
inductive Delivery where
  | reply (r : Result)
  | hookRaised (r : Result)   -- the result was produced, logged, cached and handed to the callback — which raised
  | printRaised (r : Result)  -- … and the callbacks returned; the console output (`silent=False`) failed to render
                              --   the executor's payload of a SUCCESS (pre-fix shape only: `deliver … true`)
  | nothing                   -- `run` raised before a result existed
  deriving Repr, DecidableEq

/-- the result a request produced, if the caller (`reply`), a callback (`hookRaised`) or the audit log
    (`printRaised`) got to see it -/
def Delivery.seen : Delivery → Option Result
  | .reply r => some r
  | .hookRaised r => some r
  | .printRaised r => some r
  | .nothing => none

def logOne (t : Tally) : Tally := { t with requests := t.requests + 1, logged := min logCap (t.logged + 1) }

/-- the tail of `run` for a request handled as `o`.  `printFails` (pre-fix shape only; `false` for the code as it
    is, where `_print_result` renders through `_describe`): the console is on (`silent=False`) and the executor's
    payload cannot be rendered — `_print_result` prints that payload for a SUCCESS, as the very last statement of
    `run`. -/
def deliver (hk : Hooks) (t : Tally) (o : Out) (printFails : Bool := false) : Tally × Delivery :=
  match o.kind, o.result with
  | .admin, _ => (t, .nothing)
  | .gated _, some r =>
    let t1 := logOne t
    if r.blocked then
      match hk.onBlock with
      | .unset => ({ t1 with blocked := t1.blocked + 1 }, .reply r)
      | .ok => ({ t1 with blocked := t1.blocked + 1, blockHookCalls := t1.blockHookCalls + 1 }, .reply r)
      | .raises => ({ t1 with blocked := t1.blocked + 1, blockHookCalls := t1.blockHookCalls + 1 }, .hookRaised r)
    else
      match hk.onPermit with
      | .unset => ({ t1 with permitted := t1.permitted + 1 }, if printFails then .printRaised r else .reply r)
      | .ok => ({ t1 with permitted := t1.permitted + 1, permitHookCalls := t1.permitHookCalls + 1 },
                if printFails then .printRaised r else .reply r)
      | .raises => ({ t1 with permitted := t1.permitted + 1, permitHookCalls := t1.permitHookCalls + 1 }, .hookRaised r)
  | .cacheHit, some r => ({ t with requests := t.requests + 1 }, .reply r)
  | _, some r => (logOne t, .reply r)          -- CIRCUIT_OPEN, ERROR after an agent exception: logged only
  | _, none => ({ t with requests := t.requests + 1 }, .nothing)

/-- What the source translator (harness/vf/extract/py2lean_breaker.py) emits for a method that left its subset:
    a default value, so that the agreement theorem of that method fails. -/
def untranslatable {α : Type} [Inhabited α] (_construct : String) : α := default

end Operon.Cffl
