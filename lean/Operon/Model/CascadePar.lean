import Operon.Model.Cascade
/-
  Model of `Cascade.run_parallel` / `_run_single_stage` (the fork entry point), as the code is.

  Every stage's processor is handed the SAME input signal; checkpoints, error handlers, `required`, `halt_on_failure`,
  `max_amplification` and both observers are not consulted; a processor that raises gives a FAILED result.  The run is
  successful when every processor returned; the final output is the list of the outputs of the completed stages (released
  also when the run is not successful; `None` when nothing completed); the reported amplification is the constant 1.  The
  code collects results in completion order of the worker threads: the model keeps stage order and the correspondence
  compares order-insensitively.  An empty cascade cannot be forked (`ThreadPoolExecutor(max_workers=0)` raises ValueError
  after the run was counted): `none`.

  This entry point is outside property C19, which speaks of pipelines whose stages run in order (gates between stages,
  composition, halting); it is modelled so that the correspondence sees changes to it and its interplay with `run` on the
  same object (statistics, later sequential runs).
-/
namespace Operon.Cascade

structure ParResult (σ : Type) where
  success : Bool
  outputs : Option (List σ)
  completed : Nat
  total : Nat
  results : List (StageRes σ)
  log : List (Ev σ)

def parStage {σ : Type} (i : Nat) (s : Stage σ) (x : σ) : StageRes σ :=
  match s.processor x with
  | .ok v => ⟨i, .completed, x, some v, s.amp⟩
  | .raise => ⟨i, .failed, x, none, 1⟩

def parFrom {σ : Type} : Nat → List (Stage σ) → σ → List (StageRes σ)
  | _, [], _ => []
  | i, s :: rest, x => parStage i s x :: parFrom (i + 1) rest x

def runParallel {σ : Type} (stages : List (Stage σ)) (x : σ) : Option (ParResult σ) :=
  if stages.isEmpty then none
  else
    let rs := parFrom 0 stages x
    let outs := rs.filterMap (·.output)
    let c := completedCount rs
    some { success := c == stages.length, outputs := if outs.isEmpty then none else some outs, completed := c
           total := stages.length, results := rs, log := rs.map fun r => .proc r.idx x }

end Operon.Cascade
