/-
  Generic semantics of threads running critical regions over lock-protected components
  (DESIGN 6.2).  Core Lean only.

  * shared state: a family `st : Nat → τ` of components; lock `k` protects component `k`;
  * a thread is a list of instructions `acq k | rel k | upd k f`, a thread-local state `loc : L` (arguments,
    return values of the calls it makes) and the lock it currently holds;
  * `upd k f` is the effect of ONE source line inside the region of lock `k`, on the thread-local state and on
    component `k`; how a region is cut into lines is arbitrary, which is the "source-line granularity"
    quantifier of the concurrency properties;
  * locks are non-reentrant: `acq k` is enabled only when no thread holds `k` — a holder that re-acquires is
    stuck forever.

  `Step` is the interleaving semantics (one line of one thread at a time), `AStep` the atomic semantics (a whole
  region of one thread at a time).
-/
namespace Operon.Lock

inductive Instr (L τ : Type) where
  | acq (k : Nat)
  | rel (k : Nat)
  | upd (k : Nat) (f : L → τ → L × τ)

structure Thread (L τ : Type) where
  prog : List (Instr L τ)
  held : Option Nat
  loc : L

structure Cfg (L τ : Type) where
  st : Nat → τ
  threads : List (Thread L τ)

variable {L τ : Type}

def upd1 (s : Nat → τ) (k : Nat) (v : τ) : Nat → τ := fun j => if j = k then v else s j

/-- Well-locked, flat discipline: regions are bracketed `acq k … rel k`, never nested (no `acq` while holding
    anything, in particular no re-acquisition of the own lock), and every `upd k` happens while holding `k`. -/
def Flat : Option Nat → List (Instr L τ) → Prop
  | none, [] => True
  | some _, [] => False
  | none, .acq k :: rest => Flat (some k) rest
  | some _, .acq _ :: _ => False
  | none, .rel _ :: _ => False
  | some k, .rel k' :: rest => k = k' ∧ Flat none rest
  | none, .upd _ _ :: _ => False
  | some k, .upd k' _ :: rest => k = k' ∧ Flat (some k) rest

/-- Decidable version for instruction skeletons (used on extracted method shapes). -/
def flatB : Option Nat → List (Instr L τ) → Bool
  | none, [] => true
  | some _, [] => false
  | none, .acq k :: rest => flatB (some k) rest
  | some _, .acq _ :: _ => false
  | none, .rel _ :: _ => false
  | some k, .rel k' :: rest => k == k' && flatB none rest
  | none, .upd _ _ :: _ => false
  | some k, .upd k' _ :: rest => k == k' && flatB (some k) rest

/-- interleaving semantics: one line of one thread -/
inductive Step : Cfg L τ → Cfg L τ → Prop
  | acq {st pre post k rest l} :
      (∀ u ∈ pre ++ post, u.held ≠ some k) →
      Step ⟨st, pre ++ ⟨.acq k :: rest, none, l⟩ :: post⟩ ⟨st, pre ++ ⟨rest, some k, l⟩ :: post⟩
  | rel {st pre post k rest l} :
      Step ⟨st, pre ++ ⟨.rel k :: rest, some k, l⟩ :: post⟩ ⟨st, pre ++ ⟨rest, none, l⟩ :: post⟩
  | upd {st pre post k f rest l} :
      Step ⟨st, pre ++ ⟨.upd k f :: rest, some k, l⟩ :: post⟩
           ⟨upd1 st k (f l (st k)).2, pre ++ ⟨rest, some k, (f l (st k)).1⟩ :: post⟩

/-- run the remaining lines of the current region, up to and including its `rel` -/
def finish : List (Instr L τ) → L → τ → List (Instr L τ) × L × τ
  | .upd _ f :: rest, l, x => finish rest (f l x).1 (f l x).2
  | .rel _ :: rest, l, x => (rest, l, x)
  | .acq k :: rest, l, x => (.acq k :: rest, l, x)
  | [], l, x => ([], l, x)

/-- atomic semantics: one whole region of one thread -/
inductive AStep : Cfg L τ → Cfg L τ → Prop
  | region {st pre post k rest l} :
      AStep ⟨st, pre ++ ⟨.acq k :: rest, none, l⟩ :: post⟩
            ⟨upd1 st k (finish rest l (st k)).2.2,
             pre ++ ⟨(finish rest l (st k)).1, none, (finish rest l (st k)).2.1⟩ :: post⟩

inductive Star {α : Type} (r : α → α → Prop) : α → α → Prop
  | refl (c) : Star r c c
  | tail {a b c} : Star r a b → r b c → Star r a c

def Cfg.quiescent (c : Cfg L τ) : Prop := ∀ t ∈ c.threads, t.held = none
def Cfg.final (c : Cfg L τ) : Prop := ∀ t ∈ c.threads, t.prog = []

/-- mutual exclusion: at most one holder per lock -/
def Excl (ts : List (Thread L τ)) : Prop :=
  ts.Pairwise (fun a b => ∀ k, a.held = some k → b.held ≠ some k)

/-- a thread's view after its in-progress region (if any) has been completed -/
def absThread (st : Nat → τ) (t : Thread L τ) : Thread L τ :=
  match t.held with
  | some k => ⟨(finish t.prog t.loc (st k)).1, none, (finish t.prog t.loc (st k)).2.1⟩
  | none => t

/-- component `j` after the in-progress region on `j` (if any) has been completed -/
def absAt : List (Thread L τ) → Nat → τ → τ
  | [], _, x => x
  | t :: ts, j, x => absAt ts j (if t.held = some j then (finish t.prog t.loc x).2.2 else x)

/-- the configuration obtained by completing every in-progress region -/
def Cfg.abs (c : Cfg L τ) : Cfg L τ :=
  ⟨fun j => absAt c.threads j (c.st j), c.threads.map (absThread c.st)⟩

/-! ### Method skeletons extracted from source (extractor E3) -/

/-- `who` = 0 for `self`, 1.. for peer objects of the same class; `touch` = statements reading or writing mutable
    shared fields of that object; `unknown` = something the extractor did not understand (fails every check) -/
inductive Sk where
  | acq (who : Nat)
  | rel (who : Nat)
  | touch (who : Nat)
  | unknown
  deriving Repr, DecidableEq

/-- flat discipline on skeletons: regions bracketed, never nested, shared fields touched only under their lock -/
def Sk.flat : Option Nat → List Sk → Bool
  | none, [] => true
  | some _, [] => false
  | none, .acq k :: rest => Sk.flat (some k) rest
  | some _, .acq _ :: _ => false
  | none, .rel _ :: _ => false
  | some k, .rel k' :: rest => k == k' && Sk.flat none rest
  | none, .touch _ :: _ => false
  | some k, .touch k' :: rest => k == k' && Sk.flat (some k) rest
  | _, .unknown :: _ => false

/-! ### Region-level view: threads as lists of critical regions, each cut into lines arbitrarily -/

/-- a critical region on lock `k`, cut into an arbitrary list of lines -/
structure Region (L τ : Type) where
  k : Nat
  lines : List (L → τ → L × τ)

/-- sequential composition of the lines of a region -/
def composeLines : List (L → τ → L × τ) → L → τ → L × τ
  | [], l, x => (l, x)
  | f :: fs, l, x => composeLines fs (f l x).1 (f l x).2

/-- the effect of the whole region on (thread-local state, protected component) -/
def Region.eff (r : Region L τ) : L → τ → L × τ := composeLines r.lines

/-- `with lock_k:` followed by the lines -/
def Region.prog (r : Region L τ) : List (Instr L τ) :=
  .acq r.k :: (r.lines.map (Instr.upd r.k) ++ [.rel r.k])

def progOf : List (Region L τ) → List (Instr L τ)
  | [] => []
  | r :: rs => r.prog ++ progOf rs

/-- region-level thread and configuration -/
structure RThread (L τ : Type) where
  todo : List (Region L τ)
  loc : L

structure RCfg (L τ : Type) where
  st : Nat → τ
  threads : List (RThread L τ)

def RThread.toThread (t : RThread L τ) : Thread L τ := ⟨progOf t.todo, none, t.loc⟩

def RCfg.toCfg (c : RCfg L τ) : Cfg L τ := ⟨c.st, c.threads.map RThread.toThread⟩

/-- region-level (sequential) semantics: one thread runs its next region to completion -/
inductive RStep : RCfg L τ → RCfg L τ → Prop
  | run {st pre post r rs l} :
      RStep ⟨st, pre ++ ⟨r :: rs, l⟩ :: post⟩
            ⟨upd1 st r.k (r.eff l (st r.k)).2, pre ++ ⟨rs, (r.eff l (st r.k)).1⟩ :: post⟩

def RCfg.done (c : RCfg L τ) : Prop := ∀ t ∈ c.threads, t.todo = []

end Operon.Lock
