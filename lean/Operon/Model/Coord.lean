/-
  Model of `operon_ai/coordination` (types.py, controller.py, system.py, watchdog.py, priority.py) as it is
  after the two C14 `fix:` commits.

  * `Lock`            — `ResourceLock` (owner, owner_priority, hold_count, allow_preemption, waiting_list)
  * `Ctx`             — `OperationContext` (the operation's own view: `acquired` = keys of `acquired_resources`)
  * `Sys`             — `CoordinationSystem`: controller (resources, active operations, dependency graph),
                        watchdog configuration, priority-inheritance boosts, virtual clock
  * `acquire/release/releaseAll/finish` — controller methods; `finish` is the common body of
                        `complete_operation` / `abort_operation`
  * `exec`            — `CoordinationSystem.execute_operation` with adversarial checkpoints / work / validate and
                        kills issued from inside the work function

  Resources are a finite map `Nat → Option Lock` plus the list of registered ids (only printing uses the list).
  Operation and resource ids are `Nat`s; priorities are `Int`s; time is a `Nat` of microseconds.

  Not modelled: `acquired_at`/`hold_duration`, durations, error strings, `stats()`/`health()`, `pop_next_waiter`
  (never called), re-registration of an existing resource id (the protocol refuses it), calls made with the
  context object of an operation that is no longer active (the protocol refuses them).
-/
namespace Operon.Coord

inductive Phase where
  | g0 | g1 | s | g2 | m
  deriving DecidableEq, Repr

def Phase.next : Phase → Phase
  | .g0 => .g1 | .g1 => .s | .s => .g2 | .g2 => .m | .m => .g0

inductive LockResult where
  | acquired | blocked | reentrant | preempted
  deriving DecidableEq, Repr

structure Lock where
  owner : Option Nat := none
  ownerPrio : Int := 0
  hold : Nat := 0
  preempt : Bool := false
  waiting : List (Nat × Int) := []
  deriving DecidableEq, Repr

/-- insert after every entry of priority ≥ the new one (what a stable descending sort does with an element
    appended at the end) -/
def insDesc (x : Nat × Int) : List (Nat × Int) → List (Nat × Int)
  | [] => [x]
  | y :: ys => if y.2 < x.2 then x :: y :: ys else y :: insDesc x ys

/-- stable sort by priority, highest first (`list.sort(key=…, reverse=True)`) -/
def sortDesc (l : List (Nat × Int)) : List (Nat × Int) :=
  l.foldl (fun acc x => insDesc x acc) []

/-- `ResourceLock._add_to_waiting` -/
def addWaiting (w : List (Nat × Int)) (o : Nat) (p : Int) : List (Nat × Int) :=
  sortDesc (w.filter (fun e => e.1 ≠ o) ++ [(o, p)])

/-- `ResourceLock.try_acquire` -/
def Lock.tryAcquire (l : Lock) (o : Nat) (p : Int) : Lock × LockResult :=
  match l.owner with
  | none => ({ l with owner := some o, ownerPrio := p, hold := 1 }, .acquired)
  | some old =>
    if old = o then ({ l with hold := l.hold + 1 }, .reentrant)
    else if l.preempt && decide (l.ownerPrio < p) then
      ({ l with owner := some o, ownerPrio := p, hold := 1, waiting := addWaiting l.waiting old l.ownerPrio },
        .preempted)
    else ({ l with waiting := addWaiting l.waiting o p }, .blocked)

/-- `ResourceLock.release` -/
def Lock.release (l : Lock) (o : Nat) : Lock × Bool :=
  if l.owner = some o then
    if l.hold ≤ 1 then ({ l with owner := none, ownerPrio := 0, hold := 0 }, true)
    else ({ l with hold := l.hold - 1 }, true)
  else (l, false)

structure Ctx where
  id : Nat
  prio : Int
  phase : Phase := .g0
  phaseAt : Nat := 0
  acquired : List Nat := []
  resAcq : Bool := false
  execDone : Bool := false
  valPassed : Bool := false
  created : Nat := 0
  exempt : Bool := false
  deriving DecidableEq, Repr

/-- `DependencyGraph.edges`: waiter ↦ [(blocking, resource)], in dict insertion order -/
abbrev Edges := List (Nat × List (Nat × Nat))

def succs (E : Edges) (n : Nat) : List (Nat × Nat) :=
  match E.find? (fun e => e.1 = n) with
  | some e => e.2
  | none => []

/-- `DependencyGraph.add_dependency` -/
def addDep (E : Edges) (w b r : Nat) : Edges :=
  if E.any (fun e => e.1 = w) then
    E.map (fun e => if e.1 = w then (e.1, if e.2.contains (b, r) then e.2 else e.2 ++ [(b, r)]) else e)
  else E ++ [(w, [(b, r)])]

/-- `DependencyGraph.remove_all_for_agent`: drops the agent's own entry and every edge that points at it -/
def removeAllFor (E : Edges) (a : Nat) : Edges :=
  ((E.filter (fun e => e.1 ≠ a)).map (fun e => (e.1, e.2.filter (fun d => d.1 ≠ a)))).filter
    (fun e => !e.2.isEmpty)

inductive Strategy where
  | priority | oldest | other
  deriving DecidableEq, Repr

structure Sys where
  locks : Nat → Option Lock := fun _ => none
  resIds : List Nat := []
  active : List Ctx := []
  edges : Edges := []
  now : Nat := 0
  maxOp : Option Nat := none
  starv : Option Nat := none
  prog : Option Nat := none
  strategy : Strategy := .priority
  boosts : List (Nat × Int) := []      -- PriorityInheritance.active_boosts: op ↦ original priority

def Sys.setLock (s : Sys) (r : Nat) (l : Lock) : Sys :=
  { s with locks := fun x => if x = r then some l else s.locks x }

def Sys.ctx? (s : Sys) (o : Nat) : Option Ctx := s.active.find? (fun c => c.id = o)

/-- write a context back into the active table (the Python object is shared; nothing happens when the
    operation is no longer listed) -/
def Sys.setCtx (s : Sys) (c : Ctx) : Sys :=
  { s with active := s.active.map (fun x => if x.id = c.id then c else x) }

def Sys.register (s : Sys) (r : Nat) (pre : Bool) : Sys :=
  { s with locks := fun x => if x = r then some { preempt := pre } else s.locks x, resIds := s.resIds ++ [r] }

/-- `CellCycleController.start_operation` (an existing id is overwritten in place, as a dict does) -/
def Sys.start (s : Sys) (o : Nat) (p : Int) : Sys × Ctx :=
  let c : Ctx := { id := o, prio := p, phaseAt := s.now, created := s.now }
  if s.active.any (fun x => x.id = o) then (s.setCtx c, c) else ({ s with active := s.active ++ [c] }, c)

/-! ### checkpoints -/

inductive CpOut where
  | base      -- the default condition of the current phase
  | no        -- a custom checkpoint returning False
  | raise     -- a custom checkpoint raising
  deriving DecidableEq, Repr

def baseCond (c : Ctx) : Bool :=
  match c.phase with
  | .g0 => true | .g1 => c.resAcq | .s => c.execDone | .g2 => c.valPassed | .m => true

/-- `CellCycleController.advance` with the checkpoint outcome supplied by the adversary -/
def advance (now : Nat) (c : Ctx) (o : CpOut) : Ctx × Bool :=
  match o with
  | .base => if baseCond c then ({ c with phase := c.phase.next, phaseAt := now }, true) else (c, false)
  | .no => (c, false)
  | .raise => (c, false)

/-! ### controller: acquire / release -/

def addKey (ks : List Nat) (r : Nat) : List Nat := if ks.contains r then ks else ks ++ [r]

/-- `CellCycleController.acquire_resource`; `none` = `ValueError` (unknown resource) -/
def acquire (s : Sys) (c : Ctx) (r : Nat) : Sys × Ctx × Option LockResult :=
  match s.locks r with
  | none => (s, c, none)
  | some l =>
    match l.tryAcquire c.id c.prio with
    | (l', .blocked) =>
      ({ s.setLock r l' with edges := addDep s.edges c.id (l.owner.getD 0) r }, c, some .blocked)
    | (l', res) =>
      let c' := { c with acquired := addKey c.acquired r }
      (({ s.setLock r l' with edges := removeAllFor s.edges c.id }).setCtx c', c', some res)

/-- `CellCycleController.release_resource` (after the fix: the id is forgotten only once the lock is no longer
    owned by the operation) -/
def release (s : Sys) (c : Ctx) (r : Nat) : Sys × Ctx × Bool :=
  if c.acquired.contains r then
    match s.locks r with
    | none => (s, c, false)
    | some l =>
      match l.release c.id with
      | (_, false) => (s, c, false)
      | (l', true) =>
        let c' := if l'.owner = some c.id then c else { c with acquired := c.acquired.erase r }
        (({ s.setLock r l' with edges := removeAllFor s.edges c.id }).setCtx c', c', true)
  else (s, c, false)

/-- the `while self.release_resource(ctx, rid) and rid in ctx.acquired_resources` loop of
    `release_all_resources` -/
def releaseLoop : Nat → Sys → Ctx → Nat → Sys × Ctx
  | 0, s, c, _ => (s, c)
  | f + 1, s, c, r =>
    match release s c r with
    | (s', c', true) => if c'.acquired.contains r then releaseLoop f s' c' r else (s', c')
    | (s', c', false) => (s', c')

def holdOf (s : Sys) (r : Nat) : Nat :=
  match s.locks r with
  | some l => l.hold
  | none => 0

def releaseFully (s : Sys) (c : Ctx) (r : Nat) : Sys × Ctx := releaseLoop (holdOf s r + 1) s c r

/-- `release_all_resources`: over a snapshot of the keys -/
def releaseKeys : List Nat → Sys → Ctx → Sys × Ctx
  | [], s, c => (s, c)
  | r :: rs, s, c => let p := releaseFully s c r; releaseKeys rs p.1 p.2

def releaseAll (s : Sys) (c : Ctx) : Sys × Ctx := releaseKeys c.acquired s c

/-- a finished operation no longer waits for anything -/
def forgetWaiter (s : Sys) (o : Nat) : Sys :=
  { s with
    edges := removeAllFor s.edges o
    locks := fun r => (s.locks r).map (fun l => { l with waiting := l.waiting.filter (fun e => e.1 ≠ o) }) }

/-- common body of `complete_operation` and `abort_operation` -/
def finish (s : Sys) (c : Ctx) : Sys × Ctx :=
  let p := releaseAll s c
  let s2 := forgetWaiter p.1 c.id
  ({ s2 with active := s2.active.filter (fun x => x.id ≠ c.id) }, { p.2 with phase := .g0, phaseAt := s.now })

def abortById (s : Sys) (o : Nat) : Sys :=
  match s.ctx? o with
  | none => s
  | some c => (finish s c).1

def abortMany (s : Sys) (ids : List Nat) : Sys := ids.foldl abortById s

/-- `CoordinationSystem.shutdown` -/
def shutdown (s : Sys) : Sys :=
  { abortMany s (s.active.map (·.id)) with boosts := [] }

end Operon.Coord
