import Operon.Model.Mito
/-!
  What lies between a pathway's value and the caller (C01, C02).

  `Mito.metabolize` ends with the value the pathway body produced.  The code wraps that value before the caller sees it:
  `ATP(value=…, pathway=…, efficiency=…, execution_time_ms=…)` inside `MetabolicResult(success=True, atp=…, …)`, and the
  legacy entry point renders `str(result.atp.value)`; failure results are built by the same `MetabolicResult`
  constructor (at the guards and inside the handler).  These containers are plain dataclasses today — they hand back
  the object they were given and their construction cannot fail — but that is a fact about the source, not a law:
  a `__post_init__` that cuts a long text, clamps a number or validates a range changes what the caller receives, or
  makes `metabolize` raise.  E1 probes the REAL entry points with sentinel values (`Gen.box`, see
  `harness/vf/extract/e1.py :: behavioural_container_facts`); the model carries the three facts explicitly:

  * `valueKept` : `metabolize(...).atp.value` is the object the pathway produced (long strings, long lists / tuples,
                  huge ints, floats incl. nan / -0.0 / 1e308, bytes, nested values, an opaque object; math and tool
                  pathways, forced and auto-detected; `bool(...)` of it on the logic pathway);
  * `textKept`  : `digest_glucose` returns exactly `str(value)` (renderings of 5 000 … 1 000 000 characters);
  * `builds`    : building a result never raises — whatever the accumulated error level, the error text, the
                  efficiency and the value are (40 consecutive failures on an engine with a large `max_ros`, tiny and
                  huge timeouts, direct construction over a grid of field values).

  When a fact does not hold the model does not guess what the container does: the delivered value / text is `unknown`
  (`none`), and a construction that may fail is a raise.
-/
namespace Operon.Mito

structure Box where
  valueKept : Bool
  textKept : Bool
  builds : Bool
  deriving DecidableEq, Repr

/-- what the caller receives of an outcome of `metabolize` -/
def deliver (box : Box) : Outcome → Outcome
  | .raised => .raised
  | .result true (some v) r p =>
    if box.builds then .result true (if box.valueKept then some v else none) r p else .raised
  | .result s v r p => if box.builds then .result s v r p else .raised

/-- `Mitochondria.metabolize` as the caller sees it: the same interactions, the outcome through the containers -/
def metabolizeD (T : Tables) (env : Env) (cfg : Cfg) (box : Box) (latched : Bool) (detect : Pathway) (inp : Inp)
    (forced : Option Pathway) : List Act × Outcome :=
  ((metabolize T env cfg latched detect inp forced).1, deliver box (metabolize T env cfg latched detect inp forced).2)

/-- what the legacy entry point hands back -/
inductive LegacyText where
  /-- the returned text is `str(v)` -/
  | rendered (v : Val)
  /-- a "Metabolic Failure: …" text -/
  | failure
  /-- some text the model cannot vouch for (a container did not keep the value, or the rendering was altered) -/
  | unknown
  | raised
  deriving Repr

/-- `Mitochondria.digest_glucose` (and `BioAgent`'s "calculate …") as the caller sees it -/
def digestGlucoseD (T : Tables) (env : Env) (cfg : Cfg) (box : Box) (latched : Bool) (inp : Inp) (strRaises : Bool) :
    List Act × LegacyText :=
  match metabolizeD T env cfg box latched .glycolysis inp (some .glycolysis) with
  | (t, .raised) => (t, .raised)
  | (t, .result true (some v) _ _) =>
    if strRaises then (t, if cfg.strGuarded then .failure else .raised)
    else (t, if box.textKept then .rendered v else .unknown)
  | (t, .result true none _ _) => (t, .unknown)
  | (t, .result false _ _ _) => (t, .failure)

end Operon.Mito
