import Operon.Gen.TelomereConsts
import Operon.Gen.TelomereLocks
/-!
# Model of `operon_ai/state/telomere.py` (class `Telomere`) — property C09

Two parts.

* **Lifecycle automaton** (`step : Cfg → State → Op → Out`): one total function per public method, mirroring the
  code line by line, including glue (`amount or max_operations`, falsy limits, `max(0, …)`, the early returns).
  Time is a virtual clock in microseconds (`State.now`, advanced by `Op.adv`).  The 10 % rule and the error-rate
  rule use the thresholds extracted from the source (`Operon.Gen.TelomereConsts`) as exact fractions, compared by
  cross-multiplication (exact for the float code while the numbers stay far below 2^50).
  Every call also reports the phase-change / senescence callbacks it emitted, in order, and the sequence of
  lock events (`acq`/`rel` of `self._lock`) along the path it took.

* **Lock discipline** (`execM`): a method shape is a list of items — a `with self._lock:` region with the
  self-methods called inside it, or a self-method call outside any region — extracted from the source by E3
  (`Operon.Gen.TelomereLocks`).  Execution resolves branches adversarially: every item may be taken or skipped
  (list of choices).  `acq` of a non-reentrant lock by its holder is stuck forever (`Res.blocked`).

Core Lean only.
-/
namespace Operon.Telomere

/-! ## Lifecycle automaton -/

inductive Phase where
  | nascent | active | senescent | apoptotic | terminated
  deriving DecidableEq, Repr, Inhabited

inductive Reason where
  | depletion | errors | timeout | idle
  deriving DecidableEq, Repr

/-- what the callbacks saw: `on_phase_change(a, b)` and `on_senescence(r)` -/
inductive Ev where
  | change (a b : Phase)
  | senescence (r : Reason)
  deriving DecidableEq, Repr

inductive LockEv where
  | acq | rel
  deriving DecidableEq, Repr

structure Cfg where
  maxOps : Nat
  errThr : Nat
  allowRenew : Bool
  /-- `max_lifetime` in microseconds; `none` when the constructor argument was falsy -/
  life : Option Nat
  /-- `idle_timeout` in microseconds; `none` when the constructor argument was falsy -/
  idle : Option Nat
  deriving DecidableEq, Repr

structure State where
  phase : Phase
  length : Int
  errors : Nat
  ops : Nat
  renewals : Nat
  reason : Option Reason
  started : Option Nat
  lastAct : Option Nat
  now : Nat
  /-- `len(self._events)`: the event log, capped (`_log_event` keeps the last `logCap` entries) -/
  events : Nat
  deriving DecidableEq, Repr

inductive Op where
  | start
  | tick (cost : Nat)
  | err
  | hb
  | timeouts
  | renew (amount : Option Nat) (resetErrors : Bool)
  | apo
  | term
  | reset
  | adv (us : Nat)
  deriving DecidableEq, Repr

inductive Ret where
  | unit
  | bool (b : Bool)
  deriving DecidableEq, Repr

structure Out where
  st : State
  ret : Ret
  evs : List Ev
  lock : List LockEv
  tag : String

/-- capacity of the event log, measured on the real `_log_event` on every run (E5 probe) -/
def logCap : Nat := Gen.TelomereConsts.logCap

/-- `k` calls of `_log_event`: each appends one entry and keeps the last `logCap` -/
def logged (k : Nat) (n : Nat) : Nat := min logCap (n + k)

def init (cfg : Cfg) : State :=
  { phase := .nascent, length := cfg.maxOps, errors := 0, ops := 0, renewals := 0, reason := none,
    started := none, lastAct := none, now := 0, events := logged 1 0 }

def lkNone : List LockEv := []
def lkOnce : List LockEv := [.acq, .rel]
def lkNested : List LockEv := [.acq, .acq, .rel, .rel]

/-- `_enter_senescence`: a no-op unless the lifecycle is ACTIVE -/
def enterSenescence (s : State) (r : Reason) : State × List Ev :=
  if s.phase = .active then
    ({ s with phase := .senescent, reason := some r, events := logged 2 s.events },
      [.change .active .senescent, .senescence r])
  else (s, [])

/-- body of `start()` once the NASCENT test has passed (logs "phase_change" and "started") -/
def started (s : State) : State :=
  { s with phase := .active, started := some s.now, lastAct := some s.now, events := logged 2 s.events }

def start (s : State) : Out :=
  if s.phase = .nascent then ⟨started s, .unit, [.change .nascent .active], lkOnce, "start:go"⟩
  else ⟨s, .unit, [], lkOnce, "start:noop"⟩

/-- `length <= 0 or length / max_operations <= SENESCENCE_THRESHOLD` -/
def depleted (cfg : Cfg) (len : Int) : Bool :=
  decide (len ≤ 0) || decide (len * Gen.TelomereConsts.senescenceDen ≤ Gen.TelomereConsts.senescenceNum * (cfg.maxOps : Int))

def tick (cfg : Cfg) (s : State) (cost : Nat) : Out :=
  if s.phase = .apoptotic ∨ s.phase = .terminated then ⟨s, .bool false, [], lkOnce, "tick:dead"⟩
  else
    let nasc : Bool := decide (s.phase = .nascent)
    let s1 : State := if nasc then started s else s
    let ev1 : List Ev := if nasc then [.change .nascent .active] else []
    let s2 : State := { s1 with ops := s1.ops + 1, length := max 0 (s1.length - cost), lastAct := some s1.now }
    if depleted cfg s2.length then
      let r := enterSenescence s2 .depletion
      ⟨r.1, .bool (decide (r.1.phase = .active)), ev1 ++ r.2, if nasc then lkNested else lkOnce,
        if nasc then "tick:autostart-depleted" else if s.phase = .active then "tick:depleted" else "tick:senescent-depleted"⟩
    else
      ⟨s2, .bool (decide (s2.phase = .active)), ev1, if nasc then lkNested else lkOnce,
        if nasc then "tick:autostart" else if s.phase = .active then "tick:ok" else "tick:senescent"⟩

/-- `errors / ops >= ERROR_SENESCENCE_RATE` (only evaluated when `ops > 0`) -/
def errorRateHit (errors ops : Nat) : Bool :=
  decide (0 < ops) && decide (Gen.TelomereConsts.errorRateNum * ops ≤ errors * Gen.TelomereConsts.errorRateDen)

def recordError (cfg : Cfg) (s : State) : Out :=
  let s1 : State := { s with errors := s.errors + 1, events := logged 1 s.events }
  if cfg.errThr ≤ s1.errors then
    let r := enterSenescence s1 .errors
    ⟨r.1, .bool false, r.2, lkOnce, if r.2.isEmpty then "err:threshold-noop" else "err:threshold"⟩
  else if errorRateHit s1.errors s1.ops then
    let r := enterSenescence s1 .errors
    ⟨r.1, .bool false, r.2, lkOnce, if r.2.isEmpty then "err:rate-noop" else "err:rate"⟩
  else ⟨s1, .bool (decide (s1.phase = .active)), [], lkOnce, "err:ok"⟩

def heartbeat (s : State) : Out :=
  ⟨{ s with lastAct := some s.now }, .unit, [], lkOnce, "hb"⟩

/-- `if self.max_lifetime and self._started_at: age = now - started; if age >= max_lifetime` -/
def limitHit (limit since : Option Nat) (now : Nat) : Bool :=
  match limit, since with
  | some l, some t0 => decide (l ≠ 0) && decide (l ≤ now - t0)
  | _, _ => false

def checkTimeouts (cfg : Cfg) (s : State) : Out :=
  if s.phase ≠ .active then
    ⟨s, .bool (decide (s.phase ≠ .apoptotic ∧ s.phase ≠ .terminated)), [], lkOnce, "timeouts:inactive"⟩
  else if limitHit cfg.life s.started s.now then
    let r := enterSenescence s .timeout
    ⟨r.1, .bool false, r.2, lkOnce, "timeouts:lifetime"⟩
  else if limitHit cfg.idle s.lastAct s.now then
    let r := enterSenescence s .idle
    ⟨r.1, .bool false, r.2, lkOnce, "timeouts:idle"⟩
  else ⟨s, .bool true, [], lkOnce, "timeouts:ok"⟩

/-- `amount or self.max_operations` -/
def renewAmount (cfg : Cfg) : Option Nat → Nat
  | none => cfg.maxOps
  | some 0 => cfg.maxOps
  | some a => a

def renew (cfg : Cfg) (s : State) (amount : Option Nat) (resetErrors : Bool) : Out :=
  if cfg.allowRenew = false then ⟨s, .bool false, [], lkNone, "renew:disallowed"⟩
  else if s.phase = .terminated then ⟨s, .bool false, [], lkOnce, "renew:terminated"⟩
  else
    let len : Int := min (cfg.maxOps : Int) (s.length + renewAmount cfg amount)
    let errs : Nat := if resetErrors then 0 else s.errors
    if s.phase = .senescent then
      ⟨{ s with length := len, errors := errs, renewals := s.renewals + 1, phase := .active, reason := none,
                events := logged 2 s.events },
        .bool true, [.change .senescent .active], lkOnce, "renew:recover"⟩
    else
      ⟨{ s with length := len, errors := errs, renewals := s.renewals + 1, events := logged 1 s.events },
        .bool true, [], lkOnce, "renew:extend"⟩

def apoptosis (s : State) : Out :=
  if s.phase = .terminated then ⟨s, .unit, [], lkOnce, "apo:terminated"⟩
  else ⟨{ s with phase := .apoptotic, events := logged 2 s.events }, .unit, [.change s.phase .apoptotic], lkOnce, "apo:go"⟩

def terminate (s : State) : Out :=
  ⟨{ s with phase := .terminated, events := logged 2 s.events }, .unit, [.change s.phase .terminated], lkOnce, "term"⟩

/-- `reset()`: a new epoch (renewal count and clock are kept; the log is cleared, then "reset" is logged) -/
def reset (cfg : Cfg) (s : State) : Out :=
  ⟨{ phase := .nascent, length := cfg.maxOps, errors := 0, ops := 0, renewals := s.renewals, reason := none,
     started := none, lastAct := none, now := s.now, events := logged 1 0 }, .unit, [], lkOnce, "reset"⟩

def step (cfg : Cfg) (s : State) : Op → Out
  | .start => start s
  | .tick c => tick cfg s c
  | .err => recordError cfg s
  | .hb => heartbeat s
  | .timeouts => checkTimeouts cfg s
  | .renew a r => renew cfg s a r
  | .apo => apoptosis s
  | .term => terminate s
  | .reset => reset cfg s
  | .adv us => ⟨{ s with now := s.now + us }, .unit, [], lkNone, "adv"⟩

/-! ### read-only accessors (`is_active`, `is_operational`, `get_status().operations_remaining / time_remaining`) -/

/-- `is_active()` -/
def isActive (s : State) : Bool := decide (s.phase = .active)

/-- `is_operational()`: NASCENT, ACTIVE or SENESCENT -/
def isOperational (s : State) : Bool :=
  decide (s.phase = .nascent) || decide (s.phase = .active) || decide (s.phase = .senescent)

/-- `get_age()`: time since the start (`None` for a lifecycle that has no start time) -/
def age (s : State) : Option Nat :=
  match s.started with
  | none => none
  | some t0 => some (s.now - t0)

/-- `get_status().operations_remaining` -/
def opsRemaining (s : State) : Int := s.length

/-- `get_status().time_remaining`: `max(timedelta(0), max_lifetime - age)` when a (truthy) lifetime limit is set and
    the lifecycle has a start time, else `None` -/
def timeRemaining (cfg : Cfg) (s : State) : Option Nat :=
  match cfg.life, s.started with
  | some l, some t0 => if l = 0 then none else some (l - (s.now - t0))
  | _, _ => none

/-- state after a history -/
def run (cfg : Cfg) (s : State) : List Op → State
  | [] => s
  | op :: ops => run cfg (step cfg s op).st ops

/-! ## Callbacks that raise

`on_phase_change` / `on_senescence` are the caller's code.  When one of them raises, the exception leaves the method
through `_transition_to` / `_enter_senescence` (the `with self._lock` block releases the lock) and whatever the method
would have done AFTER the callback is skipped.  `stepCb` is `step` under callbacks that always raise:
* `changeRaises`: the first announced change ends the call — `_phase` is already assigned, "phase_change" is logged,
  the event was delivered; `start()` does not log "started", an auto-starting `tick` stops after `start()` (nothing
  consumed), a recovering `renew` keeps the stale senescence reason (`_senescence_reason = None` comes after the
  transition);
* `senescenceRaises`: everything was done except the return.
The Boolean says whether the call ended by the callback's exception. -/

inductive CbMode where
  | ok | changeRaises | senescenceRaises
  deriving DecidableEq, Repr

def Ev.isChange : Ev → Bool
  | .change _ _ => true
  | _ => false

/-- number of `on_phase_change` calls in a callback stream -/
def countChanges (evs : List Ev) : Nat := (evs.filter Ev.isChange).length

def Ev.isSenescence : Ev → Bool
  | .senescence _ => true
  | _ => false

/-- `start()` cut short by a raising `on_phase_change`: phase and timestamps assigned, "phase_change" logged, "started" not -/
def startedCut (s : State) : State := { started s with events := logged 1 s.events }

def stepCb (m : CbMode) (cfg : Cfg) (s : State) (op : Op) : Out × Bool :=
  match m with
  | .ok => (step cfg s op, false)
  | .senescenceRaises => (step cfg s op, (step cfg s op).evs.any Ev.isSenescence)
  | .changeRaises =>
    match (step cfg s op).evs with
    | .change a b :: _ =>
      (⟨match op with
          | .start => startedCut s
          | .tick _ => if s.phase = .nascent then startedCut s else (step cfg s op).st
          | .renew _ _ => { (step cfg s op).st with reason := s.reason }
          | _ => (step cfg s op).st,
        (step cfg s op).ret, [.change a b], (step cfg s op).lock, (step cfg s op).tag⟩, true)
    | _ => (step cfg s op, false)

/-- a history in which every call runs under the callbacks installed at that moment (returning or raising) and under
    the configuration in force at that moment (public attributes may have been re-assigned in between) -/
def runCb (s : State) : List (CbMode × Cfg × Op) → State
  | [] => s
  | (m, cfg, op) :: rest => runCb (stepCb m cfg s op).1.st rest

/-! ## A callback that calls back into the lifecycle: auto-renewal

`on_senescence` may call `renew()` on the lifecycle it is told about (the lock is re-entrant; `_enter_senescence` does
nothing but an optional print after the callback).  `stepRe` is `step` under such a callback: when the call announces
senescence, `renew(None, True)` runs inside it - nested in the caller's region - and the caller then finishes: `tick`
re-reads the phase for its return value, `record_error` / `check_timeouts` return False as before. -/

def stepRe (cfg : Cfg) (s : State) (op : Op) : Out :=
  let o := step cfg s op
  if o.evs.any Ev.isSenescence then
    let r := step cfg o.st (.renew none true)
    ⟨r.st,
      match op with
      | .tick _ => .bool (decide (r.st.phase = .active))
      | _ => o.ret,
      o.evs ++ r.evs,
      if r.lock.isEmpty then o.lock else o.lock.dropLast ++ r.lock ++ [.rel],
      o.tag⟩
  else o

/-! ## Several lifecycles alive at once

The lifecycles of one process share nothing but the clock (`datetime.now()`).  A world is an association list
slot → (configuration, state), newest binding first, plus the clock; operations are addressed to a slot.  The
per-instance theorems are transferred to every instance of every world history in `Props/C09.lean`
(`c09_instances_independent`, `c09_every_instance_is_a_lifecycle`). -/

structure Inst where
  cfg : Cfg
  st : State
  deriving DecidableEq, Repr

structure World where
  now : Nat
  insts : List (Nat × Inst)
  deriving Repr

inductive WOp where
  /-- `Telomere(...)` constructed now, kept in slot `k` (whatever was there is forgotten) -/
  | new (k : Nat) (cfg : Cfg)
  /-- a method call on the lifecycle in slot `k` -/
  | on (k : Nat) (op : Op)
  /-- the shared clock advances -/
  | adv (us : Nat)
  deriving DecidableEq, Repr

/-- a lifecycle constructed when the clock shows `t` -/
def initAt (cfg : Cfg) (t : Nat) : State :=
  { phase := .nascent, length := cfg.maxOps, errors := 0, ops := 0, renewals := 0, reason := none,
    started := none, lastAct := none, now := t, events := logged 1 0 }

def World.empty : World := ⟨0, []⟩

def World.get (w : World) (k : Nat) : Option Inst := w.insts.lookup k

/-- every lifecycle sees the clock advance -/
def advAll (us : Nat) : List (Nat × Inst) → List (Nat × Inst)
  | [] => []
  | (k, i) :: rest => (k, ⟨i.cfg, (step i.cfg i.st (.adv us)).st⟩) :: advAll us rest

def advW (w : World) (us : Nat) : World := ⟨w.now + us, advAll us w.insts⟩

/-- the clock is not a method of a lifecycle: `on k (adv us)` is the shared clock advancing -/
def Op.isAdv : Op → Option Nat
  | .adv us => some us
  | _ => none

/-- one world operation; the `Out` of the call when a method of an existing lifecycle was called -/
def stepW (w : World) : WOp → World × Option Out
  | .new k cfg => (⟨w.now, (k, ⟨cfg, initAt cfg w.now⟩) :: w.insts⟩, none)
  | .adv us => (advW w us, none)
  | .on k op =>
    match op.isAdv with
    | some us => (advW w us, none)
    | none =>
      match w.insts.lookup k with
      | none => (w, none)
      | some i => (⟨w.now, (k, ⟨i.cfg, (step i.cfg i.st op).st⟩) :: w.insts⟩, some (step i.cfg i.st op))

/-- a public configuration attribute of the lifecycle in slot `k` is re-assigned (`t.error_threshold = 2`, …): the
    methods read the attributes at call time, so the state is kept and later calls run under the new configuration.
    Outside the property's quantifier (configurations are fixed at construction); every per-call theorem is stated
    for arbitrary configuration and state and so covers each call after a re-assignment. -/
def recfgW (w : World) (k : Nat) (f : Cfg → Cfg) : World :=
  match w.insts.lookup k with
  | none => w
  | some i => ⟨w.now, (k, ⟨f i.cfg, i.st⟩) :: w.insts⟩

def runW (w : World) : List WOp → World
  | [] => w
  | x :: xs => runW (stepW w x).1 xs

/-- what the lifecycle in slot `k` sees of a world history: its own calls and every clock advance -/
def proj (k : Nat) : List WOp → List Op
  | [] => []
  | .new _ _ :: xs => proj k xs
  | .adv us :: xs => .adv us :: proj k xs
  | .on k' op :: xs =>
    match op.isAdv with
    | some us => .adv us :: proj k xs
    | none => if k' = k then op :: proj k xs else proj k xs

/-! ## Two overlapping calls on one lifecycle (search axis: OS threads are outside the property's quantifier)

Protocol line `race j <opA> | <opB>`: thread A makes call `a` and is held back just before its `j`-th acquisition of the
lock (0 = before it takes the lock at all); meanwhile thread B makes call `b` until it returns or has to wait for the
lock; then A continues.  Every mutator does all its work inside ONE `with self._lock` region (fact regenerated by E3,
`lockedMethodsAtomic`), so the two calls take effect one after the other: B first exactly when A was stopped before its
first acquisition, otherwise (A already holds the lock, or never asks for it `j + 1` times) A first. -/

/-- does B's call take effect before A's? -/
def bFirst (j : Nat) (pathA : List LockEv) : Bool :=
  j == 0 && pathA.head? == some .acq

/-- the sequential history two overlapping calls amount to -/
def raceOps (cfg : Cfg) (s : State) (j : Nat) (a b : Op) : List Op :=
  if bFirst j (step cfg s a).lock then [b, a] else [a, b]

/-! ### support for the source translation (`Operon/Gen/TelomereTranslated.lean`, generated) -/

/-- Python `x or d` on an optional int: `None` and `0` are falsy -/
def pyOr : Option Nat → Nat → Nat
  | none, d => d
  | some 0, d => d
  | some a, _ => a

/-- what the translator emits for a method that left its supported subset; never equal to `step` on all states -/
def untranslatable (_construct : String) : State × List Ev × Ret :=
  (⟨.terminated, -1, 0, 0, 0, none, none, none, 0, 0⟩, [], .unit)

/-- the public method an operation calls (`none` for the clock) -/
def Op.method : Op → Option String
  | .start => some "start"
  | .tick _ => some "tick"
  | .err => some "record_error"
  | .hb => some "heartbeat"
  | .timeouts => some "check_timeouts"
  | .renew _ _ => some "renew"
  | .apo => some "trigger_apoptosis"
  | .term => some "terminate"
  | .reset => some "reset"
  | .adv _ => none

/-! ## Lock discipline -/

inductive LockKind where
  | lock | rlock | unknown
  deriving DecidableEq, Repr

inductive Item where
  | call (m : Nat)
  | region (calls : List Nat)
  deriving DecidableEq, Repr

structure Method where
  name : String
  pub : Bool
  whileLoops : Nat
  body : List Item
  deriving Repr

abbrev Table := List Method

def Table.bodyOf (T : Table) (m : Nat) : List Item :=
  match T[m]? with
  | some x => x.body
  | none => []

inductive Res where
  /-- the call returned; the unused choices remain -/
  | ret (ch : List Bool)
  /-- the thread waits for a lock it holds itself: it never returns -/
  | blocked
  /-- call depth exhausted (recursion among the methods) -/
  | diverged
  deriving DecidableEq, Repr

/-- next branch choice; when the adversary has run out of choices every remaining item is taken -/
def pop : List Bool → Bool × List Bool
  | [] => (true, [])
  | b :: r => (b, r)

/-- may a thread that already holds the lock `held` times take it once more? -/
def canAcq (k : LockKind) (held : Nat) : Bool :=
  held == 0 || k == .rlock

/-- the self-calls made inside a region, each taken or skipped -/
def execCalls (callM : Nat → List Bool → Res) : List Nat → List Bool → Res
  | [], ch => .ret ch
  | c :: cs, ch =>
    match pop ch with
    | (false, ch1) => execCalls callM cs ch1
    | (true, ch1) =>
      match callM c ch1 with
      | .ret ch2 => execCalls callM cs ch2
      | r => r

/-- the items of a method body, each taken or skipped; a region acquires, runs its calls, releases -/
def execItems (k : LockKind) (callM : Nat → Nat → List Bool → Res) (held : Nat) : List Item → List Bool → Res
  | [], ch => .ret ch
  | .call c :: rest, ch =>
    match pop ch with
    | (false, ch1) => execItems k callM held rest ch1
    | (true, ch1) =>
      match callM held c ch1 with
      | .ret ch2 => execItems k callM held rest ch2
      | r => r
  | .region cs :: rest, ch =>
    match pop ch with
    | (false, ch1) => execItems k callM held rest ch1
    | (true, ch1) =>
      if canAcq k held then
        match execCalls (callM (held + 1)) cs ch1 with
        | .ret ch2 => execItems k callM held rest ch2
        | r => r
      else .blocked

/-- run method `m` with call-depth budget `fuel` while holding the lock `held` times -/
def execM (T : Table) (k : LockKind) : Nat → Nat → Nat → List Bool → Res
  | 0, _, _, _ => .diverged
  | fuel + 1, held, m, ch => execItems k (execM T k fuel) held (T.bodyOf m) ch

/-- a call from outside: nothing held, depth budget = number of methods -/
def callPublic (T : Table) (k : LockKind) (m : Nat) (ch : List Bool) : Res :=
  execM T k T.length 0 m ch

/-- run a concrete sequence of lock events of one thread (the path a call of the automaton took) -/
def lockRun (k : LockKind) : Nat → List LockEv → Bool
  | held, [] => held == 0
  | held, .acq :: rest => canAcq k held && lockRun k (held + 1) rest
  | held, .rel :: rest => decide (0 < held) && lockRun k (held - 1) rest

/-! ### all complete lock-event traces of a shape (for tying the automaton's paths to the extracted shapes) -/

def addNew (x : List LockEv) (l : List (List LockEv)) : List (List LockEv) :=
  if l.contains x then l else l ++ [x]

/-- union without duplicates (keeps the enumeration small) -/
def unionNew (a b : List (List LockEv)) : List (List LockEv) :=
  b.foldl (fun acc x => addNew x acc) a

def tracesCalls (callT : Nat → List (List LockEv)) : List Nat → List (List LockEv)
  | [] => [[]]
  | c :: cs =>
    let rest := tracesCalls callT cs
    unionNew rest ((callT c).flatMap fun t => rest.map fun r => t ++ r)

def tracesItems (callT : Nat → List (List LockEv)) : List Item → List (List LockEv)
  | [] => [[]]
  | .call c :: items =>
    let rest := tracesItems callT items
    unionNew rest ((callT c).flatMap fun t => rest.map fun r => t ++ r)
  | .region cs :: items =>
    let rest := tracesItems callT items
    unionNew rest ((tracesCalls callT cs).flatMap fun t => rest.map fun r => (LockEv.acq :: t) ++ (LockEv.rel :: r))

/-- every sequence of lock events a complete execution of method `m` can produce (branches resolved either way) -/
def tracesM (T : Table) : Nat → Nat → List (List LockEv)
  | 0, _ => []
  | fuel + 1, m => tracesItems (tracesM T fuel) (T.bodyOf m)

/-! ### the extracted facts, decoded -/

def kindOf (s : String) : LockKind :=
  if s = "RLock" then .rlock else if s = "Lock" then .lock else .unknown

def itemOf : Bool × List Nat → Item
  | (true, cs) => .region cs
  | (false, [c]) => .call c
  | (false, _) => .region [0, 0]      -- malformed row: never produced by E3; decoded as something that blocks under Lock

def methodOf : String × Bool × Nat × List (Bool × List Nat) → Method
  | (n, p, w, items) => ⟨n, p, w, items.map itemOf⟩

/-- lock kind of `Telomere._lock` in the current source -/
def genKind : LockKind :=
  if Gen.TelomereLocks.recognised then kindOf Gen.TelomereLocks.lockKind else .unknown

/-- lock shapes of all methods of `Telomere` in the current source -/
def genTable : Table := Gen.TelomereLocks.methods.map methodOf

def Table.indexOf (T : Table) (name : String) : Option Nat :=
  let i := T.findIdx (fun m => m.name == name)
  if i < T.length then some i else none

/-! ### state touched while the lock is not held (E3 fact `unlocked`) -/

def Item.isRegion : Item → Bool
  | .region _ => true
  | .call _ => false

def Method.takesLock (x : Method) : Bool := x.body.any Item.isRegion

/-- what the self-methods called OUTSIDE every region of a body touch while unlocked -/
def exposedItems (callE : Nat → List String) : List Item → List String
  | [] => []
  | .call c :: rest => callE c ++ exposedItems callE rest
  | .region _ :: rest => exposedItems callE rest

/-- private state a call of method `m` touches while it does NOT hold the lock: its own mentions outside its regions
    (`U`, extracted) and, recursively, those of the self-methods it calls outside a region.  Anything unknown counts as
    touched (fail closed). -/
def exposed (T : Table) (U : List (String × List String)) : Nat → Nat → List String
  | 0, _ => ["<call depth>"]
  | fuel + 1, m =>
    match T[m]? with
    | none => ["<unknown method>"]
    | some x => (U.lookup x.name).getD ["<no fact>"] ++ exposedItems (exposed T U fuel) x.body

/-- a public method that takes the lock does ALL its work on the state inside ONE region: it has exactly one top-level
    region and touches no private state outside it (so two overlapping calls of such methods take effect one after
    the other).  Methods that never take the lock (the read-only accessors, the constructor) are not constrained. -/
def atomicMethod (T : Table) (U : List (String × List String)) (m : Nat) : Bool :=
  match T[m]? with
  | none => false
  | some x =>
    !(x.pub && x.takesLock) || ((exposed T U T.length m).isEmpty && (x.body.filter Item.isRegion).length == 1)

def lockedMethodsAtomic (T : Table) (U : List (String × List String)) : Bool :=
  (List.range T.length).all (atomicMethod T U)

/-- the nine mutators exist, are public and take the lock -/
def mutatorsTakeLock (T : Table) : Bool :=
  ["start", "tick", "record_error", "heartbeat", "check_timeouts", "renew", "trigger_apoptosis", "terminate", "reset"].all
    fun n => match T.indexOf n with
      | some i => match T[i]? with
        | some x => x.pub && x.takesLock
        | none => false
      | none => false

/-- E3: state mentioned outside the lock regions, per method of the current source -/
def genUnlocked : List (String × List String) := Gen.TelomereLocks.unlocked

/-- the shape the pinned tree had: `threading.Lock()` and `tick` calling `start` inside its region -/
def pinnedTable : Table :=
  [⟨"start", true, 0, [.region []]⟩, ⟨"tick", true, 0, [.region [0]]⟩]

end Operon.Telomere
