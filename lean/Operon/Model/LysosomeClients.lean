import Operon.Model.Lysosome
/-!
# Clients of the lysosome inside the library (C13)

The property anchors `healing/autophagy_daemon.py`: the context-pruning daemon ingests into the lysosome it was given,
which an application may share with its own traffic.  What such a client does to the shared object is MEASURED on the
real code on every run (a recording proxy around a real `Lysosome`, see `harness/vf/extract/e3_lysosome_clients.py`)
and written to `Operon/Gen/LysosomeClients.lean` in the vocabulary below; a history of an application sharing its
lysosome with the daemon is then an ordinary history of the sequential model (`Call.ops`).
-/
namespace Operon.Lysosome

/-- one call a client made on the shared lysosome (read-only calls are listed separately, they are not here) -/
inductive ClientCall where
  | ingest (ty : WType) (st : Stamp)     -- `lysosome.ingest(Waste(waste_type = ty, created_at ↦ st, …))`
  | ingestError                          -- `lysosome.ingest_error(…)`: a FAILED_OPERATION item stamped by the lysosome
  | ingestSensitive                      -- `lysosome.ingest_sensitive(…)`
  | digest (k : Option Int)
  | autophagy
  | clearBin
  | other (what : String)                -- anything else: a private method, an attribute assignment, an ingest of
                                         -- something that is not a `Waste` with a datetime `created_at`, …
  deriving Repr, DecidableEq

/-- one probed run of a client entry point -/
structure ProbeRun where
  situation : String                     -- e.g. "check_and_prune force=True context=large"
  pruned : Bool                          -- the entry point reported that it pruned (returned a `PruneResult`)
  raised : Bool                          -- the entry point raised
  calls : List ClientCall
  deriving Repr, DecidableEq

/-- the call hands the lysosome nothing that `autophagy` cannot compare with its naive `now()` -/
def ClientCall.plain : ClientCall → Bool
  | .ingest _ .aware => false
  | .other _ => false
  | _ => true

/-- the model operations of one client call; `id` is the harness's name for the item, content code 1 (the built-in
    EXPIRED_CACHE digester ignores the content and returns `{}`; convenience items carry code 1 as well) -/
def ClientCall.ops (id : Nat) : ClientCall → List Op
  | .ingest ty st => [.ingest id ty 1 st]
  | .ingestError => [.ingest id .failedOp 1 .now]
  | .ingestSensitive => [.ingest id .toxic 1 .now]
  | .digest k => [.digest k]
  | .autophagy => [.autophagy]
  | .clearBin => [.clearBin]
  | .other _ => []

/-- an operation that does not ingest a timezone-aware `created_at` -/
def Op.plain : Op → Bool
  | .ingest _ _ _ .aware => false
  | _ => true

/-- a step of an application that shares its lysosome with the daemon -/
inductive Call where
  | app (op : Op)                        -- the application's own call
  | client (id : Nat) (k : Nat)          -- a daemon cycle behaving like the `k`-th probed run
  deriving Repr, DecidableEq

def Call.ops (tbl : List ProbeRun) : Call → List Op
  | .app op => [op]
  | .client id k =>
    match tbl[k]? with
    | some r => r.calls.flatMap (ClientCall.ops id)
    | none => []

/-- what the property needs of a probed run: it did not raise, and it touched the lysosome by exactly one `ingest` of
    a plain EXPIRED_CACHE item stamped with the current time if it pruned, not at all otherwise -/
def ProbeRun.ok (r : ProbeRun) : Bool :=
  !r.raised && decide (r.calls = if r.pruned then [.ingest .expired .now] else [])

end Operon.Lysosome
