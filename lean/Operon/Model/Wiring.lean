/-
  Model of `operon_ai/core/wagent.py` (PortType, WiringDiagram.add_module / connect /
  required_capabilities) and `operon_ai/core/wiring_runtime.py` (_coerce_input, _coerce_output,
  DiagramExecutor.register_module / execute).

  Data types, integrity labels, capabilities, module names, port names and value payloads are natural
  numbers (the enums of `core/types.py` are finite initial segments; the theorems hold for every `Nat`, so
  also for any enum that is extended later).  Python dicts are association lists in insertion order;
  `module_inputs` (a dict keyed by module name) is a function from names.

  Handlers are adversaries: arbitrary functions of the inputs they are shown that return a dict of raw or
  explicitly labelled (possibly mislabelled) values — with any key set — or raise.  External inputs are
  raw or labelled.

  The executor mirrors the code's scheduling: repeated passes over the modules in dict order, a module
  runs in the pass in which it is found ready, a pass without progress raises.  The `while` loop is
  fuel-indexed with fuel = number of modules; `Operon/Lemmas/C16.lean` proves the fuel never runs out.

  What escapes `execute` when it raises is the exception only (the partially filled report is lost), so a
  failing run exposes the error kind and the log of handler invocations made so far; a successful run
  exposes the report (records in execution order).

  Handler return values that are not dicts: falsy ones are `{}` (`or {}`), other mappings behave like dicts,
  anything else fails at `.keys()` with an AttributeError (`HOut.nondict`).  A handler that calls back into
  `execute` starts an independent run (`execute` is a function of diagram, handler table and external inputs;
  the executor keeps no per-run state).  The dicts of a `ModuleSpec` can be edited in place after `add_module`
  (`Diagram.editModule`): the result is simply another diagram with the same wires — the theorems quantify
  over all diagrams, accepted or not.

  `diagram.wires`, `diagram.modules` and `executor.diagram` are public and get edited directly between runs
  (`Diagram.removeWire / setWire / reverseWires / delModule / setModule`; re-assigning `executor.diagram` is running
  `execute` on another diagram): again just other diagrams.  Payloads are opaque to the executor
  (`c16_payloads_are_opaque`), so a natural stands for a payload of any Python type.

  Not modelled: message texts; what a handler that mutates the dict it is given does to the recorded inputs
  of its own module (the report stores a copy taken after the handler returned; nothing else reads that dict
  again).
-/
namespace Operon.Wiring

/-! ### wagent.py -/

structure PortType where
  dt : Nat
  il : Nat
  deriving DecidableEq, Repr

inductive Err where
  -- WiringError raised by the diagram API
  | moduleExists | unknownOutputPort | unknownInputPort | typeMismatch | integrityViolation | unknownModule
  -- WiringError raised by `execute` before anything runs
  | extUnknownModule | extUnknownPort | inputType | inputIntegrity
  | multipleSources | noHandler | missingSource
  -- WiringError raised by `execute` while running
  | portsMismatch | outputType | outputIntegrity
  | missingOutput | wireType | wireIntegrity | multipleValues | cannotResolve
  -- not a WiringError
  | keyError        -- a wire (appended to `wires` behind `connect`'s back) names an unknown module / port
  | handlerRaised   -- the handler's own exception propagates
  | attributeError  -- the handler returned a (truthy) object that is not a mapping: `raw_outputs.keys()`
  | outOfFuel       -- artefact of the fuel-indexed loop; proved unreachable
  deriving DecidableEq, Repr

def Err.isWiringError : Err → Bool
  | .keyError | .handlerRaised | .attributeError | .outOfFuel => false
  | _ => true

/-- `PortType.can_flow_to` -/
def PortType.canFlowTo (s d : PortType) : Bool := s.dt == d.dt && decide (s.il ≥ d.il)

/-- `PortType.require_flow_to`: `none` = returns, `some e` = raises -/
def PortType.requireFlowTo (s d : PortType) : Option Err :=
  if s.dt != d.dt then some .typeMismatch
  else if s.il < d.il then some .integrityViolation
  else none

structure ModuleSpec where
  name : Nat
  inputs : List (Nat × PortType)
  outputs : List (Nat × PortType)
  caps : List Nat
  deriving DecidableEq, Repr

structure Wire where
  srcM : Nat
  srcP : Nat
  dstM : Nat
  dstP : Nat
  deriving DecidableEq, Repr

structure Diagram where
  modules : List ModuleSpec := []
  wires : List Wire := []
  deriving Repr

/-- `self.modules[name]` (`none` = KeyError) -/
def Diagram.findMod (d : Diagram) (n : Nat) : Option ModuleSpec := d.modules.find? (·.name == n)

/-- `self.modules[m].outputs[p]` -/
def Diagram.outPort (d : Diagram) (m p : Nat) : Option PortType := (d.findMod m).bind (·.outputs.lookup p)

/-- `self.modules[m].inputs[p]` -/
def Diagram.inPort (d : Diagram) (m p : Nat) : Option PortType := (d.findMod m).bind (·.inputs.lookup p)

def Diagram.addModule (d : Diagram) (m : ModuleSpec) : Except Err Diagram :=
  if (d.findMod m.name).isSome then .error .moduleExists
  else .ok { modules := d.modules ++ [m], wires := d.wires }

def Diagram.connect (d : Diagram) (a p b q : Nat) : Except Err Diagram :=
  match d.outPort a p with
  | none => .error .unknownOutputPort
  | some s =>
    match d.inPort b q with
    | none => .error .unknownInputPort
    | some t =>
      match s.requireFlowTo t with
      | some e => .error e
      | none => .ok { modules := d.modules, wires := d.wires ++ [⟨a, p, b, q⟩] }

def keys {β : Type} (l : List (Nat × β)) : List Nat := l.map (·.1)

/-- `k in dict` -/
def hasKey {β : Type} (k : Nat) (l : List (Nat × β)) : Bool := l.any (·.1 == k)

/-- `dict[k] = v` -/
def setKey {β : Type} (k : Nat) (v : β) : List (Nat × β) → List (Nat × β)
  | [] => [(k, v)]
  | (k', v') :: r => if k' == k then (k, v) :: r else (k', v') :: setKey k v r

/-- `dict.pop(k)` / `del dict[k]` -/
def delKey {β : Type} (k : Nat) (l : List (Nat × β)) : List (Nat × β) := l.filter (fun kv => kv.1 != k)

/-- in-place edits of a registered `ModuleSpec` (the dataclass is frozen, its dicts and its set are not):
    `spec.inputs[p] = pt`, `del spec.inputs[p]`, the same for outputs, `spec.capabilities.add / discard` -/
inductive SpecEdit where
  | setIn (p : Nat) (pt : PortType) | delIn (p : Nat)
  | setOut (p : Nat) (pt : PortType) | delOut (p : Nat)
  | addCap (c : Nat) | delCap (c : Nat)

def ModuleSpec.edit (m : ModuleSpec) : SpecEdit → ModuleSpec
  | .setIn p pt => ⟨m.name, setKey p pt m.inputs, m.outputs, m.caps⟩
  | .delIn p => ⟨m.name, delKey p m.inputs, m.outputs, m.caps⟩
  | .setOut p pt => ⟨m.name, m.inputs, setKey p pt m.outputs, m.caps⟩
  | .delOut p => ⟨m.name, m.inputs, delKey p m.outputs, m.caps⟩
  | .addCap c => ⟨m.name, m.inputs, m.outputs, if c ∈ m.caps then m.caps else m.caps ++ [c]⟩
  | .delCap c => ⟨m.name, m.inputs, m.outputs, m.caps.filter (· != c)⟩

/-- the diagram after an in-place edit of module `n`'s spec: same names, same wires -/
def Diagram.editModule (d : Diagram) (n : Nat) (e : SpecEdit) : Diagram :=
  { modules := d.modules.map (fun m => if m.name == n then m.edit e else m), wires := d.wires }

/-! `WiringDiagram.modules` (a dict), `WiringDiagram.wires` (a list) and `DiagramExecutor.diagram` are public
    attributes; callers edit them directly (examples/33 removes a wire from `diagram.wires`).  Each edit yields
    another diagram, and `execute` reads the diagram afresh on every call. -/

/-- `diagram.wires.remove(w)`: the first occurrence goes (an absent wire is a ValueError, nothing changes) -/
def Diagram.removeWire (d : Diagram) (w : Wire) : Diagram := { modules := d.modules, wires := d.wires.erase w }

/-- `diagram.wires[i] = w` (an index past the end is an IndexError, nothing changes) -/
def Diagram.setWire (d : Diagram) (i : Nat) (w : Wire) : Diagram := { modules := d.modules, wires := d.wires.set i w }

/-- `diagram.wires.reverse()` -/
def Diagram.reverseWires (d : Diagram) : Diagram := { modules := d.modules, wires := d.wires.reverse }

/-- `del diagram.modules[n]`: the wires stay as they are (and may dangle now) -/
def Diagram.delModule (d : Diagram) (n : Nat) : Diagram :=
  { modules := d.modules.filter (fun m => m.name != n), wires := d.wires }

/-- `diagram.modules[m.name] = m`: an existing key keeps its position in the dict, a new key goes to the end -/
def Diagram.setModule (d : Diagram) (m : ModuleSpec) : Diagram :=
  if (d.findMod m.name).isSome then
    { modules := d.modules.map (fun x => if x.name == m.name then m else x), wires := d.wires }
  else { modules := d.modules ++ [m], wires := d.wires }

/-- `required_capabilities`: `required |= module.capabilities` over the modules (a set; here a list
    without repetitions, compared as a set by the harness) -/
def Diagram.requiredCaps (d : Diagram) : List Nat :=
  d.modules.foldl (fun acc m => m.caps.foldl (fun acc c => if c ∈ acc then acc else acc ++ [c]) acc) []

/-! ### wiring_runtime.py -/

/-- `TypedValue` -/
structure TV where
  dt : Nat
  il : Nat
  payload : Nat
  deriving DecidableEq, Repr

/-- what a handler puts into its result dict / what a caller passes as an external input -/
inductive Val where
  | raw (payload : Nat)
  | typed (v : TV)
  deriving DecidableEq, Repr

inductive HOut where
  | ret (outs : List (Nat × Val))   -- a dict or any other mapping; `None`, `{}` and every other falsy value
                                    -- (`0`, `""`, `[]`, `()`, `False`) are `ret []` (`handler(inputs) or {}`)
  | raise
  | nondict                         -- a truthy object without `.keys()`: list, tuple, str, int, set, generator

abbrev Handler := List (Nat × TV) → HOut

def coerceOutput (v : Val) (p : PortType) : Except Err TV :=
  match v with
  | .typed t =>
    if t.dt != p.dt then .error .outputType
    else if t.il != p.il then .error .outputIntegrity
    else .ok t
  | .raw x => .ok ⟨p.dt, p.il, x⟩

def coerceInput (v : Val) (p : PortType) : Except Err TV :=
  match v with
  | .typed t =>
    if t.dt != p.dt then .error .inputType
    else if t.il < p.il then .error .inputIntegrity
    else .ok t
  | .raw x => .ok ⟨p.dt, p.il, x⟩

/-- `module_inputs` -/
abbrev MInputs := Nat → List (Nat × TV)

/-- `module_inputs[m][p] = v` for a key known to be absent -/
def MInputs.add (mi : MInputs) (m p : Nat) (v : TV) : MInputs :=
  fun n => if n = m then mi n ++ [(p, v)] else mi n

/-- the inner loop over one module's external inputs -/
def extPorts (m : ModuleSpec) : List (Nat × Val) → List (Nat × TV) → Except Err (List (Nat × TV))
  | [], acc => .ok acc
  | (p, v) :: r, acc =>
    match m.inputs.lookup p with
    | none => .error .extUnknownPort
    | some pt =>
      match coerceInput v pt with
      | .error e => .error e
      | .ok tv => extPorts m r (setKey p tv acc)

/-- the loop over `external_inputs.items()` -/
def extPhase (d : Diagram) : List (Nat × List (Nat × Val)) → MInputs → Except Err MInputs
  | [], mi => .ok mi
  | (n, ins) :: r, mi =>
    match d.findMod n with
    | none => .error .extUnknownModule
    | some m =>
      match extPorts m ins (mi n) with
      | .error e => .error e
      | .ok l => extPhase d r (fun k => if k = n then l else mi k)

/-- `incoming_by_port[(m, p)]` -/
def Diagram.incoming (d : Diagram) (m p : Nat) : List Wire :=
  d.wires.filter (fun w => w.dstM == m && w.dstP == p)

/-- `outgoing[m]` -/
def Diagram.outgoing (d : Diagram) (m : Nat) : List Wire := d.wires.filter (fun w => w.srcM == m)

/-- the per-module pre-flight checks -/
def preflightModule (d : Diagram) (H : Nat → Option Handler) (mi : MInputs) (m : ModuleSpec) : Option Err :=
  if !m.outputs.isEmpty && (H m.name).isNone then some .noHandler
  else if m.inputs.any (fun pp => (d.incoming m.name pp.1).isEmpty && !hasKey pp.1 (mi m.name))
  then some .missingSource
  else none

/-- everything between the external-input loop and the scheduling loop -/
def preflight (d : Diagram) (H : Nat → Option Handler) (mi : MInputs) : Option Err :=
  if d.wires.any (fun w => (d.findMod w.srcM).isNone) then some .keyError       -- `outgoing[wire.src_module]`
  else if d.wires.any (fun w => (d.incoming w.dstM w.dstP).length > 1) then some .multipleSources
  -- a wired port that was also given an external value: two sources (`module_inputs.get(module_name, ())`)
  else if d.wires.any (fun w => hasKey w.dstP (mi w.dstM)) then some .multipleSources
  else d.modules.findSome? (preflightModule d H mi)

/-- record of one module in the report (`ModuleExecution`) -/
structure Rec where
  name : Nat
  inputs : List (Nat × TV)
  outputs : List (Nat × TV)
  deriving DecidableEq, Repr

/-- one handler invocation: which module, with which inputs -/
structure Call where
  name : Nat
  inputs : List (Nat × TV)
  deriving DecidableEq, Repr

structure St where
  minputs : MInputs
  records : List Rec      -- report.modules, in the order of report.execution_order
  calls : List Call       -- handler invocations so far

/-- `report.execution_order` (= `executed`) -/
def St.order (st : St) : List Nat := st.records.map (·.name)

/-- a raised exception: the handler invocations that had happened, and the error -/
abbrev Fail := List Call × Err

def sameKeys (a b : List Nat) : Bool := a.all (· ∈ b) && b.all (· ∈ a)

/-- `for port_name, port_type in spec.outputs.items(): outputs[port_name] = _coerce_output(raw[port_name], port_type)` -/
def coerceOutputs (raw : List (Nat × Val)) : List (Nat × PortType) → Except Err (List (Nat × TV))
  | [] => .ok []
  | (p, pt) :: r =>
    match raw.lookup p with
    | none => .error .portsMismatch          -- unreachable after the key-set comparison
    | some v =>
      match coerceOutput v pt with
      | .error e => .error e
      | .ok tv =>
        match coerceOutputs raw r with
        | .error e => .error e
        | .ok l => .ok ((p, tv) :: l)

/-- handler invocation and output coercion of module `m`: the new call log and the outputs -/
def produce (H : Nat → Option Handler) (st : St) (m : ModuleSpec) : Except Fail (List Call × List (Nat × TV)) :=
  match H m.name with
  | none => .ok (st.calls, [])
  | some h =>
    match h (st.minputs m.name) with
    | .raise => .error (st.calls ++ [⟨m.name, st.minputs m.name⟩], .handlerRaised)
    | .nondict => .error (st.calls ++ [⟨m.name, st.minputs m.name⟩], .attributeError)
    | .ret raw =>
      if !sameKeys (keys raw) (keys m.outputs) then
        .error (st.calls ++ [⟨m.name, st.minputs m.name⟩], .portsMismatch)
      else
        match coerceOutputs raw m.outputs with
        | .error e => .error (st.calls ++ [⟨m.name, st.minputs m.name⟩], e)
        | .ok outs => .ok (st.calls ++ [⟨m.name, st.minputs m.name⟩], outs)

/-- `for wire in outgoing[module_name]: …` -/
def deliver (d : Diagram) (enforce : Bool) (outs : List (Nat × TV)) : List Wire → St → Except Fail St
  | [], st => .ok st
  | w :: ws, st =>
    match outs.lookup w.srcP with
    | none => .error (st.calls, .missingOutput)
    | some v =>
      match d.inPort w.dstM w.dstP with
      | none => .error (st.calls, .keyError)
      | some pt =>
        if enforce && v.dt != pt.dt then .error (st.calls, .wireType)
        else if enforce && decide (v.il < pt.il) then .error (st.calls, .wireIntegrity)
        else if hasKey w.dstP (st.minputs w.dstM) then .error (st.calls, .multipleValues)
        else deliver d enforce outs ws ⟨st.minputs.add w.dstM w.dstP v, st.records, st.calls⟩

/-- the body of the scan for a module that is pending and ready -/
def runModule (d : Diagram) (H : Nat → Option Handler) (enforce : Bool) (st : St) (m : ModuleSpec) :
    Except Fail St :=
  match produce H st m with
  | .error f => .error f
  | .ok (calls, outs) =>
    deliver d enforce outs (d.outgoing m.name)
      ⟨st.minputs, st.records ++ [⟨m.name, st.minputs m.name, outs⟩], calls⟩

/-- `all(port in module_inputs[module_name] for port in spec.inputs)` -/
def ready (st : St) (m : ModuleSpec) : Bool := m.inputs.all (fun pp => hasKey pp.1 (st.minputs m.name))

/-- one `for module_name, spec in self.diagram.modules.items()` scan (from some position on) -/
def pass (d : Diagram) (H : Nat → Option Handler) (enforce : Bool) : List ModuleSpec → St → Except Fail St
  | [], st => .ok st
  | m :: ms, st =>
    if m.name ∈ st.order then pass d H enforce ms st
    else if !ready st m then pass d H enforce ms st
    else
      match runModule d H enforce st m with
      | .error f => .error f
      | .ok st' => pass d H enforce ms st'

/-- `while len(executed) < len(self.diagram.modules)`, fuel-indexed.  `progressed` is set on the line after
    `executed.add`, so "no progress" is "the scan executed nothing". -/
def loop (d : Diagram) (H : Nat → Option Handler) (enforce : Bool) : Nat → St → Except Fail St
  | 0, st => if st.order.length < d.modules.length then .error (st.calls, .outOfFuel) else .ok st
  | fuel + 1, st =>
    if st.order.length < d.modules.length then
      match pass d H enforce d.modules st with
      | .error f => .error f
      | .ok st' =>
        if st'.order.length = st.order.length then .error (st'.calls, .cannotResolve)
        else loop d H enforce fuel st'
    else .ok st

/-- what `execute` lets the caller observe -/
structure Result where
  calls : List Call
  out : Except Err (List Rec)

def execute (d : Diagram) (H : Nat → Option Handler) (ext : List (Nat × List (Nat × Val))) (enforce : Bool) :
    Result :=
  match extPhase d ext (fun _ => []) with
  | .error e => ⟨[], .error e⟩
  | .ok mi =>
    match preflight d H mi with
    | some e => ⟨[], .error e⟩
    | none =>
      match loop d H enforce d.modules.length ⟨mi, [], []⟩ with
      | .error (calls, e) => ⟨calls, .error e⟩
      | .ok st => ⟨st.calls, .ok st.records⟩

/-- `register_module` (on the handler table as a function) -/
def registerModule (d : Diagram) (H : Nat → Option Handler) (n : Nat) (h : Handler) :
    Except Err (Nat → Option Handler) :=
  if (d.findMod n).isNone then .error .unknownModule
  else .ok (fun k => if k = n then some h else H k)

end Operon.Wiring
