import Operon.Model.Immune
/-!
# The pipeline together with the real observation windows

`Sys` keeps, per agent, the fingerprint the agent currently shows (`Agent.display`) as a slot.  With the real
`MHCDisplay` that slot is not free: it is what `generate_peptide()` computes from the window **as it is at that
moment**.  `WSys` puts the windows next to the pipeline: every operation on a window — `record`,
`record_canary_result`, `clear()`, the public attributes `observations` / `canary_results` / `window_size` /
`min_observations` touched by hand — is followed by nothing else than the slot being refilled from the new window.
`WSys.trace` spells a window history out as the pipeline history it amounts to; `Lemmas/C17.lean` proves that the two
runs agree (`wrun_sys`) and that the slot always equals `generate` of the current window (`wrun_slot_current`), so
every `c17_history_*` theorem speaks about histories with real windows too.

The three sample standard deviations of a window are environment values (`Sds`); they arrive with every operation that
changes the observations and stay as they were for operations that do not.
-/
namespace Operon.Immune

structure WSys where
  sys : Sys
  /-- the real window of an agent (`none`: the agent has none — unregistered, or its display is a free slot) -/
  win : Nat → Option (Display × Sds)

inductive WOp where
  /-- any pipeline operation (`register` replaces the display by an empty slot; `showP` on an agent with a real window is
      refused: nobody can assign what `generate_peptide` returns) -/
  | sys (op : Op)
  /-- `register_agent` with a real `MHCDisplay(window_size, min_observations)` (empty: it shows nothing while
      `min_observations` is positive) -/
  | install (a : Nat) (ws mo : Int)
  | record (a : Nat) (o : Ob) (sd : Sds)
  | canary (a : Nat) (passed : Bool)
  | clear (a : Nat)
  /-- `display.canary_results` appended to / cleared / re-assigned / cut by hand: the list it ends up as -/
  | setCanaries (a : Nat) (l : List Bool)
  /-- `display.observations` popped / cut / re-assigned by hand: the list it ends up as, with its stdevs -/
  | setObs (a : Nat) (l : List Ob) (sd : Sds)
  | setWindow (a : Nat) (k : Int)
  | setMinObs (a : Nat) (k : Int)

/-- the window an operation leaves behind (`none`: the operation does not concern a real window) -/
def WOp.newWindow (w : WSys) : WOp → Option (Nat × Display × Sds)
  | .sys _ => none
  | .install _ _ _ => none
  | .record a o sd => (w.win a).map fun x => (a, x.1.record o, sd)
  | .canary a b => (w.win a).map fun x => (a, x.1.recordCanary b, x.2)
  | .clear a => (w.win a).map fun x => (a, x.1.clear, x.2)
  | .setCanaries a l => (w.win a).map fun x => (a, x.1.setCanaries l, x.2)
  | .setObs a l sd => (w.win a).map fun x => (a, x.1.setObs l, sd)
  | .setWindow a k => (w.win a).map fun x => (a, x.1.setWindow k, x.2)
  | .setMinObs a k => (w.win a).map fun x => (a, x.1.setMinObs k, x.2)

/-- the pipeline operations a window operation amounts to -/
def WSys.ops (w : WSys) : WOp → List Op
  | .sys (.register a) => [.register a]
  | .sys (.showP a p) => if (w.win a).isSome then [] else [.showP a p]
  | .sys op => [op]
  | .install a ws mo => [.register a, .showP a ((⟨ws, mo, [], []⟩ : Display).generate ⟨0, 0, 0⟩)]
  | op =>
    match op.newWindow w with
    | none => []
    | some (a, d, sd) => [.showP a (d.generate sd)]

def WSys.setWin (w : WSys) (a : Nat) (x : Option (Display × Sds)) : Nat → Option (Display × Sds) :=
  fun b => if b = a then x else w.win b

def WSys.step (w : WSys) : WOp → WSys
  | .sys (.register a) => ⟨w.sys.register a, w.setWin a none⟩
  | .sys (.showP a p) => if (w.win a).isSome then w else ⟨w.sys.showPeptide a p, w.win⟩
  | .sys op => ⟨(w.sys.step op).1, w.win⟩
  | .install a ws mo =>
    ⟨(w.sys.register a).showPeptide a ((⟨ws, mo, [], []⟩ : Display).generate ⟨0, 0, 0⟩),
      w.setWin a (some (⟨ws, mo, [], []⟩, ⟨0, 0, 0⟩))⟩
  | op =>
    match op.newWindow w with
    | none => w
    | some (a, d, sd) => ⟨w.sys.showPeptide a (d.generate sd), w.setWin a (some (d, sd))⟩

def WSys.run (w : WSys) : List WOp → WSys
  | [] => w
  | op :: rest => (w.step op).run rest

/-- the pipeline history a window history amounts to -/
def WSys.trace (w : WSys) : List WOp → List Op
  | [] => []
  | op :: rest => w.ops op ++ (w.step op).trace rest

/-- the slot of every agent with a real window holds what `generate_peptide` makes of that window now -/
def WSys.SlotsCurrent (w : WSys) : Prop :=
  ∀ a d sd, w.win a = some (d, sd) → (w.sys.agents a).registered = true ∧ (w.sys.agents a).display = d.generate sd

def WSys.init (minTrain : Int) (tol varThr : Rat) (treg : Treg) (cap : Int) : WSys :=
  ⟨Sys.init minTrain tol varThr treg cap, fun _ => none⟩

end Operon.Immune
