/-
  Model of the tool side of `operon_ai/organelles/mitochondria.py` and of the LLM tool loop of
  `operon_ai/organelles/nucleus.py :: Nucleus.transcribe_with_tools` (C03).

  * registry = Python dict `self.tools` (name ↦ tool object; re-registration replaces the object);
  * a tool object carries `required_capabilities` / `capabilities` attributes (each possibly absent or empty)
    and an opaque body that returns or raises when executed;
  * `allowed : Option (List Cap)` is `allowed_capabilities` (None = unrestricted);
  * whether a capability-subset test dominates `tool.execute` on each of the two code paths is NOT assumed:
    it is the pair of booleans `Guards`, regenerated from the source by the extractor (`Operon.Gen.MitoCaps`);
  * the ROS latch, the length guard and the pathway auto-detection of `metabolize` are inputs (`pre`):
    the theorems hold whatever they decide.

  Not modelled: argument values (evaluation of arguments is an input outcome: it succeeds or raises, and by C01
  executes nothing), console output, timing/efficiency, statistics.
-/
namespace Operon.MitoTools

abbrev Cap := Nat      -- index into core/types.py :: Capability (order of definition)

structure Tool where
  body : Nat                       -- identity of the tool body (side-effect counter in the harness)
  req : Option (List Cap)          -- `required_capabilities` attribute (none = attribute absent)
  caps : Option (List Cap)         -- `capabilities` attribute (none = attribute absent)
  raises : Bool                    -- behaviour of the body when run: return or raise
  deriving Repr, DecidableEq

/-- `getattr(tool, "required_capabilities", None) or getattr(tool, "capabilities", None) or set()` -/
def Tool.required (t : Tool) : List Cap :=
  match t.req with
  | some (c :: cs) => c :: cs
  | _ =>
    match t.caps with
    | some (c :: cs) => c :: cs
    | _ => []

def subset (a b : List Cap) : Bool := a.all (fun c => b.contains c)

/-- `allowed_capabilities is not None and not required.issubset(allowed)` is the refusal condition -/
def permitted (allowed : Option (List Cap)) (t : Tool) : Bool :=
  match allowed with
  | none => true
  | some al => subset t.required al

/-- which code paths test capabilities before `tool.execute` (extracted from the source) -/
structure Guards where
  oxidative : Bool       -- `_oxidative_phosphorylation`
  toolCall : Bool        -- `execute_tool_call`
  deriving Repr, DecidableEq

abbrev Registry := List (String × Tool)

def Registry.lookup (r : Registry) (n : String) : Option Tool :=
  match r.find? (fun p => p.1 == n) with
  | some p => some p.2
  | none => none

/-- `self.tools[name] = tool` -/
def Registry.set (r : Registry) (n : String) (t : Tool) : Registry :=
  if r.any (fun p => p.1 == n) then r.map (fun p => if p.1 == n then (n, t) else p) else r ++ [(n, t)]

/-- `del self.tools[name]` / `self.tools.pop(name, None)` (the registry is a public dict) -/
def Registry.erase (r : Registry) (n : String) : Registry := r.filter (fun p => !(p.1 == n))

structure St where
  reg : Registry := []
  events : List Tool := []         -- tool bodies that ran, oldest first
  rosErrors : Nat := 0             -- number of `_ros_accumulated += 0.1`
  deriving Repr

inductive Res where
  | success
  | failure (kind : String)        -- mapped error class
  deriving Repr, DecidableEq

/-- callee of the parsed expression on the tool pathway -/
inductive Callee where
  | name (n : String)              -- `ast.Call` whose func is `ast.Name n`
  | notName                        -- `ast.Call` with any other callee
  | notCall                        -- expression is not a call (or does not parse)
  deriving Repr, DecidableEq

/-- what `metabolize` decides before dispatch -/
inductive Pre where
  | tooLong | rosLatched | oxidative | otherPathway
  deriving Repr, DecidableEq

/-- run the body of a tool: it is executed (event) and returns or raises -/
def runBody (s : St) (t : Tool) : St × Res :=
  if t.raises then ({ s with events := s.events ++ [t], rosErrors := s.rosErrors + 1 }, .failure "ToolRaised")
  else ({ s with events := s.events ++ [t] }, .success)

/-- `_oxidative_phosphorylation` inside `metabolize`'s blanket handler -/
def oxidative (g : Guards) (allowed : Option (List Cap)) (s : St) (callee : Callee) (argsOk : Bool) : St × Res :=
  match callee with
  | .notCall => ({ s with rosErrors := s.rosErrors + 1 }, .failure "ValueError")
  | .notName => ({ s with rosErrors := s.rosErrors + 1 }, .failure "ValueError")
  | .name n =>
    match s.reg.lookup n with
    | none => ({ s with rosErrors := s.rosErrors + 1 }, .failure "ValueError")
    | some t =>
      if g.oxidative && !permitted allowed t then
        ({ s with rosErrors := s.rosErrors + 1 }, .failure "PermissionError")
      else if !argsOk then ({ s with rosErrors := s.rosErrors + 1 }, .failure "ArgError")
      else runBody s t

/-- `metabolize(expr, pathway)` as far as tools are concerned: only the oxidative pathway reaches a tool -/
def metabolize (g : Guards) (allowed : Option (List Cap)) (s : St) (pre : Pre) (callee : Callee) (argsOk : Bool) :
    St × Res :=
  match pre with
  | .tooLong => (s, .failure "TooLong")
  | .rosLatched => (s, .failure "RosLatched")
  | .otherPathway => (s, .failure "NotToolPathway")     -- result of other pathways is C01/C02's business
  | .oxidative => oxidative g allowed s callee argsOk

/-- `execute_tool_call(ToolCall(name, arguments))` -/
def executeToolCall (g : Guards) (allowed : Option (List Cap)) (s : St) (n : String) : St × Res :=
  match s.reg.lookup n with
  | none => (s, .failure "UnknownTool")
  | some t =>
    if g.toolCall && !permitted allowed t then
      ({ s with rosErrors := s.rosErrors + 1 }, .failure "PermissionError")
    else runBody s t

/-- one round of the tool loop: every requested call is forwarded to `execute_tool_call` -/
def loopRound (g : Guards) (allowed : Option (List Cap)) : St → List String → St × List Res
  | s, [] => (s, [])
  | s, n :: ns =>
    let (s1, r) := executeToolCall g allowed s n
    let (s2, rs) := loopRound g allowed s1 ns
    (s2, r :: rs)

/-- `transcribe_with_tools`: the provider is an adversary answering each round with a list of tool calls
    (empty list = a plain completion, which ends the loop); at most `maxIter` rounds are executed. -/
def toolLoop (g : Guards) (allowed : Option (List Cap)) : Nat → St → List (List String) → St × List (List Res)
  | 0, s, _ => (s, [])
  | _, s, [] => (s, [])
  | _ + 1, s, [] :: _ => (s, [])
  | k + 1, s, (c :: cs) :: rounds =>
    let (s1, rs) := loopRound g allowed s (c :: cs)
    let (s2, rss) := toolLoop g allowed k s1 rounds
    (s2, rs :: rss)

inductive Op where
  | register (n : String) (t : Tool)
  | unregister (n : String)
  | metabolize (pre : Pre) (callee : Callee) (argsOk : Bool)
  | call (n : String)
  | loop (maxIter : Nat) (autoExecute : Bool) (rounds : List (List String))
  deriving Repr

/-- `transcribe_with_tools` returns before the loop when no tool is registered, and never executes with
    `auto_execute=False` -/
def step (g : Guards) (allowed : Option (List Cap)) (s : St) : Op → St
  | .register n t => { s with reg := s.reg.set n t }
  | .unregister n => { s with reg := s.reg.erase n }
  | .metabolize pre callee argsOk => (metabolize g allowed s pre callee argsOk).1
  | .call n => (executeToolCall g allowed s n).1
  | .loop k auto rounds =>
    if s.reg.isEmpty || !auto then s else (toolLoop g allowed k s rounds).1

def run (g : Guards) (allowed : Option (List Cap)) (s : St) (ops : List Op) : St :=
  ops.foldl (step g allowed) s

end Operon.MitoTools
