/-
  Model of the tool side of `operon_ai/organelles/mitochondria.py` and of the LLM tool loop of
  `operon_ai/organelles/nucleus.py :: Nucleus.transcribe_with_tools` (C03).

  * registry = Python dict `self.tools` (name ↦ tool object; re-registration replaces the object, whatever callable
    the old and the new object wrap: `engulf_tool`, `register_function` and the constructor's `tools=` all end in
    `self.tools[tool.name] = tool`);
  * a tool object carries `required_capabilities` / `capabilities` attributes (each possibly absent or empty, and
    re-assignable on the live object: `redeclare`) and an opaque body that returns or raises when executed; several
    tool objects may wrap the same body (`body` is the identity of the callable, not of the registration);
  * a capability tag is any hashable value (members of `core/types.py :: Capability`, plain strings, members of a
    plug-in's own Enum); the code only uses set operations on them, so a tag is a `Nat` here;
  * `allowed` is the public attribute `allowed_capabilities` (None = unrestricted), set by the constructor and
    re-assignable afterwards (`setCeiling`); every execution records the ceiling in force;
  * whether a capability-subset test dominates `tool.execute` on each of the two code paths is NOT assumed:
    it is the pair of booleans `Guards`, regenerated from the source by the extractor (`Operon.Gen.MitoCaps`);
  * a requested name is resolved by exact key equality of the dict (`Registry.lookup`): no case folding, trimming or
    Unicode normalisation by the library (Python's parser normalises the identifiers of an EXPRESSION before the
    library sees them: the callee of the model is the parsed identifier); checked against the real entry points on a
    table of look-alike spellings (`Operon.Gen.MitoCaps.nameTable`);
  * the tool object is fetched from the registry ONCE per request; the capability test and `execute` use that
    object.  Between the test and `execute` the arguments are evaluated (`_compute_node` on the expression pathway,
    `**call.arguments` on the structured path), and that evaluation may re-enter the public registration API
    (`during : List RegOp`): the registry changes, the object that runs is still the vetted one;
  * a tool body may itself use the registration API while it runs (`St.effects`, by identity of the callable); it
    does not request tools;
  * the provider of the tool loop is an adversary: it answers each round with any list of calls and may use the
    registration API before it answers (`Round.before`);
  * the ROS latch, the length guard and the pathway auto-detection of `metabolize` are inputs (`pre`):
    the theorems hold whatever they decide.

  Not modelled: argument values (evaluation of arguments is an input: the registry operations it performs, and
  whether it then succeeds or raises; by C01 it executes no tool), console output, timing/efficiency, statistics.
-/
namespace Operon.MitoTools

abbrev Cap := Nat      -- 0..5: index into core/types.py :: Capability (order of definition); 6..: extension tags

structure Tool where
  body : Nat                       -- identity of the tool body (side-effect counter in the harness)
  req : Option (List Cap)          -- `required_capabilities` attribute (none = attribute absent)
  caps : Option (List Cap)         -- `capabilities` attribute (none = attribute absent)
  raises : Bool                    -- behaviour of the body when run: return or raise
  deriving Repr, DecidableEq

/-- `getattr(tool, "required_capabilities", None) or getattr(tool, "capabilities", None) or set()` -/
def Tool.required (t : Tool) : List Cap :=
  match t.req with
  | some (c :: cs) => c :: cs
  | _ =>
    match t.caps with
    | some (c :: cs) => c :: cs
    | _ => []

/-- A declaration COMPUTED ON DEMAND: `required_capabilities` / `capabilities` are properties of the tool that hand back
    a fresh ITERATOR object at every access (generator expression, `map`, `iter(…)`, an object that only has
    `__iter__`).  Such an object is truthy even when it yields nothing, so the `or` chain of `_require_capabilities`
    stops at a present `required_capabilities` and never reads `capabilities`; `set(…)` of the fresh object is taken
    once per request.  As a tool VALUE of the model this is: `required_capabilities` as yielded, and no `capabilities`
    attribute when the former is present and yields nothing. -/
def iteratorDecl (req caps : Option (List Cap)) : Option (List Cap) × Option (List Cap) :=
  match req with
  | some [] => (some [], none)
  | _ => (req, caps)

def subset (a b : List Cap) : Bool := a.all (fun c => b.contains c)

/-- `allowed_capabilities is not None and not required.issubset(allowed)` is the refusal condition -/
def permitted (allowed : Option (List Cap)) (t : Tool) : Bool :=
  match allowed with
  | none => true
  | some al => subset t.required al

/-- one row of the table obtained by running the real code: a ceiling, a declaration, and per entry point whether the
    tool body ran and whether the result reported success (the tool loop only shows whether the body ran) -/
structure PermRow where
  allowed : Option (List Cap)
  req : Option (List Cap)
  caps : Option (List Cap)
  callRan : Bool
  callOk : Bool
  metRan : Bool
  metOk : Bool
  autoRan : Bool
  autoOk : Bool
  loopRan : Bool
  deriving Repr, DecidableEq

/-- which code paths test capabilities before `tool.execute` (extracted from the source) -/
structure Guards where
  oxidative : Bool       -- `_oxidative_phosphorylation`
  toolCall : Bool        -- `execute_tool_call`
  deriving Repr, DecidableEq

abbrev Registry := List (String × Tool)

def Registry.lookup (r : Registry) (n : String) : Option Tool :=
  match r.find? (fun p => p.1 == n) with
  | some p => some p.2
  | none => none

/-- `self.tools[name] = tool` -/
def Registry.set (r : Registry) (n : String) (t : Tool) : Registry :=
  if r.any (fun p => p.1 == n) then r.map (fun p => if p.1 == n then (n, t) else p) else r ++ [(n, t)]

/-- `del self.tools[name]` / `self.tools.pop(name, None)` (the registry is a public dict) -/
def Registry.erase (r : Registry) (n : String) : Registry := r.filter (fun p => !(p.1 == n))

/-- `tool.required_capabilities = …` / `tool.capabilities = …` (or `del`) on the live object registered under `n` -/
def Registry.redeclare (r : Registry) (n : String) (req caps : Option (List Cap)) : Registry :=
  r.map (fun p => if p.1 == n then (p.1, { p.2 with req := req, caps := caps }) else p)

/-- registry operations of the public API; they may also happen while a call is in flight -/
inductive RegOp where
  | register (n : String) (t : Tool)
  | unregister (n : String)
  deriving Repr, DecidableEq

def Registry.apply (r : Registry) : RegOp → Registry
  | .register n t => r.set n t
  | .unregister n => r.erase n

def Registry.applyAll (r : Registry) (ops : List RegOp) : Registry := ops.foldl Registry.apply r

/-- one execution of a tool body, with the ceiling in force when it was vetted and run -/
structure Ev where
  tool : Tool
  ceiling : Option (List Cap)
  deriving Repr, DecidableEq

structure St where
  reg : Registry := []
  allowed : Option (List Cap) := none    -- `self.allowed_capabilities`
  events : List Ev := []                 -- tool bodies that ran, oldest first
  effects : List (Nat × List RegOp) := [] -- what a tool body (by identity) does to the registry when it runs
  rosErrors : Nat := 0                   -- number of `_ros_accumulated += 0.1`
  deriving Repr

inductive Res where
  | success
  | failure (kind : String)        -- mapped error class
  deriving Repr, DecidableEq

/-- callee of the parsed expression on the tool pathway -/
inductive Callee where
  | name (n : String)              -- `ast.Call` whose func is `ast.Name n`
  | notName                        -- `ast.Call` with any other callee
  | notCall                        -- expression is not a call (or does not parse)
  deriving Repr, DecidableEq

/-- one row of the name-resolution table obtained by running the real code: a tool registered under the spelling `reg`,
    requested under the spelling `req` (`parsed` = the callee Python's parser reads in the expression `<req>()`): did the
    body run per entry point on an unrestricted engine (for the auto pathway together with the detection), and did it
    run on any entry point when the tool is outside the ceiling -/
structure NameRow where
  reg : String
  req : String
  parsed : Callee
  callRan : Bool
  metRan : Bool
  autoOx : Bool
  autoRan : Bool
  loopRan : Bool
  deniedRan : Bool
  deriving Repr, DecidableEq

/-- what `metabolize` decides before dispatch; on another pathway the arguments of the call are evaluated only when
    the callee is an entry of the function table (`sqrt(...)`) -/
inductive Pre where
  | tooLong | rosLatched | oxidative | otherPathway (argsEvaluated : Bool)
  deriving Repr, DecidableEq

/-- argument evaluation (or a tool body) re-entering the registration API -/
def during (s : St) (ops : List RegOp) : St := { s with reg := s.reg.applyAll ops }

/-- the registry operations the body `b` performs when it runs (a plug-in loader, a tool that retires itself, …) -/
def bodyOps (s : St) (b : Nat) : List RegOp := (s.effects.filter (fun p => p.1 == b)).flatMap (·.2)

/-- run the body of a tool: it is executed (event), may use the registration API, and returns or raises -/
def runBody (s : St) (t : Tool) : St × Res :=
  if t.raises then
    ({ during s (bodyOps s t.body) with events := s.events ++ [⟨t, s.allowed⟩], rosErrors := s.rosErrors + 1 },
      .failure "ToolRaised")
  else ({ during s (bodyOps s t.body) with events := s.events ++ [⟨t, s.allowed⟩] }, .success)

/-- `_oxidative_phosphorylation` inside `metabolize`'s blanket handler -/
def oxidative (g : Guards) (s : St) (callee : Callee) (argsOk : Bool) (ops : List RegOp) : St × Res :=
  match callee with
  | .notCall => ({ s with rosErrors := s.rosErrors + 1 }, .failure "ValueError")
  | .notName => ({ s with rosErrors := s.rosErrors + 1 }, .failure "ValueError")
  | .name n =>
    match s.reg.lookup n with
    | none => ({ s with rosErrors := s.rosErrors + 1 }, .failure "ValueError")
    | some t =>
      if g.oxidative && !permitted s.allowed t then
        ({ s with rosErrors := s.rosErrors + 1 }, .failure "PermissionError")
      else if !argsOk then ({ during s ops with rosErrors := s.rosErrors + 1 }, .failure "ArgError")
      else runBody (during s ops) t

/-- `metabolize(expr, pathway)` as far as tools are concerned: only the oxidative pathway reaches a tool -/
def metabolize (g : Guards) (s : St) (pre : Pre) (callee : Callee) (argsOk : Bool) (ops : List RegOp) :
    St × Res :=
  match pre with
  | .tooLong => (s, .failure "TooLong")
  | .rosLatched => (s, .failure "RosLatched")
  | .otherPathway true => (during s ops, .failure "NotToolPathway")
  | .otherPathway false => (s, .failure "NotToolPathway")     -- result of other pathways is C01/C02's business
  | .oxidative => oxidative g s callee argsOk ops

/-- `execute_tool_call(ToolCall(name, arguments))`; `ops` = what evaluating `**call.arguments` does to the registry -/
def executeToolCall (g : Guards) (s : St) (n : String) (ops : List RegOp) : St × Res :=
  match s.reg.lookup n with
  | none => (s, .failure "UnknownTool")
  | some t =>
    if g.toolCall && !permitted s.allowed t then
      ({ s with rosErrors := s.rosErrors + 1 }, .failure "PermissionError")
    else runBody (during s ops) t

/-- one round of the tool loop: every requested call is forwarded to `execute_tool_call` -/
def loopRound (g : Guards) : St → List (String × List RegOp) → St × List Res
  | s, [] => (s, [])
  | s, c :: cs =>
    let (s1, r) := executeToolCall g s c.1 c.2
    let (s2, rs) := loopRound g s1 cs
    (s2, r :: rs)

/-- one answer of the provider: what it does to the registry before answering, and the calls it requests -/
structure Round where
  before : List RegOp := []
  calls : List (String × List RegOp) := []
  deriving Repr

/-- `transcribe_with_tools`: the provider is an adversary answering each round with a list of tool calls
    (empty list = a plain completion, which ends the loop; so does `auto_execute=False`); at most `maxIter` rounds. -/
def toolLoop (g : Guards) : Nat → Bool → St → List Round → St × List (List Res)
  | 0, _, s, _ => (s, [])
  | _ + 1, _, s, [] => (s, [])
  | k + 1, auto, s, r :: rounds =>
    let s0 := during s r.before
    if r.calls.isEmpty || !auto then (s0, [])
    else
      let (s1, rs) := loopRound g s0 r.calls
      let (s2, rss) := toolLoop g k auto s1 rounds
      (s2, rs :: rss)

inductive Op where
  | register (n : String) (t : Tool)
  | unregister (n : String)
  | redeclare (n : String) (req caps : Option (List Cap))
  | setCeiling (al : Option (List Cap))
  | script (body : Nat) (ops : List RegOp)      -- from now on the callable `body` performs `ops` whenever it runs
  | metabolize (pre : Pre) (callee : Callee) (argsOk : Bool) (ops : List RegOp)
  | call (n : String) (ops : List RegOp)
  | loop (maxIter : Nat) (autoExecute : Bool) (rounds : List Round)
  deriving Repr

/-- `transcribe_with_tools` returns before the loop (and before the provider's tool interface is used) when no tool
    is registered -/
def step (g : Guards) (s : St) : Op → St
  | .register n t => { s with reg := s.reg.set n t }
  | .unregister n => { s with reg := s.reg.erase n }
  | .redeclare n req caps => { s with reg := s.reg.redeclare n req caps }
  | .setCeiling al => { s with allowed := al }
  | .script b ops => { s with effects := s.effects ++ [(b, ops)] }
  | .metabolize pre callee argsOk ops => (metabolize g s pre callee argsOk ops).1
  | .call n ops => (executeToolCall g s n ops).1
  | .loop k auto rounds => if s.reg.isEmpty then s else (toolLoop g k auto s rounds).1

def run (g : Guards) (s : St) (ops : List Op) : St :=
  ops.foldl (step g) s

/-- an engine as constructed: `Mitochondria(allowed_capabilities=allowed)` -/
def init (allowed : Option (List Cap)) : St := { allowed := allowed }

end Operon.MitoTools
