/-
  Model of `operon_ai/state/genome.py :: Genome` (C20).

  * `_genes` / `_expression` are Python dicts: association lists in insertion order with
    "assign = replace in place or append" (`putGene`, `putLevel`), lookup = first match.
  * Values are an arbitrary type `ν` (the code never inspects a value except in the random-mutation pass of
    `replicate`, which is delegated to the environment).  Gene names are `Nat` codes of the strings.
  * The approval callback `on_mutation` and the random draws of `replicate` are the ENVIRONMENT `Env`:
    `adv` is an arbitrary function of (which callback object, global call index, gene name, original value,
    new value, reason) that approves, refuses or raises; `rnd` is an arbitrary function of (global draw index,
    gene name, current value) that says whether the random pass mutates that gene and to what.
  * A `Store` is the lineage: every genome ever created (roots by `new`, children by `replicate`), addressed
    by position.  An operation names the genome it is invoked on.
  * `get_hash` = `H (canon g)` for an injective `H` (md5 prefix of the JSON of the name-sorted name→value
    map; injectivity is the stated assumption); the model works with `canon g` itself.

  The gate attributes `allow_mutations` / `on_mutation` / `mutation_rate` are PUBLIC and may be re-assigned on a live
  genome (`Op.assign`); every method reads them at call time.

  Not modelled: `description`, timestamps, `modifier`/`reason` free text other than the four reasons the code
  itself passes, console output, callbacks that re-enter the genome or tamper with the `Mutation` record.
-/
namespace Operon.Genome

inductive GType where
  | structural | regulatory | housekeeping | conditional | dormant
  deriving Repr, DecidableEq

inductive Level where
  | silenced | low | normal | high | over
  deriving Repr, DecidableEq

/-- the `reason` strings that occur: "" (caller), "rollback", "replication_mutation", "random_mutation", and
    "add_gene" (the audit record of a refused re-add) -/
inductive Reason where
  | user | rollback | replication | random | readd
  deriving Repr, DecidableEq

/-- what an approval callback does when called: truthy result, falsy result, exception -/
inductive Ans where
  | approve | refuse | raise
  deriving Repr, DecidableEq

structure Gene (ν : Type) where
  name : Nat
  value : ν
  gtype : GType
  required : Bool
  defExpr : Level
  deriving Repr, DecidableEq

structure Mut (ν : Type) where
  gene : Nat
  orig : ν
  new : ν
  reason : Reason
  approved : Bool
  deriving Repr, DecidableEq

structure Env (ν : Type) where
  /-- callback id → global call index → gene → original value → new value → reason → answer -/
  adv : Nat → Nat → Nat → ν → ν → Reason → Ans
  /-- global draw index → gene → current value → (mutate to this value | leave alone) -/
  rnd : Nat → Nat → ν → Option ν
  /-- Python's `==` on stored values (used only by `diff`) -/
  veq : ν → ν → Bool
  /-- the value is Python's `None` (which `diff` cannot tell from a missing gene) -/
  isNone : ν → Bool

structure Genome (ν : Type) where
  allow : Bool                 -- allow_mutations
  cb : Option Nat              -- on_mutation (which callback object), `none` = no callback
  rate : Bool                  -- mutation_rate > 0
  genes : List (Gene ν)        -- _genes, insertion order
  expr : List (Nat × Level)    -- _expression, insertion order
  log : List (Mut ν)           -- _mutations
  generation : Nat
  parentHash : Option (List (Nat × ν))   -- canonical list of the parent when this genome was replicated
  deriving Repr, DecidableEq

variable {ν : Type}

/-! ### dict operations -/

def findGene (gs : List (Gene ν)) (n : Nat) : Option (Gene ν) :=
  gs.find? (fun x => x.name == n)

/-- `d[x.name] = x` -/
def putGene : List (Gene ν) → Gene ν → List (Gene ν)
  | [], x => [x]
  | h :: t, x => if h.name = x.name then x :: t else h :: putGene t x

def findLevel (es : List (Nat × Level)) (n : Nat) : Option Level :=
  (es.find? (fun p => p.1 == n)).map (·.2)

/-- `d[n] = l` -/
def putLevel : List (Nat × Level) → Nat → Level → List (Nat × Level)
  | [], n, l => [(n, l)]
  | h :: t, n, l => if h.1 = n then (n, l) :: t else h :: putLevel t n l

/-- `for n, l in src.items(): d[n] = l` -/
def putLevels (es : List (Nat × Level)) : List (Nat × Level) → List (Nat × Level)
  | [] => es
  | p :: rest => putLevels (putLevel es p.1 p.2) rest

def valueOf (g : Genome ν) (n : Nat) : Option ν := (findGene g.genes n).map (·.value)

/-! ### hash -/

def insertKV (p : Nat × ν) : List (Nat × ν) → List (Nat × ν)
  | [] => [p]
  | q :: t => if p.1 ≤ q.1 then p :: q :: t else q :: insertKV p t

def sortKV : List (Nat × ν) → List (Nat × ν)
  | [] => []
  | p :: t => insertKV p (sortKV t)

/-- the name → value map in insertion order -/
def table (g : Genome ν) : List (Nat × ν) := g.genes.map (fun x => (x.name, x.value))

/-- what `get_hash` digests: the (name, value) pairs sorted by name -/
def canon (g : Genome ν) : List (Nat × ν) := sortKV (table g)

def hash {η : Type} (H : List (Nat × ν) → η) (g : Genome ν) : η := H (canon g)

/-! ### add_gene, set_expression -/

/-- a refused attempt: nothing changes except that the attempt is appended to the log, flagged unapproved -/
def refuseMut (g : Genome ν) (og : Gene ν) (n : Nat) (v : ν) (r : Reason) : Genome ν :=
  { g with log := g.log ++ [⟨n, og.value, v, r, false⟩] }

/-- `add_gene`: a new name is always accepted; an existing name is overwritten when mutations are enabled (not
    logged) and REFUSED otherwise — the refusal is audited like a refused `mutate` (an unapproved entry
    current value → offered value, reason "add_gene") -/
def addGene (g : Genome ν) (x : Gene ν) : Genome ν × Bool :=
  match findGene g.genes x.name with
  | some og =>
    if g.allow then ({ g with genes := putGene g.genes x, expr := putLevel g.expr x.name x.defExpr }, true)
    else (refuseMut g og x.name x.value .readd, false)
  | none => ({ g with genes := putGene g.genes x, expr := putLevel g.expr x.name x.defExpr }, true)

def setExpr (g : Genome ν) (n : Nat) (l : Level) : Genome ν × Bool :=
  match findGene g.genes n with
  | none => (g, false)
  | some _ => ({ g with expr := putLevel g.expr n l }, true)

/-! ### mutate, rollback_mutation -/

/-- result of a call that may invoke the approval callback: new genome, return value, new call counter -/
inductive MRes (ν : Type) where
  | done (g : Genome ν) (ret : Bool) (k : Nat)
  | raised (k : Nat)

def applyMut (g : Genome ν) (og : Gene ν) (n : Nat) (v : ν) (r : Reason) : Genome ν :=
  { g with genes := putGene g.genes { og with value := v }, log := g.log ++ [⟨n, og.value, v, r, true⟩] }

def mutate (env : Env ν) (k : Nat) (g : Genome ν) (n : Nat) (v : ν) (r : Reason) : MRes ν :=
  match findGene g.genes n with
  | none => .done g false k
  | some og =>
    if g.allow then .done (applyMut g og n v r) true k
    else
      match g.cb with
      | none => .done (refuseMut g og n v r) false k
      | some c =>
        match env.adv c k n og.value v r with
        | .approve => .done (applyMut g og n v r) true (k + 1)
        | .refuse => .done (refuseMut g og n v r) false (k + 1)
        | .raise => .raised (k + 1)

/-- `for mutation in reversed(self._mutations): if mutation.gene_name == n and mutation.approved` -/
def lastApproved (log : List (Mut ν)) (n : Nat) : Option (Mut ν) :=
  log.reverse.find? (fun m => m.gene == n && m.approved)

def rollback (env : Env ν) (k : Nat) (g : Genome ν) (n : Nat) : MRes ν :=
  match lastApproved g.log n with
  | none => .done g false k
  | some m => mutate env k g n m.orig .rollback

/-! ### express -/

def expressed (g : Genome ν) (ctx : List Nat) (x : Gene ν) : Bool :=
  if findLevel g.expr x.name = some .silenced then false
  else if x.gtype = .conditional && !ctx.contains x.name then false
  else if x.gtype = .dormant then false
  else true

def express (g : Genome ν) (ctx : List Nat) : List (Nat × ν) :=
  (g.genes.filter (expressed g ctx)).map (fun x => (x.name, x.value))

/-- `get_value(name)` with default `None` -/
def getValue (g : Genome ν) (n : Nat) : Option ν :=
  match findGene g.genes n with
  | none => none
  | some x => if findLevel g.expr n = some .silenced then none else some x.value

/-! ### read-only queries: validate, list_genes, diff -/

/-- `validate()`: the required genes that are silenced (valid iff empty) -/
def validate (g : Genome ν) : List Nat :=
  (g.genes.filter fun x => x.required && findLevel g.expr x.name == some .silenced).map (·.name)

/-- `list_genes()` (the level is `none` where the code would raise KeyError — unreachable, see
    `c20_every_gene_has_expression_state`) -/
def listGenes (g : Genome ν) : List (Nat × ν × GType × Option Level × Bool) :=
  g.genes.map fun x => (x.name, x.value, x.gtype, findLevel g.expr x.name, x.required)

/-- `this_val != other_val` with `None` standing for a missing gene -/
def differs (env : Env ν) : Option ν → Option ν → Bool
  | none, none => false
  | some a, none => !env.isNone a
  | none, some b => !env.isNone b
  | some a, some b => !env.veq a b

/-- `diff(other)`: names of either genome (this one's first) under which the two show different values -/
def diff (env : Env ν) (g h : Genome ν) : List (Nat × Option ν × Option ν) :=
  let names := g.genes.map (·.name) ++ (h.genes.map (·.name)).filter (fun n => !(g.genes.map (·.name)).contains n)
  (names.filter fun n => differs env (valueOf g n) (valueOf h n)).map fun n => (n, valueOf g n, valueOf h n)

/-- `get_statistics()`: total_genes, generation, mutations_count, approved_mutations, by_type (genes per type, in
    the order structural, regulatory, housekeeping, conditional, dormant), by_expression (expression states per level,
    SILENCED … OVEREXPRESSED); its `hash` / `parent_hash` are `get_hash()` / the remembered parent hash -/
structure Stats where
  total : Nat
  generation : Nat
  mutations : Nat
  approved : Nat
  byType : List Nat
  byExpr : List Nat
  deriving Repr, DecidableEq

def stats (g : Genome ν) : Stats :=
  { total := g.genes.length
    generation := g.generation
    mutations := g.log.length
    approved := (g.log.filter (·.approved)).length
    byType := [GType.structural, .regulatory, .housekeeping, .conditional, .dormant].map fun t =>
      (g.genes.filter fun x => x.gtype = t).length
    byExpr := [Level.silenced, .low, .normal, .high, .over].map fun l =>
      (g.expr.filter fun p => p.2 = l).length }

/-! ### construction and replication -/

def emptyGenome (allow : Bool) (cb : Option Nat) (rate : Bool) : Genome ν :=
  ⟨allow, cb, rate, [], [], [], 0, none⟩

/-- `for gene in genes: self.add_gene(gene)` -/
def addAll (g : Genome ν) : List (Gene ν) → Genome ν
  | [] => g
  | x :: xs => addAll (addGene g x).1 xs

def newGenome (allow : Bool) (cb : Option Nat) (rate : Bool) (genes : List (Gene ν)) : Genome ν :=
  addAll (emptyGenome allow cb rate) genes

/-- result of `replicate`: child, call counter, draw counter -/
inductive RRes (ν : Type) where
  | ok (g : Genome ν) (k : Nat) (d : Nat)
  | raised (k : Nat) (d : Nat)

/-- `for gene_name, new_value in mutations.items(): child.mutate(gene_name, new_value, "replication_mutation")` -/
def mutateList (env : Env ν) (d : Nat) : Nat → Genome ν → List (Nat × ν) → RRes ν
  | k, g, [] => .ok g k d
  | k, g, p :: rest =>
    match mutate env k g p.1 p.2 .replication with
    | .done g' _ k' => mutateList env d k' g' rest
    | .raised k' => .raised k' d

/-- the `mutation_rate > 0` pass over the child's genes (names fixed at loop start, value read when visited) -/
def randomPass (env : Env ν) : Nat → Nat → Genome ν → List Nat → RRes ν
  | k, d, g, [] => .ok g k d
  | k, d, g, n :: rest =>
    match findGene g.genes n with
    | none => randomPass env k (d + 1) g rest
    | some x =>
      match env.rnd d n x.value with
      | none => randomPass env k (d + 1) g rest
      | some v =>
        match mutate env k g n v .random with
        | .done g' _ k' => randomPass env k' (d + 1) g' rest
        | .raised k' => .raised k' (d + 1)

/-- the child before any mutation is applied -/
def childBase (p : Genome ν) (inherit : Bool) : Genome ν :=
  let c0 : Genome ν := newGenome p.allow p.cb p.rate p.genes
  { c0 with generation := p.generation + 1, parentHash := some (canon p),
            expr := if inherit then putLevels c0.expr p.expr else c0.expr }

def replicate (env : Env ν) (k d : Nat) (p : Genome ν) (muts : List (Nat × ν)) (inherit : Bool) : RRes ν :=
  match mutateList env d k (childBase p inherit) muts with
  | .raised k' d' => .raised k' d'
  | .ok c k' d' =>
    if p.rate then randomPass env k' d' c (c.genes.map (·.name)) else .ok c k' d'

/-! ### value OBJECTS: identity, sharing, in-place mutation

The model is polymorphic in the value type and never inspects or builds a value, so it can be read with `ν := Nat` =
the IDENTITY of the Python object stored as a gene's value.  Under that reading the gene tables, the log (`orig`,
`new`) and the results of `express` / `get_value` hold REFERENCES, and two entries with the same reference are the same
object — which is what the code does: `replicate` hands the parent's own `Gene` objects to the child's constructor,
`mutate` logs the old value object itself, `express` / `get_value` / `get_gene` / `export` return the stored object.
The CONTENT of the objects is a heap `H`; no API operation has access to it.  A caller that mutates a handed-out object
in place (`g.get_gene("l").value.append(3)`) is `poke`. -/

/-- what `get_gene` / `export` / `get_hash` show when the objects have content `H` -/
def view {κ : Type} (H : Nat → κ) (g : Genome Nat) : List (Nat × κ) := (table g).map fun p => (p.1, H p.2)

/-- what `get_hash` digests -/
def canonView {κ : Type} (H : Nat → κ) (g : Genome Nat) : List (Nat × κ) := (canon g).map fun p => (p.1, H p.2)

/-- in-place mutation of the object with identity `r` -/
def poke {κ : Type} (H : Nat → κ) (r : Nat) (c : κ) : Nat → κ := fun r' => if r' = r then c else H r'

/-- the genome's gene table holds the object `r` -/
def holds (g : Genome Nat) (r : Nat) : Bool := g.genes.any (·.value == r)

/-! ### vocabulary of the source translation (Operon/Gen/GenomeTranslated.lean is generated from genome.py) -/

/-- `d[key] = x` with an explicit key (the translation does not assume that a gene is stored under its own name) -/
def putGeneAt : List (Gene ν) → Nat → Gene ν → List (Gene ν)
  | [], _, x => [x]
  | h :: t, key, x => if h.name = key then x :: t else h :: putGeneAt t key x

/-- a method that left the translatable subset: any agreement theorem about it fails -/
def untranslatable (_construct : String) : MRes ν := .raised 0

/-- what the evaluated `replicate` table (Operon/Gen/GenomeTables.lean) records about a child -/
structure ChildView where
  allow : Bool
  sameCallback : Bool
  rate : Bool
  level : Option Level
  generation : Nat
  parentHashIsParents : Bool
  logFlags : List Bool
  parentUntouched : Bool
  deriving Repr, DecidableEq

/-- the gate settings a child is constructed with: (allow_mutations, on_mutation, mutation_rate > 0) -/
structure Gate where
  allow : Bool
  cb : Option Nat
  rate : Bool
  deriving Repr, DecidableEq

/-! ### public attributes re-assigned on a live genome

`allow_mutations`, `on_mutation` and `mutation_rate` are plain public attributes: `genome.allow_mutations = False`
after construction is ordinary use ("bootstrap open, then lock").  Every method reads them at call time, so the
model's gate is simply the current field; an assignment changes that one field and nothing else. -/

inductive Assign where
  | allow (b : Bool)            -- `g.allow_mutations = b` (any truthy / falsy object)
  | cb (c : Option Nat)         -- `g.on_mutation = <callback object c>` / `= None`
  | rate (b : Bool)             -- `g.mutation_rate = x`, `b` = (x > 0)
  deriving Repr, DecidableEq

def assign (g : Genome ν) : Assign → Genome ν
  | .allow b => { g with allow := b }
  | .cb c => { g with cb := c }
  | .rate b => { g with rate := b }

/-! ### the lineage store and its operations -/

structure Store (ν : Type) where
  genomes : List (Genome ν)
  calls : Nat     -- number of approval-callback calls so far
  draws : Nat     -- number of random-pass visits so far

def Store.empty : Store ν := ⟨[], 0, 0⟩

inductive Op (ν : Type) where
  | new (allow : Bool) (cb : Option Nat) (rate : Bool) (genes : List (Gene ν))
  | add (i : Nat) (x : Gene ν)
  | mutate (i : Nat) (n : Nat) (v : ν)
  | rollback (i : Nat) (n : Nat)
  | setExpr (i : Nat) (n : Nat) (l : Level)
  | replicate (i : Nat) (muts : List (Nat × ν)) (inherit : Bool)
  | express (i : Nat) (ctx : List Nat)
  | getValue (i : Nat) (n : Nat)
  | validate (i : Nat)
  | listGenes (i : Nat)
  | diff (i : Nat) (j : Nat)
  | assign (i : Nat) (a : Assign)
  | stats (i : Nat)

inductive Obs (ν : Type) where
  | created (id : Nat)
  | ret (b : Bool)
  | raised
  | child (id : Nat)
  | config (c : List (Nat × ν))
  | value (v : Option ν)
  | invalid (silencedRequired : List Nat)
  | listing (l : List (Nat × ν × GType × Option Level × Bool))
  | diffs (d : List (Nat × Option ν × Option ν))
  | assigned
  | statistics (s : Stats)
  | bad
  deriving Repr, DecidableEq

def step (env : Env ν) (st : Store ν) : Op ν → Store ν × Obs ν
  | .new allow cb rate genes =>
    (⟨st.genomes ++ [newGenome allow cb rate genes], st.calls, st.draws⟩, .created st.genomes.length)
  | .add i x =>
    match st.genomes[i]? with
    | none => (st, .bad)
    | some g => (⟨st.genomes.set i (addGene g x).1, st.calls, st.draws⟩, .ret (addGene g x).2)
  | .mutate i n v =>
    match st.genomes[i]? with
    | none => (st, .bad)
    | some g =>
      match mutate env st.calls g n v .user with
      | .done g' b k => (⟨st.genomes.set i g', k, st.draws⟩, .ret b)
      | .raised k => (⟨st.genomes, k, st.draws⟩, .raised)
  | .rollback i n =>
    match st.genomes[i]? with
    | none => (st, .bad)
    | some g =>
      match rollback env st.calls g n with
      | .done g' b k => (⟨st.genomes.set i g', k, st.draws⟩, .ret b)
      | .raised k => (⟨st.genomes, k, st.draws⟩, .raised)
  | .setExpr i n l =>
    match st.genomes[i]? with
    | none => (st, .bad)
    | some g => (⟨st.genomes.set i (setExpr g n l).1, st.calls, st.draws⟩, .ret (setExpr g n l).2)
  | .replicate i muts inherit =>
    match st.genomes[i]? with
    | none => (st, .bad)
    | some p =>
      match replicate env st.calls st.draws p muts inherit with
      | .ok c k d => (⟨st.genomes ++ [c], k, d⟩, .child st.genomes.length)
      | .raised k d => (⟨st.genomes, k, d⟩, .raised)
  | .express i ctx =>
    match st.genomes[i]? with
    | none => (st, .bad)
    | some g => (st, .config (express g ctx))
  | .getValue i n =>
    match st.genomes[i]? with
    | none => (st, .bad)
    | some g => (st, .value (getValue g n))
  | .validate i =>
    match st.genomes[i]? with
    | none => (st, .bad)
    | some g => (st, .invalid (validate g))
  | .listGenes i =>
    match st.genomes[i]? with
    | none => (st, .bad)
    | some g => (st, .listing (listGenes g))
  | .diff i j =>
    match st.genomes[i]?, st.genomes[j]? with
    | some g, some h => (st, .diffs (diff env g h))
    | _, _ => (st, .bad)
  | .assign i a =>
    match st.genomes[i]? with
    | none => (st, .bad)
    | some g => (⟨st.genomes.set i (assign g a), st.calls, st.draws⟩, .assigned)
  | .stats i =>
    match st.genomes[i]? with
    | none => (st, .bad)
    | some g => (st, .statistics (stats g))

/-- the store after a history -/
def run (env : Env ν) (st : Store ν) : List (Op ν) → Store ν
  | [] => st
  | op :: rest => run env (step env st op).1 rest

/-- the observations of a history -/
def trace (env : Env ν) (st : Store ν) : List (Op ν) → List (Obs ν)
  | [] => []
  | op :: rest => (step env st op).2 :: trace env (step env st op).1 rest

end Operon.Genome
