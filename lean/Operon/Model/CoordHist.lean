import Operon.Model.CoordDfs
/-
  Histories of controller calls (C15) with the *reference* wait-for relation kept as ghost state.

  `pend` lists the pairs (X, r) such that X is active, X's last acquisition attempt on r returned BLOCKED and X
  has not acquired r since.  The reference wait-for edges are `X → owner(r)` for (X, r) ∈ pend.  The recorded
  edges are `sys.edges` (the `DependencyGraph` the code maintains).  `trig` is the trigger predicate of the open
  finding C15-edges-dropped-on-progress, evaluated on reference-level data only (pending waits and lock owners).
-/
namespace Operon.Coord

inductive HOp where
  | start (o : Nat) (p : Int)
  | acq (o r : Nat)
  | rel (o r : Nat)
  | finish (o : Nat)        -- complete_operation / abort_operation / manual kill / watchdog kill
  deriving DecidableEq, Repr

structure HSt where
  sys : Sys
  pend : List (Nat × Nat) := []

def ownerOf (s : Sys) (r : Nat) : Option Nat :=
  match s.locks r with
  | some l => l.owner
  | none => none

/-- one call; calls naming an operation that is not active are not made (as in the line protocol) -/
def hstep (h : HSt) : HOp → HSt
  | .start o p => { h with sys := (h.sys.start o p).1 }
  | .acq o r =>
    match h.sys.ctx? o with
    | none => h
    | some c =>
      match acquire h.sys c r with
      | (s', _, none) => { h with sys := s' }
      | (s', _, some .blocked) => { sys := s', pend := if h.pend.contains (o, r) then h.pend else h.pend ++ [(o, r)] }
      | (s', _, some _) => { sys := s', pend := h.pend.filter (fun e => e ≠ (o, r)) }
  | .rel o r =>
    match h.sys.ctx? o with
    | none => h
    | some c => { h with sys := (release h.sys c r).1 }
  | .finish o =>
    match h.sys.ctx? o with
    | none => h
    | some c => { sys := (finish h.sys c).1, pend := h.pend.filter (fun e => e.1 ≠ o) }

def hrun (h : HSt) (ops : List HOp) : HSt := ops.foldl hstep h

/-- reference wait-for edges (waiter, holder, resource) -/
def refEdges (h : HSt) : List (Nat × Nat × Nat) :=
  h.pend.filterMap fun e =>
    match ownerOf h.sys e.2 with
    | some y => if y = e.1 then none else some (e.1, y, e.2)
    | none => none

/-- trigger of the open finding, decided before the call from pending waits and owners:
    a successful acquire by X of r while X has another pending wait, or somebody waits on a lock X owns, or
    somebody else waits on r; a successful release by X while X has a pending wait, or somebody waits on a lock X
    still owns afterwards. -/
def trig (h : HSt) : HOp → Bool
  | .acq o r =>
    match h.sys.ctx? o with
    | none => false
    | some c =>
      match acquire h.sys c r with
      | (_, _, none) => false
      | (_, _, some .blocked) => false
      | (_, _, some _) =>
        h.pend.any (fun e => e.1 = o && e.2 ≠ r) ||
        h.pend.any (fun e => e.1 ≠ o && ownerOf h.sys e.2 = some o) ||
        h.pend.any (fun e => e.1 ≠ o && e.2 = r)
  | .rel o r =>
    match h.sys.ctx? o with
    | none => false
    | some c =>
      match release h.sys c r with
      | (s', _, true) =>
        h.pend.any (fun e => e.1 = o) || h.pend.any (fun e => e.1 ≠ o && ownerOf s' e.2 = some o)
      | (_, _, false) => false
  | _ => false

/-- an id is started only when no operation with that id is active -/
def freshOk (h : HSt) : HOp → Bool
  | .start o _ => (h.sys.ctx? o).isNone
  | _ => true

/-- no trigger event and no id reuse anywhere along the history -/
def TrigFree (h : HSt) : List HOp → Prop
  | [] => True
  | op :: ops => trig h op = false ∧ freshOk h op = true ∧ TrigFree (hstep h op) ops

end Operon.Coord
