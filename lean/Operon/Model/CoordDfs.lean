import Operon.Model.Coord
/-
  `DependencyGraph.detect_cycle` / `get_blocking_chain`, `Watchdog.check/execute/manual_kill`,
  `PriorityInheritance.check_and_boost`.

  The Python DFS keeps `visited`, `rec_stack` (sets) and `path` (list); `rec_stack` always holds exactly the
  elements of `path`, so the model tests `b ∈ path`.  The recursion is fuel-indexed; `dfsFuel` (number of
  edge entries + 1) is never exhausted because every recursive call visits a node not visited before.
-/
namespace Operon.Coord

def nexts (E : Edges) (n : Nat) : List Nat := (succs E n).map (·.1)

/-- the `for blocking, resource in self.edges[node]` loop of the closure; `rec b visited path` stands for the
    recursive call `dfs(b)` -/
def dfsSuccs (rec : Nat → List Nat → List Nat → Option (List Nat) × List Nat) :
    List Nat → List Nat → List Nat → Option (List Nat) × List Nat
  | [], visited, _ => (none, visited)
  | b :: bs, visited, path =>
    if b ∉ visited then
      match rec b (b :: visited) (path ++ [b]) with
      | (some c, v) => (some c, v)
      | (none, v) => dfsSuccs rec bs v path
    else if b ∈ path then (some (path.dropWhile (· ≠ b)), visited)
    else dfsSuccs rec bs visited path

/-- the closure `dfs(node)`; `visited` already contains `node`, `path` already ends with `node` -/
def dfs (E : Edges) : Nat → Nat → List Nat → List Nat → Option (List Nat) × List Nat
  | 0, _, visited, _ => (none, visited)
  | fuel + 1, node, visited, path =>
    dfsSuccs (fun b v p => dfs E fuel b v p) (nexts E node) visited path

def dfsFuel (E : Edges) : Nat := E.length + (E.map (·.2.length)).sum + 1

/-- the `for node in list(self.edges.keys())` loop -/
def detectFrom (E : Edges) (fuel : Nat) : List Nat → List Nat → Option (List Nat)
  | [], _ => none
  | n :: ns, visited =>
    if n ∈ visited then detectFrom E fuel ns visited
    else
      match dfs E fuel n (n :: visited) [n] with
      | (some c, _) => some c
      | (none, v) => detectFrom E fuel ns v

/-- `agents` of the `DeadlockInfo` returned by `detect_cycle` -/
def detectCycle (E : Edges) : Option (List Nat) := detectFrom E (dfsFuel E) (E.map (·.1)) []

/-- the `(waiter, blocking, resource)` triples of `DeadlockInfo.cycle` -/
def cycleEdges (E : Edges) (cyc : List Nat) : List (Nat × Nat × Nat) :=
  (List.range cyc.length).filterMap fun i =>
    let a := cyc.getD i 0
    let b := cyc.getD ((i + 1) % cyc.length) 0
    ((succs E a).find? (fun d => d.1 = b)).map fun d => (a, b, d.2)

/-- `DependencyGraph.get_blocking_chain` (chain built so far is also the `visited` set) -/
def blockingChain (E : Edges) : Nat → Nat → List Nat → List Nat
  | 0, _, ch => ch
  | f + 1, cur, ch =>
    match (succs E cur).head? with
    | none => ch
    | some (b, _) => if ch.contains b then ch else blockingChain E f b (ch ++ [b])

/-! ### watchdog -/

inductive Reason where
  | timeout | starvation | noProgress | deadlock | manual
  deriving DecidableEq, Repr

/-- `if self.limit:` — a zero timedelta is falsy, i.e. disabled -/
def limitExceeded (lim : Option Nat) (now since : Nat) : Bool :=
  match lim with
  | none => false
  | some m => m != 0 && decide (since + m < now)

/-- the per-operation part of `Watchdog.check` -/
def timeoutEvent (s : Sys) (c : Ctx) : Option (Nat × Reason) :=
  if c.exempt then none
  else if limitExceeded s.maxOp s.now c.created then some (c.id, .timeout)
  else if c.phase = .g1 && limitExceeded s.starv s.now c.phaseAt && !c.resAcq then some (c.id, .starvation)
  else if c.phase = .s && limitExceeded s.prog s.now c.phaseAt then some (c.id, .noProgress)
  else none

/-- Python's `min(xs, key=…)`: the first minimal element -/
def firstMinBy {α : Type} (key : α → Int) : List α → Option α
  | [] => none
  | x :: xs => some (xs.foldl (fun best y => if key y < key best then y else best) x)

/-- `Watchdog._select_deadlock_victim` -/
def selectVictim (s : Sys) (agents : List Nat) : Option Nat :=
  let involved := agents.filterMap s.ctx?
  match s.strategy with
  | .priority => (firstMinBy (fun c => c.prio) involved).map (·.id)
  | .oldest => (firstMinBy (fun c => (c.created : Int)) involved).map (·.id)
  | .other => involved.head?.map (·.id)

/-- `Watchdog.check` -/
def wdCheck (s : Sys) : List (Nat × Reason) :=
  let evs := s.active.filterMap (timeoutEvent s)
  match detectCycle s.edges with
  | none => evs
  | some cyc =>
    match selectVictim s cyc with
    | none => evs
    | some v => if (evs.map (·.1)).contains v then evs else evs ++ [(v, .deadlock)]

/-- `Watchdog.execute` -/
def wdExecute (s : Sys) : Sys × List (Nat × Reason) :=
  let evs := wdCheck s
  (abortMany s (evs.map (·.1)), evs)

/-- `Watchdog.manual_kill` -/
def manualKill (s : Sys) (o : Nat) : Sys := abortById s o

/-! ### priority inheritance -/

structure BoostSt where
  sys : Sys
  maxp : Int
  new : List (Nat × Int × Int)     -- (op, original, boosted)

def boostHolder (st : BoostSt) (o : Nat) : BoostSt :=
  match st.sys.ctx? o with
  | none => st
  | some h =>
    if h.prio < st.maxp then
      let orig := match st.sys.boosts.find? (fun b => b.1 = o) with
        | some b => b.2
        | none => h.prio
      let s1 := st.sys.setCtx { h with prio := st.maxp }
      let bs := if s1.boosts.any (fun b => b.1 = o) then s1.boosts.map (fun b => if b.1 = o then (o, orig) else b)
        else s1.boosts ++ [(o, orig)]
      let s2 := { s1 with boosts := bs }
      { sys := s2, maxp := st.maxp, new := st.new ++ [(o, orig, st.maxp)] }
    else { st with maxp := if st.maxp < h.prio then h.prio else st.maxp }

def boostWaiter (acc : Sys × List (Nat × Int × Int)) (w : Nat) : Sys × List (Nat × Int × Int) :=
  match acc.1.ctx? w with
  | none => acc
  | some wc =>
    let chain := blockingChain acc.1.edges (acc.1.edges.length + 1) w [w]
    let st := chain.tail.foldl boostHolder { sys := acc.1, maxp := wc.prio, new := acc.2 }
    (st.sys, st.new)

/-- `PriorityInheritance.check_and_boost` -/
def checkAndBoost (s : Sys) : Sys × List (Nat × Int × Int) :=
  (s.edges.map (·.1)).foldl boostWaiter (s, [])

/-- `CoordinationSystem.run_maintenance` -/
def maintenance (s : Sys) : Sys × List (Nat × Int × Int) × List (Nat × Reason) :=
  let b := checkAndBoost s
  let w := wdExecute b.1
  (w.1, b.2, w.2)

end Operon.Coord
