import Operon.Model.Loops

/-! C18, timing (round 8): `step_timeout` and the clock as part of the swarm's environment.

`RegenerativeSwarm.step_timeout` is accepted and stored but read by nothing in `supervise` / `_run_worker` / `_spawn_worker` /
`_trigger_apoptosis`; no clock is read there either (event timestamps are not observed).  `Timed σ` makes both explicit
components of the environment state, `SwarmAdv.timed` lets every callback move them arbitrarily.  The theorems
(`Lemmas/C18Timed.lean`, `c18_swarm_blind_to_timing`) say that a run does not depend on them. -/

namespace Operon.Loops

/-- The swarm's environment together with the `step_timeout` attribute (microseconds, `none` = `None`) and a clock. -/
structure Timed (σ : Type) where
  env : σ
  timeout : Option Int
  clock : Int

/-- `adv` with time passing: every callback (factory, step, summarizer) moves the clock and may re-assign
    `step_timeout`, both as an arbitrary function `tick` of everything there is (environment, timeout, clock). -/
def SwarmAdv.timed {σ W ω η ι τ : Type} (adv : SwarmAdv σ W ω η ι τ) (tick : Timed σ → Option Int × Int) :
    SwarmAdv (Timed σ) W ω η ι τ where
  factory t n h := (⟨(adv.factory t.env n h).1, (tick t).1, (tick t).2⟩, (adv.factory t.env n h).2)
  step t w task := (⟨(adv.step t.env w task).1, (tick t).1, (tick t).2⟩, (adv.step t.env w task).2)
  summarize t w := (⟨(adv.summarize t.env w).1, (tick t).1, (tick t).2⟩, (adv.summarize t.env w).2)
  wid := adv.wid

end Operon.Loops
