import Operon.Model.Quorum
import Operon.Gen.QuorumTables
/-
  How the quorum model reads the decision tables of `Operon.Gen.QuorumTables` (regenerated on every run by EVALUATING
  operon_ai/topology/quorum.py through its public API, harness/vf/extract/quorum_tables.py).

  * `classifyAction` / `Payload` / `confOfPayload`: the part of `_protein_to_vote` that the protocol's voter kinds
    P E B D U and confidence classes `none` / number / `bad` abstract from - action-type STRINGS (code points) and
    payload SHAPES - so that the classification table can be reproduced row by row by `toVote`.
  * `Answer` / `FaultPoint` / `proteinToVote` / `collectLoop`: the collection loop of `run_vote` as written, with every
    point of the per-voter step at which an answer can fail (`Lemmas/C06Tab.lean`: it is `collect` / `afterVote`).
  * `Ledger`: `_total_votes` / `_quorums_reached` / `_quorums_failed` / `_vote_history` (capped at 1000) as `run_vote`
    updates them, `get_vote_history(limit)`.
  * `cfgOfCode`: table configuration codes ↦ `Cfg` (7 / 8 = what `EmergencyQuorum`'s constructor passes on).
  * `outcomeCode`: one digit per vote (1 reached & PERMIT, 2 not reached & BLOCK, 4 not reached & ABSTAIN,
    8 ZeroDivisionError, 9 anything else - never produced by the model, see `Lemmas/C06Tab.lean`).
  * `profilesUpTo` / `countOutcome`: the counting strategies on (permit, block, abstain, defer) profiles.
  * `multisetsOf` / `weightBallots`: the ballots of the weight table, in the generator's order.
-/
namespace Operon.Quorum
open Operon.Gen.Quorum

/-! ### `_protein_to_vote` on action-type strings and payload shapes -/

def permitCps : List Nat := [80, 69, 82, 77, 73, 84]          -- "PERMIT"
def executeCps : List Nat := [69, 88, 69, 67, 85, 84, 69]     -- "EXECUTE"
def blockCps : List Nat := [66, 76, 79, 67, 75]               -- "BLOCK"
def deferCps : List Nat := [68, 69, 70, 69, 82]               -- "DEFER"

/-- `protein.action_type in ("PERMIT", "EXECUTE")` / `== "BLOCK"` / `== "DEFER"` / else: whole-string equality -/
def classifyAction (s : List Nat) : Kind :=
  if s = permitCps then .permit
  else if s = executeCps then .execute
  else if s = blockCps then .block
  else if s = deferCps then .defer
  else .other

/-- the shapes of `protein.payload` that `_protein_to_vote` tells apart -/
inductive Payload where
  | notDict                 -- None, a string, a number, a list …: `isinstance(payload, dict)` is false
  | dictWithout             -- a dict without the key "confidence"
  | confNumeric (c : Rat)   -- `float(payload["confidence"])` succeeds with value c (float, int, bool, numeric string)
  | confBad                 -- `float(payload["confidence"])` raises (word, empty string, None, list), or the lookup does
  | unrenderable (withConfidence : Bool)
                            -- `bool(payload)` / `str(payload)` raises while the vote's reasoning text is rendered (an
                            -- object whose `__str__` / `__bool__` / `__len__` raises; a dict - with or without a valid
                            -- confidence entry - holding a value whose `__repr__` raises)
  deriving Repr, DecidableEq

/-- what `_protein_to_vote` makes of the payload: a confidence, or an exception (`.bad`: the voter is a failed voter).
    The reasoning text is rendered inside `_protein_to_vote`, i.e. BEFORE the vote is appended and `votes_cast` is
    incremented: a payload that cannot be rendered gives no ballot besides the failure ABSTAIN. -/
def confOfPayload : Payload → Conf
  | .notDict => .absent
  | .dictWithout => .absent
  | .confNumeric c => .num c
  | .confBad => .bad
  | .unrenderable _ => .bad

/-! ### the collection loop of `run_vote`, step by step -/

/-- what `profile.agent.express(signal)` hands back to the collection loop of `run_vote` -/
inductive Answer where
  | raised                                       -- `express` raises an `Exception`
  | unusable                                     -- returns something without `action_type` / with an unreadable `payload`
  | protein (action : List Nat) (payload : Payload)
  deriving Repr, DecidableEq

/-- the points of the per-voter step (all inside the `try`), in program order, at which an answer can fail -/
inductive FaultPoint where
  | express            -- `profile.agent.express(signal)`
  | readAnswer         -- `protein.action_type` / `protein.payload`
  | readConfidence     -- `"confidence" in payload`, `float(payload["confidence"])`, the NaN test
  | renderReasoning    -- `str(protein.payload) if protein.payload else ""`
  deriving Repr, DecidableEq

def Answer.faultPoint : Answer → Option FaultPoint
  | .raised => some .express
  | .unusable => some .readAnswer
  | .protein _ .confBad => some .readConfidence
  | .protein _ (.unrenderable _) => some .renderReasoning
  | .protein _ _ => none

/-- the protocol's abstraction of an answer: the voter kind and confidence class of `Behaviour` -/
def answerBehaviour : Answer → Behaviour
  | .raised => ⟨.raises, .absent⟩
  | .unusable => ⟨.raises, .absent⟩
  | .protein a p => ⟨classifyAction a, confOfPayload p⟩

/-- `_protein_to_vote(protein, profile)` stage by stage; `none` = it raises (nothing has been appended yet) -/
def proteinToVote (m : Member) : Answer → Option Vote
  | .raised => none
  | .unusable => none
  | .protein a p =>
    match p with
    | .notDict => some ⟨voteTypeOf (classifyAction a), 1, m.weight * m.rel⟩
    | .dictWithout => some ⟨voteTypeOf (classifyAction a), 1, m.weight * m.rel⟩
    | .confNumeric c => some ⟨voteTypeOf (classifyAction a), clamp01 c, m.weight * m.rel⟩
    | .confBad => none
    | .unrenderable _ => none

/-- the collection loop of `run_vote` as written: per member `try: express → _protein_to_vote → votes.append(vote) →
    votes_cast += 1`, `except Exception: votes.append(zero-confidence ABSTAIN with the bare profile weight)` -/
def collectLoop : List Member → List Answer → List Vote × List Member
  | m :: ms, a :: as =>
    match proteinToVote m a with
    | some v => (v :: (collectLoop ms as).1, ⟨m.name, m.weight, m.rel, m.votesCast + 1, m.correct⟩ :: (collectLoop ms as).2)
    | none => (⟨.abstain, 0, m.weight⟩ :: (collectLoop ms as).1, m :: (collectLoop ms as).2)
  | _, _ => ([], [])


/-- the electorate the protocol abstracts a list of answers to -/
def answerVoters (c : List Member) (as : List Answer) : List Voter :=
  List.zipWith (fun m a => voterOfMember m (answerBehaviour a)) c as

/-! ### statistics and history kept by `run_vote` -/

/-- the statistics and the history `run_vote` keeps on the object: `_total_votes`, `_quorums_reached`,
    `_quorums_failed`, `_vote_history` -/
structure Ledger where
  totalVotes : Nat := 0
  reached : Nat := 0
  failed : Nat := 0
  history : List Result := []

/-- `_vote_history` keeps the newest 1000 results -/
def historyCap : Nat := 1000

/-- `xs[-n:]` for `n ≥ 1` -/
def lastN {α : Type} (n : Nat) (xs : List α) : List α := xs.drop (xs.length - n)

/-- "Record statistics" and the reached / failed counters of `run_vote`, for one result: `_total_votes += len(votes)`,
    `_vote_history.append(result)`, `if len(_vote_history) > 1000: _vote_history = _vote_history[-1000:]`, then
    `_quorums_reached += 1` or `_quorums_failed += 1` -/
def Ledger.record (l : Ledger) (r : Result) : Ledger :=
  { totalVotes := l.totalVotes + r.votes.length
    reached := if r.reached then l.reached + 1 else l.reached
    failed := if r.reached then l.failed else l.failed + 1
    history := if (l.history ++ [r]).length > historyCap then lastN historyCap (l.history ++ [r]) else l.history ++ [r] }

/-- the ledger after a sequence of votes -/
def Ledger.recordAll (l : Ledger) (rs : List Result) : Ledger := rs.foldl Ledger.record l

/-- `get_vote_history(limit)` = `self._vote_history[-limit:]` (`limit ≥ 1`) -/
def Ledger.recent (l : Ledger) (limit : Nat) : List Result := lastN limit l.history

def sumN : List Nat → Nat
  | [] => 0
  | x :: xs => x + sumN xs

/-- payload shape codes of the generator (quorum_tables.PAYLOADS) -/
def payloadOfCode (code : Nat) (c : Rat) : Payload :=
  if code ≤ 3 then .notDict else if code ≤ 5 then .dictWithout
  else if code ≤ 9 then .confNumeric c          -- the number itself (also one outside [0, 1]: `toVote` clamps)
  else if code = 13 then .confNumeric 2         -- float("inf") / "Infinity" / 1e308: beyond the clamp
  else if code = 16 then .unrenderable false    -- str() / bool() / len() of the payload raises
  else if code = 17 then .unrenderable true     -- a dict with a valid confidence and an unprintable value
  else .confBad                                 -- non-numeric, NaN, a failing key lookup

/-- shape code of "the agent's `express` raises" -/
def raisesCode : Nat := 99

/-- the numbers of `classTable` are in sixteenths -/
def q16 (n : Nat) : Rat := (n : Rat) / 16

/-- … and a payload value may be negative: code 14 = the value is `-(n/16)` -/
def payloadValue (code n : Nat) : Rat := if code = 14 then -(q16 n) else q16 n

/-- the colony member a row of `classTable` describes -/
def rowVoter (r : List Nat × Nat × Nat × Nat × Nat) : Voter :=
  if r.2.1 = raisesCode then ⟨.raises, .absent, q16 r.2.2.2.1, q16 r.2.2.2.2⟩
  else ⟨classifyAction r.1,
    confOfPayload (payloadOfCode (if r.2.1 = 14 then 6 else r.2.1) (payloadValue r.2.1 r.2.2.1)), q16 r.2.2.2.1, q16 r.2.2.2.2⟩

def voteTypeCode : VoteType → Nat
  | .permit => 0 | .block => 1 | .abstain => 2 | .defer => 3

def observedVote (v : Vote) : Nat × Rat × Rat := (voteTypeCode v.kind, v.conf, v.weight)

/-- the observation a row of `classTable` records -/
def rowObserved (o : Nat × Nat × Nat) : Nat × Rat × Rat := (o.1, q16 o.2.1, q16 o.2.2)

/-! ### configurations and outcome digits -/

def strategyOfCode? : Nat → Option Strategy
  | 0 => some .majority | 1 => some .supermajority | 2 => some .unanimous | 3 => some .weighted
  | 4 => some .confidence | 5 => some .bayesian | 6 => some .threshold | _ => none

/-- 0..6: `QuorumSensing(strategy, threshold, min_voters)`; 7: `EmergencyQuorum()`; 8: `EmergencyQuorum(emergency_threshold=c)` -/
def cfgOfCode (k : Nat × Option Rat × Nat) : Option Cfg :=
  if k.1 = 7 then emergencyDefaultCfg
  else if k.1 = 8 then emergencyCfg k.2.1
  else
    match strategyOfCode? k.1 with
    | some s => some ⟨s, k.2.1, k.2.2⟩
    | none => none

def codeOf : Bool → VoteType → Nat
  | true, .permit => 1
  | false, .block => 2
  | false, .abstain => 4
  | _, _ => 9

/-- the outcome digit of one vote -/
def outcomeCode (cfg : Cfg) (voters : List Voter) : Nat :=
  if runVoteRaises cfg voters then 8 else codeOf (runVote cfg voters).reached (runVote cfg voters).decision

def unpackAux : Nat → Nat → List Nat → List Nat
  | 0, _, acc => acc
  | k + 1, n, acc => unpackAux k (n / 10) (n % 10 :: acc)

/-- the `count` decimal digits of `n`, most significant first -/
def unpack (count n : Nat) : List Nat := unpackAux count n []

/-! ### the counting strategies on (permit, block, abstain/failed, defer) profiles -/

/-- every profile of 0..n voters, in the generator's order -/
def profilesUpTo (n : Nat) : List (Nat × Nat × Nat × Nat) :=
  (List.range (n + 1)).flatMap fun tot => (List.range (tot + 1)).flatMap fun p =>
    (List.range (tot - p + 1)).flatMap fun b => (List.range (tot - p - b + 1)).map fun a => (p, b, a, tot - p - b - a)

def Strategy.counting : Strategy → Bool
  | .majority | .supermajority | .unanimous | .threshold => true
  | _ => false

/-- what the four counting strategies decide from the counts alone (`n` = colony size) -/
def countReached (cfg : Cfg) (n p b : Nat) : Bool :=
  match cfg.strategy with
  | .majority =>
    decide ((if p + b = 0 then (0 : Rat) else natR p / natR (p + b)) > effThreshold cfg.custom majorityThreshold)
  | .supermajority =>
    decide ((if p + b = 0 then (0 : Rat) else natR p / natR (p + b)) > effThreshold cfg.custom supermajorityThreshold)
  | .unanimous => decide (b = 0) && decide (0 < p)
  | .threshold => decide (thresholdCount cfg n ≤ (p : Int))
  | _ => false

def countOutcome (cfg : Cfg) (pr : Nat × Nat × Nat × Nat) : Nat :=
  let n := pr.1 + pr.2.1 + pr.2.2.1 + pr.2.2.2
  if pr.1 + pr.2.1 < cfg.minVoters then 4
  else if decide (n = 0) && decide (cfg.strategy = .threshold) then 8
  else if countReached cfg n pr.1 pr.2.1 then 1 else 2

/-- (permit, block, abstain, defer) counts of the votes an electorate casts -/
def profileOf (voters : List Voter) : Nat × Nat × Nat × Nat :=
  ((ofKind .permit (collect voters)).length, (ofKind .block (collect voters)).length,
   (ofKind .abstain (collect voters)).length, (ofKind .defer (collect voters)).length)

/-- a row of `countTable` as (profile, digit) pairs -/
def decodeCount (packed : Nat) : List ((Nat × Nat × Nat × Nat) × Nat) :=
  (profilesUpTo countMaxVoters).zip (unpack (profilesUpTo countMaxVoters).length packed)

/-- a plain electorate with a given profile (weight 1, reliability 1, no confidence entry) -/
def plainVoters (pr : Nat × Nat × Nat × Nat) : List Voter :=
  List.replicate pr.1 ⟨.permit, .absent, 1, 1⟩ ++ List.replicate pr.2.1 ⟨.block, .absent, 1, 1⟩ ++
    List.replicate pr.2.2.1 ⟨.other, .absent, 1, 1⟩ ++ List.replicate pr.2.2.2 ⟨.defer, .absent, 1, 1⟩

/-! ### the ballots of the weight table -/

def kindOfCode : Nat → Kind
  | 0 => .permit | 1 => .execute | 2 => .block | 3 => .defer | 4 => .other | _ => .raises

def voterOfAlpha (a : Nat × Rat × Rat × Bool × Rat) : Voter :=
  ⟨kindOfCode a.1, if a.2.2.2.1 then .num a.2.2.2.2 else .absent, a.2.1, a.2.2.1⟩

/-- every multiset of `k` elements of a list, lexicographic by position (= itertools.combinations_with_replacement) -/
def multisetsOf {α : Type} : List α → Nat → List (List α)
  | [], 0 => [[]]
  | [], _ + 1 => []
  | x :: xs, k => (List.range (k + 1)).reverse.flatMap fun j => (multisetsOf xs (k - j)).map (List.replicate j x ++ ·)

def weightBallots : List (List Voter) :=
  (List.range (weightMaxVoters + 1)).flatMap fun k => multisetsOf (weightAlphabet.map voterOfAlpha) k

/-- digit lists agree; 7 in the table = not compared (float boundary) -/
def agreeB : List Nat → List Nat → Bool
  | [], [] => true
  | d :: ds, m :: ms => (d == 7 || d == m) && agreeB ds ms
  | _, _ => false

end Operon.Quorum
