import Operon.Model.Lock
import Operon.Model.Atp
/-
  The concurrent energy store (C05): the critical regions of `ATP_Store` as atomic *actions* whose bodies are
  the sequential functions of `Operon.Model.Atp` (validated against the code by C04's correspondence), run by
  threads under the lock semantics of `Operon.Model.Lock`.

  Lock / component `k` = store number `k`.  Thread-local state = the return values of the calls made so far and,
  between the two regions of a `transfer_to`, whether the withdrawal succeeded.

  `transfer_to` is TWO regions — `withdraw` under the own lock, then `deposit` under the peer's lock — exactly as
  in the source; when the withdrawal failed the code does not take the peer's lock at all, which the model renders
  as a deposit region that changes nothing (a stuttering region: same final state, same return values).

  The background regeneration thread (`regeneration_rate > 0`) is one more thread: each pass of its loop is the
  `regenerate` region with amount `int(rate)` (`tickAct`, `regenThread`).

  Not modelled: `apply_debt_interest` (runs without the lock and is not in the property's operation list),
  preemption inside a source line.
-/
namespace Operon.AtpConc
open Operon.Lock Operon.Atp

/-- atomic actions = critical regions -/
inductive Act where
  | consume (i : Nat) (cost : Nat) (cur : Cur) (allowDebt : Bool) (prio : Nat)
  | regenerate (i : Nat) (n : Nat) (cur : Cur)
  | convert (i : Nat) (n : Nat)
  | withdraw (i : Nat) (n : Nat) (cur : Cur)
  | deposit (j : Nat) (n : Nat) (cur : Cur)
  deriving Repr, DecidableEq

def Act.lock : Act → Nat
  | .consume i .. => i
  | .regenerate i .. => i
  | .convert i _ => i
  | .withdraw i .. => i
  | .deposit j .. => j

/-- API calls of the property -/
inductive Call where
  | consume (i : Nat) (cost : Nat) (cur : Cur) (allowDebt : Bool) (prio : Nat)
  | regenerate (i : Nat) (n : Nat) (cur : Cur)
  | convert (i : Nat) (n : Nat)
  | transfer (src dst : Nat) (n : Nat) (cur : Cur)
  deriving Repr, DecidableEq

def Call.acts : Call → List Act
  | .consume i c cur d p => [.consume i c cur d p]
  | .regenerate i n cur => [.regenerate i n cur]
  | .convert i n => [.convert i n]
  | .transfer s d n cur => [.withdraw s n cur, .deposit d n cur]

/-- One pass of the background regeneration loop of a store built with `regeneration_rate = r > 0`
    (`_start_regeneration`: `while not stopped: sleep(1); regenerate(int(self.regeneration_rate))`): the region of
    `regenerate` with amount `int(r)` in ATP.  The background thread is therefore just one more thread whose program is
    a list of these. -/
def tickAct (j : Nat) (intRate : Nat) : Act := .regenerate j intRate .atp

def tickCall (j : Nat) (intRate : Nat) : Call := .regenerate j intRate .atp

/-- the background thread that makes `k` passes before it is stopped -/
def regenThread (j intRate k : Nat) : List Call := List.replicate k (tickCall j intRate)

def Call.isTransfer : Call → Bool
  | .transfer .. => true
  | _ => false

structure Loc where
  rets : List Ret := []
  pending : Bool := false
  deriving Repr, DecidableEq

/-- the body of a region: effect on (thread-local state, the locked store).  `obs j` is the `on_state_change` observer
    of store `j` (called inside the region, may raise: the call then raises after its mutations). -/
def body (cls : Classifier) (obs : Nat → Obs) : Act → Loc → Store → Loc × Store
  | .consume i cost cur d p, l, s =>
    let r := Atp.consumeO cls (obs i) s cost cur d p
    (⟨l.rets ++ [retBool r.2.1], l.pending⟩, r.1)
  | .regenerate i n cur, l, s =>
    let r := Atp.regenerateO cls (obs i) s n cur
    (⟨l.rets ++ [retUnit r.2], l.pending⟩, r.1)
  | .convert _ n, l, s =>
    let r := Atp.convert s n
    (⟨l.rets ++ [.int r.2], l.pending⟩, r.1)
  | .withdraw _ n cur, l, s =>
    let w := Atp.withdraw s n cur
    (⟨if w.2 then l.rets else l.rets ++ [.bool false], w.2⟩, w.1)
  | .deposit j n cur, l, s =>
    if l.pending then
      let r := Atp.depositO cls (obs j) s n cur
      (⟨l.rets ++ [match r.2 with | .ok _ => .bool true | .error e => .raised e], false⟩, r.1)
    else (l, s)

/-- A region implements an action when it takes the action's lock and its lines — however many, however cut —
    compose to the action's body. -/
def Implements (cls : Classifier) (obs : Nat → Obs) (r : Region Loc Store) (a : Act) : Prop :=
  r.k = a.lock ∧ r.eff = body cls obs a

/-- the canonical one-line cut -/
def regionOf (cls : Classifier) (obs : Nat → Obs) (a : Act) : Region Loc Store := ⟨a.lock, [body cls obs a]⟩

/-- sequential reference: run a list of (thread, action) pairs atomically, in order -/
structure World where
  st : Nat → Store
  locs : Nat → Loc

def applyAct (cls : Classifier) (obs : Nat → Obs) (w : World) (t : Nat) (a : Act) : World :=
  let r := body cls obs a (w.locs t) (w.st a.lock)
  ⟨upd1 w.st a.lock r.2, fun u => if u = t then r.1 else w.locs u⟩

def runTrace (cls : Classifier) (obs : Nat → Obs) (w : World) : List (Nat × Act) → World
  | [] => w
  | (t, a) :: rest => runTrace cls obs (applyAct cls obs w t a) rest

end Operon.AtpConc

namespace Operon.AtpConc
open Operon.Lock Operon.Atp

/-! ### act-level configurations: every operation type is cut into lines by `cut` (any cut that composes to the body) -/

structure AThread where
  todo : List Act
  loc : Loc := {}

structure ACfg where
  st : Nat → Store
  threads : List AThread

abbrev Cut := Act → List (Loc → Store → Loc × Store)

def regionBy (cut : Cut) (a : Act) : Region Loc Store := ⟨a.lock, cut a⟩

def AThread.toR (cut : Cut) (t : AThread) : RThread Loc Store := ⟨t.todo.map (regionBy cut), t.loc⟩

def ACfg.toRCfg (cut : Cut) (ac : ACfg) : RCfg Loc Store := ⟨ac.st, ac.threads.map (AThread.toR cut)⟩

/-- sequential semantics at the level of atomic actions -/
inductive ActStep (cls : Classifier) (obs : Nat → Obs) : ACfg → ACfg → Prop
  | run {st pre post a as l} :
      ActStep cls obs ⟨st, pre ++ ⟨a :: as, l⟩ :: post⟩
        ⟨upd1 st a.lock (body cls obs a l (st a.lock)).2, pre ++ ⟨as, (body cls obs a l (st a.lock)).1⟩ :: post⟩

def ACfg.done (ac : ACfg) : Prop := ∀ t ∈ ac.threads, t.todo = []

/-- threads given as lists of API calls -/
def ACfg.ofCalls (st : Nat → Store) (progs : List (List Call)) : ACfg :=
  ⟨st, progs.map fun cs => ⟨cs.flatMap Call.acts, {}⟩⟩

/-- energy that regenerate / deposit actions still to run may add to store `j` -/
def Act.inflow (j : Nat) : Act → Int
  | .regenerate i n _ => if i = j then n else 0
  | .deposit i n _ => if i = j then n else 0
  | _ => 0

def pendingInflow (j : Nat) (ts : List AThread) : Int := (ts.map fun t => (t.todo.map (Act.inflow j)).sum).sum

end Operon.AtpConc
