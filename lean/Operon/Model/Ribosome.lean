/-
  C12 — string-level executable model of `operon_ai/organelles/ribosome.py` (`Ribosome.translate` /
  `synthesize`): the four regex passes (conditionals → loops → includes → variables) as scanners over
  code-point lists, the variable pass in its four sub-passes, loop bodies by sequential `str.replace`,
  includes by recursive `translate`.  This is the layer the differential correspondence runs against.

  Strings are lists of code points (`Nat`), so lone surrogates survive.  What belongs to CPython and not
  to operon is an environment (`Cfg`): the character classes `\w` and `\s`, the filter table (names, and
  the result of applying a filter to the value bound to a variable), `str(value)` and truthiness of bound
  values (fields of `Val`), the unknown-include marker text.

  Everything is structurally recursive (explicit fuel where a scanner jumps ahead) so that closed
  instances reduce in the kernel (`decide`).
-/
namespace Operon.Ribosome

abbrev Str := List Nat

/-- an element of a list/tuple value: `str(item)` and, for dict items, `(str(key), str(value))` in order -/
structure Item where
  text : Str
  fields : List (Str × Str) := []
deriving Repr, DecidableEq

/-- a bound value as the renderer sees it: `str(v)`, `bool(v)`, and the items when `v` is a list/tuple -/
structure Val where
  text : Str
  truthy : Bool
  items : Option (List Item) := none
deriving Repr, DecidableEq

abbrev Ctx := List (Str × Val)

def lookup {α : Type} (k : Str) : List (Str × α) → Option α
  | [] => none
  | (k', v) :: r => if k' = k then some v else lookup k r

/-- result of `self.filters[f](context[var])` -/
inductive FRes where
  | ok (s : Str)
  | raise (cls : Str)
deriving Repr, DecidableEq

inductive Err where
  | value                 -- ValueError (strict mode: missing required variable; unknown top-level template)
  | recursion             -- RecursionError (include cycle)
  | other (cls : Str)     -- raised by a filter
deriving Repr, DecidableEq

structure Cfg where
  isWord : Nat → Bool
  isSpace : Nat → Bool
  filters : List Str
  applyF : Str → Str → FRes          -- filter name → variable name → result on the bound value
  templates : List (Str × Str)       -- registered templates: name ↦ sequence
  strict : Bool
  markerPre : Str
  markerSuf : Str

/-! ### constants (code points) -/
def LL : Str := [123, 123]                                      -- {{
def RR : Str := [125, 125]                                      -- }}
def IFH : Str := [123, 123, 35, 105, 102]                       -- {{#if
def ELSE : Str := [123, 123, 35, 101, 108, 115, 101, 125, 125]  -- {{#else}}
def ENDIF : Str := [123, 123, 47, 105, 102, 125, 125]           -- {{/if}}
def EACHH : Str := [123, 123, 35, 101, 97, 99, 104]             -- {{#each
def ENDEACH : Str := [123, 123, 47, 101, 97, 99, 104, 125, 125] -- {{/each}}
def INCH : Str := [123, 123, 62]                                -- {{>
def OPTH : Str := [123, 123, 63]                                -- {{?
def BAR : Nat := 124
def kDot : Str := [46]
def kItem : Str := [105, 116, 101, 109]
def kIndex : Str := [105, 110, 100, 101, 120]
def kFirst : Str := [102, 105, 114, 115, 116]
def kLast : Str := [108, 97, 115, 116]
def sTrue : Str := [84, 114, 117, 101]
def sFalse : Str := [70, 97, 108, 115, 101]

def pyBool (b : Bool) : Str := if b then sTrue else sFalse

def digitsAux : Nat → Nat → Str → Str
  | 0, _, acc => acc
  | f + 1, n, acc => if n < 10 then (48 + n) :: acc else digitsAux f (n / 10) ((48 + n % 10) :: acc)

/-- `str(n)` for a natural number -/
def dec (n : Nat) : Str := digitsAux (n + 1) n []

/-! ### scanner primitives -/

def stripPrefix : Str → Str → Option Str
  | [], s => some s
  | _ :: _, [] => none
  | a :: p, c :: s => if a = c then stripPrefix p s else none

def spanP (f : Nat → Bool) : Str → Str × Str
  | [] => ([], [])
  | c :: s => if f c then (c :: (spanP f s).1, (spanP f s).2) else ([], c :: s)

/-- first occurrence of `p` (non-empty): text before, text after -/
def findSub (p : Str) : Str → Option (Str × Str)
  | [] => none
  | c :: s =>
    match stripPrefix p (c :: s) with
    | some r => some ([], r)
    | none => match findSub p s with
      | some (b, a) => some (c :: b, a)
      | none => none

/-- `str.replace(old, new)` for non-empty `old`: leftmost, non-overlapping, not rescanned -/
def replaceAll (old new : Str) : Nat → Str → Str
  | 0, s => s
  | _, [] => []
  | f + 1, c :: s =>
    match stripPrefix old (c :: s) with
    | some r => new ++ replaceAll old new f r
    | none => c :: replaceAll old new f s

def replaceStr (old new s : Str) : Str := replaceAll old new (s.length + 1) s

/-- `pre \w+ }}` at the start of `s`: the name and the rest -/
def matchWordTag (cfg : Cfg) (pre s : Str) : Option (Str × Str) :=
  match stripPrefix pre s with
  | none => none
  | some r =>
    let w := spanP cfg.isWord r
    if w.1 = [] then none else
    match stripPrefix RR w.2 with
    | some r3 => some (w.1, r3)
    | none => none

/-- `pre \s+ (\w+) }}` (block heads): whitespace, name, rest -/
def matchHead (cfg : Cfg) (pre s : Str) : Option (Str × Str × Str) :=
  match stripPrefix pre s with
  | none => none
  | some r =>
    let ws := spanP cfg.isSpace r
    if ws.1 = [] then none else
    let w := spanP cfg.isWord ws.2
    if w.1 = [] then none else
    match stripPrefix RR w.2 with
    | some r3 => some (ws.1, w.1, r3)
    | none => none

/-- `\{\{(\w+)\|(\w+)\}\}` -/
def matchFiltered (cfg : Cfg) (s : Str) : Option ((Str × Str) × Str) :=
  match stripPrefix LL s with
  | none => none
  | some r =>
    let w := spanP cfg.isWord r
    if w.1 = [] then none else
    match w.2 with
    | c :: r2 =>
      if c = BAR then
        let f := spanP cfg.isWord r2
        if f.1 = [] then none else
        match stripPrefix RR f.2 with
        | some r3 => some ((w.1, f.1), r3)
        | none => none
      else none
    | [] => none

/-- `\{\{(\w+)\|([^}]+)\}\}` -/
def matchDefault (cfg : Cfg) (s : Str) : Option ((Str × Str) × Str) :=
  match stripPrefix LL s with
  | none => none
  | some r =>
    let w := spanP cfg.isWord r
    if w.1 = [] then none else
    match w.2 with
    | c :: r2 =>
      if c = BAR then
        let d := spanP (fun x => x != 125) r2
        if d.1 = [] then none else
        match stripPrefix RR d.2 with
        | some r3 => some ((w.1, d.1), r3)
        | none => none
      else none
    | [] => none

/-- the lazy tail of the conditional regex, started right after the head:
    `(.*?)(?:\{\{#else\}\}(.*?))?\{\{/if\}\}` → if-content, else-content, rest -/
def lazyIf : Str → Option (Str × Option Str × Str)
  | [] => none
  | c :: s =>
    match (match stripPrefix ELSE (c :: s) with
           | some r => (match findSub ENDIF r with
                        | some (e, rest) => some (([] : Str), some e, rest)
                        | none => none)
           | none => none) with
    | some x => some x
    | none =>
      match stripPrefix ENDIF (c :: s) with
      | some rest => some ([], none, rest)
      | none => match lazyIf s with
        | some (t, e, rest) => some (c :: t, e, rest)
        | none => none

structure CondM where
  name : Str
  thn : Str
  els : Option Str

def matchCond (cfg : Cfg) (s : Str) : Option (CondM × Str) :=
  match matchHead cfg IFH s with
  | none => none
  | some (_, n, r) =>
    match lazyIf r with
    | some (t, e, rest) => some (⟨n, t, e⟩, rest)
    | none => none

def matchLoop (cfg : Cfg) (s : Str) : Option ((Str × Str) × Str) :=
  match matchHead cfg EACHH s with
  | none => none
  | some (_, n, r) =>
    match findSub ENDEACH r with
    | some (body, rest) => some ((n, body), rest)
    | none => none

/-- `re.finditer` / `re.sub` skeleton: literal characters and non-overlapping leftmost matches -/
def scan {α : Type} (m : Str → Option (α × Str)) : Nat → Str → List (Sum Nat α)
  | 0, _ => []
  | _, [] => []
  | f + 1, c :: s =>
    match m (c :: s) with
    | some (a, rest) => .inr a :: scan m f rest
    | none => .inl c :: scan m f s

def scanStr {α : Type} (m : Str → Option (α × Str)) (s : Str) : List (Sum Nat α) := scan m (s.length + 1) s

def hits {α : Type} : List (Sum Nat α) → List α
  | [] => []
  | .inl _ :: r => hits r
  | .inr a :: r => a :: hits r

/-- total `re.sub` with a replacement function -/
def subWith {α : Type} (f : α → Str) : List (Sum Nat α) → Str
  | [] => []
  | .inl c :: r => c :: subWith f r
  | .inr a :: r => f a ++ subWith f r

/-! ### the passes -/

def truthyOf (ctx : Ctx) (n : Str) : Bool :=
  match lookup n ctx with
  | some v => v.truthy
  | none => false

def processConditionals (cfg : Cfg) (ctx : Ctx) (s : Str) : Str :=
  subWith (fun (m : CondM) => if truthyOf ctx m.name then m.thn else m.els.getD []) (scanStr (matchCond cfg) s)

/-- `dict.update`: an existing key keeps its position, a new key is appended -/
def updKey (kvs : List (Str × Str)) (k v : Str) : List (Str × Str) :=
  if kvs.any (fun p => p.1 == k) then kvs.map (fun p => if p.1 = k then (k, v) else p) else kvs ++ [(k, v)]

def loopCtx (i len : Nat) (it : Item) : List (Str × Str) :=
  it.fields.foldl (fun acc p => updKey acc p.1 p.2)
    [(kDot, it.text), (kItem, it.text), (kIndex, dec i), (kFirst, pyBool (i == 0)), (kLast, pyBool (i + 1 == len))]

def tagOf (k : Str) : Str := LL ++ k ++ RR

def substLoop (kvs : List (Str × Str)) (body : Str) : Str :=
  kvs.foldl (fun part p => replaceStr (tagOf p.1) p.2 part) body

def expandItems (len : Nat) (body : Str) : Nat → List Item → Str
  | _, [] => []
  | i, it :: r => substLoop (loopCtx i len it) body ++ expandItems len body (i + 1) r

def loopRepl (ctx : Ctx) (n body : Str) : Str :=
  match lookup n ctx with
  | none => []
  | some v =>
    match v.items with
    | none => []
    | some its => expandItems its.length body 0 its

def processLoops (cfg : Cfg) (ctx : Ctx) (s : Str) : Str :=
  subWith (fun (m : Str × Str) => loopRepl ctx m.1 m.2) (scanStr (matchLoop cfg) s)

abbrev Res := Except Err (Str × List Str)

/-- `re.sub` whose replacement function may raise and may warn -/
def subM {α : Type} (f : α → Except Err (Str × List Str)) : List (Sum Nat α) → Except Err (Str × List Str)
  | [] => .ok ([], [])
  | .inl c :: r =>
    match subM f r with
    | .ok (s, w) => .ok (c :: s, w)
    | .error e => .error e
  | .inr a :: r =>
    match f a with
    | .error e => .error e
    | .ok (x, w1) =>
      match subM f r with
      | .ok (s, w2) => .ok (x ++ s, w1 ++ w2)
      | .error e => .error e

def isBound (ctx : Ctx) (n : Str) : Bool := (lookup n ctx).isSome

def textOf (ctx : Ctx) (n : Str) : Str :=
  match lookup n ctx with
  | some v => v.text
  | none => []

def pipeTag (n a : Str) : Str := LL ++ n ++ [BAR] ++ a ++ RR

/-- sub-pass 1: `{{name|filter}}` -/
def passFiltered (cfg : Cfg) (ctx : Ctx) (s : Str) : Res :=
  subM (fun (m : Str × Str) =>
      if isBound ctx m.1 then
        if cfg.filters.contains m.2 then
          match cfg.applyF m.2 m.1 with
          | .ok r => .ok (r, [])
          | .raise c => .error (.other c)
        else .ok (textOf ctx m.1, [m.2])
      else .ok (pipeTag m.1 m.2, []))
    (scanStr (matchFiltered cfg) s)

/-- sub-pass 2: `{{name|default}}` — matches taken on a snapshot, each replaced everywhere in the current text -/
def passDefault (cfg : Cfg) (ctx : Ctx) (s : Str) : Str :=
  (hits (scanStr (matchDefault cfg) s)).foldl (fun cur (m : Str × Str) =>
      if cfg.filters.contains m.2 then cur
      else replaceStr (pipeTag m.1 m.2) (if isBound ctx m.1 then textOf ctx m.1 else m.2) cur) s

/-- sub-pass 3: `{{?name}}` -/
def passOptional (cfg : Cfg) (ctx : Ctx) (s : Str) : Str :=
  subWith (fun (n : Str) => textOf ctx n) (scanStr (matchWordTag cfg OPTH) s)

/-- sub-pass 4: `{{name}}`; unbound names are left in place and warned about -/
def passSimple (cfg : Cfg) (ctx : Ctx) (s : Str) : Res :=
  subM (fun (n : Str) => if isBound ctx n then .ok (textOf ctx n, []) else .ok (tagOf n, [n]))
    (scanStr (matchWordTag cfg LL) s)

def processVariables (cfg : Cfg) (ctx : Ctx) (s : Str) : Res :=
  match passFiltered cfg ctx s with
  | .error e => .error e
  | .ok (s1, w1) =>
    match passSimple cfg ctx (passOptional cfg ctx (passDefault cfg ctx s1)) with
    | .error e => .error e
    | .ok (s4, w4) => .ok (s4, w1 ++ w4)

/-- `mRNA.get_required_variables()`: the names of all `{{name}}` occurrences of the template text -/
def requiredVars (cfg : Cfg) (s : Str) : List Str := hits (scanStr (matchWordTag cfg LL) s)

/-- the replacement callback of the include pass: a registered name is rendered by `recS` (its warnings are dropped),
    an unknown name becomes the marker -/
def incRepl (cfg : Cfg) (recS : Str → Res) (n : Str) : Res :=
  match lookup n cfg.templates with
  | some t => (match recS t with
               | .ok (x, _) => .ok (x, [])
               | .error e => .error e)
  | none => .ok (cfg.markerPre ++ n ++ cfg.markerSuf, [])

/-- `Ribosome.translate` on a template sequence.  `fuel` bounds the include depth (CPython: the recursion
    limit); running out is `RecursionError`. -/
def translate (cfg : Cfg) (ctx : Ctx) : Nat → Str → Res
  | 0, _ => .error .recursion
  | fuel + 1, s =>
    let miss := (requiredVars cfg s).filter (fun n => !isBound ctx n)
    if cfg.strict && !miss.isEmpty then .error .value else
    let s2 := processLoops cfg ctx (processConditionals cfg ctx s)
    match subM (incRepl cfg (translate cfg ctx fuel)) (scanStr (matchWordTag cfg INCH) s2) with
    | .error e => .error e
    | .ok (s3, _) =>
      match processVariables cfg ctx s3 with
      | .error e => .error e
      | .ok (s4, w) => .ok (s4, miss ++ w)

/-- include depth the driver allows before reporting `RecursionError` -/
def defaultFuel : Nat := 60

/-- `translate(name, **ctx)` for a registered name (unknown name: `ValueError`) -/
def translateNamed (cfg : Cfg) (ctx : Ctx) (name : Str) : Res :=
  match lookup name cfg.templates with
  | some t => translate cfg ctx defaultFuel t
  | none => .error .value

/-! ### the entry points as CALLS: `translate(template, **context)` / `synthesize(sequence, **context)`

  The bindings are the keyword arguments of the call.  Python's call protocol stands in front of the body: a
  keyword that names a parameter which the caller has already filled positionally (`self`, `template`; for
  `synthesize` also `sequence`, and `template` again when it forwards `**context`) is a `TypeError` raised before
  any rendering happens; EVERY other keyword — whatever it is called — lands in `context` unchanged.  Which names
  are positionally filled is an environment fact (`reserved`, probed by the harness on the tree under test). -/

def tyErr : Str := [84, 121, 112, 101, 69, 114, 114, 111, 114]      -- "TypeError"

def callEntry (reserved : List Str) (ctx : Ctx) (body : Ctx → Res) : Res :=
  if ctx.any (fun p => reserved.contains p.1) then .error (.other tyErr) else body ctx

/-- `synthesize(sequence, **ctx)` as a call -/
def synthesizeCall (cfg : Cfg) (reserved : List Str) (ctx : Ctx) (s : Str) : Res :=
  callEntry reserved ctx (fun c => translate cfg c defaultFuel s)

/-- `translate(name, **ctx)` as a call -/
def translateCall (cfg : Cfg) (reserved : List Str) (ctx : Ctx) (name : Str) : Res :=
  callEntry reserved ctx (fun c => translateNamed cfg c name)

/-! ### the registry of a live instance: every way a template gets into `Ribosome.templates`

  `create_template(seq, name)` builds `mRNA(seq, name)` and calls `register_template(t)`;
  `register_template(t, name=None)` writes `self.templates[name or t.name] = t` and raises `ValueError` when both are
  falsy; the constructor's `templates=` mapping and a direct assignment `rb.templates[key] = t` write under the KEY,
  whatever the mRNA calls itself.  The registry is a `dict`: a key that exists keeps its slot (`updKey`).  Nothing else
  is remembered: `translate(name)` and `{{>name}}` read `self.templates[name]` at the moment of the render. -/

inductive RegOp where
  | create (name seq : Str)            -- `create_template(seq, name)`
  | register (name own seq : Str)      -- `register_template(mRNA(seq, name=own), name=name)`; `[]` = falsy / not given
  | assign (key own seq : Str)         -- `templates[key] = mRNA(seq, name=own)`; also one entry of the constructor's mapping
deriving Repr, DecidableEq

/-- the key an operation writes under; `none`: `ValueError("Template must have a name")`, nothing is written -/
def RegOp.key : RegOp → Option Str
  | .create n _ => if n = [] then none else some n
  | .register n own _ => if n = [] then (if own = [] then none else some own) else some n
  | .assign k _ _ => some k

def RegOp.seq : RegOp → Str
  | .create _ s => s
  | .register _ _ s => s
  | .assign _ _ s => s

def regStep (ts : List (Str × Str)) (op : RegOp) : List (Str × Str) :=
  match op.key with
  | some k => updKey ts k op.seq
  | none => ts

/-- a history of registrations on one instance -/
def regRun (ts : List (Str × Str)) (ops : List RegOp) : List (Str × Str) := ops.foldl regStep ts

/-- the sequence of the LAST operation of the history that wrote under `k` -/
def lastWrite (k : Str) : List RegOp → Option Str
  | [] => none
  | op :: r =>
    match lastWrite k r with
    | some s => some s
    | none => if op.key = some k then some op.seq else none

/-- the same environment with another registry -/
def withReg (cfg : Cfg) (r : List (Str × Str)) : Cfg :=
  { isWord := cfg.isWord, isSpace := cfg.isSpace, filters := cfg.filters, applyF := cfg.applyF, templates := r,
    strict := cfg.strict, markerPre := cfg.markerPre, markerSuf := cfg.markerSuf }

/-! ### several instances alive: each `Ribosome` is its own three attributes

  What a render on an instance depends on (besides the environment and the bindings): `strict`, `filters` (here: which of
  the case's filter tables the instance holds) and `templates`.  All three are public and may be re-assigned on a live
  instance.  An operation is addressed to ONE instance; the others are untouched (`worldStep`). -/

structure Inst where
  strict : Bool := false
  fset : String := ""
  templates : List (Str × Str) := []
deriving Repr, DecidableEq

inductive InstOp where
  | create (strict : Bool) (fset : String) (entries : List RegOp)   -- `Ribosome(strict=…, filters=…, templates={…})`
  | setStrict (b : Bool)                                            -- `rb.strict = b`
  | setFilters (fset : String)                                      -- `rb.filters = …`
  | reg (op : RegOp)                                                -- any of the registration ways
deriving Repr, DecidableEq

def Inst.step (i : Inst) : InstOp → Inst
  | .create s f es => { strict := s, fset := f, templates := regRun [] es }
  | .setStrict b => { strict := b, fset := i.fset, templates := i.templates }
  | .setFilters f => { strict := i.strict, fset := f, templates := i.templates }
  | .reg op => { strict := i.strict, fset := i.fset, templates := regStep i.templates op }

def instGet (w : List (String × Inst)) (id : String) : Option Inst :=
  match w with
  | [] => none
  | (k, v) :: r => if k = id then some v else instGet r id

def instSet (w : List (String × Inst)) (id : String) (i : Inst) : List (String × Inst) :=
  match w with
  | [] => [(id, i)]
  | (k, v) :: r => if k = id then (id, i) :: r else (k, v) :: instSet r id i

/-- one operation addressed to the instance `p.1`: a `create` (re)places it, anything else needs it to exist -/
def worldStep (w : List (String × Inst)) (p : String × InstOp) : List (String × Inst) :=
  match p.2, instGet w p.1 with
  | .create s f es, _ => instSet w p.1 (Inst.step {} (.create s f es))
  | op, some i => instSet w p.1 (i.step op)
  | _, none => w

def worldRun (w : List (String × Inst)) (ops : List (String × InstOp)) : List (String × Inst) := ops.foldl worldStep w

/-- the life of ONE instance under its own operations (it may not exist yet: `none`) -/
def ownStep (o : Option Inst) (op : InstOp) : Option Inst :=
  match op, o with
  | .create s f es, _ => some (Inst.step {} (.create s f es))
  | op, some i => some (i.step op)
  | _, none => none

/-- ASCII `\w` and `\s` (the driver extends them with the non-ASCII code points the harness reports) -/
def asciiWord (c : Nat) : Bool :=
  (48 ≤ c && c ≤ 57) || (65 ≤ c && c ≤ 90) || (97 ≤ c && c ≤ 122) || c == 95

def asciiSpace (c : Nat) : Bool := (9 ≤ c && c ≤ 13) || (28 ≤ c && c ≤ 32)

end Operon.Ribosome
