import Operon.Gen.QuorumConsts
/-
  Model of `operon_ai/topology/quorum.py` : `QuorumSensing.run_vote` / `_protein_to_vote` /
  `_aggregate_votes` and the seven aggregators, plus the configuration of `EmergencyQuorum`.

  Numbers are exact rationals (core `Rat`).  The numeric constants come from `Operon.Gen.QuorumConsts`,
  regenerated from the source on every run.  The correspondence harness only uses ballots on which
  Python's float comparisons and the exact ones provably coincide (see harness/vf/props/c06.py).

  Modelled glue: `custom_threshold or DEFAULT` (a custom threshold of 0 is falsy), the action-type →
  vote-type mapping, the default confidence 1.0, a reported confidence clamped into [0, 1] and NaN rejected
  (fix: commit after the audit, see notes/C06.md), `weight * reliability_score`, failed voters (raising
  `express`, non-numeric confidence) recorded as zero-confidence ABSTAIN carrying the bare profile weight,
  the `min_voters` gate on permit+block, the share-of-colony / `math.ceil` reading of the count threshold,
  `threshold / len(colony)`.  (Behaviour after the two `fix:` commits 7c2ca31 and 7123d76.)

  `bioVoters` models the un-stubbed colony (real `BioAgent`s of role "Voter" from core/agent.py) for three classes
  of proposal text and a plain shared ATP budget.

  The colony itself (registration by name, `remove_agent` / `set_agent_weight` / `update_reliability` acting on the
  first member of a name, `votes_cast` / `correct_votes` bookkeeping, `update_all_reliability`) is modelled too.

  Which callback is handed the result is modelled (`callbackFor`); whether one is installed / raises and
  `enable_reliability_tracking` live in the driver's object state (Drv/C06.lean).
  Not modelled: console output, timing, the statistics counters (checked by the oracle against the results);
  `weighted_score` / `confidence_score` are computed but not part of the correspondence (floats).
-/
namespace Operon.Quorum
open Operon.Gen.Quorum

inductive Strategy where
  | majority | supermajority | unanimous | weighted | confidence | bayesian | threshold
  deriving Repr, DecidableEq

inductive VoteType where
  | permit | block | abstain | defer
  deriving Repr, DecidableEq

/-- What the voter agent's `express` does: the class of the returned `action_type`, or raising. -/
inductive Kind where
  | permit    -- "PERMIT"
  | execute   -- "EXECUTE"
  | block     -- "BLOCK"
  | defer     -- "DEFER"
  | other     -- any other action type ("FAILURE", "UNKNOWN", …)
  | raises    -- `express` raises
  deriving Repr, DecidableEq

/-- The `confidence` entry of the returned payload. -/
inductive Conf where
  | absent            -- payload is not a dict or has no "confidence" key: 1.0
  | num (c : Rat)     -- `float(payload["confidence"])` succeeds (±inf: any value beyond the clamp, i.e. 1 / 0)
  | bad               -- `float(...)` raises, or gives NaN (rejected)
  deriving Repr, DecidableEq

/-- One colony member as seen by `run_vote`: agent behaviour + `AgentProfile.weight/reliability_score`. -/
structure Voter where
  kind : Kind
  conf : Conf
  weight : Rat
  rel : Rat
  deriving Repr, DecidableEq

structure Vote where
  kind : VoteType
  conf : Rat
  weight : Rat
  deriving Repr, DecidableEq

def Vote.eff (v : Vote) : Rat := v.weight * v.conf

def voteTypeOf : Kind → VoteType
  | .permit => .permit
  | .execute => .permit
  | .block => .block
  | .defer => .defer
  | .other => .abstain
  | .raises => .abstain

/-- `max(0.0, min(1.0, x))` -/
def clamp01 (x : Rat) : Rat := if x < 0 then 0 else if x > 1 then 1 else x

/-- `except Exception:` branch of the collection loop. -/
def failedVote (v : Voter) : Vote := ⟨.abstain, 0, v.weight⟩

/-- `_protein_to_vote` wrapped in the `try` of `run_vote`. -/
def toVote (v : Voter) : Vote :=
  match v.kind with
  | .raises => failedVote v
  | k =>
    match v.conf with
    | .bad => failedVote v
    | .absent => ⟨voteTypeOf k, 1, v.weight * v.rel⟩
    | .num c => ⟨voteTypeOf k, clamp01 c, v.weight * v.rel⟩   -- a reported confidence is clamped into [0, 1]

def collect (voters : List Voter) : List Vote := voters.map toVote

structure Cfg where
  strategy : Strategy
  custom : Option Rat
  minVoters : Nat
  deriving Repr, DecidableEq

structure Result where
  reached : Bool
  decision : VoteType
  total : Nat
  permit : Nat
  block : Nat
  abstain : Nat
  score : Rat
  thresholdUsed : Rat
  votes : List Vote
  deriving Repr, DecidableEq

def ofKind (k : VoteType) (vs : List Vote) : List Vote := vs.filter (fun v => decide (v.kind = k))

def sumR : List Rat → Rat
  | [] => 0
  | x :: xs => x + sumR xs

/-- `self.custom_threshold or DEFAULT` -/
def effThreshold (custom : Option Rat) (dflt : Rat) : Rat :=
  match custom with
  | none => dflt
  | some t => if t = 0 then dflt else t

def decisionOf (reached : Bool) : VoteType := if reached then .permit else .block

def natR (n : Nat) : Rat := (n : Rat)

/-- `_simple_majority` / `_supermajority` (they differ in the default threshold only). -/
def countRatioVote (cfg : Cfg) (dflt : Rat) (vs : List Vote) : Result :=
  let t := effThreshold cfg.custom dflt
  let p := (ofKind .permit vs).length
  let b := (ofKind .block vs).length
  let ratio : Rat := if p + b = 0 then 0 else natR p / natR (p + b)
  let reached := decide (ratio > t)
  { reached := reached, decision := decisionOf reached, total := vs.length, permit := p, block := b
    abstain := (ofKind .abstain vs).length, score := ratio, thresholdUsed := t, votes := vs }

/-- `_unanimous` -/
def unanimousVote (vs : List Vote) : Result :=
  let p := (ofKind .permit vs).length
  let b := (ofKind .block vs).length
  let reached := decide (b = 0) && decide (p > 0)
  let ratio : Rat := if reached then 1 else natR p / natR (Nat.max 1 (p + b))
  { reached := reached, decision := decisionOf reached, total := vs.length, permit := p, block := b
    abstain := (ofKind .abstain vs).length, score := ratio, thresholdUsed := 1, votes := vs }

/-- shared tail of `_weighted_vote` / `_confidence_vote` -/
def weightRatioResult (cfg : Cfg) (vs : List Vote) (pw bw : Rat) : Result :=
  let t := effThreshold cfg.custom majorityThreshold
  let total := pw + bw
  let ratio : Rat := if total = 0 then 0 else pw / total
  let reached := decide (ratio > t)
  { reached := reached, decision := decisionOf reached, total := vs.length
    permit := (ofKind .permit vs).length, block := (ofKind .block vs).length
    abstain := (ofKind .abstain vs).length, score := ratio, thresholdUsed := t, votes := vs }

/-- `_weighted_vote` -/
def weightedVote (cfg : Cfg) (vs : List Vote) : Result :=
  weightRatioResult cfg vs (sumR ((ofKind .permit vs).map Vote.eff)) (sumR ((ofKind .block vs).map Vote.eff))

def confident (vs : List Vote) : List Vote := vs.filter (fun v => decide (v.conf ≥ confidenceMin))

/-- `_confidence_vote` -/
def confidenceVote (cfg : Cfg) (vs : List Vote) : Result :=
  weightRatioResult cfg vs (sumR ((confident (ofKind .permit vs)).map Vote.eff))
    (sumR ((confident (ofKind .block vs)).map Vote.eff))

/-- `likelihood = 0.5 + (vote.confidence * 0.4)` -/
def likelihood (c : Rat) : Rat := likBase + c * likGain

/-- `_bayesian_update`: the prior times the weight-adjusted likelihood, kept inside [0, 1] -/
def bayesUpdate (prior lik w : Rat) : Rat := prior * clamp01 (adjBase + (lik - adjCentre) * w)

/-- the pair (prior_permit, prior_block) carried through the two loops of `_bayesian_vote` -/
structure Belief where
  pp : Rat
  pb : Rat
  deriving Repr, DecidableEq

/-- body of `for vote in permit_votes` -/
def permitStep (s : Belief) (v : Vote) : Belief :=
  ⟨bayesUpdate s.pp (likelihood v.conf) v.weight, bayesUpdate s.pb (1 - likelihood v.conf) v.weight⟩

/-- body of `for vote in block_votes` -/
def blockStep (s : Belief) (v : Vote) : Belief :=
  ⟨bayesUpdate s.pp (1 - likelihood v.conf) v.weight, bayesUpdate s.pb (likelihood v.conf) v.weight⟩

def belief (vs : List Vote) : Belief :=
  (ofKind .block vs).foldl blockStep ((ofKind .permit vs).foldl permitStep ⟨priorPermit, priorBlock⟩)

def posterior (s : Belief) : Rat := if s.pp + s.pb > 0 then s.pp / (s.pp + s.pb) else posteriorFallback

/-- `_bayesian_vote` -/
def bayesianVote (cfg : Cfg) (vs : List Vote) : Result :=
  let t := effThreshold cfg.custom majorityThreshold
  let post := posterior (belief vs)
  let reached := decide ((ofKind .permit vs).length > 0) && decide (post > t)
  { reached := reached, decision := decisionOf reached, total := vs.length
    permit := (ofKind .permit vs).length, block := (ofKind .block vs).length
    abstain := (ofKind .abstain vs).length, score := post, thresholdUsed := t, votes := vs }

/-- the permit count `_threshold_vote` asks for: `custom or n // 2 + 1`; a value in (0, 1) is a share of the
    colony (at least one permit); any fractional count is rounded up (`math.ceil`) -/
def thresholdCount (cfg : Cfg) (colony : Nat) : Int :=
  let t := effThreshold cfg.custom (natR (colony / 2 + 1))
  if 0 < t ∧ t < 1 then max 1 (t * natR colony).ceil else t.ceil

/-- `_threshold_vote` -/
def thresholdVote (cfg : Cfg) (colony : Nat) (vs : List Vote) : Result :=
  let need := thresholdCount cfg colony
  let p := (ofKind .permit vs).length
  let b := (ofKind .block vs).length
  let reached := decide ((p : Int) ≥ need)
  { reached := reached, decision := decisionOf reached, total := vs.length, permit := p, block := b
    abstain := (ofKind .abstain vs).length, score := natR p / natR (Nat.max 1 (p + b))
    thresholdUsed := (need : Rat) / natR colony, votes := vs }

/-- the `min_voters` early return -/
def gateResult (vs : List Vote) : Result :=
  { reached := false, decision := .abstain, total := vs.length, permit := (ofKind .permit vs).length
    block := (ofKind .block vs).length, abstain := (ofKind .abstain vs).length, score := 0
    thresholdUsed := 0, votes := vs }

/-- `total_votes = len(votes) - len(abstain_votes) - len(defer_votes)` -/
def activeCount (vs : List Vote) : Nat :=
  vs.length - (ofKind .abstain vs).length - (ofKind .defer vs).length

/-- `_aggregate_votes`; `colony` is `len(self.colony)`. -/
def aggregate (cfg : Cfg) (colony : Nat) (vs : List Vote) : Result :=
  if activeCount vs < cfg.minVoters then gateResult vs
  else
    match cfg.strategy with
    | .majority => countRatioVote cfg majorityThreshold vs
    | .supermajority => countRatioVote cfg supermajorityThreshold vs
    | .unanimous => unanimousVote vs
    | .weighted => weightedVote cfg vs
    | .confidence => confidenceVote cfg vs
    | .bayesian => bayesianVote cfg vs
    | .threshold => thresholdVote cfg colony vs

/-- `run_vote`: one vote per colony member, then aggregation. -/
def runVote (cfg : Cfg) (voters : List Voter) : Result :=
  aggregate cfg voters.length (collect voters)

/-- the two callbacks of a quorum object -/
inductive Callback where
  | onReached   -- `on_quorum_reached`
  | onFailed    -- `on_quorum_failed`
  deriving Repr, DecidableEq

/-- "Callbacks and logging" of `run_vote`: the result is handed to `on_quorum_reached` when it says reached, to
    `on_quorum_failed` otherwise (if that callback is installed; an exception it raises leaves `run_vote` after the
    vote has been recorded) -/
def callbackFor (r : Result) : Callback := if r.reached then .onReached else .onFailed

/-- `run_vote` raises `ZeroDivisionError` exactly when the count strategy divides by an empty colony. -/
def runVoteRaises (cfg : Cfg) (voters : List Voter) : Bool :=
  decide (voters.length = 0) && decide (cfg.strategy = .threshold) &&
    !decide (activeCount (collect voters) < cfg.minVoters)

/-- `_threshold_vote` as the code runs it: its last step `threshold / len(self.colony)` raises on an empty colony -/
def thresholdVoteE (cfg : Cfg) (colony : Nat) (vs : List Vote) : Option Result :=
  if colony = 0 then none else some (thresholdVote cfg colony vs)

/-- `_aggregate_votes` with that exception (`none` = `ZeroDivisionError`): the gate returns before any strategy runs -/
def aggregateE (cfg : Cfg) (colony : Nat) (vs : List Vote) : Option Result :=
  if activeCount vs < cfg.minVoters then some (gateResult vs)
  else
    match cfg.strategy with
    | .threshold => thresholdVoteE cfg colony vs
    | _ => some (aggregate cfg colony vs)

/-- `run_vote` with its one exception; `runVoteRaises` / `runVote` above are its two halves (`runVoteE_eq`) -/
def runVoteE (cfg : Cfg) (voters : List Voter) : Option Result := aggregateE cfg voters.length (collect voters)

/-! ### The colony: registration, weights, reliability bookkeeping

`run_vote` polls `self.colony` by position: one ballot per colony member, whatever the members are called.
Names are only used by `remove_agent`, `set_agent_weight` and `update_reliability`, each of which acts on the
FIRST member carrying the name (names need not be unique: `add_agent` accepts any name). -/

/-- `AgentProfile` (+ the agent's name as code points) -/
structure Member where
  name : List Nat
  weight : Rat
  rel : Rat          -- reliability_score
  votesCast : Nat
  correct : Nat      -- correct_votes
  deriving Repr, DecidableEq

/-- `f"Bacterium_{i}"` -/
def builtinName (i : Nat) : List Nat := ("Bacterium_" ++ toString i).toList.map Char.toNat

/-- the colony `QuorumSensing.__init__` creates for `n_agents = n` -/
def newColony (n : Nat) : List Member := (List.range n).map fun i => ⟨builtinName i, 1, 1, 0, 0⟩

/-- `add_agent(name, weight)`: always appends, also when the name is taken -/
def addAgent (c : List Member) (name : List Nat) (w : Rat) : List Member := c ++ [⟨name, w, 1, 0, 0⟩]

/-- `remove_agent(name)`: pops the first member with that name -/
def removeAgent : List Member → List Nat → List Member × Bool
  | [], _ => ([], false)
  | m :: rest, name =>
    if m.name = name then (rest, true)
    else
      let r := removeAgent rest name
      (m :: r.1, r.2)

/-- `set_agent_weight(name, weight)`: first member with that name -/
def setAgentWeight : List Member → List Nat → Rat → List Member × Bool
  | [], _, _ => ([], false)
  | m :: rest, name, w =>
    if m.name = name then (⟨m.name, w, m.rel, m.votesCast, m.correct⟩ :: rest, true)
    else
      let r := setAgentWeight rest name w
      (m :: r.1, r.2)

/-- what one member's agent does at one vote -/
structure Behaviour where
  kind : Kind
  conf : Conf
  deriving Repr, DecidableEq

def Behaviour.failed (b : Behaviour) : Bool := decide (b.kind = .raises) || decide (b.conf = .bad)

def voterOfMember (m : Member) (b : Behaviour) : Voter := ⟨b.kind, b.conf, m.weight, m.rel⟩

/-- the electorate of one vote: colony members in order, member `i` with what its agent does this time (`beh i`) -/
def electorateFrom (beh : Nat → Behaviour) : Nat → List Member → List Voter
  | _, [] => []
  | i, m :: rest => voterOfMember m (beh i) :: electorateFrom beh (i + 1) rest

def electorate (c : List Member) (beh : Nat → Behaviour) : List Voter := electorateFrom beh 0 c

/-- `profile.votes_cast += 1` for every member whose vote was recorded without an exception -/
def afterVoteFrom (beh : Nat → Behaviour) : Nat → List Member → List Member
  | _, [] => []
  | i, m :: rest =>
    (if (beh i).failed then m else ⟨m.name, m.weight, m.rel, m.votesCast + 1, m.correct⟩)
      :: afterVoteFrom beh (i + 1) rest

def afterVote (c : List Member) (beh : Nat → Behaviour) : List Member := afterVoteFrom beh 0 c

/-- `update_reliability(name, was_correct)` (tracking enabled): first member with that name -/
def updateReliability : List Member → List Nat → Bool → List Member
  | [], _, _ => []
  | m :: rest, name, ok =>
    if m.name = name then
      let c := if ok then m.correct + 1 else m.correct
      (if m.votesCast > 0 then ⟨m.name, m.weight, natR c / natR m.votesCast, m.votesCast, c⟩
       else ⟨m.name, m.weight, m.rel, m.votesCast, c⟩) :: rest
    else m :: updateReliability rest name ok

/-- `update_all_reliability(correct_decision)` over the (agent id, vote type) pairs of the last result -/
def updateAllReliability (c : List Member) (last : List (List Nat × VoteType)) (correct : VoteType) : List Member :=
  last.foldl (fun acc v => updateReliability acc v.1 (decide (v.2 = correct))) c

/-- direct assignment to `profile.weight` / `profile.reliability_score` of the member at a position -/
def assignProfile : List Member → Nat → Option Rat → Option Rat → List Member
  | [], _, _, _ => []
  | m :: rest, 0, w, r => ⟨m.name, w.getD m.weight, r.getD m.rel, m.votesCast, m.correct⟩ :: rest
  | m :: rest, i + 1, w, r => m :: assignProfile rest i w r

/-- `list.insert(i, x)`: before position `i`, at the end when `i` is past it -/
def insertMember : List Member → Nat → Member → List Member
  | [], _, x => [x]
  | m :: rest, 0, x => x :: m :: rest
  | m :: rest, i + 1, x => m :: insertMember rest i x

/-- One public operation on a quorum object. -/
inductive Op where
  | setStrategy (s : Strategy) (custom : Option Rat)
  | add (name : List Nat) (w : Rat)
  | remove (name : List Nat)
  | setWeight (name : List Nat) (w : Rat)
  | assign (i : Nat) (w rel : Option Rat)
  | vote (beh : Nat → Behaviour)
  | updateReliability (name : List Nat) (ok : Bool)
  | updateAll (correct : VoteType)
  -- direct assignment to the public attributes `run_vote` reads (no setter involved)
  | assignStrategy (s : Strategy)                 -- `q.strategy = …`
  | assignThreshold (custom : Option Rat)         -- `q.custom_threshold = …`
  | assignMinVoters (n : Nat)                     -- `q.min_voters = …`
  | deleteAt (i : Nat)                            -- `del q.colony[i]`
  | insertAt (i : Nat) (name : List Nat) (w : Rat) -- `q.colony.insert(i, AgentProfile(agent, weight=w))`

/-- A quorum object between calls: configuration, colony, and the (agent id, vote type) pairs of the last result. -/
structure QState where
  cfg : Cfg
  colony : List Member
  last : Option (List (List Nat × VoteType))

/-- the ids and vote types `update_all_reliability` reads back from the last `QuorumResult.votes` -/
def ballotIds (c : List Member) (r : Result) : List (List Nat × VoteType) :=
  List.zipWith (fun m v => (m.name, v.kind)) c r.votes

def stepOp (st : QState) : Op → QState × Option Result
  | .setStrategy s custom => (⟨⟨s, custom, st.cfg.minVoters⟩, st.colony, st.last⟩, none)
  | .add name w => (⟨st.cfg, addAgent st.colony name w, st.last⟩, none)
  | .remove name => (⟨st.cfg, (removeAgent st.colony name).1, st.last⟩, none)
  | .setWeight name w => (⟨st.cfg, (setAgentWeight st.colony name w).1, st.last⟩, none)
  | .assign i w r => (⟨st.cfg, assignProfile st.colony i w r, st.last⟩, none)
  | .vote beh =>
    if runVoteRaises st.cfg (electorate st.colony beh) then (st, none)   -- ZeroDivisionError: nothing recorded
    else
      let r := runVote st.cfg (electorate st.colony beh)
      (⟨st.cfg, afterVote st.colony beh, some (ballotIds st.colony r)⟩, some r)
  | .updateReliability name ok => (⟨st.cfg, updateReliability st.colony name ok, st.last⟩, none)
  | .updateAll correct =>
    match st.last with
    | none => (st, none)
    | some l => (⟨st.cfg, updateAllReliability st.colony l correct, st.last⟩, none)
  | .assignStrategy s => (⟨⟨s, st.cfg.custom, st.cfg.minVoters⟩, st.colony, st.last⟩, none)
  | .assignThreshold custom => (⟨⟨st.cfg.strategy, custom, st.cfg.minVoters⟩, st.colony, st.last⟩, none)
  | .assignMinVoters n => (⟨⟨st.cfg.strategy, st.cfg.custom, n⟩, st.colony, st.last⟩, none)
  | .deleteAt i => (⟨st.cfg, st.colony.eraseIdx i, st.last⟩, none)
  | .insertAt i name w => (⟨st.cfg, insertMember st.colony i ⟨name, w, 1, 0, 0⟩, st.last⟩, none)

/-- every result a history of operations produces, in order -/
def runHistory : QState → List Op → List Result
  | _, [] => []
  | st, op :: rest =>
    match stepOp st op with
    | (st', some r) => r :: runHistory st' rest
    | (st', none) => runHistory st' rest

/-- How a real `BioAgent` of role "Voter" (core/agent.py) sees the proposal text. -/
inductive PromptClass where
  | safe        -- passes the membrane, no dangerous marker
  | dangerous   -- passes the membrane, contains a dangerous marker ("delete all", "rm -rf", …)
  | rejected    -- the agent's membrane filter rejects it
  deriving Repr, DecidableEq

/-- a colony member as `QuorumSensing.__init__` creates it (weight 1, reliability 1) whose agent answers with a
    text payload (no confidence entry) -/
def bioVoter (k : Kind) : Voter := ⟨k, .absent, 1, 1⟩

/-- `BioAgent.express` for the `n` colony members in order, sharing one ATP budget: membrane rejection ⇒ BLOCK
    (nothing spent); fewer than 10 ATP left ⇒ action "FAILURE"; otherwise 10 ATP are spent and the mock model answers
    BLOCK on a dangerous marker, PERMIT otherwise. -/
def bioVoters (p : PromptClass) : Nat → Nat → List Voter
  | _, 0 => []
  | budget, n + 1 =>
    match p with
    | .rejected => bioVoter .block :: bioVoters p budget n
    | .dangerous =>
      if 10 ≤ budget then bioVoter .block :: bioVoters p (budget - 10) n
      else bioVoter .other :: bioVoters p budget n
    | .safe =>
      if 10 ≤ budget then bioVoter .permit :: bioVoters p (budget - 10) n
      else bioVoter .other :: bioVoters p budget n

def strategyOfName? : String → Option Strategy
  | "MAJORITY" => some .majority
  | "SUPERMAJORITY" => some .supermajority
  | "UNANIMOUS" => some .unanimous
  | "WEIGHTED" => some .weighted
  | "CONFIDENCE" => some .confidence
  | "BAYESIAN" => some .bayesian
  | "THRESHOLD" => some .threshold
  | _ => none

/-- `EmergencyQuorum(n, budget, emergency_threshold = t)`: what its constructor passes on. -/
def emergencyCfg (t : Option Rat) : Option Cfg :=
  match strategyOfName? emergencyStrategyName, emergencyPassesThreshold with
  | some s, true => some ⟨s, t, emergencyMinVoters⟩
  | _, _ => none

/-- `EmergencyQuorum(n, budget)` -/
def emergencyDefaultCfg : Option Cfg := emergencyCfg (some emergencyDefaultThreshold)

end Operon.Quorum
