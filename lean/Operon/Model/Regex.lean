/-
  Regular expressions of the SHIPPED signature tables (C10), inside the model.

  `Membrane.INNATE_SIGNATURES` (operon_ai/organelles/membrane.py) and `InnateImmunity.DEFAULT_PATTERNS`
  (operon_ai/surveillance/innate.py) contain regex signatures; `ThreatSignature.__post_init__` /
  `TLRPattern.__post_init__` compile them with `re.compile(pattern, re.IGNORECASE)` and `matches` asks
  `bool(self._compiled.search(content))`.  For regexes a USER writes, `re` stays an environment (`Env.rx`).  For the
  shipped ones the extractor hands the parse tree of every pattern (from `re`'s own parser) to Lean on every run
  (`Operon/Gen/GatesRegex.lean`) and this file gives the trees a meaning:

    * `Re`       — the constructs `re`'s parser produces for such patterns: literal, negated literal, `.`, character
                   set (literals, ranges, `\d \s \w` and their negations, `[^…]`), sequence, alternation, bounded /
                   unbounded repetition, the zero-width assertions `\b \B ^ $ \A \Z`; anything else (look-arounds,
                   back-references, inline flags, other compile flags) is `unsupported`;
    * `CharEnv`  — what `re` knows about single code points (its Unicode tables): the classes `\d \s \w` and when
                   two code points are equal under IGNORECASE.  Theorems quantify over every `CharEnv`;
    * `Re.m`     — a backtracking matcher in continuation-passing style.  A position in the text is the pair
                   (code point before the position, if any; rest of the text) — everything a zero-width assertion of
                   the supported kinds can look at;
    * `search`   — `pattern.search(text)`: a match starting at some position.

  Whether a match EXISTS does not depend on greedy / lazy / possessive order, so `*`, `*?` share one constructor.
  An iteration of an unbounded repeat that consumes nothing cannot help a match to exist and is not tried (this also
  bounds the loop: fuel = remaining length + minimum count + 1).
-/
import Operon.Model.Gates
namespace Operon.Gates.Rx

/-- `re`'s knowledge about single code points -/
structure CharEnv where
  isDigit : Nat → Bool
  isSpace : Nat → Bool
  isWord : Nat → Bool
  /-- `ceq a b`: a pattern literal `a` matches the text code point `b` under IGNORECASE -/
  ceq : Nat → Nat → Bool
  /-- code points to try for a range under IGNORECASE: the code point itself and its other cases -/
  cases : Nat → List Nat

inductive Cat where
  | digit | space | word
  deriving Repr, DecidableEq

inductive SetItem where
  | lit (c : Nat)
  | range (lo hi : Nat)
  | cat (k : Cat) (negated : Bool)
  deriving Repr, DecidableEq

inductive At where
  | wordB        -- \b
  | notWordB     -- \B
  | bos          -- ^ (no MULTILINE), \A
  | eos          -- $ (no MULTILINE): at the end, or before a final newline
  | eosStrict    -- \Z
  deriving Repr, DecidableEq

inductive Re where
  | eps
  | lit (c : Nat)
  | notLit (c : Nat)
  | any                                     -- `.` without DOTALL: anything but a line feed
  | set (negated : Bool) (items : List SetItem)
  | seq (a b : Re)
  | alt (a b : Re)
  | rep (min : Nat) (max : Option Nat) (r : Re)
  | at (a : At)
  | unsupported (what : String)
  deriving Repr

def Cat.test (ce : CharEnv) : Cat → Nat → Bool
  | .digit, c => ce.isDigit c
  | .space, c => ce.isSpace c
  | .word, c => ce.isWord c

def SetItem.test (ce : CharEnv) : SetItem → Nat → Bool
  | .lit a, c => ce.ceq a c
  | .range lo hi, c => (ce.cases c).any (fun d => lo ≤ d && d ≤ hi)
  | .cat k neg, c => (k.test ce c) != neg

/-- is the code point before / after a position a word character (`none` = no code point there) -/
def wordAt (ce : CharEnv) : Option Nat → Bool
  | none => false
  | some c => ce.isWord c

def At.test (ce : CharEnv) (a : At) (prev : Option Nat) (rest : Str) : Bool :=
  match a with
  | .wordB => wordAt ce prev != wordAt ce rest.head?
  | .notWordB => wordAt ce prev == wordAt ce rest.head?
  | .bos => prev.isNone
  | .eos => rest.isEmpty || rest == [10]
  | .eosStrict => rest.isEmpty

/-- continuation: what has to match from the position reached -/
abbrev K := Option Nat → Str → Bool

/-- one code point consumed if it satisfies `p` -/
def stepChar (p : Nat → Bool) (rest : Str) (k : K) : Bool :=
  match rest with
  | [] => false
  | c :: r => p c && k (some c) r

/-- `r{min,max}`: `fuel` bounds the number of iterations still tried -/
def repLoop (step : Option Nat → Str → K → Bool) : Nat → Nat → Option Nat → Option Nat → Str → K → Bool
  | 0, mn, _, p, s, k => mn == 0 && k p s
  | f + 1, mn, mx, p, s, k =>
    if mn = 0 then
      k p s || (mx != some 0 &&
        step p s (fun p' s' => decide (s'.length < s.length) && repLoop step f 0 (mx.map (· - 1)) p' s' k))
    else
      mx != some 0 && step p s (fun p' s' => repLoop step f (mn - 1) (mx.map (· - 1)) p' s' k)

/-- the matcher: does `r` match at position (`prev`, `rest`) such that the continuation accepts where it ends -/
def Re.m (ce : CharEnv) : Re → Option Nat → Str → K → Bool
  | .eps, p, s, k => k p s
  | .lit a, _, s, k => stepChar (fun c => ce.ceq a c) s k
  | .notLit a, _, s, k => stepChar (fun c => !ce.ceq a c) s k
  | .any, _, s, k => stepChar (fun c => c != 10) s k
  | .set neg items, _, s, k => stepChar (fun c => items.any (fun i => i.test ce c) != neg) s k
  | .seq a b, p, s, k => a.m ce p s (fun p' s' => b.m ce p' s' k)
  | .alt a b, p, s, k => a.m ce p s k || b.m ce p s k
  | .rep mn mx r, p, s, k => repLoop (r.m ce) (s.length + mn + 1) mn mx p s k
  | .at a, p, s, k => a.test ce p s && k p s
  | .unsupported _, _, _, _ => false

/-- a match starting at this position or at a later one -/
def searchFrom (ce : CharEnv) (r : Re) : Option Nat → Str → Bool
  | p, [] => r.m ce p [] (fun _ _ => true)
  | p, c :: s => r.m ce p (c :: s) (fun _ _ => true) || searchFrom ce r (some c) s

/-- `bool(re.compile(r, re.IGNORECASE).search(text))` -/
def search (ce : CharEnv) (r : Re) (text : Str) : Bool := searchFrom ce r none text

/-- no construct that looks at where the text begins or ends, and nothing the model does not understand: only
    literals, classes, sequence, alternation, repetition and `\b` / `\B` -/
def Re.anchorFree : Re → Bool
  | .seq a b => a.anchorFree && b.anchorFree
  | .alt a b => a.anchorFree && b.anchorFree
  | .rep _ _ r => r.anchorFree
  | .at .wordB => true
  | .at .notWordB => true
  | .at _ => false
  | .unsupported _ => false
  | _ => true

/-- everything is understood by the model (the driver compares `search` with the real `re` only then) -/
def Re.supported : Re → Bool
  | .seq a b => a.supported && b.supported
  | .alt a b => a.supported && b.supported
  | .rep _ _ r => r.supported
  | .unsupported _ => false
  | _ => true

/-- the last code point of `pre`, or `q` when `pre` is empty -/
def lastOr (q : Option Nat) : Str → Option Nat
  | [] => q
  | a :: r => lastOr (some a) r

/-- **Separated embedding**: `pre ++ text ++ post` where the code point next to `text` on either side, if there is
    one, is not a word character (`\b` next to the embedded text then sees what it saw at the end of the text) -/
def Separated (ce : CharEnv) (pre post : Str) : Prop :=
  wordAt ce (lastOr none pre) = false ∧ wordAt ce post.head? = false

/-- **Case variants as `re` sees them**: two code points its tables cannot tell apart under IGNORECASE — same classes
    `\d \s \w`, equal to the same pattern literals, inside the same ranges, and both or neither a line feed -/
def CaseEqv (ce : CharEnv) (a b : Nat) : Prop :=
  ce.isDigit a = ce.isDigit b ∧ ce.isSpace a = ce.isSpace b ∧ ce.isWord a = ce.isWord b ∧
  (∀ x, ce.ceq x a = ce.ceq x b) ∧
  (∀ lo hi, (ce.cases a).any (fun d => lo ≤ d && d ≤ hi) = (ce.cases b).any (fun d => lo ≤ d && d ≤ hi)) ∧
  ((a == 10) = (b == 10))

/-- texts that are `CaseEqv` code point by code point (in particular of the same length) -/
inductive CaseVar (ce : CharEnv) : Str → Str → Prop where
  | nil : CaseVar ce [] []
  | cons {a b : Nat} {s t : Str} : CaseEqv ce a b → CaseVar ce s t → CaseVar ce (a :: s) (b :: t)

/-! ### the concrete tables the driver runs with

ASCII, Latin-1, basic Greek, basic Cyrillic, kana and CJK ideographs; the harness compares them with the real `re` on
every code point its text material contains (and keeps generated text inside that material). -/

def isSpaceStd (c : Nat) : Bool :=
  (9 ≤ c && c ≤ 13) || (28 ≤ c && c ≤ 32) || c == 0x85 || c == 0xA0 || c == 0x1680 || (0x2000 ≤ c && c ≤ 0x200A)
    || c == 0x2028 || c == 0x2029 || c == 0x202F || c == 0x205F || c == 0x3000

def isDigitStd (c : Nat) : Bool := 0x30 ≤ c && c ≤ 0x39

def isWordStd (c : Nat) : Bool :=
  (0x30 ≤ c && c ≤ 0x39) || (0x41 ≤ c && c ≤ 0x5A) || c == 0x5F || (0x61 ≤ c && c ≤ 0x7A)
    || c == 0xAA || c == 0xB2 || c == 0xB3 || c == 0xB5 || c == 0xB9 || c == 0xBA || (0xBC ≤ c && c ≤ 0xBE)
    || (0xC0 ≤ c && c ≤ 0xFF && c != 0xD7 && c != 0xF7)
    || (0x391 ≤ c && c ≤ 0x3A9 && c != 0x3A2) || (0x3AC ≤ c && c ≤ 0x3CE)
    || (0x400 ≤ c && c ≤ 0x481)
    || (0x3041 ≤ c && c ≤ 0x3096) || (0x30A1 ≤ c && c ≤ 0x30FA) || (0x4E00 ≤ c && c ≤ 0x9FFF)

def casesStd (c : Nat) : List Nat :=
  if 0x41 ≤ c ∧ c ≤ 0x5A then [c, c + 32] else if 0x61 ≤ c ∧ c ≤ 0x7A then [c, c - 32] else [c, lowerStd c]

def stdEnv : CharEnv :=
  { isDigit := isDigitStd, isSpace := isSpaceStd, isWord := isWordStd
    ceq := fun a b => lowerStd a == lowerStd b
    cases := casesStd }

end Operon.Gates.Rx
