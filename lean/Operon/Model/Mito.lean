/-
  Model of `operon_ai/organelles/mitochondria.py` — the safe computation engine (C01, C02).

  * `Expr`    : Python expression ASTs.  One constructor per `ast.expr` class that `_compute_node` handles,
                plus `other k cs` for every other class (`k` is the class name: Attribute, Subscript, Lambda,
                ListComp, JoinedStr, NamedExpr, Starred, Dict, Set, Await, Yield, ... whatever the running
                interpreter has — the extractor E1 lists them in `Operon/Gen/MitoFacts.lean`).
  * `Val`     : values.  Opaque handles for everything produced by the environment (numbers, strings,
                function objects, results of operators and calls); booleans, lists and tuples are structural
                because the walker itself builds them.
  * `Env`     : the library: name bindings, `operator.*` primitives, `bool()`, calling a value, running a tool.
                Theorems quantify over every `Env`.
  * `walk`    : mirror of `Mitochondria._compute_node`, driven by the tables `T` (SAFE_OPERATORS,
                SAFE_COMPARISONS, SAFE_BOOL_OPS, SAFE_FUNCTIONS).
  * `pyEval`  : specification — Python's own evaluation of the same expressions (language reference:
                left-to-right operands, short-circuit and/or returning the deciding operand, chained comparison
                with single evaluation, conditional expression, callee-args-keywords order).
  * both return `List Act × Except Err α` in writer style: the trace of environment interactions is kept when the
    result is an error (what ran before a failure still ran).
  * `krebs`, `toolPath`, `metabolize`: the pathway layer and the entry point (length guard, ROS latch, pathway
    selection, console print, dispatch, blanket handler).

  Not modelled: CPython's parser (the parsed tree, or "the parser raised", is an input), wall-clock fields,
  `efficiency`, statistics; `json.loads` / `ast.literal_eval` on the transform pathway are an input
  (`Inp.beta`) — they return data and run nothing.
-/
namespace Operon.Mito

/-- every `ast.operator` class -/
inductive BinK where
  | add | sub | mult | div | floordiv | mod | pow | lshift | rshift | bitor | bitxor | bitand | matmult
  deriving DecidableEq, Repr
/-- every `ast.unaryop` class -/
inductive UnK where
  | usub | uadd | not | invert
  deriving DecidableEq, Repr
/-- every `ast.cmpop` class -/
inductive CmpK where
  | eq | noteq | lt | lte | gt | gte | is | isnot | isin | notin
  deriving DecidableEq, Repr
/-- every `ast.boolop` class -/
inductive BoolK where
  | and | or
  deriving DecidableEq, Repr

/-- Primitive callables found in the operator tables: members of Python's `operator` module; anything the
    extractor cannot identify becomes `other name` (and is rejected by the confinement theorem). -/
inductive Prim where
  | add | sub | mul | truediv | floordiv | mod | pow | lshift | rshift | or_ | xor | and_ | matmul
  | neg | pos | invert
  | eq | ne | lt | le | gt | ge | is_ | isNot | isIn | notIn
  | other (name : String)
  deriving DecidableEq, Repr

inductive Val where
  | h (n : Nat)
  | bool (b : Bool)
  | list (vs : List Val)
  | tuple (vs : List Val)
  deriving Repr

abbrev Err := String

inductive Expr where
  | const (v : Val)
  | name (id : String)
  | binop (k : BinK) (l r : Expr)
  | unop (k : UnK) (e : Expr)
  /-- `f(args, kw=...)`: `kwNames[i]` is the keyword of `kwVals[i]`; `none` is a `**mapping` argument -/
  | call (f : Expr) (args : List Expr) (kwNames : List (Option String)) (kwVals : List Expr)
  | list (es : List Expr)
  | tuple (es : List Expr)
  /-- `left ops[0] comparators[0] ops[1] comparators[1] ...` -/
  | compare (left : Expr) (ops : List CmpK) (comparators : List Expr)
  | boolop (k : BoolK) (values : List Expr)
  | ifexp (test body orelse : Expr)
  | other (kind : String) (children : List Expr)
  deriving Repr

/-- One interaction with the environment. -/
inductive Act where
  | lookup (name : String)
  | prim (p : Prim) (args : List Val)
  | truthy (h : Nat)
  | apply (f : Val) (args : List Val) (kws : List (String × Val))
  | tool (name : String) (args : List Val) (kws : List (String × Val))
  deriving Repr

structure Env where
  /-- `SAFE_FUNCTIONS[name]` / the binding of an allow-listed name -/
  lookup : String → Val
  /-- `operator.<p>(*args)` -/
  prim : Prim → List Val → Except Err Val
  /-- `bool(x)` of an opaque value -/
  truthy : Nat → Except Err Bool
  /-- `f(*args, **kws)` -/
  apply : Val → List Val → List (String × Val) → Except Err Val
  /-- `tools[name].execute(*args, **kws)` -/
  tool : String → List Val → List (String × Val) → Except Err Val

/-- The four class-level tables, as the extractor reads them. -/
structure Tables where
  bin : List (BinK × Prim)
  un : List (UnK × Prim)
  cmp : List (CmpK × Prim)
  bool : List BoolK
  names : List String

abbrev R (α : Type) := List Act × Except Err α

namespace R
@[inline] def pure {α} (a : α) : R α := ([], .ok a)
@[inline] def fail {α} (e : Err) : R α := ([], .error e)
/-- one environment interaction -/
@[inline] def act {α} (a : Act) (r : Except Err α) : R α := ([a], r)
/-- sequencing; the trace of `x` is kept when `x` failed -/
@[inline] def bind {α β} (x : R α) (f : α → R β) : R β :=
  match x with
  | (t, .error e) => (t, .error e)
  | (t, .ok a) => ((t ++ (f a).1), (f a).2)
def failed {α} (x : R α) : Prop := ∃ e, x.2 = .error e
end R

/-- `bool(v)`: structural for the values the walker builds, the environment's for opaque ones. -/
def truthyR (env : Env) : Val → R Bool
  | .bool b => R.pure b
  | .list vs => R.pure (!vs.isEmpty)
  | .tuple vs => R.pure (!vs.isEmpty)
  | .h n => R.act (.truthy n) (env.truthy n)

/-- a keyword name occurs twice (`f(a=1, a=2)`): CPython's parser lets it through, its compiler refuses it -/
def hasDupKw : List (Option String) → Bool
  | [] => false
  | none :: ks => hasDupKw ks
  | some n :: ks => ks.contains (some n) || hasDupKw ks

/-! ### The walker (`_compute_node`) -/

mutual
def walk (T : Tables) (env : Env) : Expr → R Val
  | .const v => R.pure v
  | .name id =>
    if id ∈ T.names then R.act (.lookup id) (.ok (env.lookup id)) else R.fail "ValueError: unknown variable"
  | .binop k l r =>
    (walk T env l).bind fun a =>
    (walk T env r).bind fun b =>
    match T.bin.lookup k with
    | none => R.fail "ValueError: unsupported operator"
    | some p => R.act (.prim p [a, b]) (env.prim p [a, b])
  | .unop k e =>
    (walk T env e).bind fun a =>
    if k = .not then (truthyR env a).bind fun b => R.pure (.bool (!b))
    else match T.un.lookup k with
      | none => R.fail "ValueError: unsupported operator"
      | some p => R.act (.prim p [a]) (env.prim p [a])
  | .call f args kwNames kwVals =>
    match f with
    | .name fn =>
      if fn ∈ T.names then
        if hasDupKw kwNames then R.fail "SyntaxError: keyword argument repeated" else
        (R.act (.lookup fn) (.ok (env.lookup fn)) : R Val).bind fun fv =>
        (walkList T env args).bind fun as =>
        (walkKws T env kwNames kwVals).bind fun ks =>
        R.act (.apply fv as ks) (env.apply fv as ks)
      else R.fail "ValueError: unknown function"
    | _ => R.fail "ValueError: complex function calls not supported"
  | .list es => (walkList T env es).bind fun vs => R.pure (.list vs)
  | .tuple es => (walkList T env es).bind fun vs => R.pure (.tuple vs)
  | .compare l ops cs => (walk T env l).bind fun a => walkCmp T env a ops cs
  | .boolop k es => if k ∈ T.bool then walkBool T env k es else R.fail "ValueError: unsupported boolean op"
  | .ifexp c t e =>
    (walk T env c).bind fun cv =>
    (truthyR env cv).bind fun b => if b then walk T env t else walk T env e
  | .other _ _ => R.fail "ValueError: unsupported expression type"

def walkList (T : Tables) (env : Env) : List Expr → R (List Val)
  | [] => R.pure []
  | e :: es => (walk T env e).bind fun v => (walkList T env es).bind fun vs => R.pure (v :: vs)

/-- keyword arguments, in order; a `**mapping` argument is refused when it is reached -/
def walkKws (T : Tables) (env : Env) (names : List (Option String)) : List Expr → R (List (String × Val))
  | [] => R.pure []
  | e :: es =>
    match names with
    | [] => R.pure []
    | none :: _ => R.fail "ValueError: keyword unpacking not supported"
    | some n :: ns =>
      (walk T env e).bind fun v => (walkKws T env ns es).bind fun r => R.pure ((n, v) :: r)

/-- `for op, comparator in zip(ops, comparators)`: evaluate, look the operator up, compare, stop at the first
    falsy comparison with `False`, end with `True` -/
def walkCmp (T : Tables) (env : Env) (left : Val) (ops : List CmpK) : List Expr → R Val
  | [] => R.pure (.bool true)
  | c :: cs =>
    match ops with
    | [] => R.pure (.bool true)
    | op :: ops' =>
      (walk T env c).bind fun right =>
      match T.cmp.lookup op with
      | none => R.fail "ValueError: unsupported comparison"
      | some p =>
        (R.act (.prim p [left, right]) (env.prim p [left, right]) : R Val).bind fun r =>
        (truthyR env r).bind fun b =>
        if b then walkCmp T env right ops' cs else R.pure (.bool false)

/-- `for operand in values[:-1]: … if bool(value) == is_or: return value` then `values[-1]` -/
def walkBool (T : Tables) (env : Env) (k : BoolK) : List Expr → R Val
  | [] => R.fail "IndexError"
  | e :: es =>
    match es with
    | [] => walk T env e
    | _ :: _ =>
      (walk T env e).bind fun v =>
      (truthyR env v).bind fun b =>
      if b = (k = .or) then R.pure v else walkBool T env k es
end

/-! ### The specification: Python's evaluation -/

def specBin : BinK → Prim
  | .add => .add | .sub => .sub | .mult => .mul | .div => .truediv | .floordiv => .floordiv | .mod => .mod
  | .pow => .pow | .lshift => .lshift | .rshift => .rshift | .bitor => .or_ | .bitxor => .xor
  | .bitand => .and_ | .matmult => .matmul

/-- `not` is not an operator call in Python (it is `bool` + negation); it has no entry here -/
def specUn : UnK → Option Prim
  | .usub => some .neg | .uadd => some .pos | .invert => some .invert | .not => none

def specCmp : CmpK → Prim
  | .eq => .eq | .noteq => .ne | .lt => .lt | .lte => .le | .gt => .gt | .gte => .ge
  | .is => .is_ | .isnot => .isNot | .isin => .isIn | .notin => .notIn

mutual
/-- Python's value of `e` in a namespace that binds exactly `names` (through `env.lookup`). -/
def pyEval (names : List String) (env : Env) : Expr → R Val
  | .const v => R.pure v
  | .name id => if id ∈ names then R.act (.lookup id) (.ok (env.lookup id)) else R.fail "NameError"
  | .binop k l r =>
    (pyEval names env l).bind fun a =>
    (pyEval names env r).bind fun b =>
    R.act (.prim (specBin k) [a, b]) (env.prim (specBin k) [a, b])
  | .unop k e =>
    (pyEval names env e).bind fun a =>
    match specUn k with
    | none => (truthyR env a).bind fun b => R.pure (.bool (!b))
    | some p => R.act (.prim p [a]) (env.prim p [a])
  | .call f args kwNames kwVals =>
    -- a repeated keyword is refused before anything is evaluated
    if hasDupKw kwNames then R.fail "SyntaxError: keyword argument repeated" else
    (pyEval names env f).bind fun fv =>
    (pyList names env args).bind fun as =>
    (pyKws names env kwNames kwVals).bind fun ks =>
    R.act (.apply fv as ks) (env.apply fv as ks)
  | .list es => (pyList names env es).bind fun vs => R.pure (.list vs)
  | .tuple es => (pyList names env es).bind fun vs => R.pure (.tuple vs)
  | .compare l ops cs => (pyEval names env l).bind fun a => pyCmp names env a ops cs
  | .boolop k es => pyBool names env k es
  | .ifexp c t e =>
    (pyEval names env c).bind fun cv =>
    (truthyR env cv).bind fun b => if b then pyEval names env t else pyEval names env e
  | .other _ _ => R.fail "outside the specified subset"

def pyList (names : List String) (env : Env) : List Expr → R (List Val)
  | [] => R.pure []
  | e :: es => (pyEval names env e).bind fun v => (pyList names env es).bind fun vs => R.pure (v :: vs)

def pyKws (names : List String) (env : Env) (kn : List (Option String)) : List Expr → R (List (String × Val))
  | [] => R.pure []
  | e :: es =>
    match kn with
    | [] => R.pure []
    | none :: _ => R.fail "outside the specified subset (** argument)"
    | some n :: ns =>
      (pyEval names env e).bind fun v => (pyKws names env ns es).bind fun r => R.pure ((n, v) :: r)

/-- `a op1 b op2 c …` is `a op1 b and b op2 c and …` with `b` evaluated once; the value is the result of the
    last comparison made -/
def pyCmp (names : List String) (env : Env) (left : Val) (ops : List CmpK) : List Expr → R Val
  | [] => R.pure (.bool true)
  | c :: cs =>
    match ops with
    | [] => R.pure (.bool true)
    | op :: ops' =>
      (pyEval names env c).bind fun right =>
      (R.act (.prim (specCmp op) [left, right]) (env.prim (specCmp op) [left, right]) : R Val).bind fun r =>
      match cs with
      | [] => R.pure r
      | _ :: _ =>
        (truthyR env r).bind fun b =>
        if b then pyCmp names env right ops' cs else R.pure r

/-- `a or b or c`: first truthy operand, else the last one; `and` dually; the last operand is not tested -/
def pyBool (names : List String) (env : Env) (k : BoolK) : List Expr → R Val
  | [] => R.fail "not an expression"
  | e :: es =>
    match es with
    | [] => pyEval names env e
    | _ :: _ =>
      (pyEval names env e).bind fun v =>
      (truthyR env v).bind fun b =>
      match k with
      | .or => if b then R.pure v else pyBool names env .or es
      | .and => if b then pyBool names env .and es else R.pure v
end

/-! ### Pathways -/

mutual
/-- `_LowercaseBooleans`: the names `true` / `false` become boolean constants, everywhere in the tree -/
def normalise : Expr → Expr
  | .const v => .const v
  | .name id => if id = "true" then .const (.bool true) else if id = "false" then .const (.bool false) else .name id
  | .binop k l r => .binop k (normalise l) (normalise r)
  | .unop k e => .unop k (normalise e)
  | .call f args kn kv => .call (normalise f) (normaliseList args) kn (normaliseList kv)
  | .list es => .list (normaliseList es)
  | .tuple es => .tuple (normaliseList es)
  | .compare l ops cs => .compare (normalise l) ops (normaliseList cs)
  | .boolop k es => .boolop k (normaliseList es)
  | .ifexp c t e => .ifexp (normalise c) (normalise t) (normalise e)
  | .other k cs => .other k (normaliseList cs)
def normaliseList : List Expr → List Expr
  | [] => []
  | e :: es => normalise e :: normaliseList es
end

mutual
/-- `_reject_repeated_keywords`: some call anywhere in the tree (evaluated or not, also inside refused node classes)
    repeats a keyword name — what CPython's compiler refuses -/
def dupAnywhere : Expr → Bool
  | .const _ => false
  | .name _ => false
  | .binop _ l r => dupAnywhere l || dupAnywhere r
  | .unop _ e => dupAnywhere e
  | .call f args kn kv => hasDupKw kn || dupAnywhere f || dupAnywhereList args || dupAnywhereList kv
  | .list es => dupAnywhereList es
  | .tuple es => dupAnywhereList es
  | .compare l _ cs => dupAnywhere l || dupAnywhereList cs
  | .boolop _ es => dupAnywhereList es
  | .ifexp c t e => dupAnywhere c || dupAnywhere t || dupAnywhere e
  | .other _ cs => dupAnywhereList cs
def dupAnywhereList : List Expr → Bool
  | [] => false
  | e :: es => dupAnywhere e || dupAnywhereList es
end

/-- `_glycolysis` after parsing -/
def glycolysis (T : Tables) (env : Env) (e : Expr) : R Val :=
  if dupAnywhere e then R.fail "SyntaxError: keyword argument repeated" else walk T env e

/-- `_krebs_cycle` after parsing: `bool(walk(normalise(tree)))` -/
def krebs (T : Tables) (env : Env) (e : Expr) : R Val :=
  if dupAnywhere e then R.fail "SyntaxError: keyword argument repeated" else
  (walk T env (normalise e)).bind fun v => (truthyR env v).bind fun b => R.pure (.bool b)

/-- Python: compile (refuses a repeated keyword anywhere), then evaluate -/
def pyRun (names : List String) (env : Env) (e : Expr) : R Val :=
  if dupAnywhere e then R.fail "SyntaxError: keyword argument repeated" else pyEval names env e

structure ToolReg where
  name : String
  /-- `required_capabilities or capabilities or set()` -/
  caps : List String
  deriving Repr

def findTool (tools : List ToolReg) (n : String) : Option ToolReg := tools.find? fun t => t.name = n

/-- Python dict semantics of `kwargs[kw.arg] = value` in a loop: a repeated key keeps its first position and takes
    the last value (unreachable through `toolPathway`, which refuses repeated keywords first) -/
def dictOf (ks : List (String × Val)) : List (String × Val) :=
  ks.foldl (fun acc kv =>
    if acc.any (fun p => p.1 = kv.1) then acc.map (fun p => if p.1 = kv.1 then (p.1, kv.2) else p) else acc ++ [kv]) []

def capsOk (allowed : Option (List String)) (t : ToolReg) : Bool :=
  match allowed with
  | none => true
  | some a => t.caps.all fun c => a.contains c

/-- `_oxidative_phosphorylation` after parsing -/
def toolPath (T : Tables) (env : Env) (tools : List ToolReg) (allowed : Option (List String)) : Expr → R Val
  | .call (.name tn) args kn kv =>
    match findTool tools tn with
    | none => R.fail "ValueError: unknown tool"
    | some t =>
      if capsOk allowed t then
        (walkList T env args).bind fun as =>
        -- keyword values in order; a `**mapping` argument is refused when it is reached (as for allow-listed calls)
        (walkKws T env kn kv).bind fun ks =>
        R.act (.tool tn as (dictOf ks)) (env.tool tn as (dictOf ks))
      else R.fail "PermissionError"
  | .call _ _ _ _ => R.fail "ValueError: invalid tool call format"
  | _ => R.fail "ValueError: expected a tool call"

/-- `_oxidative_phosphorylation` after parsing: the tree-level repeated-keyword check, then `toolPath` -/
def toolPathway (T : Tables) (env : Env) (tools : List ToolReg) (allowed : Option (List String)) (e : Expr) : R Val :=
  if dupAnywhere e then R.fail "SyntaxError: keyword argument repeated" else toolPath T env tools allowed e

inductive Pathway where
  | glycolysis | krebs | oxidative | beta
  deriving DecidableEq, Repr

/-- What does not depend on the parsed tree: configuration and the source-shape facts read by the extractor. -/
structure Cfg where
  maxLen : Nat
  silent : Bool
  /-- `timeout_seconds == 0`: the efficiency computation divides by zero (inside the handler's `try`) -/
  timeoutZero : Bool
  tools : List ToolReg
  allowed : Option (List String)
  /-- E1: the console print sits inside the `try … except Exception` -/
  printInTry : Bool
  /-- E1: the pathway dispatch sits inside the `try … except Exception` -/
  dispatchInTry : Bool
  /-- E1: in the legacy entry point `digest_glucose` the `str(value)` conversion sits inside a `try … except Exception` -/
  strGuarded : Bool

/-- One input string, as far as the engine can see it. -/
structure Inp where
  /-- `len(expression)` -/
  len : Nat
  /-- `ast.parse(expression, mode='eval').body`, or `none` when the parser raised -/
  parsed : Option Expr
  /-- outcome of `json.loads` / `ast.literal_eval` on the transform pathway (`none`: both refused) -/
  beta : Option Val
  /-- the console write of the progress line raises: a lone surrogate in `expression[:50]` on a UTF-8 console, or a
      console that refuses the write itself (`Console.print`: closed stream, an encoding that cannot represent the
      line's emoji, a stream whose k-th write fails) -/
  printRaises : Bool

/-- `sys.stdout` as far as the progress line of a non-silent engine can tell. -/
inductive Console where
  /-- a UTF-8 text stream: refuses lone surrogates only -/
  | utf8
  /-- a closed stream: every write raises `ValueError` -/
  | closed
  /-- a strict ASCII / latin-1 / cp1252 stream: the emoji of the progress line cannot be encoded (`UnicodeEncodeError`) -/
  | narrow
  /-- a narrow encoding with `errors='replace'` / `'backslashreplace'`: every write is accepted -/
  | lossy
  /-- a stream that fails ONE evaluation call: the `k`-th call that writes to it (counted from 1 over the stream's
      life) meets a failing write — its first write, or the newline of its first `print` (`OSError` / `ValueError`);
      every other write is accepted.  Counted per call, not per write: how many lines a call prints is not modelled. -/
  | failAt (k : Nat)
  deriving DecidableEq, Repr

/-- The progress line of one call.  `written` = calls that have written to the stream so far, `surrogate` = the text
    holds a lone surrogate.  Result: (the print raises, calls that have written afterwards). -/
def Console.print (c : Console) (written : Nat) (surrogate : Bool) : Bool × Nat :=
  match c with
  | .utf8 => (surrogate, written + 1)
  | .closed => (true, written + 1)
  | .narrow => (true, written + 1)
  | .lossy => (false, written + 1)
  | .failAt k => (written + 1 = k, written + 1)

inductive Outcome where
  /-- a `MetabolicResult`; `rosInc` = the error counter was incremented; `path` = `result.pathway` -/
  | result (success : Bool) (value : Option Val) (rosInc : Bool) (path : Option Pathway)
  /-- an exception reached the caller -/
  | raised
  deriving Repr

def pathwayBody (T : Tables) (env : Env) (cfg : Cfg) (inp : Inp) (p : Pathway) : R Val :=
  match p with
  | .beta => match inp.beta with
    | some v => R.pure v
    | none => R.fail "ValueError: cannot parse as JSON or literal"
  | _ => match inp.parsed with
    | none => R.fail "SyntaxError"
    | some e => match p with
      | .glycolysis => glycolysis T env e
      | .krebs => krebs T env e
      | _ => toolPathway T env cfg.tools cfg.allowed e

/-- `Mitochondria.metabolize`.  `latched` = `_ros_accumulated >= max_ros` (a float comparison, computed by the
    driver; the theorems hold for both values); `detect` = the result of `_detect_pathway` (an arbitrary function of
    the string in the theorems, the code's heuristic in the driver); `forced` = the `pathway` argument. -/
def metabolize (T : Tables) (env : Env) (cfg : Cfg) (latched : Bool) (detect : Pathway) (inp : Inp)
    (forced : Option Pathway) : List Act × Outcome :=
  if inp.len > cfg.maxLen then ([], .result false none false forced)
  else if latched then ([], .result false none false forced)
  else
    let p := forced.getD detect
    let printFails := !cfg.silent && inp.printRaises
    if printFails && !cfg.printInTry then ([], .raised)
    else if printFails then ([], .result false none true (some p))
    else
      let body := pathwayBody T env cfg inp p
      match body with
      | (t, .ok v) =>
        if cfg.timeoutZero then (t, if cfg.dispatchInTry then .result false none true (some p) else .raised)
        else (t, .result true (some v) false (some p))
      | (t, .error _) => (t, if cfg.dispatchInTry then .result false none true (some p) else .raised)

/-- the progress line is reached: the call passed both guards on a non-silent engine -/
def printReached (cfg : Cfg) (latched : Bool) (len : Nat) : Bool := !(len > cfg.maxLen) && !latched && !cfg.silent

/-- What the console makes of one call: (`printRaises` of the call, calls that have written to the stream afterwards).  A call
    that does not reach the progress line writes nothing. -/
def consoleStep (cfg : Cfg) (latched : Bool) (c : Console) (written : Nat) (len : Nat) (surrogate : Bool) : Bool × Nat :=
  if printReached cfg latched len then c.print written surrogate else (surrogate, written)

/-- `metabolize` on a console: the console decides `printRaises`; second component = calls that have written to the
    stream after the call. -/
def metabolizeOn (T : Tables) (env : Env) (cfg : Cfg) (latched : Bool) (detect : Pathway) (c : Console) (written : Nat)
    (inp : Inp) (forced : Option Pathway) : (List Act × Outcome) × Nat :=
  let rw := consoleStep cfg latched c written inp.len inp.printRaises
  (metabolize T env cfg latched detect ⟨inp.len, inp.parsed, inp.beta, rw.1⟩ forced, rw.2)

/-- A history of calls on ONE engine and ONE console stream (the stream's count of writing calls runs through the history).  The
    error counter is the environment's here (`latched i` = the engine is latched at call `i`). -/
def historyOn (T : Tables) (env : Env) (cfg : Cfg) (detect : Inp → Pathway) (c : Console) :
    Nat → List (Bool × Inp × Option Pathway) → List Outcome
  | _, [] => []
  | written, (latched, inp, forced) :: rest =>
    let r := metabolizeOn T env cfg latched (detect inp) c written inp forced
    r.1.2 :: historyOn T env cfg detect c r.2 rest

/-- outcome of the legacy entry point: a string (the rendered value, or a "Metabolic Failure: …" text), or a raise -/
inductive LegacyOutcome where
  | text (ok : Bool)
  | raised
  deriving Repr, DecidableEq

/-- `Mitochondria.digest_glucose` (also what `BioAgent` calls for "calculate …" prompts): `metabolize` forced to the
    math pathway, then `str(value)`.  `strRaises` = rendering the value as text raises (CPython refuses to convert an
    int of more than 4300 digits: `ValueError`). -/
def digestGlucose (T : Tables) (env : Env) (cfg : Cfg) (latched : Bool) (inp : Inp) (strRaises : Bool) :
    List Act × LegacyOutcome :=
  match metabolize T env cfg latched .glycolysis inp (some .glycolysis) with
  | (t, .raised) => (t, .raised)
  | (t, .result true _ _ _) =>
    if strRaises then (t, if cfg.strGuarded then .text false else .raised) else (t, .text true)
  | (t, .result false _ _ _) => (t, .text false)

/-! ### Structural size -/

mutual
def Expr.nodes : Expr → Nat
  | .const _ => 1
  | .name _ => 1
  | .binop _ l r => 1 + l.nodes + r.nodes
  | .unop _ e => 1 + e.nodes
  | .call f args _ kv => 1 + f.nodes + nodesList args + nodesList kv
  | .list es => 1 + nodesList es
  | .tuple es => 1 + nodesList es
  | .compare l _ cs => 1 + l.nodes + nodesList cs
  | .boolop _ es => 1 + nodesList es
  | .ifexp c t e => 1 + c.nodes + t.nodes + e.nodes
  | .other _ cs => 1 + nodesList cs
def nodesList : List Expr → Nat
  | [] => 0
  | e :: es => e.nodes + nodesList es
end

/-! ### Size semantics of integer arithmetic (resource clause)

`IExpr` is the integer-literal fragment (`+`, `*`, `**` over non-negative literals).  `val` is the mathematical value
CPython has to materialise; `budget` is the bit budget that pow-free expressions provably stay within. -/

inductive IExpr where
  | lit (n : Nat)
  | add (a b : IExpr)
  | mul (a b : IExpr)
  | pow (a b : IExpr)
  deriving Repr

def IExpr.val : IExpr → Nat
  | .lit n => n
  | .add a b => a.val + b.val
  | .mul a b => a.val * b.val
  | .pow a b => a.val ^ b.val

def IExpr.powFree : IExpr → Bool
  | .lit _ => true
  | .add a b => a.powFree && b.powFree
  | .mul a b => a.powFree && b.powFree
  | .pow _ _ => false

/-- bits of the literals plus one per addition: linear in the size of the text -/
def IExpr.budget : IExpr → Nat
  | .lit n => n.log2 + 1
  | .add a b => a.budget + b.budget + 1
  | .mul a b => a.budget + b.budget
  | .pow a b => a.budget + b.budget

end Operon.Mito
