import Operon.Model.Proto
import Operon.Model.CoordExec
import Operon.Model.CoordLife
/-! Line-protocol step function of the coordination model (shared by the C14 and C15 drivers). -/
namespace Operon.Coord
open Operon.Proto

def showPhase : Phase → String
  | .g0 => "g0" | .g1 => "g1" | .s => "s" | .g2 => "g2" | .m => "m"

def showLR : LockResult → String
  | .acquired => "acquired" | .blocked => "blocked" | .reentrant => "reentrant" | .preempted => "preempted"

def showReason : Reason → String
  | .timeout => "timeout" | .starvation => "starvation" | .noProgress => "no_progress"
  | .deadlock => "deadlock" | .manual => "manual"

def sortNat (l : List Nat) : List Nat := l.mergeSort (fun a b => a ≤ b)

def showLock (s : Sys) (r : Nat) : String :=
  match s.locks r with
  | none => s!"{r}:?"
  | some l =>
    let o := match l.owner with | some o => toString o | none => "-"
    let w := l.waiting.map fun e => s!"{e.1}/{e.2}"
    s!"{r}:{o}:{l.ownerPrio}:{l.hold}:{showBool l.preempt}:{showList w}"

def showCtx (c : Ctx) : String :=
  s!"{c.id}:{c.prio}:{showPhase c.phase}:{showList (c.acquired.map toString)}:" ++
  s!"{showBool c.resAcq}{showBool c.execDone}{showBool c.valPassed}{showBool c.exempt}:{c.created}:{c.phaseAt}"

def showEdges (E : Edges) : String :=
  let E' := E.mergeSort (fun a b => a.1 ≤ b.1)
  showList (E'.map fun e => s!"{e.1}>" ++ "+".intercalate (e.2.map fun d => s!"{d.1}/{d.2}"))

def dump (s : Sys) : String :=
  let ls := (sortNat s.resIds).map (showLock s)
  let as := (s.active.mergeSort (fun a b => a.id ≤ b.id)).map showCtx
  let bs := (s.boosts.mergeSort (fun a b => a.1 ≤ b.1)).map fun b => s!"{b.1}/{b.2}"
  s!"L {joinSp ls} | A {joinSp as} | E {showEdges s.edges} | B {showList bs}"

def optNat (t : String) : Option Nat := if t = "none" then none else some (natD t)

def parseStrategy : String → Strategy
  | "priority" => .priority | "oldest" => .oldest | _ => .other

def parseCp (c : Char) : CpOut :=
  if c = 'n' then .no else if c = 'x' || c = 'y' || c = 'z' then .raise else .base

/-- `r,r,..|-|none[~<kind>]`: the mark `~<kind>` says as what TYPE of iterable the harness passes the request to the
    real code (tuple, generator, iterator, map, dict keys view, deque, list subclass, a list the work function empties);
    `execute_operation` walks the request exactly once, so the type does not matter and the model drops the mark -/
def parseReq (t0 : String) : List Nat :=
  let t := (t0.splitOn "~").headD ""
  let ids := if t = "-" || t = "none" then [] else (t.splitOn ",").map (natD ·)
  -- `~e<k>`: the iteration of the request RAISES after k ids — inside the single `try`, exactly like the ValueError of an
  -- unregistered id at that position: the first k ids followed by an id that is never registered
  match (t0.splitOn "~").drop 1 with
  | [k] => if k.startsWith "e" then ids.take (natD (k.drop 1).toString) ++ [999999] else ids
  | _ => ids

def parseAct (t : String) : WorkAct :=
  if t = "s" then .shutdown else if t = "w" then .watchdog else if t = "m" then .maint
  else if t.startsWith "k" then .kill (natD (t.drop 1).toString) else .none

/-- a priority token `<int>[~<kind>]`: the mark says as what numeric TYPE the harness passes the number (bool, int
    subclass, Fraction); the code only compares and stores priorities, so the model drops it -/
def parsePrio (t : String) : Int := intD ((t.splitOn "~").headD "")

def parseVal (t : String) : ValOut :=
  if t = "yes" then .yes else if t = "no" then .no else if t.startsWith "raise" then .raise else .absent

/-- rotate a cycle so that its smallest member comes first -/
def rotateMin (c : List Nat) : List Nat :=
  match c.min? with
  | none => c
  | some m => c.dropWhile (· ≠ m) ++ c.takeWhile (· ≠ m)

def showCycle (E : Edges) (cyc : List Nat) : String :=
  let c := rotateMin cyc
  let es := (cycleEdges E c).map fun e => s!"{e.1}>{e.2.1}/{e.2.2}"
  s!"{showList (c.map toString)} {showList es}"

def showEvents (evs : List (Nat × Reason)) : String :=
  showList ((evs.mergeSort (fun a b => a.1 ≤ b.1)).map fun e => s!"{e.1}:{showReason e.2}")

def showBoosts (bs : List (Nat × Int × Int)) : String :=
  showList ((bs.mergeSort (fun a b => a.1 < b.1 || (a.1 == b.1 && a.2.2 ≤ b.2.2))).map
    fun b => s!"{b.1}:{b.2.1}>{b.2.2}")

def showLogEv : Ev → Option String
  | .cp i p => some s!"cp{i}:{showBool p}"
  | .work ok => some s!"work:{showBool ok}"
  | .validate ok => some s!"val:{showBool ok}"
  | _ => none

def execTags (r : ExecRes) : List String :=
  r.log.filterMap fun
    | .acq _ (some .blocked) => some "x:blocked"
    | .acq _ none => some "x:unknown"
    | .acq _ (some .reentrant) => some "x:reentrant"
    | .acq _ (some .preempted) => some "x:preempted"
    | .cp i false => some s!"x:cp{i}-fail"
    | .work false => some "x:work-raise"
    | .validate false => some "x:val-fail"
    | .complete => some "x:commit"
    | _ => none

def parsePost (t : String) : PostOut :=
  if t = "notag" then .noTag else if t.startsWith "raise" then .raise else .ok

/-- exception kinds whose `str()` is empty end in `0` ("raise.V0" = `ValueError()`) -/
def emptyMsg (t : String) : Bool := t.endsWith "0"

/-- `CoordinationResult.error`: absent on success; the empty string only when `validate_fn` raised an exception
    without a message (every other failure carries a text of the code's own) -/
def showErr (r : ExecRes) (adv : Adv) (valTok : String) : String :=
  if r.success then "none"
  else if adv.val == .raise && r.log.contains (.validate false) && emptyMsg valTok then "empty" else "text"

/-- "<act>" or "<act>:<us>" -/
def parseActTick (t : String) : WorkAct × Nat :=
  match t.splitOn ":" with
  | [a] => (parseAct a, 0)
  | [a, d] => (parseAct a, natD d)
  | _ => (.none, 0)

/-- the part of a token before the first `@` (the callback's answer; what follows says what it does first); the mark
    `~F` on a validator's answer (the validator OBJECT is falsy: a callable with `__len__() == 0`) is dropped — since
    the fix "only None means no validation" such a validator is asked like any other -/
def tokHead (t : String) : String := ((t.splitOn "@").headD "").replace "~F" ""

/-- `<4 outcomes>[@<i><act>[:<us>]]*` — what the i-th checkpoint callback does before it answers -/
def parseCpActs (cps : String) : List (Nat × WorkAct × Nat) :=
  ((cps.splitOn "@").drop 1).map fun e => (natD (e.take 1).toString, parseActTick (e.drop 1).toString)

def parseAdv (cps work val : String) : Adv × Nat :=
  let cpl := (tokHead cps).toList.map parseCp
  let acts := parseCpActs cps
  let find := fun (i : Nat) => (acts.find? (fun e => e.1 == i)).map (·.2)
  let (act, ok, tick) := match work.splitOn ":" with
    | [a, k] => (parseAct a, k, 0)
    | [a, k, d] => (parseAct a, k, natD d)
    | _ => (WorkAct.none, "ok", 0)
  let va := match (val.splitOn "@").drop 1 with
    | [t] => parseActTick t
    | _ => (WorkAct.none, 0)
  -- "ok" or "ok.<value kind>"; "ok.N" = the work function returns exactly None
  ({ cp := fun i => cpl.getD i .base, tick := tick, act := act, workOk := ok.startsWith "ok",
     resultNone := ok == "ok.N", val := parseVal (tokHead val),
     cpAct := fun i => ((find i).map (·.1)).getD .none, cpTick := fun i => ((find i).map (·.2)).getD 0,
     valAct := va.1, valTick := va.2 }, tick)

def showExec (r : ExecRes) (adv : Adv) (valTok : String) (op : Nat) (reqL : List Nat) : String :=
  let own := match r.atWork with
    | none => "-"
    | some w => String.join (reqL.map fun x =>
        match w.locks x with
        | some l => showBool (l.owner == some op)
        | none => "?")
  s!"{showBool r.success} {showPhase r.phase} err:{showErr r adv valTok} own:{own} {showList (r.log.filterMap showLogEv)}"

def killedTag (r : ExecRes) (adv : Adv) (op : Nat) : List String :=
  (match r.atWork with
   | some w =>
     (if ((applyAct { w with now := w.now + adv.tick } adv.act).ctx? op).isNone then ["x:killed-in-work"] else [])
   -- the G1 → S checkpoint passed and the work function did not run: the operation had been ended on the way
   | none => if r.log.contains (.cp 1 true) then ["x:ended-before-work"] else []) ++
  (if [0, 1, 2, 3].any (fun i => adv.cpAct i != .none) then ["x:cp-act"] else []) ++
  (if adv.valAct != .none && r.log.any (fun e => e == .validate true || e == .validate false) then ["x:val-act"] else [])

def withDump (s : Sys) (res : String) (tags : List String := []) : Sys × String :=
  (s, s!"{res} | {dump s}" ++ (if tags.isEmpty then "" else " ## " ++ joinSp tags))

def step (s : Sys) (toks : List String) : Sys × String :=
  match toks with
  | ["cfg", a, b, c, st] =>
    withDump { maxOp := optNat a, starv := optNat b, prog := optNat c, strategy := parseStrategy st } "ok"
  -- public attributes re-assigned on a live system: the watchdog's own settings are read at every check …
  | ["setwd", a, b, c, st] =>
    withDump { s with maxOp := optNat a, starv := optNat b, prog := optNat c, strategy := parseStrategy st } "ok"
  -- … the CoordinationSystem's timeout fields are read once, in `__post_init__`: assigning them later changes nothing
  | ["setsys", _, _, _] => withDump s "ok"
  | ["res", r, p] =>
    let r := natD r
    if (s.locks r).isSome then withDump s "dup" else withDump (s.register r (boolOf p)) "ok"
  | ["start", o, p] => withDump (s.start (natD o) (parsePrio p)).1 "ok"
  | ["acq", o, r] =>
    match s.ctx? (natD o) with
    | none => withDump s "noop"
    | some c =>
      match acquire s c (natD r) with
      | (s', _, none) => withDump s' "raise:ValueError"
      | (s', _, some res) => withDump s' (showLR res) [s!"acq:{showLR res}"]
  | ["rel", o, r] =>
    match s.ctx? (natD o) with
    | none => withDump s "noop"
    | some c =>
      let q := release s c (natD r)
      withDump q.1 (showBool q.2.2) [s!"rel:{showBool q.2.2}"]
  | ["complete", o] =>
    match s.ctx? (natD o) with
    | none => withDump s "noop"
    | some c => withDump (finish s c).1 "ok"
  | ["abort", o] =>
    match s.ctx? (natD o) with
    | none => withDump s "noop"
    | some c => withDump (finish s c).1 "ok"
  | ["kill", o] =>
    match s.ctx? (natD o) with
    | none => withDump s "noop"
    | some _ => withDump (manualKill s (natD o)) "ok"
  | ["exempt", o, b] =>
    match s.ctx? (natD o) with
    | none => withDump s "noop"
    | some _ => withDump (lstep s (.exempt (natD o) (boolOf b))) "ok"
  | ["advance", o] =>
    match s.ctx? (natD o) with
    | none => withDump s "noop"
    | some c => withDump (lstep s (.advance (natD o) .base)) (showBool (advance s.now c .base).2)
  -- public attributes of the live context re-assigned from outside (`ctx.resources_acquired = b`, `.execution_complete`,
  -- `.validation_passed`): with them `advance` can take an operation through every phase and round the cycle (M → G0)
  | ["flag", o, f, b] =>
    match s.ctx? (natD o) with
    | none => withDump s "noop"
    | some _ =>
      if f = "r" then withDump (lstep s (.flag (natD o) .resAcq (boolOf b))) "ok"
      else if f = "e" then withDump (lstep s (.flag (natD o) .execDone (boolOf b))) "ok"
      else if f = "v" then withDump (lstep s (.flag (natD o) .valPassed (boolOf b))) "ok"
      else withDump s "ok"
  -- `ctx.priority = p` assigned from outside on a live context: only the context changes (a lock the operation owns
  -- keeps the `owner_priority` it was taken with, waiting-list entries keep theirs)
  | ["prio", o, p] =>
    match s.ctx? (natD o) with
    | none => withDump s "noop"
    | some c => withDump (s.setCtx { c with prio := parsePrio p }) "ok"
  -- `cell.agent_operations[agent] = operation id` assigned from outside: nothing in the coordination layer reads it
  | ["track", _, _] => withDump s "ok"
  | ["shutdown"] => withDump (shutdown s) "ok"
  | ["adv", d] => withDump (lstep s (.tick (natD d))) "ok"
  | ["deadlock"] =>
    match detectCycle s.edges with
    | none => withDump s "none" ["dl:none"]
    | some c => withDump s (showCycle s.edges c) ["dl:cycle"]
  | ["watchdog"] =>
    let r := wdExecute s
    withDump r.1 (showEvents r.2) (r.2.map fun e => s!"wd:{showReason e.2}")
  | ["boost"] =>
    let r := checkAndBoost s
    withDump r.1 (showBoosts r.2) (if r.2.isEmpty then [] else ["boost:some"])
  | ["maint"] =>
    let r := maintenance s
    withDump r.1 s!"{showBoosts r.2.1} {showEvents r.2.2}" (r.2.2.map fun e => s!"wd:{showReason e.2}")
  | ["exec", o, p, req, cps, work, val] =>
    let (adv, _) := parseAdv cps work val
    let reqL := parseReq req
    let op := natD o
    let r := exec s op (parsePrio p) reqL adv
    withDump r.sys (showExec r adv (tokHead val) op reqL) (execTags r ++ killedTag r adv op)
  | ["cell", o, p, req, cps, work, val, post] =>
    let (adv, _) := parseAdv cps work val
    let reqL := parseReq req
    let op := natD o
    let c := cellExecute s op (parsePrio p) reqL adv (parsePost post)
    let blk := if c.blockedByCoordination then "coordination" else "none"
    withDump c.sys
      (s!"cell:{showBool c.success} {blk} out:{showBool c.hasOutput} att:{showBool c.coordAttached} " ++
       s!"trk:{showBool c.tracked} {showExec c.coord adv (tokHead val) op reqL}")
      (execTags c.coord ++ killedTag c.coord adv op ++
        [if c.success then "cell:ok" else if c.blockedByCoordination then "cell:blocked" else "cell:post-raise"])
  -- search-only lines (outside the property's quantifier: the model has no such operation and says so)
  | "nest" :: _ => (s, "search-only")
  | "cnest" :: _ => (s, "search-only")
  | _ => (s, "bad-op")

/-! ### several systems alive at the same time

`use k` parks the current `CoordinationSystem` and continues with the one in slot `k` (a fresh one when the slot is
empty); `cfg` replaces the system in the current slot.  The systems share nothing but the virtual clock. -/

structure Multi where
  cur : Sys := {}
  slot : Nat := 0
  parked : List (Nat × Sys) := []

def stepMulti (m : Multi) (toks : List String) : Multi × String :=
  match toks with
  | ["use", k] =>
    let k := natD k
    if k == m.slot then (m, (withDump m.cur "ok").2)
    else
      let parked := (m.slot, m.cur) :: m.parked
      let nxt : Sys := match parked.find? (fun e => e.1 == k) with
        | some e => { e.2 with now := m.cur.now }
        | none => { now := m.cur.now }
      ({ cur := nxt, slot := k, parked := parked.filter (fun e => e.1 != k) }, (withDump nxt "ok").2)
  | _ =>
    let r := step m.cur toks
    ({ m with cur := r.1 }, r.2)

end Operon.Coord
