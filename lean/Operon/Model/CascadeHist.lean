import Operon.Model.Cascade
import Operon.Model.CascadePar
/-
  `Cascade._results_history` / `get_history`, and `AgentCascade.add_agent_stage`, as the code is.

  History.  Every `run` appends the record it is about to return (before `on_cascade_complete` is called: the record is kept
  also when that observer raises) and then keeps the newest `histCap` = 1000 records (`self._results_history[-1000:]`);
  `run_parallel` appends its record WITHOUT trimming (the next `run` trims) and appends nothing when it raises on an empty
  cascade.  `get_history(limit)` is the Python slice `history[-limit:]`: the newest `limit` records for a positive limit
  (everything when the limit exceeds the length), EVERYTHING for limit 0 (`h[-0:]` is `h[0:]`), and for a negative limit the
  records after the first `-limit`.

  AgentCascade.  It does not override `run`; `add_agent_stage(name, role, amplification, checkpoint)` registers (through
  `add_stage`) a stage named after the agent whose checkpoint is the one handed in, whose processor hands the signal to the
  agent's `express` (a `Signal` as it is, anything else wrapped as `Signal(content=str(signal))`) and returns the payload of
  the protein (an exception of `express` is the processor's), without error handler, required, with the given factor.
-/
namespace Operon.Cascade

/-- a record of `_results_history` -/
inductive HRec (σ : Type) where
  | seq (r : Result σ)
  | par (r : ParResult σ)

/-- `if len(self._results_history) > 1000: self._results_history = self._results_history[-1000:]` -/
def histCap : Nat := 1000

/-- the newest `n` elements: `l[-n:]` for `n ≥ 1` (everything when `n` exceeds the length) -/
def lastN {α : Type} (n : Nat) (l : List α) : List α := l.drop (l.length - n)

/-- `run`: append, then keep the newest `histCap` records -/
def pushSeq {σ : Type} (h : List (HRec σ)) (r : Result σ) : List (HRec σ) :=
  if (h ++ [HRec.seq r]).length > histCap then lastN histCap (h ++ [HRec.seq r]) else h ++ [HRec.seq r]

/-- `run_parallel`: append only -/
def pushPar {σ : Type} (h : List (HRec σ)) (r : ParResult σ) : List (HRec σ) := h ++ [HRec.par r]

/-- `get_history(limit)`: the slice `history[-limit:]` -/
def getHistory {α : Type} (h : List α) (limit : Int) : List α :=
  if limit > 0 then lastN limit.toNat h
  else if limit = 0 then h
  else h.drop (-limit).toNat

/-- `get_history()` without an argument -/
def histDefault : Int := 100

/-- one call of an entry point on a cascade (configuration and stage list as they are at that moment: public attributes) -/
inductive Call (σ : Type) where
  | run (cfg : Cfg) (stages : List (Stage σ)) (x : σ)
  | prun (stages : List (Stage σ)) (x : σ)

def histStep {σ : Type} (h : List (HRec σ)) : Call σ → List (HRec σ)
  | .run cfg st x => pushSeq h (result cfg st x)
  | .prun st x =>
    match runParallel st x with
    | none => h
    | some r => pushPar h r

/-- the history of a cascade object after a sequence of calls -/
def histAfter {σ : Type} (cs : List (Call σ)) : List (HRec σ) := cs.foldl histStep []

/-- the counters behind `get_statistics()`: `_runs_count`, `_successful_runs`, `_failed_runs` -/
structure Stats where
  runs : Nat
  ok : Nat
  bad : Nat
  deriving Repr, DecidableEq

/-- did the call report success? (a fork of an empty cascade raises: it reports nothing) -/
def callSucceeded {σ : Type} : Call σ → Option Bool
  | .run cfg st x => some (result cfg st x).success
  | .prun st x => (runParallel st x).map (·.success)

/-- every call is counted when it starts; when it has a result, as successful or failed by that result's flag (before
    `on_cascade_complete` is called: counted also when that observer raises) -/
def statsStep {σ : Type} (s : Stats) (c : Call σ) : Stats :=
  match callSucceeded c with
  | none => ⟨s.runs + 1, s.ok, s.bad⟩
  | some true => ⟨s.runs + 1, s.ok + 1, s.bad⟩
  | some false => ⟨s.runs + 1, s.ok, s.bad + 1⟩

def statsAfter {σ : Type} (cs : List (Call σ)) : Stats := cs.foldl statsStep ⟨0, 0, 0⟩

/-- the stage `add_agent_stage` registers: `express` is what the agent does with the (wrapped) signal -/
def agentStage {σ : Type} (cp : Option (σ → Out Bool)) (express : σ → Out σ) (amp : Rat) : Stage σ :=
  ⟨cp, express, none, true, amp⟩

end Operon.Cascade
