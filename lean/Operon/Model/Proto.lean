/-
  Line protocol helpers shared by every driver (core Lean only, no Mathlib).

  A driver reads one operation per line from stdin and prints exactly one observation line per
  input line.  Tokens are separated by single spaces.  Strings travel as dot-separated hex code
  points ("-" is the empty string) so that control characters and surrogates survive.
-/
namespace Operon.Proto

def hexVal (c : Char) : Nat :=
  if '0' ≤ c ∧ c ≤ '9' then c.toNat - '0'.toNat
  else if 'a' ≤ c ∧ c ≤ 'f' then c.toNat - 'a'.toNat + 10
  else if 'A' ≤ c ∧ c ≤ 'F' then c.toNat - 'A'.toNat + 10 else 0

/-- decode "41.42" style: dot-separated hex code points; "-" is the empty string -/
def decodeCps (s : String) : List Nat :=
  if s = "-" then [] else (s.splitOn ".").map fun h => h.foldl (fun acc c => acc * 16 + hexVal c) 0

def hexDigit (n : Nat) : Char :=
  if n < 10 then Char.ofNat ('0'.toNat + n) else Char.ofNat ('a'.toNat + (n - 10))

def toHex (n : Nat) : String :=
  if n < 16 then String.singleton (hexDigit n)
  else
    let rec go (fuel n : Nat) (acc : List Char) : List Char :=
      match fuel with
      | 0 => acc
      | fuel + 1 => if n = 0 then acc else go fuel (n / 16) (hexDigit (n % 16) :: acc)
    String.ofList (go 16 n [])

def encodeCps (cps : List Nat) : String :=
  if cps.isEmpty then "-" else ".".intercalate (cps.map toHex)

def tokens (line : String) : List String :=
  (line.trimAscii.toString.splitOn " ").filter (· ≠ "")

def natD (s : String) (d : Nat := 0) : Nat := s.toNat?.getD d

def intD (s : String) (d : Int := 0) : Int := s.toInt?.getD d

def boolOf (s : String) : Bool := s = "1" || s = "true" || s = "True"

def showBool (b : Bool) : String := if b then "1" else "0"

def showOptNat : Option Nat → String
  | none => "none"
  | some n => toString n

/-- "a/b" or "a" → Rat -/
def ratOf (s : String) : Rat :=
  match s.splitOn "/" with
  | [a, b] => (intD a : Rat) / (natD b 1 : Rat)
  | [a] => (intD a : Rat)
  | _ => 0

def showRat (r : Rat) : String :=
  if r.den = 1 then toString r.num else s!"{r.num}/{r.den}"

def joinSp (xs : List String) : String := " ".intercalate xs

def showList (xs : List String) : String := "[" ++ ",".intercalate xs ++ "]"

/-- Generic read-eval-print loop.  `reset` lines re-initialise the state (one per case). -/
partial def loop {σ : Type} (h : IO.FS.Stream) (out : IO.FS.Stream) (init : σ)
    (step : σ → List String → σ × String) (s : σ) : IO Unit := do
  let line ← h.getLine
  if line.isEmpty then
    out.flush
    return ()
  let toks := tokens line
  match toks with
  | ["reset"] =>
    out.putStrLn "reset"
    loop h out init step init
  | _ =>
    let (s', o) := step s toks
    out.putStrLn o
    loop h out init step s'

def runDriver {σ : Type} (init : σ) (step : σ → List String → σ × String) : IO Unit := do
  let stdin ← IO.getStdin
  let stdout ← IO.getStdout
  loop stdin stdout init step init

end Operon.Proto
