/-
  Model of `operon_ai/organelles/lysosome.py :: Lysosome` (waste queue, digestion, autophagy).

  Part 1 — a small self-contained lock discipline: the *shape* of every method (where it takes and releases
  `self._lock`, which self-methods it calls, where it runs callbacks) is data extracted from the source by E3
  (`Operon/Gen/LysosomeLocks.lean`); here are the semantics of such shapes (finite paths, threads, steps) and the
  decidable check that is proved sound in `Lemmas/C13.lean`.

  Part 2 — the sequential behaviour: queue of items, counters, recycling bin, toxic callback log, a virtual clock,
  digesters as arbitrary functions that return keys or raise, and *ghost* bookkeeping (which ingested item met
  which fate) that the property theorems talk about.

  Not modelled: console output (`silent=False`), the `utilization` float of `get_queue_status`, `priority`,
  `source`, `metadata`; digester results whose truth test (`__bool__` / `__len__`) raises; BaseException.
-/
namespace Operon.Lysosome

/-! ## Part 1 — lock shapes -/

inductive LockKind where
  | lock | rlock | unknown
  deriving Repr, DecidableEq

/-- One instruction of a method shape. `call j`: a direct call of the `j`-th method of the table (executed or
    skipped — calls sit under `if`s). `cb`: a point (possibly inside a loop) where callbacks run: foreign code that
    does not re-enter the object, or one of the object's own table methods. -/
inductive Instr where
  | acq | rel | cb
  | call (j : Nat)
  deriving Repr, DecidableEq

/-- What a path does to the lock. -/
inductive Ev where
  | acq | rel
  deriving Repr, DecidableEq

abbrev Table := List (String × Bool × List Instr)

def Table.body (T : Table) (j : Nat) : List Instr :=
  match T[j]? with
  | some (_, _, b) => b
  | none => []

/-- `Path T cbs body p`: `p` is the lock-event sequence of one finite run through `body`.  Calls may be taken or
    skipped, a callback point runs any finite number of table methods (`cbs`). -/
inductive Path (T : Table) (cbs : List Nat) : List Instr → List Ev → Prop where
  | nil : Path T cbs [] []
  | acq {r p} : Path T cbs r p → Path T cbs (.acq :: r) (.acq :: p)
  | rel {r p} : Path T cbs r p → Path T cbs (.rel :: r) (.rel :: p)
  | callTake {j r p1 p2} : Path T cbs (T.body j) p1 → Path T cbs r p2 → Path T cbs (.call j :: r) (p1 ++ p2)
  | callSkip {j r p} : Path T cbs r p → Path T cbs (.call j :: r) p
  | cbTake {j r p1 p2} : j ∈ cbs → Path T cbs (T.body j) p1 → Path T cbs (.cb :: r) p2 →
      Path T cbs (.cb :: r) (p1 ++ p2)
  | cbDone {r p} : Path T cbs r p → Path T cbs (.cb :: r) p

/-- `Disc reent d p d'`: a thread that holds the lock `d` times can run `p` without ever re-acquiring a
    non-reentrant lock it holds and without releasing a lock it does not hold, and ends holding it `d'` times. -/
def Disc (reent : Bool) : Nat → List Ev → Nat → Prop
  | d, [], d' => d = d'
  | d, .acq :: r, d' => (d = 0 ∨ reent = true) ∧ Disc reent (d + 1) r d'
  | d, .rel :: r, d' => 0 < d ∧ Disc reent (d - 1) r d'

/-- A thread: how often it holds the lock, and the lock events it still has to perform. -/
structure Thr where
  depth : Nat
  prog : List Ev
  deriving Repr, DecidableEq

/-- One scheduler step of a configuration (list of threads, one lock).  `acq` by a thread that does not hold the
    lock needs the lock to be free; `acq` by the holder needs a reentrant lock — otherwise that thread has no step,
    ever (it is stuck forever).  `rel` is always possible for the holder. -/
inductive Step (reent : Bool) : List Thr → List Thr → Prop where
  | acqFree {pre post r} : (∀ u ∈ pre ++ ⟨0, .acq :: r⟩ :: post, u.depth = 0) →
      Step reent (pre ++ ⟨0, .acq :: r⟩ :: post) (pre ++ ⟨1, r⟩ :: post)
  | acqAgain {pre post d r} : 0 < d → reent = true →
      Step reent (pre ++ ⟨d, .acq :: r⟩ :: post) (pre ++ ⟨d + 1, r⟩ :: post)
  | rel {pre post d r} : 0 < d →
      Step reent (pre ++ ⟨d, .rel :: r⟩ :: post) (pre ++ ⟨d - 1, r⟩ :: post)

/-- `n` scheduler steps -/
inductive StepsN (reent : Bool) : Nat → List Thr → List Thr → Prop where
  | refl {c} : StepsN reent 0 c c
  | tail {n a b c} : StepsN reent n a b → Step reent b c → StepsN reent (n + 1) a c

def Final (c : List Thr) : Prop := ∀ t ∈ c, t.prog = []

/-- number of lock events still to be performed by all threads together -/
def measure (c : List Thr) : Nat := (c.map fun t => t.prog.length).sum

/-! ### the decidable check of extracted shapes -/

/-- method `j` never touches the lock (within `f` levels of calls) -/
def freeF (T : Table) : Nat → Nat → Bool
  | 0, _ => false
  | f + 1, j => (T.body j).all fun i =>
      match i with
      | .acq => false
      | .rel => false
      | .cb => true
      | .call k => freeF T f k

/-- abstract run of a body from depth `d`; `none` = the discipline may be broken -/
def chkBody (reent : Bool) (free ok : Nat → Bool) : Nat → List Instr → Option Nat
  | d, [] => some d
  | d, .acq :: r => if d = 0 ∨ reent = true then chkBody reent free ok (d + 1) r else none
  | d, .rel :: r => if 0 < d then chkBody reent free ok (d - 1) r else none
  | d, .cb :: r => chkBody reent free ok d r
  | d, .call k :: r =>
    if free k = true ∨ ((d = 0 ∨ reent = true) ∧ ok k = true) then chkBody reent free ok d r else none

/-- every path through method `j` started without the lock is disciplined and ends without the lock -/
def okF (reent : Bool) (T : Table) : Nat → Nat → Bool
  | 0, _ => false
  | f + 1, j => chkBody reent (freeF T f) (okF reent T f) 0 (T.body j) == some 0

/-! ### finding a concrete path (used for witnesses and non-vacuity examples, independent of method order) -/

/-- all ways to run `body` consuming a prefix of `evs` (callbacks skipped, calls taken through `callee` or skipped):
    the list of what is left of `evs` -/
def matchBody (callee : Nat → List Ev → List (List Ev)) : List Instr → List Ev → List (List Ev)
  | [], evs => [evs]
  | .acq :: r, evs =>
    match evs with
    | .acq :: e => matchBody callee r e
    | _ => []
  | .rel :: r, evs =>
    match evs with
    | .rel :: e => matchBody callee r e
    | _ => []
  | .cb :: r, evs => matchBody callee r evs
  | .call j :: r, evs => matchBody callee r evs ++ (callee j evs).flatMap (matchBody callee r)

def matchF (T : Table) : Nat → Nat → List Ev → List (List Ev)
  | 0, _, _ => []
  | f + 1, j, evs => matchBody (matchF T f) (T.body j) evs

/-- index of the method called `name` (the table's length if there is none) -/
def Table.idx (T : Table) (name : String) : Nat := T.findIdx (fun m => m.1 == name)

/-- `evs` is the lock-event sequence of some path through the method called `name` -/
def hasPath (T : Table) (name : String) (evs : List Ev) : Bool := (matchF T (T.length + 1) (T.idx name) evs).contains []

def reentOf : LockKind → Option Bool
  | .lock => some false
  | .rlock => some true
  | .unknown => none

/-- The whole extracted shape passes: the lock kind is known, every table method (what a callback point may run)
    is lock-free and every method is disciplined. -/
def shapesOk (kind : LockKind) (T : Table) (cbs : List Nat) : Bool :=
  match reentOf kind with
  | none => false
  | some reent =>
    cbs.all (fun j => freeF T T.length j) && (List.range T.length).all (fun j => okF reent T (T.length + 1) j)

/-! ## Part 2 — sequential behaviour -/

inductive WType where
  | misfolded | expired | failedOp | orphaned | toxic
  deriving Repr, DecidableEq

/-- what a digester did with an item: returned something `dict.update` can merge (a dict, a list / tuple / iterator
    of pairs, a mapping object: its keys; `[]` stands for the falsy results `{}`, `None`, `0`, `""`, `[]`, `()`), raised,
    or returned normally a TRUTHY value that `recycled.update(result)` cannot merge (a non-mapping such as an int or a
    string, a list with a malformed pair, a generator that raises part-way): `keys` are what went into the call's
    `recycled` dict before the merge failed -/
inductive Out where
  | ret (keys : List Nat)
  | raise
  | bad (keys : List Nat)
  deriving Repr, DecidableEq

structure Item where
  id : Nat          -- caller's identifier (may repeat)
  ty : WType
  created : Int     -- `created_at` in µs on the model's clock (callers may pass any datetime: far past is negative)
  tz : Bool         -- `created_at` is timezone-aware (legal for the dataclass; cannot be compared with `now()`)
  content : Nat     -- opaque content code; digesters may depend on it
  seq : Nat         -- ghost: how many items were ingested before this one
  deriving Repr, DecidableEq

/-- what the caller put into `Waste.created_at` -/
inductive Stamp where
  | now                 -- the default: the clock at creation
  | at (us : Int)       -- an explicit naive datetime
  | aware               -- a timezone-aware datetime (of the current instant)
  deriving Repr, DecidableEq

structure Cfg where
  maxQ : Nat
  autoThr : Nat
  retention : Int                       -- µs; may be negative
  reent : Bool                          -- the lock is an RLock
  dig : Item → Out                      -- the digester table on the four non-toxic types (custom or built-in)
  toxDig : Option (Item → Out)          -- a custom digester registered for TOXIC_BYPRODUCT, if any
  onToxic : Option (Item → Bool)        -- the `on_toxic` callback: `true` = returns, `false` = raises

/-- Python `dict.__setitem__` on an insertion-ordered association list -/
def dictSet {α : Type} (d : List (Nat × α)) (kv : Nat × α) : List (Nat × α) :=
  if d.any (fun e => e.1 == kv.1) then d.map (fun e => if e.1 == kv.1 then kv else e) else d ++ [kv]

def dictUpdate {α : Type} (d : List (Nat × α)) (kvs : List (Nat × α)) : List (Nat × α) := kvs.foldl dictSet d

structure State where
  queue : List Item := []
  clock : Nat := 0
  digested : Nat := 0                   -- _total_digested
  recycled : Nat := 0                   -- _total_recycled
  bin : List (Nat × Item) := []         -- _recycling_bin: key ↦ (ghost) the item it was extracted from
  dead : Bool := false                  -- a call hung; the object is abandoned
  -- observation accumulators
  toxicLog : List Item := []            -- items handed to `on_toxic`, in call order
  reported : Nat := 0                   -- Σ len(DigestResult.errors) returned by digest() calls
  autoLogged : Nat := 0                 -- warnings logged by _auto_digest
  emLogged : Nat := 0                   -- warnings logged by _emergency_digest
  expiredRet : Nat := 0                 -- Σ autophagy() return values
  -- ghost
  items : List Item := []               -- everything ever ingested, in order (`_total_ingested` = its length)
  gDigested : List Item := []           -- counted in _total_digested
  gErrored : List Item := []            -- digester raised: reported in a DigestResult or logged by _auto_digest
  gEmDropped : List Item := []          -- digester raised during the emergency digest: logged there
  gExpired : List Item := []            -- removed by autophagy
  gPending : List (Nat × Item) := []    -- popped by the digest call of thread `tid`, its loop has not reached it yet
                                        -- (only the concurrent semantics below ever puts anything here)

def State.ingested (s : State) : Nat := s.items.length

/-- One digester invocation: outcome, and whether `on_toxic` was called. -/
def digestOne (cfg : Cfg) (it : Item) : Out × Bool :=
  if it.ty = .toxic then
    match cfg.toxDig with
    | some d => (d it, false)
    | none =>
      match cfg.onToxic with
      | none => (.ret [], false)
      | some f => if f it then (.ret [], true) else (.raise, true)
  else (cfg.dig it, false)

/-- `digest`'s loop counts the item as digested: the digester returned and its result was merged (`disposed += 1`,
    `_total_digested += 1` come after `recycled.update(result)` inside the same `try`) -/
def succeeds (cfg : Cfg) (it : Item) : Bool :=
  match (digestOne cfg it).1 with
  | .ret _ => true
  | .raise => false
  | .bad _ => false

/-- `_emergency_digest` counts the item as digested: the digester returned (its result is discarded there, so it does
    not matter whether it could have been merged) -/
def succeedsEm (cfg : Cfg) (it : Item) : Bool :=
  match (digestOne cfg it).1 with
  | .ret _ => true
  | .raise => false
  | .bad _ => true

/-- the keys that reach the `recycled` dict of a `digest` call: all of them, or the ones merged before the merge of an
    unmergeable result failed -/
def keysOf (cfg : Cfg) (it : Item) : List Nat :=
  match (digestOne cfg it).1 with
  | .ret ks => ks
  | .raise => []
  | .bad ks => ks

def callsToxic (cfg : Cfg) (it : Item) : Bool := (digestOne cfg it).2

/-- `queue[:max_items] if max_items else queue[:]` — how many items that slice holds -/
def sliceCount (len : Nat) : Option Int → Nat
  | none => len
  | some k => if k = 0 then len else if 0 < k then min k.toNat len else len - (-k).toNat

structure DigestRes where
  disposed : Nat
  errors : Nat
  recycledKeys : List (Nat × Item)

/-- The body of `digest` for the first `n` queued items: pop them under the lock, run the digesters, update counters
    and the bin (the keys an unmergeable result left in `recycled` before its merge failed go to the bin with the rest,
    although the item is reported as an error).  `viaAuto` says who sees the errors: the caller (`reported`) or the log (`autoLogged`). -/
def digestCore (cfg : Cfg) (s : State) (n : Nat) (viaAuto : Bool) : State × DigestRes :=
  let items := s.queue.take n
  let oks := items.filter (succeeds cfg)
  let errs := items.filter (fun it => !succeeds cfg it)
  let recy := dictUpdate [] (items.flatMap fun it => (keysOf cfg it).map fun k => (k, it))
  ({ queue := s.queue.drop n
     clock := s.clock
     digested := s.digested + oks.length
     recycled := s.recycled + (oks.filter fun it => !(keysOf cfg it).isEmpty).length
     bin := dictUpdate s.bin recy
     dead := s.dead
     toxicLog := s.toxicLog ++ items.filter (callsToxic cfg)
     reported := if viaAuto then s.reported else s.reported + errs.length
     autoLogged := if viaAuto then s.autoLogged + errs.length else s.autoLogged
     emLogged := s.emLogged
     expiredRet := s.expiredRet
     items := s.items
     gDigested := s.gDigested ++ oks
     gErrored := s.gErrored ++ errs
     gEmDropped := s.gEmDropped
     gExpired := s.gExpired
     gPending := s.gPending },
   ⟨oks.length, errs.length, recy⟩)

/-- `_emergency_digest`: the oldest half, results discarded (never merged, never tested), failures only logged. -/
def emergency (cfg : Cfg) (s : State) : State :=
  let n := s.queue.length / 2
  if n = 0 then s
  else
    let items := s.queue.take n
    let oks := items.filter (succeedsEm cfg)
    let errs := items.filter (fun it => !succeedsEm cfg it)
    { queue := s.queue.drop n
      clock := s.clock
      digested := s.digested + oks.length
      recycled := s.recycled
      bin := s.bin
      dead := s.dead
      toxicLog := s.toxicLog ++ items.filter (callsToxic cfg)
      reported := s.reported
      autoLogged := s.autoLogged
      emLogged := s.emLogged + errs.length
      expiredRet := s.expiredRet
      items := s.items
      gDigested := s.gDigested ++ oks
      gErrored := s.gErrored
      gEmDropped := s.gEmDropped ++ errs
      gExpired := s.gExpired
      gPending := s.gPending }

/-- the part of `ingest` before the auto-digest test -/
def enqueue (cfg : Cfg) (s : State) (id : Nat) (ty : WType) (content : Nat) (st : Stamp) : State :=
  let s1 := if s.queue.length ≥ cfg.maxQ then emergency cfg s else s
  let it : Item := ⟨id, ty, (match st with | .at us => us | _ => (s1.clock : Int)), st = .aware, content, s1.items.length⟩
  { s1 with queue := s1.queue ++ [it], items := s1.items ++ [it] }

inductive Obs where
  | ok
  | hang
  | dead
  | digest (r : DigestRes)
  | removed (n : Nat)
  | raised              -- the call raised an exception to its caller (control returns; the lock is released)

/-- `ingest`: emergency digest at capacity, append, auto-digest at the threshold.  `_auto_digest` calls `digest`
    while `ingest` still holds the lock: with a non-reentrant lock that call never returns. -/
def ingest (cfg : Cfg) (s : State) (id : Nat) (ty : WType) (content : Nat) (st : Stamp) : State × Obs :=
  let s2 := enqueue cfg s id ty content st
  if s2.queue.length ≥ cfg.autoThr then
    if cfg.reent then
      ((digestCore cfg s2 (sliceCount s2.queue.length (some ((s2.queue.length / 2 : Nat) : Int))) true).1, .ok)
    else ({ s2 with dead := true }, .hang)
  else (s2, .ok)

def digest (cfg : Cfg) (s : State) (k : Option Int) : State × Obs :=
  let r := digestCore cfg s (sliceCount s.queue.length k) false
  (r.1, .digest r.2)

def keeps (cfg : Cfg) (now : Nat) (it : Item) : Bool := decide (((now : Int) - it.created) < cfg.retention)

/-- `autophagy`: `now - w.created_at` raises TypeError on a timezone-aware `created_at` (naive `now`): the list
    comprehension is abandoned before `_queue` is assigned, the `with` block releases the lock, nothing changed. -/
def autophagy (cfg : Cfg) (s : State) : State × Obs :=
  if s.queue.any (·.tz) then (s, .raised) else
  let kept := s.queue.filter (keeps cfg s.clock)
  let gone := s.queue.filter (fun it => !keeps cfg s.clock it)
  ({ s with queue := kept, expiredRet := s.expiredRet + gone.length, gExpired := s.gExpired ++ gone },
   .removed gone.length)

inductive Op where
  | ingest (id : Nat) (ty : WType) (content : Nat) (st : Stamp)
  | digest (k : Option Int)
  | autophagy
  | advance (us : Nat)
  | clearBin
  deriving Repr, DecidableEq

def step (cfg : Cfg) (s : State) (op : Op) : State × Obs :=
  if s.dead then (s, .dead)
  else
    match op with
    | .ingest id ty c st => ingest cfg s id ty c st
    | .digest k => digest cfg s k
    | .autophagy => autophagy cfg s
    | .advance us => ({ s with clock := s.clock + us }, .ok)
    | .clearBin => ({ s with bin := [] }, .ok)

def run (cfg : Cfg) : State → List Op → State
  | s, [] => s
  | s, op :: ops => run cfg (step cfg s op).1 ops

def init : State := {}

/-! ### the same object used by several threads, at the level of its atomic actions

  `ingest` runs entirely under the (re-entrant) lock, `autophagy`'s queue update too; `digest` is *two* kinds of
  action: the pop under the lock, then one loop iteration per popped item outside the lock (a digester call and
  single-line counter updates), interleaved arbitrarily with the actions of other threads.  (E3 checks the facts this
  rests on: `_queue` is only written under the lock; outside it only the two counters and the bin are written.)
  Simplifications: an error is counted as reported when its iteration runs (really: when the call returns the
  `DigestResult`), and keys go to the bin per item (really: via the call-local dict when the call ends). -/

inductive Act where
  | op (o : Op)                         -- ingest / autophagy / clock / clear bin / a whole uninterrupted digest
  | pop (tid : Nat) (k : Option Int)    -- locked region of `digest(k)` called by thread `tid`
  | iter (tid : Nat)                    -- next loop iteration of thread `tid`'s running digest call
  deriving Repr, DecidableEq

/-- first pending item of thread `tid`, and the pending list without it -/
def takeFirst (tid : Nat) : List (Nat × Item) → Option (Item × List (Nat × Item))
  | [] => none
  | (t, it) :: r =>
    if t = tid then some (it, r)
    else match takeFirst tid r with
      | none => none
      | some (x, r') => some (x, (t, it) :: r')

/-- one iteration of `digest`'s loop on item `it` -/
def iterItem (cfg : Cfg) (s : State) (it : Item) (rest : List (Nat × Item)) : State :=
  if succeeds cfg it then
    { queue := s.queue, clock := s.clock, digested := s.digested + 1
      recycled := if (keysOf cfg it).isEmpty then s.recycled else s.recycled + 1
      bin := dictUpdate s.bin ((keysOf cfg it).map fun k => (k, it)), dead := s.dead
      toxicLog := if callsToxic cfg it then s.toxicLog ++ [it] else s.toxicLog
      reported := s.reported, autoLogged := s.autoLogged, emLogged := s.emLogged, expiredRet := s.expiredRet
      items := s.items, gDigested := s.gDigested ++ [it], gErrored := s.gErrored, gEmDropped := s.gEmDropped
      gExpired := s.gExpired, gPending := rest }
  else
    { queue := s.queue, clock := s.clock, digested := s.digested, recycled := s.recycled
      bin := dictUpdate s.bin ((keysOf cfg it).map fun k => (k, it)), dead := s.dead
      toxicLog := if callsToxic cfg it then s.toxicLog ++ [it] else s.toxicLog
      reported := s.reported + 1, autoLogged := s.autoLogged, emLogged := s.emLogged, expiredRet := s.expiredRet
      items := s.items, gDigested := s.gDigested, gErrored := s.gErrored ++ [it], gEmDropped := s.gEmDropped
      gExpired := s.gExpired, gPending := rest }

def act (cfg : Cfg) (s : State) : Act → State
  | .op o => (step cfg s o).1
  | .pop tid k =>
    let n := sliceCount s.queue.length k
    { s with queue := s.queue.drop n, gPending := s.gPending ++ (s.queue.take n).map fun it => (tid, it) }
  | .iter tid =>
    match takeFirst tid s.gPending with
    | none => s
    | some (it, rest) => iterItem cfg s it rest

def runActs (cfg : Cfg) : State → List Act → State
  | s, [] => s
  | s, a :: as => runActs cfg (act cfg s a) as

/-! ### built-in digesters (what the table holds when the caller registers nothing) — keys as codes:
    1 = last_failed_input, 2 = last_parse_error, 3 = last_failure_context, 1000+c = error_count_<E c> -/
def builtinDig (it : Item) : Out :=
  match it.ty with
  | .misfolded =>
    match it.content with
    | 1 => .ret [1]
    | 2 => .ret [2]
    | 3 => .ret [1, 2]
    | 4 => .raise          -- `raw_input` is not sliceable (an int): `content['raw_input'][:200]` raises TypeError
    | 5 => .raise          -- `raw_input` is None
    | _ => .ret []
  | .failedOp => if it.content = 0 then .ret [] else .ret [1000 + it.content, 3]
  | _ => .ret []

end Operon.Lysosome
