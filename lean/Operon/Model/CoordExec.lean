import Operon.Model.CoordDfs
/-
  `CoordinationSystem.execute_operation`.

  The adversary fixes: the outcome of every checkpoint evaluation (one per `advance` call, four at most),
  what each callback — the four checkpoint conditions, the work function, `validate_fn` — does to the system from
  inside before it answers (nothing / manual kill of some operation / shutdown / watchdog run / maintenance run,
  after some virtual time), whether the work function then returns or raises, and what `validate_fn` answers.
  Whether the k-th acquisition is blocked is decided by the state of the system, not by the adversary.
-/
namespace Operon.Coord

inductive WorkAct where
  | none
  | kill (target : Nat)
  | shutdown
  | watchdog
  | maint
  deriving DecidableEq, Repr

inductive ValOut where
  | absent | yes | no | raise
  deriving DecidableEq, Repr

structure Adv where
  cp : Nat → CpOut
  tick : Nat := 0         -- virtual time that passes inside the work function before it acts
  act : WorkAct
  workOk : Bool
  resultNone : Bool := false   -- the work function returned exactly `None` (only the cell's `output` shows it)
  val : ValOut
  /-- what the i-th checkpoint callback does to the system before it answers (a manual kill, a shutdown, a watchdog
      or maintenance run fired from inside the condition), after `cpTick i` of virtual time -/
  cpAct : Nat → WorkAct := fun _ => .none
  cpTick : Nat → Nat := fun _ => 0
  /-- the same for `validate_fn` -/
  valAct : WorkAct := .none
  valTick : Nat := 0

/-- what happened, in order -/
inductive Ev where
  | cp (i : Nat) (passed : Bool)
  | acq (r : Nat) (res : Option LockResult)
  | work (ok : Bool)
  | validate (ok : Bool)
  | complete
  | abort
  deriving DecidableEq, Repr

structure ExecRes where
  sys : Sys
  success : Bool
  phase : Phase
  log : List Ev
  atWork : Option Sys      -- the system as the work function found it

def applyAct (s : Sys) : WorkAct → Sys
  | .none => s
  | .kill t => manualKill s t
  | .shutdown => shutdown s
  | .watchdog => (wdExecute s).1
  | .maint => (maintenance s).1

/-- the context object after code running inside a callback may have aborted the operation: still the shared
    object when listed; what `abort_operation` left of it when it was listed before and is not any more; untouched
    when it was not listed to begin with (an operation ended earlier, from inside one of its own callbacks, goes on
    with a context nobody else can reach) -/
def refetch (before after : Sys) (c : Ctx) : Ctx :=
  match after.ctx? c.id with
  | some c' => c'
  | none =>
    match before.ctx? c.id with
    | none => c
    | some _ =>
      { c with phase := .g0, phaseAt := before.now
               acquired := c.acquired.filter fun r =>
                 match before.locks r with
                 | some l => l.owner ≠ some c.id
                 | none => true }

/-- a callback acts before it answers: virtual time passes, the act happens, the context is re-read -/
def cbAct (s : Sys) (c : Ctx) (a : WorkAct) (tick : Nat) : Sys × Ctx :=
  (applyAct { s with now := s.now + tick } a,
   refetch { s with now := s.now + tick } (applyAct { s with now := s.now + tick } a) c)

/-- `controller.advance(ctx)` with the i-th checkpoint callback: `advance` reads the phase first, then evaluates the
    condition (which may act on the system — also end this very operation, which resets the context to G0 —
    before it answers), and on PASSED enters the successor of the phase it read -/
def advanceCb (s : Sys) (c : Ctx) (adv : Adv) (i : Nat) : Sys × Ctx × Bool :=
  let p := cbAct s c (adv.cpAct i) (adv.cpTick i)
  let r := advance p.1.now { p.2 with phase := c.phase } (adv.cp i)
  if r.2 then (p.1.setCtx r.1, r.1, true) else (p.1, p.2, false)

/-- the acquisition loop of G1: stops at the first BLOCKED (ResourceError) or unknown id (ValueError) -/
def acqLoop : List Nat → Sys → Ctx → Sys × Ctx × List Ev × Bool
  | [], s, c => (s, c, [], true)
  | r :: rs, s, c =>
    match acquire s c r with
    | (s', c', none) => (s', c', [.acq r none], false)
    | (s', c', some .blocked) => (s', c', [.acq r (some .blocked)], false)
    | (s', c', some res) =>
      let q := acqLoop rs s' c'
      (q.1, q.2.1, .acq r (some res) :: q.2.2.1, q.2.2.2)

def failWith (s : Sys) (c : Ctx) (log : List Ev) (atWork : Option Sys) : ExecRes :=
  let f := finish s c
  { sys := f.1, success := false, phase := f.2.phase, log := log ++ [.abort], atWork := atWork }

/-- G2 → M and commit -/
def execCommit (s : Sys) (c : Ctx) (adv : Adv) (log : List Ev) (atWork : Option Sys) : ExecRes :=
  let c1 := { c with valPassed := true }
  let a := advanceCb (s.setCtx c1) c1 adv 3
  if a.2.2 then
    { sys := (finish a.1 a.2.1).1, success := true, phase := .m, log := log ++ [.cp 3 true, .complete], atWork := atWork }
  else failWith a.1 a.2.1 (log ++ [.cp 3 false]) atWork

/-- S → G2 and validation -/
def execValidate (s : Sys) (c : Ctx) (adv : Adv) (log : List Ev) (atWork : Option Sys) : ExecRes :=
  let a := advanceCb s c adv 2
  if a.2.2 then
    let p := cbAct a.1 a.2.1 adv.valAct adv.valTick
    match adv.val with
    | .absent => execCommit a.1 a.2.1 adv (log ++ [.cp 2 true]) atWork
    | .yes => execCommit p.1 p.2 adv (log ++ [.cp 2 true, .validate true]) atWork
    | .no => failWith p.1 p.2 (log ++ [.cp 2 true, .validate false]) atWork
    | .raise => failWith p.1 p.2 (log ++ [.cp 2 true, .validate false]) atWork
  else failWith a.1 a.2.1 (log ++ [.cp 2 false]) atWork

/-- the S phase: run the work function (and whatever it does to the system) -/
def execWork (s : Sys) (c : Ctx) (adv : Adv) (log : List Ev) : ExecRes :=
  let p := cbAct s c adv.act adv.tick
  if adv.workOk then
    let c2 := { p.2 with execDone := true }
    execValidate (p.1.setCtx c2) c2 adv (log ++ [.work true]) (some s)
  else failWith p.1 p.2 (log ++ [.work false]) (some s)

/-- `CoordinationSystem.execute_operation` -/
def exec (s : Sys) (op : Nat) (prio : Int) (req : List Nat) (adv : Adv) : ExecRes :=
  let st := s.start op prio
  let a0 := advanceCb st.1 st.2 adv 0          -- result ignored by the code
  let q := acqLoop req a0.1 a0.2.1
  let log0 := Ev.cp 0 a0.2.2 :: q.2.2.1
  if q.2.2.2 then
    let c1 := { q.2.1 with resAcq := true }
    let a1 := advanceCb (q.1.setCtx c1) c1 adv 1
    if a1.2.2 then
      -- the operation is looked at once more before the work function runs: when it has been ended on the way here
      -- (a kill, a shutdown, a watchdog or maintenance run fired from inside one of the two checkpoint callbacks) what it
      -- had acquired is released, and the call fails without running the work (`active_operations.get(id) is not ctx`)
      if (a1.1.ctx? op).isSome then execWork a1.1 a1.2.1 adv (log0 ++ [.cp 1 true])
      else failWith a1.1 a1.2.1 (log0 ++ [.cp 1 true]) none
    else failWith a1.1 a1.2.1 (log0 ++ [.cp 1 false]) none
  else failWith q.1 q.2.1 log0 none

/-! ### one layer up: `IntegratedCell.execute` (operon_ai/cell.py)

The cell calls `coordination.execute_operation`, returns a failure blocked by "coordination" when the coordinated
operation did not succeed, and otherwise tags the output (quality pool), records an observation and runs the
proteasome; any exception on that path is caught and turned into a failure without a blocker.  The quality /
surveillance machinery is environment here: it returns with a tag, returns without one (pool exhausted), or
raises.  The agent-operation tracking entry is always removed (`finally`). -/

inductive PostOut where
  | ok | noTag | raise
  deriving DecidableEq, Repr

structure CellRes where
  sys : Sys
  success : Bool
  blockedByCoordination : Bool
  hasOutput : Bool
  coordAttached : Bool        -- `coordination_result` is set on the returned object
  tracked : Bool              -- agent still listed in `agent_operations` afterwards
  coord : ExecRes

/-- `IntegratedCell.execute` -/
def cellExecute (s : Sys) (op : Nat) (prio : Int) (req : List Nat) (adv : Adv) (post : PostOut) : CellRes :=
  let r := exec s op prio req adv
  if r.success then
    match post with
    | .raise =>
      { sys := r.sys, success := false, blockedByCoordination := false, hasOutput := false, coordAttached := false
        tracked := false, coord := r }
    | _ =>
      { sys := r.sys, success := true, blockedByCoordination := false, hasOutput := !adv.resultNone, coordAttached := true
        tracked := false, coord := r }
  else
    { sys := r.sys, success := false, blockedByCoordination := true, hasOutput := false, coordAttached := true
      tracked := false, coord := r }

end Operon.Coord
