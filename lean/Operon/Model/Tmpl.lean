import Operon.Model.Ribosome
/-
  C12 — token-level model and specification.

  * `Tok`: the constructs of the documented grammar as tokens; `lex` (one left-to-right tokenizer built from
    the string layer's own tag matchers) and `printToks`.
  * `renderTok`: the implementation's four passes as token-list transformers.  Whatever a pass splices in
    (bound value, loop item, default, filter result, marker) is re-lexed (`lexVal`), exactly because the
    next regex pass of the implementation scans it again.
  * `Tmpl`/`Seg`: the grammar AST (non-nested blocks), `flatten`, `parse`.
  * `specToks`/`renderSpec`: ONE left-to-right expansion; values are spliced as inert `Tok.val` pieces.

  The theorems of `Props/C12.lean` are about this file; the driver runs it next to the string layer on
  every case and reports differences.
-/
namespace Operon.Tmpl
open Operon.Ribosome

inductive Tok where
  | text (s : Str)            -- template text
  | val (s : Str)             -- text that entered through a value / item / default / filter result
  | var (n : Str)             -- {{n}}
  | dot                       -- {{.}}
  | opt (n : Str)             -- {{?n}}
  | pipe (n a : Str)          -- {{n|a}}   (filter or default)
  | ifO (ws n : Str)          -- {{#if n}}
  | els                       -- {{#else}}
  | ifC                       -- {{/if}}
  | eachO (ws n : Str)        -- {{#each n}}
  | eachC                     -- {{/each}}
  | inc (n : Str)             -- {{>n}}
deriving DecidableEq, Repr

def Tok.print : Tok → Str
  | .text s => s
  | .val s => s
  | .var n => tagOf n
  | .dot => tagOf kDot
  | .opt n => OPTH ++ n ++ RR
  | .pipe n a => pipeTag n a
  | .ifO ws n => IFH ++ ws ++ n ++ RR
  | .els => ELSE
  | .ifC => ENDIF
  | .eachO ws n => EACHH ++ ws ++ n ++ RR
  | .eachC => ENDEACH
  | .inc n => INCH ++ n ++ RR

def printToks (ts : List Tok) : Str := ts.flatMap Tok.print

/-! ### lexer -/

def lexTag (cfg : Cfg) (s : Str) : Option (Tok × Str) :=
  match matchHead cfg IFH s with
  | some (ws, n, r) => some (.ifO ws n, r)
  | none =>
  match stripPrefix ELSE s with
  | some r => some (.els, r)
  | none =>
  match stripPrefix ENDIF s with
  | some r => some (.ifC, r)
  | none =>
  match matchHead cfg EACHH s with
  | some (ws, n, r) => some (.eachO ws n, r)
  | none =>
  match stripPrefix ENDEACH s with
  | some r => some (.eachC, r)
  | none =>
  match matchWordTag cfg INCH s with
  | some (n, r) => some (.inc n, r)
  | none =>
  match matchWordTag cfg OPTH s with
  | some (n, r) => some (.opt n, r)
  | none =>
  match matchDefault cfg s with
  | some ((n, a), r) => some (.pipe n a, r)
  | none =>
  match matchWordTag cfg LL s with
  | some (n, r) => some (.var n, r)
  | none =>
  match stripPrefix (tagOf kDot) s with
  | some r => some (.dot, r)
  | none => none

def coalesce : List (Sum Nat Tok) → List Tok
  | [] => []
  | .inr t :: r => t :: coalesce r
  | .inl c :: r =>
    match coalesce r with
    | .text s :: r' => .text (c :: s) :: r'
    | r' => .text [c] :: r'

def lex (cfg : Cfg) (s : Str) : List Tok := coalesce (scanStr (lexTag cfg) s)

def toVal : Tok → Tok
  | .text s => .val s
  | t => t

/-- what a later pass sees of a spliced-in text: it is scanned again (an empty text leaves an empty, invisible
    piece so that every splice is accounted for) -/
def lexVal (cfg : Cfg) (s : Str) : List Tok := if s = [] then [.val []] else (lex cfg s).map toVal

/-! ### the passes on tokens -/

inductive CSt where
  | out
  | thn (ws n : Str) (acc : List Tok)
  | els (ws n : Str) (t acc : List Tok)

/-- conditionals: the lazy regex as a left-to-right state machine (an unclosed head is left as it is) -/
def condGo (ctx : Ctx) : CSt → List Tok → List Tok
  | .out, [] => []
  | .out, .ifO ws n :: r => condGo ctx (.thn ws n []) r
  | .out, t :: r => t :: condGo ctx .out r
  | .thn ws n acc, [] => .ifO ws n :: acc
  | .thn _ n acc, .ifC :: r => (if truthyOf ctx n then acc else []) ++ condGo ctx .out r
  | .thn ws n acc, .els :: r => condGo ctx (.els ws n acc []) r
  | .thn ws n acc, t :: r => condGo ctx (.thn ws n (acc ++ [t])) r
  | .els ws n t acc, [] => .ifO ws n :: t ++ .els :: acc
  | .els _ n t acc, .ifC :: r => (if truthyOf ctx n then t else acc) ++ condGo ctx .out r
  | .els ws n t acc, x :: r => condGo ctx (.els ws n t (acc ++ [x])) r

def condPass (ctx : Ctx) (ts : List Tok) : List Tok := condGo ctx .out ts

/-- does `str.replace("{{key}}", …)` hit this token? -/
def keyMatches (k : Str) : Tok → Bool
  | .var n => n == k
  | .dot => k == kDot
  | _ => false

/-- loop body instantiation: sequential replacement over the loop-context keys, re-lexing what is inserted -/
def substTok (cfg : Cfg) (kvs : List (Str × Str)) (body : List Tok) : List Tok :=
  kvs.foldl (fun b p => b.flatMap (fun t => if keyMatches p.1 t then lexVal cfg p.2 else [t])) body

def expandItemsTok (cfg : Cfg) (len : Nat) (body : List Tok) : Nat → List Item → List Tok
  | _, [] => []
  | i, it :: r => substTok cfg (loopCtx i len it) body ++ expandItemsTok cfg len body (i + 1) r

def loopReplTok (cfg : Cfg) (ctx : Ctx) (n : Str) (body : List Tok) : List Tok :=
  match lookup n ctx with
  | none => []
  | some v =>
    match v.items with
    | none => []
    | some its => expandItemsTok cfg its.length body 0 its

inductive LSt where
  | out
  | body (ws n : Str) (acc : List Tok)

def loopGo (cfg : Cfg) (ctx : Ctx) : LSt → List Tok → List Tok
  | .out, [] => []
  | .out, .eachO ws n :: r => loopGo cfg ctx (.body ws n []) r
  | .out, t :: r => t :: loopGo cfg ctx .out r
  | .body ws n acc, [] => .eachO ws n :: acc
  | .body _ n acc, .eachC :: r => loopReplTok cfg ctx n acc ++ loopGo cfg ctx .out r
  | .body ws n acc, t :: r => loopGo cfg ctx (.body ws n (acc ++ [t])) r

def loopPass (cfg : Cfg) (ctx : Ctx) (ts : List Tok) : List Tok := loopGo cfg ctx .out ts

/-- `flatMap` with a function that may raise: left to right, first error wins -/
def flatMapM {ε α β : Type} (f : α → Except ε (List β)) : List α → Except ε (List β)
  | [] => .ok []
  | a :: r =>
    match f a with
    | .error e => .error e
    | .ok x =>
      match flatMapM f r with
      | .error e => .error e
      | .ok y => .ok (x ++ y)

def isWordStr (cfg : Cfg) (a : Str) : Bool := !a.isEmpty && a.all cfg.isWord

/-- sub-pass 1 on one token -/
def tokA (cfg : Cfg) (ctx : Ctx) : Tok → Except Err (List Tok)
  | .pipe n a =>
    if isWordStr cfg a then
      if isBound ctx n then
        if cfg.filters.contains a then
          match cfg.applyF a n with
          | .ok r => .ok (lexVal cfg r)
          | .raise c => .error (.other c)
        else .ok (lexVal cfg (textOf ctx n))
      else .ok [.pipe n a]
    else .ok [.pipe n a]
  | t => .ok [t]

def warnA (cfg : Cfg) (ctx : Ctx) : Tok → List Str
  | .pipe n a => if isWordStr cfg a && isBound ctx n && !cfg.filters.contains a then [a] else []
  | _ => []

def isPipe : Tok → Bool
  | .pipe _ _ => true
  | _ => false

/-- the replacement sub-pass 2 makes for one snapshot match -/
def replB (cfg : Cfg) (ctx : Ctx) (m : Tok) (cur : List Tok) : List Tok :=
  match m with
  | .pipe n a =>
    if cfg.filters.contains a then cur
    else cur.flatMap (fun t => if t = .pipe n a then lexVal cfg (if isBound ctx n then textOf ctx n else a) else [t])
  | _ => cur

/-- sub-pass 2: matches on a snapshot, each replaced everywhere in the current token list -/
def passB (cfg : Cfg) (ctx : Ctx) (ts : List Tok) : List Tok :=
  (ts.filter isPipe).foldl (fun cur m => replB cfg ctx m cur) ts

def tokC (cfg : Cfg) (ctx : Ctx) : Tok → List Tok
  | .opt n => lexVal cfg (textOf ctx n)
  | t => [t]

def tokD (cfg : Cfg) (ctx : Ctx) : Tok → List Tok
  | .var n => if isBound ctx n then lexVal cfg (textOf ctx n) else [.var n]
  | t => [t]

def warnD (ctx : Ctx) : Tok → List Str
  | .var n => if isBound ctx n then [] else [n]
  | _ => []

def varNames : List Tok → List Str
  | [] => []
  | .var n :: r => n :: varNames r
  | _ :: r => varNames r

def markerToks (cfg : Cfg) (n : Str) : List Tok := lex cfg (cfg.markerPre ++ n ++ cfg.markerSuf)

abbrev Reg := List (Str × List Tok)

/-- the include pass on one token; `rec` renders a registered template -/
def incTok (cfg : Cfg) (reg : Reg) (rec : List Tok → Except Err (List Tok × List Str)) : Tok → Except Err (List Tok)
  | .inc n =>
    match lookup n reg with
    | some body =>
      (match rec body with
       | .ok (x, _) => .ok x
       | .error e => .error e)
    | none => .ok (markerToks cfg n)
  | t => .ok [t]

/-- `translate` on tokens: (output tokens, warned names) -/
def renderTok (cfg : Cfg) (strict : Bool) (reg : Reg) (ctx : Ctx) :
    Nat → List Tok → Except Err (List Tok × List Str)
  | 0, _ => .error .recursion
  | fuel + 1, ts =>
    let miss := (varNames ts).filter (fun n => !isBound ctx n)
    if strict && !miss.isEmpty then .error .value else
    let t2 := loopPass cfg ctx (condPass ctx ts)
    match flatMapM (incTok cfg reg (fun b => renderTok cfg strict reg ctx fuel b)) t2 with
    | .error e => .error e
    | .ok t3 =>
      match flatMapM (tokA cfg ctx) t3 with
      | .error e => .error e
      | .ok t4 =>
        let t6 := (passB cfg ctx t4).flatMap (tokC cfg ctx)
        .ok (t6.flatMap (tokD cfg ctx), miss ++ t3.flatMap (warnA cfg ctx) ++ t6.flatMap (warnD ctx))

/-! ### grammar AST -/

inductive Seg where
  | tok (t : Tok)
  | ifB (ws n : Str) (thn : List Tok) (els : Option (List Tok))
  | each (ws n : Str) (body : List Tok)
deriving DecidableEq, Repr

abbrev Tmpl := List Seg

/-- tokens allowed outside and inside blocks: everything but block delimiters -/
def Tok.inline : Tok → Bool
  | .ifO _ _ | .els | .ifC | .eachO _ _ | .eachC => false
  | _ => true

def Seg.wf : Seg → Bool
  | .tok t => t.inline
  | .ifB _ _ a e => a.all Tok.inline && (e.getD []).all Tok.inline
  | .each _ _ b => b.all Tok.inline

def Seg.flatten : Seg → List Tok
  | .tok t => [t]
  | .ifB ws n a none => .ifO ws n :: a ++ [.ifC]
  | .ifB ws n a (some e) => .ifO ws n :: a ++ .els :: e ++ [.ifC]
  | .each ws n b => .eachO ws n :: b ++ [.eachC]

def flatten (t : Tmpl) : List Tok := t.flatMap Seg.flatten

inductive PSt where
  | out
  | thn (ws n : Str) (acc : List Tok)
  | els (ws n : Str) (t acc : List Tok)
  | body (ws n : Str) (acc : List Tok)

/-- tokens → AST; `none` when the token list is not a sentence of the grammar (nested / stray / unclosed) -/
def parseGo : PSt → List Tok → Option Tmpl
  | .out, [] => some []
  | .out, .ifO ws n :: r => parseGo (.thn ws n []) r
  | .out, .eachO ws n :: r => parseGo (.body ws n []) r
  | .out, t :: r => if t.inline then (parseGo .out r).map (Seg.tok t :: ·) else none
  | .thn ws n acc, .ifC :: r => (parseGo .out r).map (Seg.ifB ws n acc none :: ·)
  | .thn ws n acc, .els :: r => parseGo (.els ws n acc []) r
  | .thn ws n acc, t :: r => if t.inline then parseGo (.thn ws n (acc ++ [t])) r else none
  | .els ws n a acc, .ifC :: r => (parseGo .out r).map (Seg.ifB ws n a (some acc) :: ·)
  | .els ws n a acc, t :: r => if t.inline then parseGo (.els ws n a (acc ++ [t])) r else none
  | .body ws n acc, .eachC :: r => (parseGo .out r).map (Seg.each ws n acc :: ·)
  | .body ws n acc, t :: r => if t.inline then parseGo (.body ws n (acc ++ [t])) r else none
  | _, [] => none

def parse (ts : List Tok) : Option Tmpl := parseGo .out ts

/-! ### specification: one left-to-right expansion -/

/-- a value enters the output as one inert piece -/
def valTok (v : Str) : List Tok := [.val v]

def pipeSem (cfg : Cfg) (ctx : Ctx) (n a : Str) : Except Err (List Tok) :=
  if isWordStr cfg a && cfg.filters.contains a then
    if isBound ctx n then
      match cfg.applyF a n with
      | .ok r => .ok (valTok r)
      | .raise c => .error (.other c)
    else .ok [.pipe n a]
  else if cfg.filters.contains a then .ok [.pipe n a]
  else .ok (valTok (if isBound ctx n then textOf ctx n else a))

/-- one inline construct outside any loop context (includes are handled by `specTok`) -/
def semV (cfg : Cfg) (ctx : Ctx) : Tok → Except Err (List Tok)
  | .var n => if isBound ctx n then .ok (valTok (textOf ctx n)) else .ok [.var n]
  | .opt n => .ok (valTok (textOf ctx n))
  | .pipe n a => pipeSem cfg ctx n a
  | t => .ok [t]

/-- one inline construct; `loop` is the loop context (empty outside loops), `inc` renders an include -/
def specTok (cfg : Cfg) (ctx : Ctx) (inc : Str → Except Err (List Tok)) (loop : List (Str × Str)) :
    Tok → Except Err (List Tok)
  | .var n =>
    match lookup n loop with
    | some v => .ok (valTok v)
    | none => semV cfg ctx (.var n)
  | .dot =>
    match lookup kDot loop with
    | some v => .ok (valTok v)
    | none => .ok [.dot]
  | .inc n => inc n
  | t => semV cfg ctx t

def specItems (cfg : Cfg) (ctx : Ctx) (inc : Str → Except Err (List Tok)) (len : Nat) (body : List Tok) :
    Nat → List Item → Except Err (List Tok)
  | _, [] => .ok []
  | i, it :: r =>
    match flatMapM (specTok cfg ctx inc (loopCtx i len it)) body with
    | .error e => .error e
    | .ok x =>
      match specItems cfg ctx inc len body (i + 1) r with
      | .error e => .error e
      | .ok y => .ok (x ++ y)

def specSeg (cfg : Cfg) (ctx : Ctx) (inc : Str → Except Err (List Tok)) : Seg → Except Err (List Tok)
  | .tok t => specTok cfg ctx inc [] t
  | .ifB _ n a e => flatMapM (specTok cfg ctx inc []) (if truthyOf ctx n then a else e.getD [])
  | .each _ n b =>
    match lookup n ctx with
    | none => .ok []
    | some v =>
      match v.items with
      | none => .ok []
      | some its => specItems cfg ctx inc its.length b 0 its

abbrev SReg := List (Str × Tmpl)

def textTok (s : Str) : List Tok := if s = [] then [] else [.text s]

/-- the marker of an unknown include, as template text -/
def markerSpec (cfg : Cfg) (n : Str) : List Tok := textTok (cfg.markerPre ++ n ++ cfg.markerSuf)

/-- ONE left-to-right expansion of a grammar template (`fuel` bounds the include depth) -/
def specToks (cfg : Cfg) (reg : SReg) (ctx : Ctx) : Nat → Tmpl → Except Err (List Tok)
  | 0, _ => .error .recursion
  | fuel + 1, t =>
    flatMapM (specSeg cfg ctx (fun n =>
      match lookup n reg with
      | some b => specToks cfg reg ctx fuel b
      | none => .ok (markerSpec cfg n))) t

/-- names of the plain variables the expansion found unbound -/
def specMissing (out : List Tok) : List Str := varNames out

/-- rendered text of the specification; in strict mode an unbound plain variable is an error -/
def renderSpec (cfg : Cfg) (strict : Bool) (reg : SReg) (ctx : Ctx) (fuel : Nat) (t : Tmpl) : Except Err Str :=
  match specToks cfg reg ctx fuel t with
  | .error e => .error e
  | .ok out => if strict && !(specMissing out).isEmpty then .error .value else .ok (printToks out)

def tokReg (reg : SReg) : Reg := reg.map (fun p => (p.1, flatten p.2))

end Operon.Tmpl
