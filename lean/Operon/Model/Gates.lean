/-
  Shared part of the injection-gate models (C10): strings, the environment, signatures, matching, scan.

  Mirrors `ThreatSignature.matches` (operon_ai/organelles/membrane.py:52-56) and `TLRPattern.matches`
  (operon_ai/surveillance/innate.py:77-81), which are the same code:

      if self.is_regex and self._compiled:  return bool(self._compiled.search(content))
      return self.pattern.casefold() in content.casefold()

  (`casefold()` since the `fix:` commit dc1025f; `lower()` before — `str.lower` is context sensitive for a word-final
  capital sigma and `'ß'.upper().lower() != 'ß'`, which broke the embedding and the case-change clause.)

  Strings are lists of code points.  What is *not* operon's code is an environment `Env`:
    * `lower`   — `str.casefold` on one code point: full case folding, which Unicode (and CPython's
                  `unicode_casefold`) defines code point by code point, a code point possibly folding to several
                  (`'ß' -> 'ss'`, `'İ' -> 'i̇'`); so folding a string is `flatMap` — any such map is allowed;
    * `rx p c`  — `bool(re.compile(p, re.IGNORECASE).search(c))`;
    * `compiles p` — whether `re.compile(p, re.IGNORECASE)` succeeds;
    * `json c`  — the outcome of `json.loads(c)` (used by the innate JSON validator only).
  Theorems quantify over every `Env`; the driver instantiates it with `lowerStd` and with the results the
  harness recorded from the real `re` / `json` calls.
-/
namespace Operon.Gates

abbrev Str := List Nat

/-- parsed JSON, structure only (scalars carry no information the validator reads) -/
inductive J where
  | scalar
  | node (children : List J)
  deriving Repr

instance : Inhabited J := ⟨.scalar⟩

/-- outcome of `json.loads(content)` -/
inductive JsonOut where
  | parsed (t : J)
  | decodeError        -- json.JSONDecodeError
  | valueError         -- a ValueError that is not a JSONDecodeError (e.g. integer string conversion limit)
  | recursionError     -- RecursionError (nesting deeper than the interpreter allows)
  | other              -- any other exception class
  deriving Repr

structure Env where
  lower : Nat → Str
  rx : Str → Str → Bool
  compiles : Str → Bool
  json : Str → JsonOut

/-- `str.casefold()`: every code point replaced by its folding -/
def lowerS (env : Env) (s : Str) : Str := s.flatMap env.lower

/-- `lowerStd` / `foldStd` : the concrete folding used by the driver — ASCII, Latin-1, basic Greek and basic
    Cyrillic capitals, sharp s and final sigma; identity elsewhere.  The harness compares `foldStd` with
    `str.casefold` on every code point and keeps generated text inside the set where both agree. -/
def lowerStd (c : Nat) : Nat :=
  if 0x41 ≤ c ∧ c ≤ 0x5A then c + 32
  else if 0xC0 ≤ c ∧ c ≤ 0xDE ∧ c ≠ 0xD7 then c + 32
  else if 0x391 ≤ c ∧ c ≤ 0x3A9 ∧ c ≠ 0x3A2 then c + 32
  else if 0x410 ≤ c ∧ c ≤ 0x42F then c + 32
  else if 0x400 ≤ c ∧ c ≤ 0x40F then c + 80
  else c

def foldStd (c : Nat) : Str :=
  if c = 0xDF then [0x73, 0x73] else if c = 0x3C2 then [0x3C3] else [lowerStd c]

/-- `p` is a prefix of `c` -/
def isPrefix : Str → Str → Bool
  | [], _ => true
  | _ :: _, [] => false
  | a :: p, b :: c => if a = b then isPrefix p c else false

/-- `p in c` for Python strings (tail recursive in `c`, so 100k-character inputs do not need stack) -/
def isInfix (p : Str) : Str → Bool
  | [] => isPrefix p []
  | b :: c => if isPrefix p (b :: c) then true else isInfix p c

/-- A threat signature (membrane) or TLR pattern (innate): pattern text, level / severity, regex flag.
    `is_regex` implies `_compiled` is set (a compiled pattern object is truthy), so the guard
    `self.is_regex and self._compiled` is `is_regex`. -/
structure Sig where
  pat : Str
  level : Nat
  isRegex : Bool
  deriving Repr, DecidableEq

def Sig.matches (env : Env) (s : Sig) (c : Str) : Bool :=
  if s.isRegex then env.rx s.pat c else isInfix (lowerS env s.pat) (lowerS env c)

/-- the signatures of `sigs` that match, in scan order -/
def matched (env : Env) (sigs : List Sig) (c : Str) : List Sig :=
  sigs.filter (fun s => s.matches env c)

/-- same function, lowering the content once instead of once per signature; the driver runs this version
    (`@[csimp]`: a kernel-checked equality, used by the compiler only) -/
def matchedFast (env : Env) (sigs : List Sig) (c : Str) : List Sig :=
  (fun cl => sigs.filter (fun s => if s.isRegex then env.rx s.pat c else isInfix (lowerS env s.pat) cl))
    (lowerS env c)

@[csimp] theorem matched_eq_matchedFast : @matched = @matchedFast := by
  funext env sigs c
  rfl

/-- the running maximum of the scan loop: `if sig.level > max_level: max_level = sig.level` -/
def maxFrom (m : Nat) : List Sig → Nat
  | [] => m
  | s :: rest => maxFrom (if s.level > m then s.level else m) rest

def maxLevel (sigs : List Sig) : Nat := maxFrom 0 sigs

/-- the regex calls a scan makes, in order (patterns handed to `re`) -/
def rxCalls (sigs : List Sig) : List Str :=
  (sigs.filter (fun s => s.isRegex)).map (fun s => s.pat)

/-- result of a call that may raise -/
inductive Out (α : Type) where
  | ok (v : α)
  | raise (cls : String)
  deriving Repr, DecidableEq

instance {α : Type} [Inhabited α] : Inhabited (Out α) := ⟨.ok default⟩

/-- placeholder body of a generated definition whose Python source left the translator's supported subset
    (`Operon/Gen/GatesTranslated.lean`); its agreement theorem then fails -/
def untranslatable {α : Type} [Inhabited α] (_construct : String) : α := default

end Operon.Gates
