import Operon.Model.Proto
import Operon.Model.Cffl
/-!
  Line-protocol driver shared by C07 and C08 (`Drv/C07.lean`, `Drv/C08.lean` only call `main`).

  cfg <gate> <breakerOn> <threshold> <timeoutUs> <cacheOn> <ttlUs> [<budget> [stub|real]]   -> "ok"
  run <pid|u<pid>> <zVerdict|exc..> <yVerdict|exc..>                        -> result ; stats
      agent exceptions: exc / excK / excR = an Exception that can be rendered (RuntimeError, KeyError without
      arguments, one whose __repr__ raises), excS = an Exception whose __str__ raises (answered with the same blocked
      ERROR reply: the handler renders through `_describe`), excB = a BaseException;
      u:<VERDICT> = that verdict with a payload whose __str__ raises (`runP true`: the code as it is renders through
      `_describe`, so the payload does not matter)
  set onblock|onpermit none|ok|raise          -> "- ; stats"   loop.on_block / loop.on_permit re-assigned: not set,
      a callable that returns, a callable that raises HookError (the result it was given is shown before `!HookError`)
  adv <us> | resetcb | clearcache                                           -> "- ; stats"
  reenter <gate> <cacheOn> <e|a> <depth> <pA> <zA> <yA> <pB> <zB> <yB>      -> "ok"   (search-side only: an agent
      that issues a nested run() on the same loop is outside the model — `run` is atomic — and is judged by the
      harness oracle alone)
  nest <p1> <z1> <y1> <w1> <d1> [<p2> <z2> <y2> <w2> <d2> ...]           -> result1 | result2 | ... ; stats
      overlapping requests on the current loop, executed phase by phase with `phaseStep` (Model/Cffl.lean): while
      the executor (w = e / E) or the assessor (w = a / A) of request i is being consulted — after the call was
      counted, before the agent spends energy and answers — request i+1 runs completely, then the clock advances
      by d_i µs.  `-` = the request was never issued.
  set gate|cache|ttl|breaker|thr|tmo <value>  -> "- ; stats"   a public attribute of the live loop is re-assigned
      (gate_logic, enable_cache, cache_ttl, enable_circuit_breaker, failure_threshold, recovery_timeout): the
      configuration changes, the state (breaker, cache, counters) stays
  set agents 0                                -> "- ; stats"   fresh agent objects are assigned to loop.executor / .assessor
  Verdicts are the raw `action_type` strings (`x:<hex code points>` for strings that are not one token).
-/
namespace Operon.Cffl.Drv
open Operon Operon.Proto Operon.Cffl

/-- The shared energy store as far as the agents of the harness use it (`ATP_Store.consume(cost=10)`, ATP only,
    no debt): refused while STARVING, otherwise granted iff the balance covers the cost; after a grant the store is
    STARVING iff balance / capacity ≤ 0.1. -/
structure Store where
  atp : Nat := 1000000000
  cap : Nat := 1000000000
  starving : Bool := false

def Store.consume (st : Store) (cost : Nat) : Store × Bool :=
  if st.starving then (st, false)
  else if cost ≤ st.atp then
    ({ st with atp := st.atp - cost, starving := decide ((st.atp - cost) * 10 ≤ st.cap) }, true)
  else (st, false)

structure DSt where
  cfg : Cfg := {}
  st : State := {}
  store : Store := {}
  hooks : Hooks := {}
  tally : Tally := {}
  silent : Bool := true

/-- The agents of the harness (stubs, and the built-in BioAgent on prompts its membrane lets through) first ask
    the store for 10 ATP and answer FAILURE (with a printable payload) when refused; otherwise they give the scripted
    response.  The model `run` / `runP` takes the responses the agents ACTUALLY give; this function computes them:
    the executor is consulted exactly when `run` consults it (which does not depend on the responses), the assessor
    exactly when the executor answered. -/
def effective (d : DSt) (p : Prompt) (zr yr : RespP) : Store × RespP × RespP :=
  let trial := run d.cfg idHashes d.st p zr.resp yr.resp
  if trial.1.execCalls = d.st.execCalls then (d.store, zr, yr)
  else
    let (store1, ok1) := d.store.consume d.cfg.cost
    let zEff : RespP := if ok1 then zr else ⟨.ret .failure, true⟩
    match zEff.resp with
    | .ret _ =>
      let (store2, ok2) := store1.consume d.cfg.cost
      (store2, zEff, if ok2 then yr else ⟨.ret .failure, true⟩)
    | _ => (store1, zEff, yr)

def runWithEnergy (d : DSt) (p : Prompt) (zr yr : RespP) : DSt × State × Out × RespP × RespP :=
  let (store', z', y') := effective d p zr yr
  let r := runP true d.cfg idHashes d.st p z' y'
  ({ d with st := r.1, store := store' }, r.1, r.2, z', y')

def gateOf : String → Gate
  | "and" => .and | "or" => .or | "majority" => .majority | "unanimous" => .unanimous
  | "executor_priority" => .execPrio | "assessor_priority" => .assessPrio | _ => .and

def respOf0 (s : String) : Resp :=
  if s = "exc" || s = "excK" || s = "excR" then .exc
  else if s = "excS" then .excU
  else if s = "excB" then .excB
  else if s.startsWith "x:" then .ret (classify (String.ofList ((decodeCps (s.drop 2).toString).map Char.ofNat)))
  else .ret (classify s)

/-- `u:<verdict>`: that verdict with a payload that cannot be rendered -/
def respOf (s : String) : RespP :=
  if s.startsWith "u:" then ⟨respOf0 (s.drop 2).toString, false⟩ else ⟨respOf0 s, true⟩

def promptOf (s : String) : Prompt :=
  if s.startsWith "u" then ⟨natD (s.drop 1).toString, false⟩ else ⟨natD s, true⟩

def showAction : Action → String
  | .success => "SUCCESS" | .blocked => "BLOCKED" | .failure => "FAILURE" | .skipped => "SKIPPED"
  | .error => "ERROR" | .circuitOpen => "CIRCUIT_OPEN"

def showCState : CState → String
  | .closed => "closed" | .opened => "open" | .halfOpen => "half_open"

def showAgent : Agent → String
  | .executor => "executor" | .assessor => "assessor"

def showStats0 (s : State) (store : Store) : String :=
  joinSp [toString s.execCalls, toString s.assessCalls, toString (store.cap - store.atp), showCState s.br.cstate,
    toString s.br.failures, toString s.br.successes, showOptNat s.br.lastFailure, showOptNat s.br.lastSuccess,
    toString s.br.trips, toString s.br.totalErrors, toString s.cache.length]

def showTally (t : Tally) : String :=
  joinSp [toString t.requests, toString t.blocked, toString t.permitted, toString t.logged,
    toString t.blockHookCalls, toString t.permitHookCalls]

def showStatsD (d : DSt) : String := showStats0 d.st d.store ++ " " ++ showTally d.tally

def showRes (r : Result) : String :=
  joinSp [showAction r.action, showBool r.success, showBool r.blocked,
    (match r.token with | some t => toString t.hash | none => "none"),
    (match r.token with | some t => showAgent t.issuer | none => "-"),
    showBool r.cached]

/-- what the caller sees: the reply, the exception a callback raised (after the result it was given), or the
    exception `run` raised: the agent's BaseException, or the UnicodeEncodeError of an un-encodable prompt
    (`printRaised` and `nothing` with kind `agentExc` / an encodable prompt belong to the pre-fix shape and do not
    occur with `runP true` / `deliver … false`) -/
def showDelivery (o : Out) (enc : Bool) : Delivery → String
  | .reply r => showRes r
  | .hookRaised r => showRes r ++ " !HookError"
  | .printRaised r => showRes r ++ " !ValueError"
  | .nothing =>
    match o.kind with
    | .agentExc => "raise:ValueError"
    | .aborted => "raise:AgentAbort"
    | _ => if enc then "raise:ValueError" else "raise:UnicodeEncodeError"   -- payload rendering / prompt encoding

/-- the tail of `run` (statistics, callbacks, console) for the request for prompt `p` handled as `o`; the console
    output renders through `_describe` and cannot fail (`deliver … false`) -/
def tail (d : DSt) (p : Prompt) (o : Out) : DSt × String :=
  let (t, dl) := deliver d.hooks d.tally o false
  ({ d with tally := t }, showDelivery o p.enc dl)

def showEvent : BEvent → String
  | .success => "success" | .neither => "neither" | .failure => "failure"

def showKind : Kind → String
  | .circuitOpen => "circuit_open" | .cacheHit => "cache_hit" | .agentExc => "agent_exc"
  | .gated e => "gated_" ++ showEvent e | .raised => "raised" | .admin => "admin" | .aborted => "aborted"

def tags (cfg : Cfg) (s s' : State) (o : Out) : String :=
  let t1 := "k:" ++ showKind o.kind
  let t2 := (if s.br.cstate ≠ s'.br.cstate then [s!"tr:{showCState s.br.cstate}>{showCState s'.br.cstate}"] else [])
    ++ (if s.br.cstate = .opened ∧ o.kind ≠ .circuitOpen ∧ cfg.breakerOn then ["probe:from-open"] else [])
    ++ (if s.br.cstate = .halfOpen then ["probe:half-open"] else [])
  let t3 := match o.result with
    | some r => if o.kind matches .gated _ then [s!"act:{showAction r.action}"] else []
    | none => []
  let t4 := if s'.cache.length < s.cache.length ∧ o.kind ≠ .admin then ["cache:shrunk"] else []
  let t5 := if o.kind matches .gated _ then
      (if cfg.cacheOn ∧ s'.cache.length = s.cache.length then ["cache:replace-or-evict"] else []) else []
  let t6 := match o.result with
    | some r => if r.token.isSome then ["token"] else []
    | none => []
  joinSp (t1 :: (t2 ++ t3 ++ t4 ++ t5 ++ t6))

def hookOf : String → Option Hook
  | "none" => some .unset | "ok" => some .ok | "raise" => some .raises | _ => none

def mkCfg (g b thr tmo c ttl : String) : Cfg :=
  { gate := gateOf g, breakerOn := boolOf b, threshold := intD thr, timeout := intD tmo,
    cacheOn := boolOf c, ttl := intD ttl, cost := 10 }

/-- one level of a nest of overlapping requests -/
structure Level where
  p : Prompt
  z : RespP
  y : RespP
  atExec : Bool      -- the next level is issued (and the clock advanced) inside the executor call, else the assessor call
  d : Nat

def levelsOf : List String → List Level
  | p :: z :: y :: w :: d :: rest => ⟨promptOf p, respOf z, respOf y, w = "e" || w = "E", natD d⟩ :: levelsOf rest
  | _ => []

def ph (d : DSt) (op : PhaseOp) : DSt × Option Out :=
  let r := phaseStep d.cfg idHashes d.st op
  ({ d with st := r.1 }, r.2)

/-- the phase at which a request is answered, followed by the tail of `run` -/
def endPhase (d : DSt) (p : Prompt) (op : PhaseOp) (inner : List String) : DSt × List String :=
  match ph d op with
  | (d', some o) => let (d'', r) := tail d' p o; (d'', r :: inner)
  | (d', none) => (d', "?" :: inner)

/-- A nest of overlapping requests as a phase history: every state change below is one `phaseStep` (the energy
    store is the driver's).  Returns the replies, outermost request first (`-` = never issued). -/
def nestRun (d : DSt) : List Level → DSt × List String
  | [] => (d, [])
  | L :: rest =>
    let skipped := rest.map fun _ => "-"
    match ph d (.lookup L.p) with
    | (d0, some o) => let (d0', r) := tail d0 L.p o; (d0', r :: skipped)
    | (d0, none) =>
      let d1 := (ph d0 .execCall).1
      let (d2, inner) := if L.atExec then
          let (dd, inn) := nestRun d1 rest
          ((ph dd (.adv L.d)).1, inn)
        else (d1, skipped)
      let (store1, ok1) := d2.store.consume d2.cfg.cost
      let d3 := { d2 with store := store1 }
      let zE : RespP := if ok1 then L.z else ⟨.ret .failure, true⟩
      match zE.resp with
      | .exc => endPhase d3 L.p .agentRaised inner
      | .excU => endPhase d3 L.p .agentRaisedU inner
      | .excB => endPhase d3 L.p .agentAborted inner
      | .ret zc =>
        let d4 := (ph d3 .assessCall).1
        let (d5, inner) := if L.atExec then (d4, inner) else
          let (dd, inn) := nestRun d4 rest
          ((ph dd (.adv L.d)).1, inn)
        let (store2, ok2) := d5.store.consume d5.cfg.cost
        let d6 := { d5 with store := store2 }
        let yE : RespP := if ok2 then L.y else ⟨.ret .failure, true⟩
        match yE.resp with
        | .exc => endPhase d6 L.p .agentRaised inner
        | .excU => endPhase d6 L.p .agentRaisedU inner
        | .excB => endPhase d6 L.p .agentAborted inner
        | .ret yc => endPhase d6 L.p (.finish L.p zc yc) inner   -- whatever the payloads (`_describe`)

def nestLine (d : DSt) (toks : List String) : DSt × String :=
  let ls := levelsOf toks
  if ls.isEmpty || ls.length * 5 ≠ toks.length || 4 < ls.length then (d, "bad-op")
  else
    let (d', rs) := nestRun d ls
    (d', " | ".intercalate rs ++ " ; " ++ showStatsD d' ++ s!" ## nest:{ls.length}"
      ++ (if d'.st.cache.length < d.st.cache.length then " cache:shrunk" else "")
      ++ (if (rs.filter (· ≠ "-")).length = ls.length then " nest:all-issued" else ""))

def step (d : DSt) (toks : List String) : DSt × String :=
  match toks with
  | ["cfg", g, b, thr, tmo, c, ttl] => ({ cfg := mkCfg g b thr tmo c ttl, st := {}, store := {} }, "ok")
  | ["cfg", g, b, thr, tmo, c, ttl, bud] =>
    ({ cfg := mkCfg g b thr tmo c ttl, st := {}, store := { atp := natD bud, cap := natD bud } }, "ok")
  | ["cfg", g, b, thr, tmo, c, ttl, bud, _] =>
    ({ cfg := mkCfg g b thr tmo c ttl, st := {}, store := { atp := natD bud, cap := natD bud } }, "ok")
  | ["run", p, z, y] =>
    let (d1, s', o, zE, yE) := runWithEnergy d (promptOf p) (respOf z) (respOf y)
    let (d', shown) := tail d1 (promptOf p) o
    (d', shown ++ " ; " ++ showStatsD d' ++ " ## " ++ tags d.cfg d.st s' o
      ++ (if d'.store.atp = d.store.atp ∧ s'.execCalls ≠ d.st.execCalls then " energy:refused" else "")
      ++ (if d'.tally.blockHookCalls ≠ d.tally.blockHookCalls then " hook:block" else "")
      ++ (if d'.tally.permitHookCalls ≠ d.tally.permitHookCalls then " hook:permit" else "")
      ++ (if shown.endsWith "!HookError" then " hook:raised" else "")
      ++ (if !d.silent && !zE.payloadOk && (o.kind matches .gated .success) then " print:unrenderable" else "")
      ++ (if (o.kind matches .gated _) && renderFails d.cfg.gate zE yE then " payload:unrenderable" else "")
      ++ (if o.kind = .agentExc ∧ handlerFails zE.resp yE.resp then " exc:unprintable" else ""))
  | ["adv", us] =>
    let (s', _) := Cffl.step d.cfg idHashes d.st (.adv (natD us))
    let d' := { d with st := s' }
    (d', "- ; " ++ showStatsD d')
  | ["resetcb"] =>
    let (s', _) := Cffl.step d.cfg idHashes d.st .resetcb
    let d' := { d with st := s' }
    (d', "- ; " ++ showStatsD d' ++ (if d.st.br.cstate ≠ s'.br.cstate then s!" ## tr:{showCState d.st.br.cstate}>closed:reset" else ""))
  | ["clearcache"] =>
    let (s', _) := Cffl.step d.cfg idHashes d.st .clearcache
    let d' := { d with st := s' }
    (d', "- ; " ++ showStatsD d')
  | "nest" :: rest => nestLine d rest
  | ["set", "onblock", v] =>
    match hookOf v with
    | some h => let d' := { d with hooks := { d.hooks with onBlock := h } }; (d', "- ; " ++ showStatsD d' ++ " ## set:onblock")
    | none => (d, "bad-op")
  | ["set", "onpermit", v] =>
    match hookOf v with
    | some h => let d' := { d with hooks := { d.hooks with onPermit := h } }; (d', "- ; " ++ showStatsD d' ++ " ## set:onpermit")
    | none => (d, "bad-op")
  | ["set", k, v] =>
    let c := d.cfg
    let c' : Option Cfg := match k with
      | "gate" => some { c with gate := gateOf v }
      | "cache" => some { c with cacheOn := boolOf v }
      | "ttl" => some { c with ttl := intD v }
      | "breaker" => some { c with breakerOn := boolOf v }
      | "thr" => some { c with threshold := intD v }
      | "tmo" => some { c with timeout := intD v }
      | "agents" => some c
      | "silent" => some c      -- console output on / off (DSt.silent, below): only `deliver`'s printFails reads it
      | _ => none
    match c' with
    | some c' => ({ d with cfg := c', silent := if k = "silent" then boolOf v else d.silent },
                  "- ; " ++ showStatsD d ++ " ## set:" ++ k)
    | none => (d, "bad-op")
  | ["reenter", _, _, _, _, _, _, _, _, _, _] => (d, "ok")   -- re-entrant agent stubs: judged by the harness oracle only
  | _ => (d, "bad-op")

def main : IO Unit := runDriver ({} : DSt) step

end Operon.Cffl.Drv
