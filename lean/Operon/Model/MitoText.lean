import Operon.Model.MitoBox
/-!
  The TEXT the caller wrote, and the text the engine's readers are handed (C02: "the returned value equals the value
  Python assigns to THAT expression ... never rewrites literal contents"; C01: pathway detection, guards).

  `Mito.metabolize` takes an `Inp`: what CPython's `len`, parser, literal readers and console make of ONE string.  The
  code hands the caller's string to those readers as it is — today.  A step in front of them ("accept the operators LLM
  replies and word processors produce": `expression.translate(...)`, `.replace`, `unicodedata.normalize`, `re.sub`,
  `.lower()`) makes the readers see ANOTHER string: every statement about `inp.parsed` is then a statement about the
  rewritten text, not about the expression the caller wrote, and the inside of string literals is rewritten with it.

  The model makes that step explicit.  `Text` is any type of texts, `rd : Text → Inp` what the readers make of a text,
  `detect : Text → Pathway` the pathway heuristic, `f : Text → Text` a rewriting; `PreKind` says whether the engine
  applies one.  E1 re-establishes the kind on every run (`Gen.preKind`, `harness/vf/extract/e1.py ::
  behavioural_text_facts`): the REAL `metabolize` / `digest_glucose` are driven with string literals containing every
  code point of Unicode, with the fragments a text preprocessor would rewrite and with spellings Python refuses, on
  every pathway, while a spy sits on the module's parser entry points and compares what they are handed with what the
  caller gave.
-/
namespace Operon.Mito

/-- does the entry point hand its readers the caller's text (`identity`) or something made from it (`rewrites`)? -/
inductive PreKind where
  | identity
  | rewrites
  deriving DecidableEq, Repr

/-- the text the readers see -/
def preOf {Text : Type} (k : PreKind) (f : Text → Text) (t : Text) : Text :=
  match k with
  | .identity => t
  | .rewrites => f t

/-- `Mitochondria.metabolize` as a function of the caller's TEXT -/
def metabolizeText {Text : Type} (rd : Text → Inp) (detect : Text → Pathway) (k : PreKind) (f : Text → Text)
    (T : Tables) (env : Env) (cfg : Cfg) (box : Box) (latched : Bool) (text : Text) (forced : Option Pathway) :
    List Act × Outcome :=
  metabolizeD T env cfg box latched (detect (preOf k f text)) (rd (preOf k f text)) forced

/-- `Mitochondria.digest_glucose` as a function of the caller's text -/
def digestGlucoseText {Text : Type} (rd : Text → Inp) (k : PreKind) (f : Text → Text)
    (T : Tables) (env : Env) (cfg : Cfg) (box : Box) (latched : Bool) (text : Text) (strRaises : Bool) :
    List Act × LegacyText :=
  digestGlucoseD T env cfg box latched (rd (preOf k f text)) strRaises

/-- what the model can still say about an outcome when it does not know which text the readers saw: whether a result
    came back and on which pathway, not the value -/
def veil : Outcome → Outcome
  | .result true (some _) r p => .result true none r p
  | o => o

end Operon.Mito
