/-
  Model of `operon_ai/organelles/chaperone.py :: Chaperone` (the output validator): the four folding
  strategies in their plain (`fold`) and enhanced (`fold_enhanced`) implementations, the strategy cascade
  with its per-strategy `try / except Exception`, the `strategies or …` glue, and the statistics counters.

  Environment-recording style (DESIGN 3.3).  Everything the code delegates to a library is a field of
  `Env` and is *arbitrary*:

    json.loads                      ↦ `Env.loads`
    `x is None` on a parsed value   ↦ `Env.isNone`
    re.findall(PATTERNS[i], ·)      ↦ `Env.findall i`
    re.sub(REPAIRS[i], ·)           ↦ `Env.sub i`
    schema.model_validate           ↦ `Env.validate`
    Chaperone._coerce_types_tracked ↦ `Env.coerce`   (method-level boundary)

  Every one of them may return or raise an exception of any class (`Res`).  JSON values `J`, validated
  structures `S` and coercion labels `C` are opaque types.  The model is in writer style: every computation
  returns the list of library calls it made (with the results it saw) next to its result, and the trace is
  kept when the result is an exception.  The correspondence harness records the calls the real code makes
  and requires the model to make exactly the same calls in the same order.

  Text is a list of code points (Python strings may hold lone surrogates, Lean `String`s may not).
  `str.strip()` is modelled (not environment): the argument of every recorded call must agree.

  Co-chaperone preprocessors and the `on_misfold` callback are modelled as arbitrary user functions (`Hooks`,
  `foldH` / `foldXH`).  Not modelled: `duration_ms`, console output, the text of error messages (only which kind of
  message; `str(e)` of a caught exception is taken to return), strategy-list elements that are not `FoldingStrategy`
  members (the counter dicts would raise KeyError outside the per-strategy `try`).
-/
namespace Operon.Chaperone

abbrev Text := List Nat

/-- Code points for which Python's `str.isspace()` holds; `str.strip()` removes exactly these. -/
def isSpace (c : Nat) : Bool :=
  (9 ≤ c && c ≤ 13) || (28 ≤ c && c ≤ 32) || c == 0x85 || c == 0xa0 || c == 0x1680 ||
  (0x2000 ≤ c && c ≤ 0x200a) || c == 0x2028 || c == 0x2029 || c == 0x202f || c == 0x205f || c == 0x3000

def strip (t : Text) : Text := ((t.dropWhile isSpace).reverse.dropWhile isSpace).reverse

/-- Class of a raised exception, as far as the `except` clauses of the code distinguish them. -/
inductive Exc where
  | jsonDecode              -- json.JSONDecodeError
  | validation              -- pydantic.ValidationError
  | other (k : Nat)         -- any other subclass of Exception (RecursionError, TypeError, ValueError, …)
  deriving DecidableEq, Repr

inductive Res (α : Type) where
  | ok (v : α)
  | raise (e : Exc)
  deriving DecidableEq, Repr

inductive Strategy where
  | strict | extraction | lenient | repair
  deriving DecidableEq, Repr

/-- The library environment.  Arbitrary. -/
structure Env (J S C : Type) where
  loads : Text → Res J
  isNone : J → Bool
  findall : Nat → Text → Res (List Text)
  sub : Nat → Text → Res Text
  validate : J → Res S
  coerce : J → Res (J × List C)
  /-- `self.JSON_EXTRACTION_PATTERNS` as the instance sees it (indices into the universe of known patterns;
      instances and subclasses may re-assign the public table) -/
  patterns : List Nat
  /-- `self.JSON_REPAIRS` as the instance sees it -/
  repairs : List Nat

/-- One library call together with the result it produced. -/
inductive Call (J S C : Type) where
  | loads (t : Text) (r : Res J)
  | findall (i : Nat) (t : Text) (r : Res (List Text))
  | sub (i : Nat) (t : Text) (r : Res Text)
  | validate (d : J) (r : Res S)
  | coerce (d : J) (r : Res (J × List C))

/-! ### writer-with-exceptions -/

/-- A computation: the calls made, and a value or a propagating exception. -/
structure W (κ α : Type) where
  trace : List κ
  res : Res α

namespace W
variable {κ α β : Type}

def pure (a : α) : W κ α := ⟨[], .ok a⟩

def bind (x : W κ α) (f : α → W κ β) : W κ β :=
  match x.res with
  | .ok a => ⟨x.trace ++ (f a).trace, (f a).res⟩
  | .raise e => ⟨x.trace, .raise e⟩

/-- `try: x  except <classes h answers for>: return h e` — anything `h` declines propagates. -/
def tryCatch (x : W κ α) (h : Exc → Option α) : W κ α :=
  match x.res with
  | .ok a => ⟨x.trace, .ok a⟩
  | .raise e =>
    match h e with
    | some a => ⟨x.trace, .ok a⟩
    | none => ⟨x.trace, .raise e⟩

end W

instance {κ : Type} : Monad (W κ) where
  pure := W.pure
  bind := W.bind

section
variable {J S C : Type}

abbrev Tr (J S C : Type) := List (Call J S C)

def cLoads (env : Env J S C) (t : Text) : W (Call J S C) J := ⟨[.loads t (env.loads t)], env.loads t⟩
def cFindall (env : Env J S C) (i : Nat) (t : Text) : W (Call J S C) (List Text) :=
  ⟨[.findall i t (env.findall i t)], env.findall i t⟩
def cSub (env : Env J S C) (i : Nat) (t : Text) : W (Call J S C) Text := ⟨[.sub i t (env.sub i t)], env.sub i t⟩
def cValidate (env : Env J S C) (d : J) : W (Call J S C) S := ⟨[.validate d (env.validate d)], env.validate d⟩
def cCoerce (env : Env J S C) (d : J) : W (Call J S C) (J × List C) :=
  ⟨[.coerce d (env.coerce d)], env.coerce d⟩

/-! ### the tables (indices into `JSON_EXTRACTION_PATTERNS` and `JSON_REPAIRS`) -/

/-- the shipped table: markdown_json_block, markdown_code_block, xml_json_tag, bare_json_object, bare_json_array -/
def patternIds : List Nat := [0, 1, 2, 3, 4]

/-- the ten entries of `JSON_REPAIRS`, in table order -/
def repairIds : List Nat := [0, 1, 2, 3, 4, 5, 6, 7, 8, 9]

/-! ### per-strategy results -/

/-- Which message an `error_trace` carries (the text itself is not modelled). -/
inductive ErrTag where
  | json                    -- "JSON: …"
  | validation              -- "Validation: …"
  | noValidJson             -- "No valid JSON found in text"
  | noJson                  -- "No JSON found"
  | msg (e : Exc)           -- str(e) of a caught exception
  deriving DecidableEq, Repr

/-- What `coercions_applied` lists. -/
inductive Note (C : Type) where
  | extractedVia (i : Nat)  -- "extracted_via_<pattern name i>"
  | repair (i : Nat)        -- name of repair i
  | coerced (c : C)         -- a label produced by `_coerce_types_tracked`
  deriving DecidableEq, Repr

/-- `FoldedProtein` as returned by the plain `_fold_*` methods. -/
structure P (S : Type) where
  valid : Bool
  struct : Option S
  err : Option ErrTag

/-- `EnhancedFoldedProtein` as returned by the `_fold_*_enhanced` methods (`confidence` defaults to 1.0). -/
structure X (S C : Type) where
  valid : Bool
  struct : Option S
  err : Option ErrTag
  confidence : Rat
  coercions : List (Note C)
  strategyUsed : Option Strategy

def X.erase (x : X S C) : P S := ⟨x.valid, x.struct, x.err⟩

def ratMax (a b : Rat) : Rat := if a ≤ b then b else a

/-- confidence literals of the source -/
abbrev cStrict : Rat := 1
abbrev cExtraction : Rat := 9 / 10
abbrev cFailed : Rat := 0
/-- dataclass default of `EnhancedFoldedProtein.confidence` -/
abbrev cDefault : Rat := 1

/-- `max(0.5, 0.85 - n * 0.05)` -/
def lenientConfidence (n : Nat) : Rat := ratMax (1 / 2) (17 / 20 - (n : Rat) * (1 / 20))
/-- `max(0.4, 0.75 - n * 0.05)` -/
def repairConfidence (n : Nat) : Rat := ratMax (2 / 5) (3 / 4 - (n : Rat) * (1 / 20))

/-! ### STRICT -/

/-- `_fold_strict` -/
def foldStrict (env : Env J S C) (raw : Text) : W (Call J S C) (P S) :=
  W.tryCatch
    (do let d ← cLoads env (strip raw)
        let s ← cValidate env d
        pure ⟨true, some s, none⟩)
    (fun e => match e with
      | .jsonDecode => some ⟨false, none, some .json⟩
      | .validation => some ⟨false, none, some .validation⟩
      | .other _ => none)

/-- `_fold_strict_enhanced` -/
def foldStrictX (env : Env J S C) (raw : Text) : W (Call J S C) (X S C) :=
  W.tryCatch
    (do let d ← cLoads env (strip raw)
        let s ← cValidate env d
        pure ⟨true, some s, none, cStrict, [], some .strict⟩)
    (fun e => match e with
      | .jsonDecode => some ⟨false, none, some .json, cDefault, [], none⟩
      | .validation => some ⟨false, none, some .validation, cDefault, [], none⟩
      | .other _ => none)

/-! ### EXTRACTION -/

def isDecodeOrValidation : Exc → Bool
  | .jsonDecode => true
  | .validation => true
  | .other _ => false

/-- body of the inner loop: `try: loads(match.strip()); model_validate; return …  except (JSONDecodeError,
    ValidationError): continue` — `none` means "continue". -/
def tryOne (env : Env J S C) (m : Text) : W (Call J S C) (Option S) :=
  W.tryCatch
    (do let d ← cLoads env (strip m)
        let s ← cValidate env d
        pure (some s))
    (fun e => if isDecodeOrValidation e then some none else none)

/-- `for match in matches:` — first match that parses and validates -/
def firstValid (env : Env J S C) : List Text → W (Call J S C) (Option S)
  | [] => pure none
  | m :: ms => do
    match ← tryOne env m with
    | some s => pure (some s)
    | none => firstValid env ms

/-- `for pattern, name in JSON_EXTRACTION_PATTERNS:` — returns the pattern index and the structure -/
def scanPatterns (env : Env J S C) (raw : Text) : List Nat → W (Call J S C) (Option (Nat × S))
  | [] => pure none
  | i :: is => do
    let ms ← cFindall env i raw
    match ← firstValid env ms with
    | some s => pure (some (i, s))
    | none => scanPatterns env raw is

/-- `_fold_extraction` -/
def foldExtraction (env : Env J S C) (raw : Text) : W (Call J S C) (P S) := do
  match ← scanPatterns env raw env.patterns with
  | some (_, s) => pure ⟨true, some s, none⟩
  | none => pure ⟨false, none, some .noValidJson⟩

/-- `_fold_extraction_enhanced` -/
def foldExtractionX (env : Env J S C) (raw : Text) : W (Call J S C) (X S C) := do
  match ← scanPatterns env raw env.patterns with
  | some (i, s) => pure ⟨true, some s, none, cExtraction, [.extractedVia i], some .extraction⟩
  | none => pure ⟨false, none, some .noValidJson, cDefault, [], none⟩

/-! ### `_extract_json` -/

/-- `try: return json.loads(t.strip())  except JSONDecodeError: continue / return None` -/
def loadOne (env : Env J S C) (t : Text) : W (Call J S C) (Option J) :=
  W.tryCatch
    (do let d ← cLoads env (strip t)
        pure (some d))
    (fun e => match e with
      | .jsonDecode => some none
      | _ => none)

def firstLoad (env : Env J S C) : List Text → W (Call J S C) (Option J)
  | [] => pure none
  | m :: ms => do
    match ← loadOne env m with
    | some d => pure (some d)
    | none => firstLoad env ms

def scanLoad (env : Env J S C) (raw : Text) : List Nat → W (Call J S C) (Option J)
  | [] => pure none
  | i :: is => do
    let ms ← cFindall env i raw
    match ← firstLoad env ms with
    | some d => pure (some d)
    | none => scanLoad env raw is

/-- `_extract_json`: first pattern match that parses, else the whole stripped text, else `None`.
    (`some d` with `env.isNone d` is the JSON literal `null`, which the caller also treats as `None`.) -/
def extractJson (env : Env J S C) (raw : Text) : W (Call J S C) (Option J) := do
  match ← scanLoad env raw env.patterns with
  | some d => pure (some d)
  | none => loadOne env raw

/-! ### LENIENT -/

/-- `_fold_lenient` (its `_coerce_types` delegates to `_coerce_types_tracked` and drops the labels) -/
def foldLenient (env : Env J S C) (raw : Text) : W (Call J S C) (P S) := do
  match ← extractJson env raw with
  | none => pure ⟨false, none, some .noJson⟩
  | some e =>
    if env.isNone e then pure ⟨false, none, some .noJson⟩
    else do
      let dc ← cCoerce env e
      W.tryCatch
        (do let s ← cValidate env dc.1
            pure ⟨true, some s, none⟩)
        (fun x => match x with
          | .validation => some ⟨false, none, some (.msg .validation)⟩
          | _ => none)

/-- `_fold_lenient_enhanced` -/
def foldLenientX (env : Env J S C) (raw : Text) : W (Call J S C) (X S C) := do
  match ← extractJson env raw with
  | none => pure ⟨false, none, some .noJson, cDefault, [], none⟩
  | some e =>
    if env.isNone e then pure ⟨false, none, some .noJson, cDefault, [], none⟩
    else do
      let dc ← cCoerce env e
      W.tryCatch
        (do let s ← cValidate env dc.1
            pure ⟨true, some s, none, lenientConfidence dc.2.length, dc.2.map .coerced, some .lenient⟩)
        (fun x => match x with
          | .validation => some ⟨false, none, some (.msg .validation), cDefault, [], none⟩
          | _ => none)

/-! ### REPAIR -/

/-- `for pattern, replacement, _ in JSON_REPAIRS: repaired = re.sub(…)` -/
def repairChain (env : Env J S C) : List Nat → Text → W (Call J S C) Text
  | [], t => pure t
  | i :: is, t => do
    let t' ← cSub env i t
    repairChain env is t'

/-- the enhanced loop also lists the repairs that changed the text -/
def repairChainX (env : Env J S C) : List Nat → Text → List Nat → W (Call J S C) (Text × List Nat)
  | [], t, names => pure (t, names)
  | i :: is, t, names => do
    let t' ← cSub env i t
    if t' ≠ t then repairChainX env is t' (names ++ [i])
    else repairChainX env is t names

def decodeOrValidationMsg (e : Exc) : Option ErrTag :=
  if isDecodeOrValidation e then some (.msg e) else none

/-- `_fold_repair` -/
def foldRepair (env : Env J S C) (raw : Text) : W (Call J S C) (P S) := do
  let repaired ← repairChain env env.repairs (strip raw)
  W.tryCatch
    (do let d ← cLoads env repaired
        let s ← cValidate env d
        pure ⟨true, some s, none⟩)
    (fun e => (decodeOrValidationMsg e).map fun t => ⟨false, none, some t⟩)

/-- `_fold_repair_enhanced` -/
def foldRepairX (env : Env J S C) (raw : Text) : W (Call J S C) (X S C) := do
  let rn ← repairChainX env env.repairs (strip raw) []
  W.tryCatch
    (do let d ← cLoads env rn.1
        let s ← cValidate env d
        pure ⟨true, some s, none, repairConfidence rn.2.length, rn.2.map .repair, some .repair⟩)
    (fun e => (decodeOrValidationMsg e).map fun t => ⟨false, none, some t, cDefault, [], none⟩)

/-! ### dispatch -/

/-- `_attempt_fold` -/
def attemptP (env : Env J S C) (raw : Text) : Strategy → W (Call J S C) (P S)
  | .strict => foldStrict env raw
  | .extraction => foldExtraction env raw
  | .lenient => foldLenient env raw
  | .repair => foldRepair env raw

/-- `_attempt_fold_enhanced` -/
def attemptX (env : Env J S C) (raw : Text) : Strategy → W (Call J S C) (X S C)
  | .strict => foldStrictX env raw
  | .extraction => foldExtractionX env raw
  | .lenient => foldLenientX env raw
  | .repair => foldRepairX env raw

/-! ### configuration, statistics -/

/-- A Chaperone instance's configuration: the current value of its public list `self.strategies`. -/
structure Cfg where
  strategies : List Strategy

def defaultStrategies : List Strategy := [.strict, .extraction, .lenient, .repair]

/-- the constructor: `self.strategies = strategies or [STRICT, EXTRACTION, LENIENT, REPAIR]`
    (`None` and `[]` are both falsy: represented by `[]`); every instance gets a list of its own -/
def Cfg.new (ctor : List Strategy) : Cfg := ⟨if ctor.isEmpty then defaultStrategies else ctor⟩

/-- `self.strategies` -/
def selfStrategies (cfg : Cfg) : List Strategy := cfg.strategies

/-- `strategies = strategies or self.strategies` (the per-call override; `None`/`[]` ↦ `[]`) -/
def effective (cfg : Cfg) (call : List Strategy) : List Strategy :=
  if call.isEmpty then cfg.strategies else call

/-- in-place edits of the public list `chaperone.strategies` -/
inductive Tune where
  | remove (s : Strategy)       -- list.remove (first occurrence; the harness only issues it when present)
  | reverse
  | append (s : Strategy)
  | clear
  deriving DecidableEq, Repr

def Cfg.tune (c : Cfg) : Tune → Cfg
  | .remove s => ⟨c.strategies.erase s⟩
  | .reverse => ⟨c.strategies.reverse⟩
  | .append s => ⟨c.strategies ++ [s]⟩
  | .clear => ⟨[]⟩

structure Stats where
  total : Nat
  successful : Nat
  succ : Strategy → Nat
  att : Strategy → Nat

def Stats.zero : Stats := ⟨0, 0, fun _ => 0, fun _ => 0⟩

def bump (f : Strategy → Nat) (s : Strategy) : Strategy → Nat := fun x => if x = s then f x + 1 else f x

/-- `FoldingAttempt` without the duration. -/
structure AttRec where
  strategy : Strategy
  success : Bool
  err : Option ErrTag
  deriving DecidableEq, Repr

/-- What one loop iteration's `try` block yields: the strategy's result, or the caught exception. -/
inductive Tried (α : Type) where
  | returned (r : α)
  | caught (e : Exc)

/-- What the strategy loop hands to the code after it. -/
structure LoopOut (α : Type) where
  stats : Stats
  hit : Option (Strategy × α)       -- the strategy that succeeded, with its result
  attempts : List AttRec            -- the failed attempts, in order

/-- The `for strategy in strategies:` loop of `fold`. -/
def loopP (env : Env J S C) (raw : Text) : List Strategy → Stats → List AttRec → W (Call J S C) (LoopOut (P S))
  | [], st, atts => pure ⟨st, none, atts⟩
  | s :: rest, st, atts => do
    let st1 : Stats := ⟨st.total, st.successful, st.succ, bump st.att s⟩
    let r ← W.tryCatch (do let p ← attemptP env raw s; pure (Tried.returned p)) (fun e => some (.caught e))
    match r with
    | .returned p =>
      if p.valid then pure ⟨⟨st1.total, st1.successful + 1, bump st1.succ s, st1.att⟩, some (s, p), atts⟩
      else loopP env raw rest st1 (atts ++ [⟨s, false, p.err⟩])
    | .caught e => loopP env raw rest st1 (atts ++ [⟨s, false, some (.msg e)⟩])

/-- The `for strategy in strategies:` loop of `fold_enhanced`. -/
def loopX (env : Env J S C) (raw : Text) : List Strategy → Stats → List AttRec → W (Call J S C) (LoopOut (X S C))
  | [], st, atts => pure ⟨st, none, atts⟩
  | s :: rest, st, atts => do
    let st1 : Stats := ⟨st.total, st.successful, st.succ, bump st.att s⟩
    let r ← W.tryCatch (do let p ← attemptX env raw s; pure (Tried.returned p)) (fun e => some (.caught e))
    match r with
    | .returned p =>
      if p.valid then pure ⟨⟨st1.total, st1.successful + 1, bump st1.succ s, st1.att⟩, some (s, p), atts⟩
      else loopX env raw rest st1 (atts ++ [⟨s, false, p.err⟩])
    | .caught e => loopX env raw rest st1 (atts ++ [⟨s, false, some (.msg e)⟩])

/-- The final `error_trace`. -/
inductive FinalErr where
  | allFailed (n : Nat)             -- "All n folding strategies failed…"
  | attempt (t : ErrTag)            -- the trace carried by a strategy's own result
  | mapFailed (e : Exc)             -- `str(e)` of the exception a mapped function raised (FoldedProtein.map)
  deriving DecidableEq, Repr

/-- `FoldedProtein` returned by `fold`. -/
structure Folded (S : Type) where
  valid : Bool
  struct : Option S
  raw : Text
  err : Option FinalErr

/-- `FoldedProtein.map` (core/types.py): apply a user function to the structure of a valid report; a raising function
    turns the report invalid, without structure, with the exception text as error trace; an invalid report (or one
    without structure) is returned as it is and the function is not called.  (`folding_attempts` is carried along
    unchanged and not modelled; the function is an arbitrary one that returns a structure or raises.) -/
def Folded.map {S : Type} (f : S → Res S) (p : Folded S) : Folded S :=
  match p.valid, p.struct with
  | true, some s =>
    match f s with
    | .ok s' => ⟨true, some s', p.raw, none⟩
    | .raise e => ⟨false, none, p.raw, some (.mapFailed e)⟩
  | _, _ => p

/-- does `map` call the function on this report? -/
def Folded.mapCalls {S : Type} (p : Folded S) : Bool := p.valid && p.struct.isSome

/-- `EnhancedFoldedProtein` returned by `fold_enhanced`. -/
structure FoldedX (S C : Type) where
  valid : Bool
  struct : Option S
  raw : Text
  err : Option FinalErr
  attempts : List AttRec
  confidence : Rat
  coercions : List (Note C)
  strategyUsed : Option Strategy

/-- `Chaperone.fold` -/
def fold (env : Env J S C) (cfg : Cfg) (st : Stats) (raw : Text) (call : List Strategy) :
    W (Call J S C) (Stats × Folded S) := do
  let strategies := effective cfg call
  let o ← loopP env raw strategies ⟨st.total + 1, st.successful, st.succ, st.att⟩ []
  match o.hit with
  | some (_, p) => pure (o.stats, ⟨true, p.struct, raw, none⟩)
  | none => pure (o.stats, ⟨false, none, raw, some (.allFailed strategies.length)⟩)

/-- `Chaperone.fold_enhanced` -/
def foldX (env : Env J S C) (cfg : Cfg) (st : Stats) (raw : Text) (call : List Strategy) :
    W (Call J S C) (Stats × FoldedX S C) := do
  let strategies := effective cfg call
  let o ← loopX env raw strategies ⟨st.total + 1, st.successful, st.succ, st.att⟩ []
  match o.hit with
  | some (s, x) =>
    pure (o.stats, ⟨x.valid, x.struct, raw, x.err.map .attempt, o.attempts ++ [⟨s, true, none⟩],
                    x.confidence, x.coercions, x.strategyUsed⟩)
  | none => pure (o.stats, ⟨false, none, raw, some (.allFailed strategies.length), o.attempts, cFailed, [], none⟩)

/-! ### the user callbacks of `fold` / `fold_enhanced`: co-chaperone preprocessors and `on_misfold`

Both run OUTSIDE the per-strategy `try`: an exception a callback raises leaves the fold (after `_total_folds` was
incremented).  `fold` / `foldX` above are the two methods for a Chaperone whose `co_chaperones` dict has no entry for
the target schema and whose `on_misfold` is falsy (`c11_without_callbacks_nothing_changes`). -/

/-- The user callbacks one `fold` / `fold_enhanced` call can reach; each is an arbitrary function that returns or
    raises any exception class. -/
structure Hooks (S C : Type) where
  /-- `self.co_chaperones[target_schema]` when `target_schema in self.co_chaperones` -/
  pre : Option (Text → Res Text)
  /-- `self.on_misfold` when it is truthy (`if self.on_misfold:`) -/
  onMisfold : Option (FoldedX S C → Res Unit)

/-- no co-chaperone registered for the schema, no (truthy) `on_misfold` -/
def Hooks.absent : Hooks S C := ⟨none, none⟩

/-- One invocation of a user callback, with what it was given and what it did. -/
inductive HookCall (S C : Type) where
  | pre (raw : Text) (r : Res Text)
  | misfold (rep : FoldedX S C) (r : Res Unit)

/-- What a fold with callbacks leaves behind: the counters (also when an exception leaves the method), the user
    callbacks invoked in order, the library calls made, and the returned report or the propagating exception. -/
structure HOut (J S C α : Type) where
  stats : Stats
  hooks : List (HookCall S C)
  trace : Tr J S C
  res : Res α

/-- the `EnhancedFoldedProtein(valid=False, raw_peptide_chain=raw, error_trace="All n …", attempts=attempts,
    confidence=0.0)` both methods build when every strategy failed (`raw` is the text the caller passed, not the
    preprocessed one) -/
def misfoldReport (raw : Text) (n : Nat) (atts : List AttRec) : FoldedX S C :=
  ⟨false, none, raw, some (.allFailed n), atts, cFailed, [], none⟩

/-- `if self.on_misfold: self.on_misfold(report)` followed by `return result` -/
def callMisfold {α : Type} (hk : Hooks S C) (stats : Stats) (hooks : List (HookCall S C)) (tr : Tr J S C)
    (rep : FoldedX S C) (result : α) : HOut J S C α :=
  match hk.onMisfold with
  | none => ⟨stats, hooks, tr, .ok result⟩
  | some g =>
    match g rep with
    | .ok _ => ⟨stats, hooks ++ [.misfold rep (.ok ())], tr, .ok result⟩
    | .raise e => ⟨stats, hooks ++ [.misfold rep (.raise e)], tr, .raise e⟩

/-- `fold` from the strategy loop on: the strategies work on `processed`, every report echoes `raw` -/
def foldHOn (env : Env J S C) (hk : Hooks S C) (cfg : Cfg) (st : Stats) (raw processed : Text)
    (call : List Strategy) (hooks : List (HookCall S C)) : HOut J S C (Folded S) :=
  let strategies := effective cfg call
  let st1 : Stats := ⟨st.total + 1, st.successful, st.succ, st.att⟩
  match loopP env processed strategies st1 [] with
  | ⟨tr, .raise e⟩ => ⟨st1, hooks, tr, .raise e⟩
  | ⟨tr, .ok o⟩ =>
    match o.hit with
    | some (_, p) => ⟨o.stats, hooks, tr, .ok ⟨true, p.struct, raw, none⟩⟩
    | none =>
      callMisfold hk o.stats hooks tr (misfoldReport raw strategies.length o.attempts)
        ⟨false, none, raw, some (.allFailed strategies.length)⟩

/-- `fold_enhanced` from the strategy loop on; when every strategy failed the report handed to `on_misfold` is the
    object that is returned -/
def foldXHOn (env : Env J S C) (hk : Hooks S C) (cfg : Cfg) (st : Stats) (raw processed : Text)
    (call : List Strategy) (hooks : List (HookCall S C)) : HOut J S C (FoldedX S C) :=
  let strategies := effective cfg call
  let st1 : Stats := ⟨st.total + 1, st.successful, st.succ, st.att⟩
  match loopX env processed strategies st1 [] with
  | ⟨tr, .raise e⟩ => ⟨st1, hooks, tr, .raise e⟩
  | ⟨tr, .ok o⟩ =>
    match o.hit with
    | some (s, x) =>
      ⟨o.stats, hooks, tr, .ok ⟨x.valid, x.struct, raw, x.err.map .attempt, o.attempts ++ [⟨s, true, none⟩],
                                x.confidence, x.coercions, x.strategyUsed⟩⟩
    | none =>
      callMisfold hk o.stats hooks tr (misfoldReport raw strategies.length o.attempts)
        (misfoldReport raw strategies.length o.attempts)

/-- `processed_input = raw; if target_schema in self.co_chaperones: processed_input = self.co_chaperones[…](raw)` —
    after `self._total_folds += 1`, outside every `try` -/
def withPre {α : Type} (hk : Hooks S C) (st : Stats) (raw : Text)
    (k : Text → List (HookCall S C) → HOut J S C α) : HOut J S C α :=
  match hk.pre with
  | none => k raw []
  | some f =>
    match f raw with
    | .ok t => k t [.pre raw (.ok t)]
    | .raise e => ⟨⟨st.total + 1, st.successful, st.succ, st.att⟩, [.pre raw (.raise e)], [], .raise e⟩

/-- `Chaperone.fold` on an instance with callbacks -/
def foldH (env : Env J S C) (hk : Hooks S C) (cfg : Cfg) (st : Stats) (raw : Text) (call : List Strategy) :
    HOut J S C (Folded S) :=
  withPre hk st raw fun t hooks => foldHOn env hk cfg st raw t call hooks

/-- `Chaperone.fold_enhanced` on an instance with callbacks -/
def foldXH (env : Env J S C) (hk : Hooks S C) (cfg : Cfg) (st : Stats) (raw : Text) (call : List Strategy) :
    HOut J S C (FoldedX S C) :=
  withPre hk st raw fun t hooks => foldXHOn env hk cfg st raw t call hooks

end

/-! ### `ChaperoneLoop.heal` (operon_ai/healing/chaperone_loop.py)

The generator is an arbitrary function of the attempt number (whatever it is shown — prompt, error context — is
determined by the attempt number and the history, so every run of the real loop is a run of this one for some
`gen`).  `confidence_decay` is an arbitrary rational.  Console output and the text of the error context are not
modelled. -/

def ratMin (a b : Rat) : Rat := if a ≤ b then a else b

inductive HealOutcome where
  | validFirstTry | healed | degraded
  deriving DecidableEq, Repr

/-- `RefoldingAttempt` without the texts -/
structure HealAtt where
  number : Nat
  success : Bool
  confidence : Rat
  deriving DecidableEq, Repr

/-- `HealingResult` -/
structure HealOut (S C : Type) where
  outcome : HealOutcome
  folded : Option (FoldedX S C)
  attempts : List HealAtt
  finalConfidence : Rat
  tagged : Bool

section
variable {J S C : Type}

/-- `current_confidence = max(0.0, base_confidence - attempt_num * confidence_decay)` -/
def healCeiling (decay : Rat) (k : Nat) : Rat := ratMax 0 (1 - (k : Rat) * decay)

/-- the `for attempt_num in range(max_retries + 1)` loop from attempt `k` on, `fuel` iterations left -/
def healFrom (env : Env J S C) (cfg : Cfg) (decay : Rat) (gen : Nat → Text) :
    Nat → Nat → Stats → List HealAtt → W (Call J S C) (Stats × HealOut S C)
  | 0, _, st, atts => pure (st, ⟨.degraded, none, atts, 0, true⟩)
  | fuel + 1, k, st, atts => do
    let r ← foldX env cfg st (gen k) []
    if r.2.valid then
      pure (r.1, ⟨if k = 0 then .validFirstTry else .healed,
                  some ⟨r.2.valid, r.2.struct, r.2.raw, r.2.err, r.2.attempts,
                        ratMin r.2.confidence (healCeiling decay k), r.2.coercions, r.2.strategyUsed⟩,
                  atts ++ [⟨k, true, healCeiling decay k⟩],
                  ratMin r.2.confidence (healCeiling decay k), false⟩)
    else healFrom env cfg decay gen fuel (k + 1) r.1 (atts ++ [⟨k, false, 0⟩])

/-- `ChaperoneLoop.heal` -/
def heal (env : Env J S C) (cfg : Cfg) (st : Stats) (decay : Rat) (maxRetries : Nat) (gen : Nat → Text) :
    W (Call J S C) (Stats × HealOut S C) :=
  healFrom env cfg decay gen (maxRetries + 1) 0 st []

/-- The loop over an instance WITH callbacks (`self.chaperone.fold_enhanced` is `foldXH`): the co-chaperone registered
    for the loop's schema preprocesses every generated text, `on_misfold` is invoked for every misfolded attempt, and —
    `heal` has no `try` — an exception a callback raises leaves `heal` (counters, callbacks invoked and library calls
    made so far are kept).  `hs` / `tr` accumulate the callbacks invoked and the library calls made. -/
def healHFrom (env : Env J S C) (hk : Hooks S C) (cfg : Cfg) (decay : Rat) (gen : Nat → Text) :
    Nat → Nat → Stats → List HealAtt → List (HookCall S C) → Tr J S C → HOut J S C (HealOut S C)
  | 0, _, st, atts, hs, tr => ⟨st, hs, tr, .ok ⟨.degraded, none, atts, 0, true⟩⟩
  | fuel + 1, k, st, atts, hs, tr =>
    match foldXH env hk cfg st (gen k) [] with
    | ⟨st1, hs1, tr1, .raise e⟩ => ⟨st1, hs ++ hs1, tr ++ tr1, .raise e⟩
    | ⟨st1, hs1, tr1, .ok r⟩ =>
      if r.valid then
        ⟨st1, hs ++ hs1, tr ++ tr1,
          .ok ⟨if k = 0 then .validFirstTry else .healed,
               some ⟨r.valid, r.struct, r.raw, r.err, r.attempts,
                     ratMin r.confidence (healCeiling decay k), r.coercions, r.strategyUsed⟩,
               atts ++ [⟨k, true, healCeiling decay k⟩],
               ratMin r.confidence (healCeiling decay k), false⟩⟩
      else healHFrom env hk cfg decay gen fuel (k + 1) st1 (atts ++ [⟨k, false, 0⟩]) (hs ++ hs1) (tr ++ tr1)

/-- `ChaperoneLoop.heal` on an instance with callbacks -/
def healH (env : Env J S C) (hk : Hooks S C) (cfg : Cfg) (st : Stats) (decay : Rat) (maxRetries : Nat)
    (gen : Nat → Text) : HOut J S C (HealOut S C) :=
  healHFrom env hk cfg decay gen (maxRetries + 1) 0 st [] [] []

end

/-! ### the library's own wrappers around a Chaperone

`ChaperoneLoop(generator, chaperone, schema, …)` is a dataclass without `__post_init__`: constructing it stores its
arguments and does not touch the Chaperone (the extractor probes this on every run: `Gen.ChaperoneTables.loopCtorTouches`).
`heal` reaches the Chaperone through `fold_enhanced` only (`Gen.ChaperoneTables.healUses`), so what a wrapped instance
keeps from a healing run is its counters.  An instance is what a fold depends on: the strategy list in force, the
callbacks, and the counters. -/

/-- methods of the Chaperone that constructing a `ChaperoneLoop` on it calls -/
def loopCtorCalls : List String := []

/-- methods of the Chaperone that one `heal` calls when the first `misfolds` generated texts misfold and the next one
    folds: `fold_enhanced` once per attempt, nothing else (`healHFrom` is made of `foldXH` only) -/
def healCallsFor (misfolds : Nat) : List String := List.replicate (misfolds + 1) "fold_enhanced"

/-- one Chaperone as `fold` / `fold_enhanced` see it -/
structure HInst (S C : Type) where
  cfg : Cfg
  hooks : Hooks S C
  stats : Stats

/-- `ChaperoneLoop(generator=…, chaperone=i, schema=…)` — the instance afterwards -/
def HInst.wrapInLoop {S C : Type} (i : HInst S C) : HInst S C := i

/-- `ChaperoneLoop(…, chaperone=i, …).heal(prompt)` — the instance afterwards: the counters moved, nothing else -/
def HInst.afterHeal {J S C : Type} (env : Env J S C) (i : HInst S C) (decay : Rat) (maxRetries : Nat) (gen : Nat → Text) :
    HInst S C :=
  ⟨i.cfg, i.hooks, (healH env i.hooks i.cfg i.stats decay maxRetries gen).stats⟩

/-! ### several Chaperone instances alive at once -/

structure Inst where
  cfg : Cfg
  stats : Stats

/-- the instances of one history, in creation order -/
abbrev World := List Inst

def World.create (w : World) (ctor : List Strategy) : World := w ++ [⟨Cfg.new ctor, Stats.zero⟩]

def World.tune (w : World) (i : Nat) (t : Tune) : World :=
  match w[i]? with
  | some x => w.set i ⟨x.cfg.tune t, x.stats⟩
  | none => w

def World.setStats (w : World) (i : Nat) (st : Stats) : World :=
  match w[i]? with
  | some x => w.set i ⟨x.cfg, st⟩
  | none => w

/-! ### list objects: the constructor KEEPS a non-empty caller list

`self.strategies = strategies or [STRICT, …]` binds the attribute to the caller's own list object when that list is
non-empty: two Chaperones built from one list, or a caller that edits its list afterwards, share it.  `None` and `[]`
give the instance a list of its own.  `Heap` is the model the correspondence runs on (`World` above is the special case
in which nobody shares). -/

/-- The list objects that hold strategies (the caller's lists and the default lists instances created for themselves),
    and the Chaperone instances in creation order, each with the object its `self.strategies` refers to and its
    counters. -/
structure Heap where
  cells : List (List Strategy)
  insts : List (Nat × Stats)

def Heap.empty : Heap := ⟨[], []⟩

/-- the caller creates a list object (it gets the next index) -/
def Heap.newList (h : Heap) (l : List Strategy) : Heap := ⟨h.cells ++ [l], h.insts⟩

/-- `Chaperone(strategies=arg)`, `arg` = `None` or the caller's list object `k` -/
def Heap.construct (h : Heap) (arg : Option Nat) : Heap :=
  match arg.bind (fun k => (h.cells[k]?).map fun l => (k, l)) with
  | some (k, l) =>
    if l.isEmpty then ⟨h.cells ++ [defaultStrategies], h.insts ++ [(h.cells.length, Stats.zero)]⟩
    else ⟨h.cells, h.insts ++ [(k, Stats.zero)]⟩
  | none => ⟨h.cells ++ [defaultStrategies], h.insts ++ [(h.cells.length, Stats.zero)]⟩

/-- in-place edit of list object `k`, through whichever reference (the caller's variable, `instance.strategies`) -/
def Heap.mutate (h : Heap) (k : Nat) (t : Tune) : Heap :=
  match h.cells[k]? with
  | some l => ⟨h.cells.set k (Cfg.tune ⟨l⟩ t).strategies, h.insts⟩
  | none => h

/-- `instance_i.strategies = <list object k>`: re-assignment of the public attribute (not an in-place edit) — the instance
    lets go of the list object it referred to and refers to object `k`; the old object stays, unchanged, with whoever
    else holds it -/
def Heap.assign (h : Heap) (i k : Nat) : Heap :=
  match h.insts[i]? with
  | some x => if k < h.cells.length then ⟨h.cells, h.insts.set i (k, x.2)⟩ else h
  | none => h

/-- the list object instance `i` refers to -/
def Heap.cellOf (h : Heap) (i : Nat) : Option Nat := (h.insts[i]?).map (·.1)

/-- `instance_i.strategies`, as a configuration -/
def Heap.cfgOf (h : Heap) (i : Nat) : Option Cfg := (h.cellOf i).bind fun k => (h.cells[k]?).map Cfg.mk

def Heap.statsOf (h : Heap) (i : Nat) : Stats := ((h.insts[i]?).map (·.2)).getD Stats.zero

def Heap.setStats (h : Heap) (i : Nat) (st : Stats) : Heap :=
  match h.insts[i]? with
  | some x => ⟨h.cells, h.insts.set i (x.1, st)⟩
  | none => h

/-- every instance refers to an existing list object -/
def Heap.WF (h : Heap) : Prop := ∀ e ∈ h.insts, e.1 < h.cells.length

/-! ### `_coerce_types_tracked`, one level deeper

The generic model above treats the coercion helper as an arbitrary function (`Env.coerce`).  This section models
its body over an environment of Python primitives (`isinstance`, `dict()`, `int()`, `float()`, `str()`, the two
literal sets of the bool table, `split(',')`), so that `Env.coerce := coerceModel c` is one particular — the
real — instance.  Keys `K` and values `V` are opaque. -/

/-- how the `if / elif` chain classifies `field_info.annotation` -/
inductive Ann where
  | int | float | str | bool | list | other
  deriving DecidableEq, Repr

/-- the five entries of the coercion table -/
inductive Conv where
  | strToInt | strToFloat | numToStr | strToBool | strToList
  deriving DecidableEq, Repr

structure CEnv (J K V : Type) where
  isList : J → Bool                       -- isinstance(data, list)
  toDict : J → Res (List (K × V))         -- dict(data) (raises for scalars)
  ofDict : List (K × V) → J               -- the dict that is handed on
  fields : List (K × Ann)                 -- schema.model_fields, in order
  isStr : V → Bool                        -- isinstance(value, str)
  isNum : V → Bool                        -- isinstance(value, (int, float))
  intOf : V → Option V                    -- int(value); none = ValueError
  floatOf : V → Option V                  -- float(value); none = ValueError
  strOf : V → V                           -- str(value)
  boolOf : V → Option V                   -- lower() in the true set / the false set / neither
  splitOf : V → V                         -- [v.strip() for v in value.split(',')]

section
variable {J K V : Type} [DecidableEq K]

def lookupKey (d : List (K × V)) (k : K) : Option V := (d.find? (fun e => e.1 == k)).map (·.2)

/-- `result[k] = v` for a key that is present (position kept) -/
def setKey (d : List (K × V)) (k : K) (v : V) : List (K × V) := d.map fun e => if e.1 = k then (k, v) else e

/-- one pass through the `if / elif` chain for a field that is present -/
def convert (c : CEnv J K V) (a : Ann) (v : V) : Option (V × Conv) :=
  match a with
  | .int => if c.isStr v then (c.intOf v).map (·, .strToInt) else none
  | .float => if c.isStr v then (c.floatOf v).map (·, .strToFloat) else none
  | .str => if c.isNum v then some (c.strOf v, .numToStr) else none
  | .bool => if c.isStr v then (c.boolOf v).map (·, .strToBool) else none
  | .list => if c.isStr v then some (c.splitOf v, .strToList) else none
  | .other => none

/-- `for field_name, field_info in fields.items():` -/
def coerceFields (c : CEnv J K V) : List (K × Ann) → List (K × V) → List (K × Conv) → List (K × V) × List (K × Conv)
  | [], d, ls => (d, ls)
  | (k, a) :: fs, d, ls =>
    match lookupKey d k with
    | none => coerceFields c fs d ls
    | some v =>
      match convert c a v with
      | some (v', cv) => coerceFields c fs (setKey d k v') (ls ++ [(k, cv)])
      | none => coerceFields c fs d ls

/-- `_coerce_types_tracked` -/
def coerceModel (c : CEnv J K V) (j : J) : Res (J × List (K × Conv)) :=
  if c.isList j then .ok (j, [])
  else
    match c.toDict j with
    | .raise e => .raise e
    | .ok d => .ok (c.ofDict (coerceFields c c.fields d []).1, (coerceFields c c.fields d []).2)

end

/-! ### the pinned tables: what the indices `findall i` / `sub i` and the strategy constructors stand for

Regenerated from the source on every run into `Operon/Gen/ChaperoneTables.lean` and compared by
`c11_extracted_tables_agree`. -/

def cps (s : String) : List Nat := s.toList.map Char.toNat

/-- `JSON_("```json\\s*([\\s\\S]*?)\\s*```", "markdown_json_block"),
  ("```\\s*([\\s\\S]*?)\\s*```", "markdown_code_block"),
  ("<json>([\\s\\S]*?)</json>", "xml_json_tag"),
  ("\\{[^{}]*\\}", "bare_json_object"),
  ("\\[[^\\[\\]]*\\]", "bare_json_array")RACTION_PATTERNS`: (regex, name) -/
def extractionTable : List (String × String) := [
  ("```json\\s*([\\s\\S]*?)\\s*```", "markdown_json_block"),
  ("```\\s*([\\s\\S]*?)\\s*```", "markdown_code_block"),
  ("<json>([\\s\\S]*?)</json>", "xml_json_tag"),
  ("\\{[^{}]*\\}", "bare_json_object"),
  ("\\[[^\\[\\]]*\\]", "bare_json_array")]

/-- `JSON_(",\\s*}", "}", "removed_trailing_comma_object"),
  (",\\s*]", "]", "removed_trailing_comma_array"),
  ("'([^']*)'(?=\\s*:)", "\"\\1\"", "fixed_single_quote_key"),
  (":\\s*'([^']*)'", ": \"\\1\"", "fixed_single_quote_value"),
  ("(\\{|,)\\s*([a-zA-Z_][a-zA-Z0-9_]*)\\s*:", "\\1\"\\2\":", "quoted_unquoted_key"),
  ("\\bNone\\b", "null", "converted_none_to_null"),
  ("\\bTrue\\b", "true", "converted_true"),
  ("\\bFalse\\b", "false", "converted_false"),
  (":\\s*undefined\\b", ": null", "converted_undefined"),
  (":\\s*NaN\\b", ": null", "converted_nan")AIRS`: (regex, replacement, name) -/
def repairTable : List (String × String × String) := [
  (",\\s*}", "}", "removed_trailing_comma_object"),
  (",\\s*]", "]", "removed_trailing_comma_array"),
  ("'([^']*)'(?=\\s*:)", "\"\\1\"", "fixed_single_quote_key"),
  (":\\s*'([^']*)'", ": \"\\1\"", "fixed_single_quote_value"),
  ("(\\{|,)\\s*([a-zA-Z_][a-zA-Z0-9_]*)\\s*:", "\\1\"\\2\":", "quoted_unquoted_key"),
  ("\\bNone\\b", "null", "converted_none_to_null"),
  ("\\bTrue\\b", "true", "converted_true"),
  ("\\bFalse\\b", "false", "converted_false"),
  (":\\s*undefined\\b", ": null", "converted_undefined"),
  (":\\s*NaN\\b", ": null", "converted_nan")]

def Strategy.name : Strategy → String
  | .strict => "strict" | .extraction => "extraction" | .lenient => "lenient" | .repair => "repair"

/-- a decimal literal of the source as (numerator, denominator) -/
def q (p : Nat × Nat) : Rat := (p.1 : Rat) / (p.2 : Rat)

end Operon.Chaperone
