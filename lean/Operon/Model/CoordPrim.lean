import Operon.Model.Coord
/-
  Primitives the py2lean translator of the coordination layer maps Python dict / loop constructs to, and the two
  small model functions that only the translation needs (`DependencyGraph.remove_dependency`,
  `ResourceLock.pop_next_waiter` are never called by the system).
-/
namespace Operon.Coord

/-- `k in d` on an insertion-ordered dict (association list) -/
def dictHas (E : Edges) (k : Nat) : Bool := E.any (fun e => e.1 = k)
/-- `d[k]` (the first entry; a dict has one) -/
def dictGet (E : Edges) (k : Nat) : List (Nat × Nat) := succs E k
/-- `d[k] = v`: in place when the key exists, appended otherwise -/
def dictSet (E : Edges) (k : Nat) (v : List (Nat × Nat)) : Edges :=
  if dictHas E k then E.map (fun e => if e.1 = k then (k, v) else e) else E ++ [(k, v)]
/-- `del d[k]` -/
def dictDel (E : Edges) (k : Nat) : Edges := E.filter (fun e => e.1 ≠ k)
/-- `list(d.keys())` -/
def dictKeys (E : Edges) : List Nat := E.map (·.1)

/-- marks a path on which Python raises KeyError / IndexError (a subscript whose key is guaranteed by an invariant
    the translator cannot see); the value is what the hand-written model returns there -/
def keyError {α : Type} (x : α) : α := x

/-- `while step(state): pass` with a bound on the number of iterations -/
def whileFuel {σ : Type} : Nat → (σ → σ × Bool) → σ → σ
  | 0, _, st => st
  | f + 1, step, st => match step st with
    | (st', true) => whileFuel f step st'
    | (st', false) => st'

/-- `for lock in self.resources.values(): <assignments to lock's fields>` -/
def Sys.mapLocks (s : Sys) (f : Lock → Lock) : Sys := { s with locks := fun r => (s.locks r).map f }

/-- `ResourceLock.pop_next_waiter` -/
def Lock.popNext (l : Lock) : Lock × Option (Nat × Int) :=
  match l.waiting with
  | [] => (l, none)
  | x :: xs => ({ l with waiting := xs }, some x)

/-- `DependencyGraph.remove_dependency` -/
def removeDep (E : Edges) (w b : Nat) : Edges :=
  (E.map (fun e => if e.1 = w then (e.1, e.2.filter (fun d => d.1 ≠ b)) else e)).filter
    (fun e => !(decide (e.1 = w) && e.2.isEmpty))

instance : Inhabited Lock := ⟨{ owner := some 0, ownerPrio := -1, hold := 12345 }⟩
instance : Inhabited Sys := ⟨{ now := 12345, resIds := [12345] }⟩
instance : Inhabited Ctx := ⟨{ id := 12345, prio := -1 }⟩
instance : Inhabited LockResult := ⟨.blocked⟩

/-- what the translator emits for a method that left its supported subset -/
def untranslatable {α : Type} [Inhabited α] (_construct : String) : α := default

end Operon.Coord
