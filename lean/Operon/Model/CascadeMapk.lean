import Operon.Model.Cascade
/-
  The shipped `MAPKCascade` preset as a stage list of the model.

  The preset's signals are dicts; the model abstracts them to the tier they carry: 0 = a raw (non-dict) input, k = the dict
  of tier k (`{"signal": …, "tier": k, "active": True, …}`).  Tier 1 (MAPKKK) is ungated and wraps anything into the tier-1
  dict; tier 2 (MAPKK) is gated on `x.get("active", False)`, tier 3 (MAPK) on `x.get("tier") == 2`; their processors set
  the tier on an active dict.  A raw signal reaching a gate or processor of tier 2 / 3 makes `x.get` raise AttributeError.
  Every tier is required, has no error handler, and carries the constructor's factor of its own tier.

  `Gen/CascadeTable.lean :: mapkFacts` is regenerated on every run by evaluating the real preset's stage objects on the four
  abstract inputs; `c19_mapk_preset_agrees_with_evaluated_source` proves this definition reproduces them.
-/
namespace Operon.Cascade

def mapkPreset (a1 a2 a3 : Rat) : List (Stage Nat) :=
  [⟨none, fun _ => .ok 1, none, true, a1⟩,
   ⟨some fun x => if x = 0 then .raise else .ok true, fun x => if x = 0 then .raise else .ok 2, none, true, a2⟩,
   ⟨some fun x => if x = 0 then .raise else .ok (x == 2), fun x => if x = 0 then .raise else .ok 3, none, true, a3⟩]

/-- gate of a stage on an input: 0 false, 1 true, 2 raises, 3 no gate -/
def gateCode (s : Stage Nat) (x : Nat) : Nat :=
  match s.checkpoint with
  | none => 3
  | some cp => (match cp x with | .ok true => 1 | .ok false => 0 | .raise => 2)

/-- processor of a stage on an input: the tier of its output, 9 when it raises -/
def procCode (s : Stage Nat) (x : Nat) : Nat :=
  match s.processor x with
  | .ok v => v
  | .raise => 9

end Operon.Cascade
