import Operon.Model.Mito
/-!
  Work of the safe evaluator, counted in walker invocations (C01, resource clause).

  `visits T env e` is the number of times `Mitochondria._compute_node` is entered while `e` is evaluated: one per
  node that is reached, following exactly the control flow of `walk` (operands left to right, nothing after the first
  failure, short-circuit `and`/`or`, a comparison chain stops at the first falsy link and evaluates every comparator
  ONCE, only the taken branch of a conditional).  `metVisits` is the same count for the entry point `metabolize`
  (guards, pathway selection, the tool pathway's arguments).  The driver prints it (`v=…` on `met` / `dg` lines of
  C01) and the harness counts the real calls, so the count itself is part of the correspondence; `Lemmas/C01Work.lean`
  proves `visits ≤ nodes` — every node of the text is evaluated at most once.
-/
namespace Operon.Mito

mutual
def visits (T : Tables) (env : Env) : Expr → Nat
  | .const _ => 1
  | .name _ => 1
  | .binop _ l r =>
    1 + visits T env l + (match (walk T env l).2 with | .ok _ => visits T env r | .error _ => 0)
  | .unop _ e => 1 + visits T env e
  | .call f args kn kv =>
    match f with
    | .name fn =>
      if fn ∈ T.names then
        if hasDupKw kn then 1
        else 1 + visitsList T env args +
          (match (walkList T env args).2 with | .ok _ => visitsKws T env kn kv | .error _ => 0)
      else 1
    | _ => 1
  | .list es => 1 + visitsList T env es
  | .tuple es => 1 + visitsList T env es
  | .compare l ops cs =>
    1 + visits T env l + (match (walk T env l).2 with | .ok a => visitsCmp T env a ops cs | .error _ => 0)
  | .boolop k es => if k ∈ T.bool then 1 + visitsBool T env k es else 1
  | .ifexp c t e =>
    1 + visits T env c +
      (match (walk T env c).2 with
       | .ok cv =>
         (match (truthyR env cv).2 with
          | .ok b => if b then visits T env t else visits T env e
          | .error _ => 0)
       | .error _ => 0)
  | .other _ _ => 1

def visitsList (T : Tables) (env : Env) : List Expr → Nat
  | [] => 0
  | e :: es => visits T env e + (match (walk T env e).2 with | .ok _ => visitsList T env es | .error _ => 0)

def visitsKws (T : Tables) (env : Env) (names : List (Option String)) : List Expr → Nat
  | [] => 0
  | e :: es =>
    match names with
    | some _ :: ns =>
      visits T env e + (match (walk T env e).2 with | .ok _ => visitsKws T env ns es | .error _ => 0)
    | _ => 0

def visitsCmp (T : Tables) (env : Env) (left : Val) (ops : List CmpK) : List Expr → Nat
  | [] => 0
  | c :: cs =>
    match ops with
    | [] => 0
    | op :: ops' =>
      visits T env c +
        (match (walk T env c).2 with
         | .ok right =>
           (match T.cmp.lookup op with
            | none => 0
            | some p =>
              (match env.prim p [left, right] with
               | .ok r =>
                 (match (truthyR env r).2 with
                  | .ok b => if b then visitsCmp T env right ops' cs else 0
                  | .error _ => 0)
               | .error _ => 0))
         | .error _ => 0)

def visitsBool (T : Tables) (env : Env) (k : BoolK) : List Expr → Nat
  | [] => 0
  | e :: es =>
    match es with
    | [] => visits T env e
    | _ :: _ =>
      visits T env e +
        (match (walk T env e).2 with
         | .ok v =>
           (match (truthyR env v).2 with
            | .ok b => if b = (k = .or) then 0 else visitsBool T env k es
            | .error _ => 0)
         | .error _ => 0)
end

/-- walker invocations of `_oxidative_phosphorylation`: the arguments of the tool call, positional then keyword -/
def toolVisits (T : Tables) (env : Env) (tools : List ToolReg) (allowed : Option (List String)) : Expr → Nat
  | .call (.name tn) args kn kv =>
    match findTool tools tn with
    | none => 0
    | some t =>
      if capsOk allowed t then
        visitsList T env args + (match (walkList T env args).2 with | .ok _ => visitsKws T env kn kv | .error _ => 0)
      else 0
  | _ => 0

def pathwayVisits (T : Tables) (env : Env) (cfg : Cfg) (inp : Inp) (p : Pathway) : Nat :=
  match p with
  | .beta => 0
  | _ => match inp.parsed with
    | none => 0
    | some e =>
      if dupAnywhere e then 0 else
      match p with
      | .glycolysis => visits T env e
      | .krebs => visits T env (normalise e)
      | _ => toolVisits T env cfg.tools cfg.allowed e

/-- walker invocations of one `metabolize` call (same guards as `Mito.metabolize`) -/
def metVisits (T : Tables) (env : Env) (cfg : Cfg) (latched : Bool) (detect : Pathway) (inp : Inp)
    (forced : Option Pathway) : Nat :=
  if inp.len > cfg.maxLen then 0
  else if latched then 0
  else if !cfg.silent && inp.printRaises then 0
  else pathwayVisits T env cfg inp (forced.getD detect)

/-! ### The literal route of the transform pathway

`_beta_oxidation` hands the stripped text to `ast.literal_eval` first (JSON only reads what is not a Python literal).  On a
tree of constants, list and tuple displays `literal_eval` returns the structural value; the driver computes this itself
and takes the environment's answer (`Inp.beta`) only for the other texts (dict / set displays, signed numbers, JSON). -/

mutual
def litEval : Expr → Option Val
  | .const v => some v
  | .list es => (litEvalList es).map .list
  | .tuple es => (litEvalList es).map .tuple
  | _ => none
def litEvalList : List Expr → Option (List Val)
  | [] => some []
  | e :: es =>
    match litEval e, litEvalList es with
    | some v, some vs => some (v :: vs)
    | _, _ => none
end

end Operon.Mito
