import Operon.Model.Mito
/-!
  Specification side of the tool pathway (C02): what Python does with a tool-call text when the names of the registered
  tools stand for them.  Lives in `Model/` because the driver answers `pyevt` lines with it (compared with CPython's own
  `eval` of the same text over tracer objects on every run), as `pyEval` answers `pyev` lines.
-/
namespace Operon.Mito

/-- Python's evaluation of a tool-call text `tn(a, …, k=b, …)` in a namespace that binds exactly the allow-listed names,
    `tn` standing for the registered tool: positional arguments left to right, keyword values left to right, then the
    tool body with those values (`**` arguments are outside the specified subset) -/
def pyToolCall (names : List String) (env : Env) (tools : List ToolReg) : Expr → R Val
  | .call (.name tn) args kn kv =>
    match findTool tools tn with
    | none => R.fail "NameError"      -- the callee is looked up first: nothing is evaluated
    | some _ =>
      (pyList names env args).bind fun as =>
      (pyKws names env kn kv).bind fun ks =>
      R.act (.tool tn as (dictOf ks)) (env.tool tn as (dictOf ks))
  | _ => R.fail "not a tool call"

/-- compile (refuses a repeated keyword anywhere), then evaluate -/
def pyToolRun (names : List String) (env : Env) (tools : List ToolReg) (e : Expr) : R Val :=
  if dupAnywhere e then R.fail "SyntaxError: keyword argument repeated" else pyToolCall names env tools e

end Operon.Mito
