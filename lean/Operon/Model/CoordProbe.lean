import Operon.Model.CoordExec
/-
  What the probe of `execute_operation` (harness/vf/extract/exec_probe.py → Gen/CoordExecProbe.lean) observes, computed
  on the model: a fresh system with one free resource, operation 1 with priority 3 requesting it, callbacks that do
  nothing to the system; the checkpoint outcomes, whether work returns and what the validator does are the row.
-/
namespace Operon.Coord

/-- the events a callback can observe (acquisitions, the final complete / abort are not calls of a callback) -/
def isCallbackEv : Ev → Bool
  | .cp _ _ => true
  | .work _ => true
  | .validate _ => true
  | _ => false

def probeSys : Sys := ({} : Sys).register 1 false

def probeAdv (cps : List CpOut) (workOk : Bool) (val : ValOut) : Adv :=
  { cp := fun i => cps.getD i .base, act := .none, workOk := workOk, val := val }

/-- (success, phase reported, callback events in order, nothing active and the resource free afterwards) -/
def probeRow (cps : List CpOut) (workOk : Bool) (val : ValOut) : Bool × Phase × List Ev × Bool :=
  let r := exec probeSys 1 3 [1] (probeAdv cps workOk val)
  (r.success, r.phase, r.log.filter isCallbackEv,
   r.sys.active.isEmpty && ((r.sys.locks 1).map (·.owner) == some none))

/-- every combination of four checkpoint outcomes, work returning or raising, and the four validator behaviours -/
def probeDomain : List (List CpOut × Bool × ValOut) :=
  let c := [CpOut.base, .no, .raise]
  (c.flatMap fun a => c.flatMap fun b => c.flatMap fun d => c.map fun e => [a, b, d, e]).flatMap fun cps =>
    [true, false].flatMap fun w => [ValOut.absent, .yes, .no, .raise].map fun v => (cps, w, v)

/-! ### the operation ended from inside one of its own callbacks -/

/-- position 0..3 = the i-th checkpoint condition, 4 = `work_fn`, 5 = `validate_fn`; how 0 = `kill_operation` of the
    operation itself, otherwise `shutdown()`; every checkpoint condition is the default one -/
def killAdv (pos how : Nat) (workOk : Bool) (val : ValOut) : Adv :=
  let a : WorkAct := if how == 0 then .kill 1 else .shutdown
  { cp := fun _ => .base, act := if pos == 4 then a else .none, workOk := workOk, val := val,
    cpAct := fun i => if i == pos && decide (pos < 4) then a else .none,
    valAct := if pos == 5 then a else .none }

/-- (success, phase reported, callback events in order, the resource owned by the operation as the work function
    found the system — `none` when the work function did not run —, nothing active and the resource free afterwards) -/
def killProbeRow (pos how : Nat) (workOk : Bool) (val : ValOut) : Bool × Phase × List Ev × Option Bool × Bool :=
  let r := exec probeSys 1 3 [1] (killAdv pos how workOk val)
  (r.success, r.phase, r.log.filter isCallbackEv,
   r.atWork.map (fun w => (w.locks 1).map (·.owner) == some (some 1)),
   r.sys.active.isEmpty && ((r.sys.locks 1).map (·.owner) == some none))

def killProbeDomain : List (Nat × Nat × Bool × ValOut) :=
  ([0, 1, 2, 3, 4, 5].flatMap fun pos => [0, 1].flatMap fun how => [true, false].flatMap fun w =>
    [ValOut.absent, .yes, .no, .raise].map fun v => (pos, how, w, v)).filter fun r => !(r.1 == 5 && r.2.2.2 == .absent)

/-! ### the watchdog's per-operation verdict on the probe's grid -/

/-- the verdict of the model's `timeoutEvent` for an operation in phase `ph` that was created `e1` and entered its
    phase `e2` microseconds ago (the clock shows 100) -/
def wdRow (ph : Phase) (ex ra : Bool) (a b c : Option Nat) (e1 e2 : Nat) : Option Reason :=
  let s : Sys := { now := 100, maxOp := a, starv := b, prog := c }
  let cx : Ctx := { id := 1, prio := 0, phase := ph, phaseAt := 100 - e2, resAcq := ra, created := 100 - e1, exempt := ex }
  (timeoutEvent s cx).map (·.2)

def wdDomain : List (Phase × Bool × Bool × Option Nat × Option Nat × Option Nat × Nat × Nat) :=
  let lims : List (Option Nat) := [none, some 0, some 5]
  [Phase.g0, .g1, .s, .g2, .m].flatMap fun ph => [false, true].flatMap fun ex => [false, true].flatMap fun ra =>
    lims.flatMap fun a => lims.flatMap fun b => lims.flatMap fun c =>
      [5, 6].flatMap fun e1 => [5, 6].map fun e2 => (ph, ex, ra, a, b, c, e1, e2)

end Operon.Coord
