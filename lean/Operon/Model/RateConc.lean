import Operon.Model.Membrane
/-
  Statement-level model of `Membrane._check_rate_limit` executed by SEVERAL THREADS on one membrane (C10, the
  "floods" of the property's histories).

      def _check_rate_limit(self) -> bool:
          if self.rate_limit is None:                      -- guardNone
              return False
          with self._rate_lock:                            -- acquire   (blocks while another thread holds the lock)
              now = time.time()                            -- readClock
              cutoff = now - 60                            --           (local, no shared access)
              self._request_times = [t for t in self._request_times if t > cutoff]     -- pruneShared
              if len(self._request_times) >= self.rate_limit:                          -- testShared
                  return True                              --           (leaving the `with` releases the lock)
              self._request_times.append(now)              -- appendShared
              return False                                 -- retFalse  (leaving the `with` releases the lock)

  A thread is a program counter into the instruction list plus its local `now`.  The shared state is
  `_request_times`, the lock, the clock, and the (here constant) configuration `rate_limit` / window.  A schedule
  is any list of events "thread i executes its next statement" / "the clock advances by d"; a thread that waits
  for the lock or has returned does nothing when scheduled.  Every return is recorded in `log` (who, the time the
  call read, what it returned) — the observable trace the theorems speak about.

  The instruction list of the CURRENT source is regenerated on every run (`Tr.rateProgram` in
  `Operon/Gen/GatesTranslated.lean`, with which statements sit inside the `with` block) and proved equal to
  `rateProg` (`c10_translation_agrees_rate_program`).  The interpreter gives every instruction its meaning whether
  or not the lock is held, so a program that touches `_request_times` outside the lock is expressible (and loses
  the property: see the witness example next to `c10_membrane_rate_window_concurrent`).
-/
namespace Operon.Gates

inductive RInstr where
  | guardNone
  | acquire
  | readClock
  | pruneShared
  | testShared
  | appendShared
  | retFalse
  deriving Repr, DecidableEq

/-- `_check_rate_limit` of the current source -/
def rateProg : List RInstr :=
  [.guardNone, .acquire, .readClock, .pruneShared, .testShared, .appendShared, .retFalse]

structure Thr where
  pc : Nat
  now : Nat
  deriving Repr, DecidableEq

/-- a returned call: which thread, the time it read (the clock at its return when no limit was set), and what
    `_check_rate_limit` returned -/
structure RateEv where
  tid : Nat
  t : Nat
  limited : Bool
  deriving Repr, DecidableEq

structure Sh where
  reqTimes : List Nat
  lock : Option Nat
  clock : Nat
  rateLimit : Option Nat
  window : Nat
  log : List RateEv
  deriving Repr, DecidableEq

structure CSt where
  sh : Sh
  thr : Nat → Thr

inductive CEv where
  | run (tid : Nat)
  | tick (d : Nat)
  deriving Repr, DecidableEq

/-- leaving the `with` block: the lock is released if this thread holds it -/
def unlock (l : Option Nat) (i : Nat) : Option Nat := if l = some i then none else l

/-- thread `i` (local state `t`) executes instruction `ins`; `fin` = the program counter of a returned call -/
def execInstr (fin : Nat) (sh : Sh) (i : Nat) (t : Thr) : RInstr → Sh × Thr
  | .guardNone =>
    match sh.rateLimit with
    | none => ({ sh with log := sh.log ++ [⟨i, sh.clock, false⟩] }, ⟨fin, t.now⟩)
    | some _ => (sh, ⟨t.pc + 1, t.now⟩)
  | .acquire =>
    match sh.lock with
    | none => ({ sh with lock := some i }, ⟨t.pc + 1, t.now⟩)
    | some _ => (sh, t)
  | .readClock => (sh, ⟨t.pc + 1, sh.clock⟩)
  | .pruneShared => ({ sh with reqTimes := prune sh.window t.now sh.reqTimes }, ⟨t.pc + 1, t.now⟩)
  | .testShared =>
    match sh.rateLimit with
    | some r =>
      if sh.reqTimes.length ≥ r then
        ({ sh with lock := unlock sh.lock i, log := sh.log ++ [⟨i, t.now, true⟩] }, ⟨fin, t.now⟩)
      else (sh, ⟨t.pc + 1, t.now⟩)
    | none => (sh, ⟨fin, t.now⟩)      -- `len(..) >= None` (TypeError); unreachable while the limit is not re-assigned
  | .appendShared => ({ sh with reqTimes := sh.reqTimes ++ [t.now] }, ⟨t.pc + 1, t.now⟩)
  | .retFalse => ({ sh with lock := unlock sh.lock i, log := sh.log ++ [⟨i, t.now, false⟩] }, ⟨fin, t.now⟩)

/-- one event of a schedule -/
def cstep (prog : List RInstr) (s : CSt) : CEv → CSt
  | .tick d => ⟨{ s.sh with clock := s.sh.clock + d }, s.thr⟩
  | .run i =>
    match prog[(s.thr i).pc]? with
    | none => s
    | some ins =>
      ⟨(execInstr prog.length s.sh i (s.thr i) ins).1,
       fun j => if j = i then (execInstr prog.length s.sh i (s.thr i) ins).2 else s.thr j⟩

/-- run a schedule -/
def crun (prog : List RInstr) (s : CSt) (evs : List CEv) : CSt := evs.foldl (cstep prog) s

/-- every thread about to call `_check_rate_limit` on a membrane whose lock is free -/
def CSt.start (reqTimes : List Nat) (clock : Nat) (rateLimit : Option Nat) (window : Nat) : CSt :=
  ⟨⟨reqTimes, none, clock, rateLimit, window, []⟩, fun _ => ⟨0, 0⟩⟩

/-- the times of the calls that were admitted (returned False), in the order of their return -/
def admits (log : List RateEv) : List Nat := (log.filter (fun e => !e.limited)).map (·.t)

/-- the sequential rate check on bare lists (`rateCheck` with a finite limit) -/
def rateCheckL (W r : Nat) (ts : List Nat) (now : Nat) : Bool × List Nat :=
  if (prune W now ts).length ≥ r then (true, prune W now ts) else (false, prune W now ts ++ [now])

/-- replay a log as a SEQUENTIAL history of rate checks starting from `ts`: `some ts'` iff every logged call
    returned what the sequential check returns at the time it read, `ts'` being the resulting `_request_times` -/
def seqReplay (W r : Nat) : List Nat → List RateEv → Option (List Nat)
  | ts, [] => some ts
  | ts, e :: es =>
    if (rateCheckL W r ts e.t).1 = e.limited then seqReplay W r (rateCheckL W r ts e.t).2 es else none

end Operon.Gates
