import Operon.Model.Loops
/-
  `ChaperoneLoop.heal` with `self.confidence_decay` read where the code reads it: at the top of every attempt
  (`current_confidence = max(0.0, base_confidence - attempt_num * self.confidence_decay)`), before the generator is
  called.  A generator or validator that holds the loop can assign the attribute while `heal` runs; `curOf s k` is
  the decayed confidence of attempt `k` for the decay the environment state `s` holds.  `zero` (the literal `0.0`) and
  `min` do not depend on the decay and stay in `ops`.

  `Lemmas/C18Decay.lean`: with callbacks that leave the decay alone this is `healLoop`; for any callbacks it differs
  from `healLoop` only in the confidence numbers (`HealRun.skel`), so every statement about calls, contexts,
  outcomes and the degradation tag carries over.
-/
namespace Operon.Loops

def healLoopL {σ κ C : Type} (ops : ConfOps C) (curOf : σ → Nat → C) (adv : HealAdv σ κ C) (prompt : String) :
    Nat → Nat → Option ErrCtx → List (Attempt C) → σ → HealRun σ κ C
  | 0, _, _, atts, s =>
    { st := s
      res := .ok { outcome := .degraded, folded := none, attempts := atts, finalConf := ops.zero, tagged := true }
      calls := [] }
  | rem + 1, k, ctx, atts, s =>
    match adv.gen s prompt ctx with
    | (s1, .raise) => { st := s1, res := .raise, calls := [⟨prompt, ctx, .raise, none⟩] }
    | (s1, .ok raw) =>
      match adv.fold s1 raw with
      | (s2, .raise) => { st := s2, res := .raise, calls := [⟨prompt, ctx, .ok raw, some .raise⟩] }
      | (s2, .ok f) =>
        if f.valid then
          { st := s2
            res := .ok
              { outcome := if k = 0 then .validFirstTry else .healed
                folded := some ⟨f.valid, ops.min f.conf (curOf s k), f.trace, f.payload⟩
                attempts := atts ++ [⟨k, raw, none, true, curOf s k⟩]
                finalConf := ops.min f.conf (curOf s k)
                tagged := false }
            calls := [⟨prompt, ctx, .ok raw, some (.ok f)⟩] }
        else
          let r := healLoopL ops curOf adv prompt rem (k + 1) (some (mkCtx f.trace raw))
            (atts ++ [⟨k, raw, some (traceOr f.trace), false, ops.zero⟩]) s2
          { st := r.st, res := r.res, calls := ⟨prompt, ctx, .ok raw, some (.ok f)⟩ :: r.calls }

/-- `ChaperoneLoop.heal(prompt)`: `max_retries` read once at entry, the decay at every attempt -/
def healL {σ κ C : Type} (ops : ConfOps C) (curOf : σ → Nat → C) (cfg : HealCfg) (adv : HealAdv σ κ C) (s : σ)
    (prompt : String) : HealRun σ κ C :=
  healLoopL ops curOf adv prompt (cfg.maxRetries + 1).toNat 0 none [] s

/-- what is left of an attempt record without its confidence -/
def Attempt.skel {C : Type} (a : Attempt C) : Nat × String × Option String × Bool := (a.num, a.raw, a.trace, a.success)

/-- A run without the confidence numbers that depend on the decay: final adversary state, the calls made, and of
    the result its outcome, tag, attempt records, the validator's answer it carries, and — for a degraded result —
    its final confidence. -/
def HealRun.skel {σ κ C : Type} (r : HealRun σ κ C) :
    σ × List (GenCall κ C) ×
      Out (Outcome × Bool × List (Nat × String × Option String × Bool) × Option (Bool × Option String × κ) × Option C) :=
  (r.st, r.calls,
   match r.res with
   | .raise => .raise
   | .ok h => .ok (h.outcome, h.tagged, h.attempts.map Attempt.skel, h.folded.map (fun f => (f.valid, f.trace, f.payload)),
       if h.outcome = .degraded then some h.finalConf else none))

/-- A live `ChaperoneLoop`: its callbacks and how its public attributes are read off the environment state. -/
structure HealObj (σ κ C : Type) where
  adv : HealAdv σ κ C
  /-- `self.max_retries` (read once, when `heal` is entered) -/
  retriesOf : σ → Int
  /-- `0.0` and `min` -/
  ops : ConfOps C
  /-- `max(0.0, 1.0 - k * self.confidence_decay)` for the decay the state holds (read at every attempt) -/
  curOf : σ → Nat → C

/-- `loop.heal(prompt)` on the live object -/
def HealObj.call {σ κ C : Type} (o : HealObj σ κ C) (_ : Unit) (s : σ) (prompt : String) :
    Unit × σ × HealRun σ κ C :=
  ((), (healL o.ops o.curOf ⟨o.retriesOf s⟩ o.adv s prompt).st, healL o.ops o.curOf ⟨o.retriesOf s⟩ o.adv s prompt)

end Operon.Loops
