/-
  Model of `operon_ai/state/metabolism.py :: ATP_Store` (the energy ledger of C04; the sequential bodies
  of the critical regions that C05 interleaves).

  Balances, capacities and debt are Python ints, so they are `Int` here: "every balance stays >= 0" is a
  theorem about the model (Props/C04), not a consequence of truncated subtraction.  Amounts passed by
  callers are `Nat` (the property quantifies over non-negative integer arguments).

  Layout (names are what C05 builds on):

    lock region of `consume`             = `consume`      = `consumeCore` ; `updateState` on success
    lock region of `regenerate`          = `regenerate`   = `regenCore`   ; `updateState`
    first lock region of `transfer_to`   = `withdraw`     (own lock; no `_update_state`)
    second region of `transfer_to`       = `deposit`      (= the peer's `regenerate`, under the peer's lock)
    lock region of `convert_nadh_to_atp` = `convert`
    lock region of `enter_dormancy`      = `enterDormancy`
    lock region of `exit_dormancy`       = `exitDormancy`
    lock region of `reset`               = `reset`        = `resetCore` ; `updateState`
    `apply_debt_interest` (NO lock)      = `applyInterest`

  The metabolic-state classifier compares float ratios with 0.1 / 0.3 / 0.9.  No C04 clause depends on
  its outcome, so it is a parameter (`Classifier`) of every function: theorems hold for every classifier,
  the driver instantiates it with the IEEE-double computation the Python code performs.  What IS modelled
  exactly is which true divisions `_update_state` performs (`pyDiv` raises `ZeroDivisionError` on a zero
  denominator), because "no operation raises" depends on their guards.

  Every operation returns the store *and* an `Except`: a Python exception raised after a mutation leaves
  the mutation in place.

  `on_state_change` is an adversary: `_update_state` calls it INSIDE the lock region, after the state field
  was written, only when the state changed, with the new state; it may return or raise.  `Obs` is what the
  observer does at that one call (a stateful observer is a different `Obs` at every call — histories
  quantify over one `Obs` per step and store).  The `…O` functions take the observer; the plain names
  (`updateState`, `consume`, `regenerate`, `deposit`, `exitDormancy`, `reset`) are the same functions with no
  observer installed (`on_state_change=None`).

  Console output (`silent=False`, the default) is best effort in the source: every message goes through the module's
  `print`, which swallows the failure of the stream — so it is not part of any operation's outcome and has no place in
  the model (evaluated on the real class on every run: `Operon.Gen.Metabolism.consoleFailuresEscape`; driven with
  hostile consoles by the harness: `loud` lines).  The background regeneration thread (`regeneration_rate > 0`) is
  another actor calling `regenerate(int(rate))`: `Op.tick`.

  Not modelled: timestamps and the content of `_transactions` (only its length), `get_report`'s float fields.
-/
namespace Operon.Atp

inductive MState where
  | normal | conserving | starving | feasting | dormant
  deriving Repr, DecidableEq

inductive Cur where
  | atp | gtp | nadh
  deriving Repr, DecidableEq

inductive Exc where
  | zeroDivision
  /-- whatever the `on_state_change` observer raised (`tag` names it) -/
  | observer (tag : Nat)
  deriving Repr, DecidableEq

/-- What the `on_state_change` observer does when called with the new state: return (`none`) or raise
    exception number `k` (`some k`). -/
abbrev Obs := MState → Option Nat

/-- `on_state_change=None` (or an observer that always returns) -/
def Obs.silent : Obs := fun _ => none

/-- The exact value `num / den` of a Python true division of two ints (`den ≠ 0`). -/
structure Quo where
  num : Int
  den : Int
  deriving Repr, DecidableEq

/-- `_update_state`'s classification: first argument is `total_current / total_capacity` (`none` = the
    literal `0.0` used when the capacity is zero), second is `debt / total_capacity` when the debt term is
    subtracted (`none` = no debt term). -/
abbrev Classifier := Option Quo → Option Quo → MState

structure Store where
  atp : Int
  gtp : Int
  nadh : Int
  maxAtp : Int
  maxGtp : Int
  maxNadh : Int
  debt : Int
  maxDebt : Int
  /-- `debt_interest` as the fraction `rateNum / rateDen` -/
  rateNum : Nat
  rateDen : Nat
  state : MState
  consumed : Int
  regenerated : Int
  ops : Nat
  failed : Nat
  /-- `len(self._transactions)` (capped at 1000) -/
  ntx : Nat
  deriving Repr, DecidableEq

/-- `ATP_Store(budget, gtp_budget, nadh_reserve, max_debt=…, debt_interest=rateNum/rateDen)`.  The constructor
    does not call `_update_state`: even an empty store starts NORMAL. -/
def Store.fresh (budget gtp nadh maxDebt rateNum rateDen : Nat) : Store :=
  { atp := budget, gtp := gtp, nadh := nadh, maxAtp := budget, maxGtp := gtp, maxNadh := nadh,
    debt := 0, maxDebt := maxDebt, rateNum := rateNum, rateDen := rateDen, state := .normal,
    consumed := 0, regenerated := 0, ops := 0, failed := 0, ntx := 0 }

def Store.bal (s : Store) : Cur → Int
  | .atp => s.atp
  | .gtp => s.gtp
  | .nadh => s.nadh

def Store.cap (s : Store) : Cur → Int
  | .atp => s.maxAtp
  | .gtp => s.maxGtp
  | .nadh => s.maxNadh

def Store.setBal (s : Store) (c : Cur) (v : Int) : Store :=
  match c with
  | .atp => { s with atp := v }
  | .gtp => { s with gtp := v }
  | .nadh => { s with nadh := v }

/-- net worth: balances minus debt -/
def Store.worth (s : Store) : Int := s.atp + s.gtp + s.nadh - s.debt

/-! ### `_update_state` -/

/-- Python `a / b` on ints. -/
def pyDiv (a b : Int) : Except Exc Quo :=
  if b = 0 then .error .zeroDivision else .ok ⟨a, b⟩

/-- `_update_state`: the state field is the only thing written, and only if no division raised; then, if the
    state changed, the observer is called with the new state (the field is already written when it raises). -/
def updateStateO (cls : Classifier) (obs : Obs) (s : Store) : Store × Except Exc Unit :=
  let cap := s.maxAtp + s.maxGtp
  let cur := s.atp + s.gtp
  let base : Except Exc (Option Quo) :=
    if cap = 0 then .ok none else (pyDiv cur cap).map some
  match base with
  | .error e => (s, .error e)
  | .ok r =>
    -- `if self._debt > 0 and total_capacity > 0:` (the guard is what keeps this division from raising)
    let pen : Except Exc (Option Quo) :=
      if s.debt > 0 ∧ cap > 0 then (pyDiv s.debt cap).map some else .ok none
    match pen with
    | .error e => (s, .error e)
    | .ok p =>
      let st := cls r p
      if st = s.state then ({ s with state := st }, .ok ())
      else
        match obs st with
        | none => ({ s with state := st }, .ok ())
        | some k => ({ s with state := st }, .error (.observer k))

def updateState (cls : Classifier) (s : Store) : Store × Except Exc Unit := updateStateO cls Obs.silent s

/-- `_update_state` with its two division guards as parameters — what the function would be with a guard missing.
    `g.1`: the ratio `total_current / total_capacity` is only computed when the capacity is not zero (`if total_capacity ==
    0: ratio = 0.0 else: …`); `g.2`: the debt term `self._debt / total_capacity` is only computed when the capacity is
    positive (`if self._debt > 0 and total_capacity > 0:`).  Which guards the source has is read from its AST on every
    run (`Operon.Gen.Metabolism.updGuards`); `updateStateO` is the instance with both guards. -/
def updateStateG (g : Bool × Bool) (cls : Classifier) (obs : Obs) (s : Store) : Store × Except Exc Unit :=
  let cap := s.maxAtp + s.maxGtp
  let cur := s.atp + s.gtp
  let base : Except Exc (Option Quo) :=
    if g.1 = true ∧ cap = 0 then .ok none else (pyDiv cur cap).map some
  match base with
  | .error e => (s, .error e)
  | .ok r =>
    let pen : Except Exc (Option Quo) :=
      if s.debt > 0 ∧ (g.2 = false ∨ cap > 0) then (pyDiv s.debt cap).map some else .ok none
    match pen with
    | .error e => (s, .error e)
    | .ok p =>
      let st := cls r p
      if st = s.state then ({ s with state := st }, .ok ())
      else
        match obs st with
        | none => ({ s with state := st }, .ok ())
        | some k => ({ s with state := st }, .error (.observer k))

/-- `self._update_state(); return v` — if the observer raised inside `_update_state`, `v` is never returned -/
def thenReturn {α : Type} (u : Store × Except Exc Unit) (v : α) : Store × Except Exc α :=
  (u.1, u.2.map fun _ => v)

/-! ### `consume` -/

/-- Which path of `consume` was taken. -/
inductive Branch where
  | gatedStarving
  | gatedDormant
  | direct
  | topup
  | debt (afterTopup : Bool)
  | refused (afterTopup : Bool)
  deriving Repr, DecidableEq

def Branch.success : Branch → Bool
  | .direct | .topup | .debt _ => true
  | _ => false

/-- `_record_transaction`: append, keep the last 1000. -/
def record (s : Store) : Store := { s with ntx := min (s.ntx + 1) 1000 }

/-- success bookkeeping: `_total_consumed += cost; _record_transaction(…, True)` -/
def charge (s : Store) (cost : Nat) : Store := record { s with consumed := s.consumed + cost }

/-- failure bookkeeping of the "cannot afford" exit -/
def refuse (s : Store) : Store := record { s with failed := s.failed + 1 }

/-- the debt branch: `balance` is the local variable of `consume` at that point -/
def debtPath (s : Store) (cost : Nat) (cur : Cur) (allowDebt : Bool) (balance : Int) (afterTopup : Bool) :
    Store × Branch :=
  if allowDebt = true ∧ s.debt < s.maxDebt then
    if s.debt + (cost - balance) ≤ s.maxDebt then
      -- the pool that was short is emptied (`self.atp = 0` / `self.gtp = 0` / `self.nadh = 0`), the rest is owed
      (charge ({ s with debt := s.debt + (cost - balance) }.setBal cur 0) cost, .debt afterTopup)
    else (refuse s, .refused afterTopup)
  else (refuse s, .refused afterTopup)

/-- Everything `consume` does inside the lock except the final `_update_state()` of the success paths. -/
def consumeCore (s : Store) (cost : Nat) (cur : Cur) (allowDebt : Bool) (prio : Nat) : Store × Branch :=
  let s0 := { s with ops := s.ops + 1 }
  if s.state = .starving ∧ prio < 5 then ({ s0 with failed := s0.failed + 1 }, .gatedStarving)
  else if s.state = .dormant ∧ prio < 10 then ({ s0 with failed := s0.failed + 1 }, .gatedDormant)
  else if (cost : Int) ≤ s.bal cur then (charge (s0.setBal cur (s.bal cur - cost)) cost, .direct)
  else if cur = .atp ∧ s.nadh > 0 then
    let conv := min s.nadh (cost - s.atp)
    let s1 := { s0 with nadh := s.nadh - conv, atp := s.atp + conv }
    if (cost : Int) ≤ s1.atp then (charge { s1 with atp := s1.atp - cost } cost, .topup)
    else
      -- `balance = self.atp`: the deficit is computed from the balance after the top-up
      debtPath s1 cost cur allowDebt s1.atp true
  else debtPath s0 cost cur allowDebt (s.bal cur) false

/-- `consume(cost, _, cur, allow_debt, priority)`: the whole lock region, observer `obs` installed. -/
def consumeO (cls : Classifier) (obs : Obs) (s : Store) (cost : Nat) (cur : Cur) (allowDebt : Bool) (prio : Nat) :
    Store × Except Exc Bool × Branch :=
  let r := consumeCore s cost cur allowDebt prio
  if r.2.success then
    let u := updateStateO cls obs r.1
    (u.1, u.2.map (fun _ => true), r.2)
  else (r.1, .ok false, r.2)

/-- … with no observer -/
def consume (cls : Classifier) (s : Store) (cost : Nat) (cur : Cur) (allowDebt : Bool) (prio : Nat) :
    Store × Except Exc Bool × Branch := consumeO cls Obs.silent s cost cur allowDebt prio

/-! ### `regenerate`, `transfer_to` -/

def regenCore (s : Store) (n : Nat) (cur : Cur) : Store :=
  let pay : Int := if s.debt > 0 ∧ cur = .atp then min s.debt n else 0
  let rem : Int := n - pay
  let s1 := { s with debt := s.debt - pay }
  if rem > 0 then
    { (s1.setBal cur (min (s.cap cur) (s.bal cur + rem))) with regenerated := s.regenerated + rem }
  else s1

/-- `regenerate(n, cur)`: the whole lock region, observer `obs` installed. -/
def regenerateO (cls : Classifier) (obs : Obs) (s : Store) (n : Nat) (cur : Cur) : Store × Except Exc Unit :=
  updateStateO cls obs (regenCore s n cur)

def regenerate (cls : Classifier) (s : Store) (n : Nat) (cur : Cur) : Store × Except Exc Unit :=
  regenerateO cls Obs.silent s n cur

/-- first lock region of `transfer_to` (own lock): check and deduct; no `_update_state`. -/
def withdraw (s : Store) (n : Nat) (cur : Cur) : Store × Bool :=
  if s.bal cur < (n : Int) then (s, false) else (s.setBal cur (s.bal cur - n), true)

/-- second region of `transfer_to`: `other.regenerate(n, cur)` under the peer's lock (the PEER's observer). -/
def depositO (cls : Classifier) (obs : Obs) (s : Store) (n : Nat) (cur : Cur) : Store × Except Exc Unit :=
  regenerateO cls obs s n cur

def deposit (cls : Classifier) (s : Store) (n : Nat) (cur : Cur) : Store × Except Exc Unit :=
  regenerate cls s n cur

/-! ### the rest -/

/-- `convert_nadh_to_atp(n)`; the return value is the (possibly negative) `min`. -/
def convert (s : Store) (n : Nat) : Store × Int :=
  let c := min (min (n : Int) s.nadh) (s.maxAtp - s.atp)
  if c > 0 then ({ s with nadh := s.nadh - c, atp := s.atp + c }, c) else (s, c)

def enterDormancy (s : Store) : Store := { s with state := .dormant }

def exitDormancyO (cls : Classifier) (obs : Obs) (s : Store) : Store × Except Exc Unit := updateStateO cls obs s

def exitDormancy (cls : Classifier) (s : Store) : Store × Except Exc Unit := exitDormancyO cls Obs.silent s

/-- `int(self._debt * self.debt_interest)` for a non-negative debt and rate `rateNum / rateDen`. -/
def interestAmount (s : Store) : Int := if s.debt > 0 then s.debt * s.rateNum / s.rateDen else 0

/-- `apply_debt_interest()` — runs WITHOUT the lock and without `_update_state`. -/
def applyInterest (s : Store) : Store := { s with debt := s.debt + interestAmount s }

def resetCore (s : Store) : Store :=
  { s with atp := s.maxAtp, gtp := s.maxGtp, nadh := s.maxNadh, debt := 0, ntx := 0,
           consumed := 0, regenerated := 0, ops := 0, failed := 0 }

def resetO (cls : Classifier) (obs : Obs) (s : Store) : Store × Except Exc Unit := updateStateO cls obs (resetCore s)

def reset (cls : Classifier) (s : Store) : Store × Except Exc Unit := resetO cls Obs.silent s

/-- The caller assigns one of the store's PUBLIC attributes (`store.atp = v`, `store.max_debt = v`, ...; a non-negative int).
    Nothing else happens: no `_update_state`, no bookkeeping.  A configuration change between two histories, not an
    operation of the ledger: every history theorem starts from an arbitrary well-formed colony, so it covers what follows. -/
inductive Field where
  | atp | gtp | nadh | maxAtp | maxGtp | maxNadh | maxDebt
  deriving Repr, DecidableEq

def Store.assign (s : Store) : Field → Nat → Store
  | .atp, v => { s with atp := v }
  | .gtp, v => { s with gtp := v }
  | .nadh, v => { s with nadh := v }
  | .maxAtp, v => { s with maxAtp := v }
  | .maxGtp, v => { s with maxGtp := v }
  | .maxNadh, v => { s with maxNadh := v }
  | .maxDebt, v => { s with maxDebt := v }

/-! ### histories over a colony of stores -/

inductive Op where
  | consume (i : Nat) (cost : Nat) (cur : Cur) (allowDebt : Bool) (prio : Nat)
  | regenerate (i : Nat) (n : Nat) (cur : Cur)
  | transfer (src dst : Nat) (n : Nat) (cur : Cur)
  | convert (i : Nat) (n : Nat)
  | dorm (i : Nat)
  | wake (i : Nat)
  | interest (i : Nat)
  | reset (i : Nat)
  deriving Repr, DecidableEq

/-- One pass of the background regeneration loop of a store built with `regeneration_rate = r > 0`
    (`_start_regeneration`: `while not stopped: sleep(1); self.regenerate(int(self.regeneration_rate))`): for the
    ledger the thread is one more caller, each pass is the operation `regenerate(int(r))` in ATP.  A store built with
    `regeneration_rate = 0` (the default) has no such thread. -/
def Op.tick (i : Nat) (intRate : Nat) : Op := .regenerate i intRate .atp

/-- What the caller sees. -/
inductive Ret where
  | bool (b : Bool)
  | none
  | int (k : Int)
  | raised (e : Exc)
  | noSuchStore
  deriving Repr, DecidableEq

def retUnit : Except Exc Unit → Ret
  | .ok _ => .none
  | .error e => .raised e

def retBool : Except Exc Bool → Ret
  | .ok b => .bool b
  | .error e => .raised e

abbrev Sys := List Store

/-- Apply a single-store call to store `i` of the colony and write the result back. -/
def onStore (sys : Sys) (i : Nat) (f : Store → Store × Ret) : Sys × Ret :=
  match sys[i]? with
  | some s => let r := f s; (sys.set i r.1, r.2)
  | none => (sys, .noSuchStore)

/-- One call on the colony; `obs j` is what the observer of store `j` does if it is called during this call.
    `transfer src dst` is `withdraw` on `src`, then (only if that succeeded) `deposit` on `dst` — read after
    the withdrawal was written back, so `src = dst` behaves as in Python. -/
def step (cls : Classifier) (obs : Nat → Obs) (sys : Sys) : Op → Sys × Ret
  | .consume i cost cur d p =>
    onStore sys i fun s => let r := consumeO cls (obs i) s cost cur d p; (r.1, retBool r.2.1)
  | .regenerate i n cur => onStore sys i fun s => let r := regenerateO cls (obs i) s n cur; (r.1, retUnit r.2)
  | .transfer i j n cur =>
    match sys[i]?, sys[j]? with
    | some a, some _ =>
      let w := withdraw a n cur
      let sys1 := sys.set i w.1
      if w.2 then
        onStore sys1 j fun b =>
          let r := depositO cls (obs j) b n cur
          (r.1, match r.2 with | .ok _ => .bool true | .error e => .raised e)
      else (sys1, .bool false)
    | _, _ => (sys, .noSuchStore)
  | .convert i n => onStore sys i fun s => let r := convert s n; (r.1, .int r.2)
  | .dorm i => onStore sys i fun s => (enterDormancy s, .none)
  | .wake i => onStore sys i fun s => let r := exitDormancyO cls (obs i) s; (r.1, retUnit r.2)
  | .interest i => onStore sys i fun s => (applyInterest s, .none)
  | .reset i => onStore sys i fun s => let r := resetO cls (obs i) s; (r.1, retUnit r.2)

/-- The observer calls a call makes: `_update_state` runs at the end of a successful `consume`, of
    `regenerate` (also as the deposit of a transfer whose withdrawal succeeded), `exit_dormancy` and `reset`,
    and notifies the observer of that store iff the state field changed (`enter_dormancy` writes the state
    without notifying).  Derived from the states before and after; used by the driver for the call log. -/
def observerCalls (cls : Classifier) (obs : Nat → Obs) (sys : Sys) (op : Op) : List (Nat × MState) :=
  let post := (step cls obs sys op).1
  let at' (i : Nat) (pre : Option Store) : List (Nat × MState) :=
    match pre, post[i]? with
    | some a, some b => if b.state = a.state then [] else [(i, b.state)]
    | _, _ => []
  match op with
  | .consume i cost cur d p =>
    match sys[i]? with
    | some s => if (consumeCore s cost cur d p).2.success then at' i (some s) else []
    | none => []
  | .regenerate i _ _ | .wake i | .reset i => at' i sys[i]?
  | .transfer i j n cur =>
    match sys[i]?, sys[j]? with
    | some a, some _ => if (withdraw a n cur).2 then at' j (sys.set i (withdraw a n cur).1)[j]? else []
    | _, _ => []
  | .convert _ _ | .dorm _ | .interest _ => []

/-- Run a history; `adv k j` is the behaviour of store `j`'s observer during step number `k` (an arbitrary
    stateful observer per store is such a family).  Returns the final colony and what each call returned. -/
def run (cls : Classifier) (adv : Nat → Nat → Obs) : Nat → Sys → List Op → Sys × List Ret
  | _, sys, [] => (sys, [])
  | k, sys, op :: ops =>
    let r := step cls (adv k) sys op
    let rest := run cls adv (k + 1) r.1 ops
    (rest.1, r.2 :: rest.2)

/-- no observer installed anywhere -/
def noObs : Nat → Nat → Obs := fun _ _ => Obs.silent

/-- Two overlapping calls `a` and `b` on the colony: `a` is preempted just before its `k`-th acquisition of a store lock and
    `b` runs to completion there (`b` wins the race for the lock); if `a` never makes a `k`-th acquisition, `b` runs after
    `a`.  Every call of the store takes its lock once, around everything it does; `transfer_to` takes two: its own lock
    around check + deduction (`withdraw`), then the peer's inside `other.regenerate` (`deposit`), skipped when the check
    fails.  Hence: `k = 1`: `b`, then `a`;  `k = 2` and `a` a transfer whose withdrawal succeeds: `withdraw`, `b`, `deposit`
    (the energy is in flight while `b` runs);  otherwise `a`, then `b`.  `o1`, `o2`: the observers during the first and the
    second of the two calls that run under a lock with `_update_state` (withdraw never notifies).
    Returns the colony, what `a` returned, what `b` returned. -/
def race (cls : Classifier) (o1 o2 : Nat → Obs) (sys : Sys) (k : Nat) (a b : Op) : Sys × Ret × Ret :=
  if k = 1 then
    ((step cls o2 (step cls o1 sys b).1 a).1, (step cls o2 (step cls o1 sys b).1 a).2, (step cls o1 sys b).2)
  else
    match a with
    | .transfer i j n cur =>
      match sys[i]?, sys[j]? with
      | some s, some _ =>
        if (withdraw s n cur).2 = true ∧ k = 2 then
          let rb := step cls o1 (sys.set i (withdraw s n cur).1) b
          let rd := step cls o2 rb.1 (.regenerate j n cur)
          (rd.1, (match rd.2 with | .raised e => .raised e | _ => .bool true), rb.2)
        else
          ((step cls o2 (step cls o1 sys a).1 b).1, (step cls o1 sys a).2, (step cls o2 (step cls o1 sys a).1 b).2)
      | _, _ => ((step cls o2 (step cls o1 sys a).1 b).1, (step cls o1 sys a).2, (step cls o2 (step cls o1 sys a).1 b).2)
    | _ => ((step cls o2 (step cls o1 sys a).1 b).1, (step cls o1 sys a).2, (step cls o2 (step cls o1 sys a).1 b).2)

end Operon.Atp
