import Operon.Lemmas.C18
/-! No worker is given up prematurely (C18): while a worker run goes on, neither the marker test nor the
    entropy test fired on any earlier step. -/
namespace Operon.Loops

section Early
variable {σ W ω η ι τ : Type}

/-- the entropy test as `_run_worker` makes it after an output, on all outputs so far -/
def Collapsed (code : SwarmCode ω) (outsSoFar : List ω) : Prop :=
  (lastThree outsSoFar).length ≥ 3 ∧
    code.low (code.distinct (lastThree outsSoFar)) (lastThree outsSoFar).length = true

/-- every step of a worker run except the last one left the worker running: no marker, no collapse -/
theorem runWorker_no_premature (code : SwarmCode ω) (adv : SwarmAdv σ W ω η ι τ) (w : W) (task : τ) :
    ∀ n prev s j, j + 1 < (runWorker code adv w task n (lastThree prev) s).steps.length →
      ¬ Collapsed code (prev ++ outs ((runWorker code adv w task n (lastThree prev) s).steps.take (j + 1))) := by
  intro n
  induction n with
  | zero => intro prev s j h; simp [runWorker] at h
  | succ n ih =>
    intro prev s j
    unfold runWorker
    split
    · intro h; simp at h
    · rename_i s1 o _
      split
      · intro h; simp at h
      · split
        · intro h; simp at h
        · rename_i hst
          rw [window_lastThree] at hst ⊢
          intro h
          cases j with
          | zero =>
            have e : outs (List.take (0 + 1) (Out.ok o :: (runWorker code adv w task n (lastThree (prev ++ [o])) s1).steps)) = [o] := by
              simp [outs, Out.toOption]
            rw [e]
            intro hc
            apply hst
            simp only [Collapsed] at hc
            simp [hc.1, hc.2]
          | succ j =>
            simp only [List.length_cons] at h
            have := ih (prev ++ [o]) s1 j (by omega)
            have e : prev ++ outs (List.take (j + 1 + 1) (Out.ok o :: (runWorker code adv w task n (lastThree (prev ++ [o])) s1).steps)) =
                (prev ++ [o]) ++ outs (List.take (j + 1) (runWorker code adv w task n (lastThree (prev ++ [o])) s1).steps) := by
              simp [outs, Out.toOption]
            rw [e]
            exact this

/-- the steps recorded for a spawn are those of one `_run_worker` call with the configured step budget (or none,
    when the factory raised) -/
theorem superviseLoop_spawn_is_run (code : SwarmCode ω) (cfg : SwarmCfg) (adv : SwarmAdv σ W ω η ι τ) (task : τ) :
    ∀ fuel k hints sw s, ∀ sp ∈ (superviseLoop code cfg adv task fuel k hints sw s).spawns,
      sp.steps = [] ∨ ∃ w s1, sp.steps = (runWorker code adv w task cfg.maxSteps.toNat [] s1).steps := by
  intro fuel
  induction fuel with
  | zero => intro k hints sw s sp h; simp [superviseLoop] at h
  | succ fuel ih =>
    intro k hints sw s sp
    unfold superviseLoop
    split
    · split
      · intro h
        simp only [List.mem_singleton] at h
        subst h; exact Or.inl rfl
      · rename_i s1 w _
        split
        · rename_i s2 steps heq
          intro h
          simp only [List.mem_singleton] at h
          subst h; exact Or.inr ⟨w, s1, by rw [heq]⟩
        · rename_i s2 o steps heq
          intro h
          simp only [List.mem_singleton] at h
          subst h; exact Or.inr ⟨w, s1, by rw [heq]⟩
        · rename_i s2 steps heq
          split
          · intro h
            simp only [List.mem_singleton] at h
            subst h; exact Or.inr ⟨w, s1, by rw [heq]⟩
          · intro h
            simp only [List.mem_cons] at h
            rcases h with h | h
            · subst h; exact Or.inr ⟨w, s1, by rw [heq]⟩
            · exact ih _ _ _ _ sp h
    · intro h; simp at h

end Early

end Operon.Loops
