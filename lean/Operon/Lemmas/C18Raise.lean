import Operon.Lemmas.C18
import Operon.Lemmas.C18Live
/-! C18 — an exception of a callback is never swallowed: a run raises exactly when one of its recorded callback
    calls raised, and that call is the last one recorded (nothing is called after it).  One generic predicate,
    one induction per loop. -/
namespace Operon.Loops

/-- `evs` are the recorded callback calls of a run, `P` says "this call raised", `raised` says "the run raised":
    if the run raised then exactly the last recorded call raised, and if it did not then no call raised. -/
def Propagates {α : Type} (P : α → Prop) (evs : List α) (raised : Prop) : Prop :=
  (raised → ∃ pre e, evs = pre ++ [e] ∧ (∀ x ∈ pre, ¬ P x) ∧ P e) ∧ (¬ raised → ∀ x ∈ evs, ¬ P x)

namespace Propagates
variable {α : Type} {P : α → Prop}

theorem single {e : α} {raised : Prop} (h : P e) (hr : raised) : Propagates P [e] raised :=
  ⟨fun _ => ⟨[], e, rfl, by simp, h⟩, fun hn => absurd hr hn⟩

theorem quiet {evs : List α} {raised : Prop} (h : ∀ x ∈ evs, ¬ P x) (hr : ¬ raised) : Propagates P evs raised :=
  ⟨fun h' => absurd h' hr, fun _ => h⟩

theorem append {l evs : List α} {raised : Prop} (hl : ∀ x ∈ l, ¬ P x) (h : Propagates P evs raised) :
    Propagates P (l ++ evs) raised := by
  refine ⟨fun hr => ?_, fun hn x hx => ?_⟩
  · obtain ⟨pre, e, h1, h2, h3⟩ := h.1 hr
    refine ⟨l ++ pre, e, by rw [h1, List.append_assoc], ?_, h3⟩
    intro x hx
    rcases List.mem_append.mp hx with hx | hx
    · exact hl x hx
    · exact h2 x hx
  · rcases List.mem_append.mp hx with hx | hx
    · exact hl x hx
    · exact h.2 hn x hx

theorem cons {a : α} {evs : List α} {raised : Prop} (ha : ¬ P a) (h : Propagates P evs raised) :
    Propagates P (a :: evs) raised := by
  have := append (l := [a]) (by intro x hx; simp only [List.mem_singleton] at hx; subst hx; exact ha) h
  simpa using this

/-- the run raised iff some recorded call raised -/
theorem iff_exists {evs : List α} {raised : Prop} (h : Propagates P evs raised) : raised ↔ ∃ x ∈ evs, P x := by
  constructor
  · intro hr
    obtain ⟨pre, e, h1, _, h3⟩ := h.1 hr
    exact ⟨e, by rw [h1]; simp, h3⟩
  · intro ⟨x, hx, hp⟩
    exact Classical.byContradiction fun hn => h.2 hn x hx hp

/-- a call that raised is the last one recorded -/
theorem raised_is_last {evs : List α} {raised : Prop} (h : Propagates P evs raised) (i : Nat) (x : α)
    (hi : evs[i]? = some x) (hp : P x) : i + 1 = evs.length := by
  have hr : raised := (iff_exists h).2 ⟨x, List.mem_of_getElem? hi, hp⟩
  obtain ⟨pre, e, h1, h2, _⟩ := h.1 hr
  subst h1
  by_cases hlt : i < pre.length
  · rw [List.getElem?_append_left hlt] at hi
    exact absurd hp (h2 x (List.mem_of_getElem? hi))
  · have hlen := (List.getElem?_eq_some_iff.mp hi).1
    simp only [List.length_append, List.length_singleton] at hlen ⊢
    omega

end Propagates

/-! ## heal -/
section Heal
variable {σ κ C : Type}

/-- this generator invocation ended in an exception (of the generator, or of the validator asked about its output) -/
def GenCall.raised (c : GenCall κ C) : Prop := c.out = .raise ∨ c.fold = some .raise

theorem healLoop_propagates (ops : ConfOps C) (adv : HealAdv σ κ C) (p : String) :
    ∀ rem k ctx atts s, Propagates GenCall.raised (healLoop ops adv p rem k ctx atts s).calls
      ((healLoop ops adv p rem k ctx atts s).res = .raise) := by
  intro rem
  induction rem with
  | zero =>
    intro k ctx atts s
    simp only [healLoop]
    exact Propagates.quiet (by simp) (by simp)
  | succ rem ih =>
    intro k ctx atts s
    rcases healLoop_succ ops adv p rem k ctx atts s with ⟨_, h⟩ | ⟨_, _, h⟩ | ⟨_, raw, f, hv, h⟩ | ⟨_, raw, f, _, hv, hl, h⟩ <;>
      rw [h]
    · exact Propagates.single (Or.inl rfl) rfl
    · exact Propagates.single (Or.inr rfl) rfl
    · refine Propagates.quiet ?_ (by simp)
      intro x hx
      simp only [List.mem_singleton] at hx
      subst hx
      simp [GenCall.raised]
    · exact Propagates.cons (by simp [GenCall.raised]) (ih _ _ _ _)

end Heal

/-! ## swarm -/
section Swarm
variable {σ W ω η ι τ : Type}

/-- a callback raised during this spawn: the factory, one of the steps, or the summarizer -/
def Spawn.raised (sp : Spawn W ω η) : Prop := sp.worker = .raise ∨ sp.summ = some .raise ∨ Out.raise ∈ sp.steps

theorem noMarker_no_raise (code : SwarmCode ω) (steps : List (Out ω)) (h : NoMarker code steps) :
    Out.raise ∉ steps := by
  intro hm
  obtain ⟨o, ho, _⟩ := h _ hm
  cases ho

theorem noMarkerL_no_raise (L : SwarmLive σ ω) (steps : List (Out ω)) (h : NoMarkerL L steps) :
    Out.raise ∉ steps := by
  intro hm
  obtain ⟨o, ho, _⟩ := h _ hm
  cases ho

theorem not_raised_of_shape (sp : Spawn W ω η) (w : W) (hw : sp.worker = .ok w)
    (hs : sp.summ = none ∨ ∃ h, sp.summ = some (.ok h)) (hst : Out.raise ∉ sp.steps) : ¬ sp.raised := by
  intro hr
  rcases hr with hr | hr | hr
  · rw [hw] at hr; cases hr
  · rcases hs with hs | ⟨h, hs⟩ <;> rw [hs] at hr <;> cases hr
  · exact hst hr

theorem superviseLoop_propagates (code : SwarmCode ω) (cfg : SwarmCfg) (adv : SwarmAdv σ W ω η ι τ) (task : τ) :
    ∀ fuel k hints sw s, Propagates Spawn.raised (superviseLoop code cfg adv task fuel k hints sw s).spawns
      ((superviseLoop code cfg adv task fuel k hints sw s).res = some .raise) := by
  intro fuel
  induction fuel with
  | zero =>
    intro k hints sw s
    simp only [superviseLoop]
    exact Propagates.quiet (by simp) (by simp)
  | succ fuel ih =>
    intro k hints sw s
    rcases superviseLoop_succ code cfg adv task fuel k hints sw s with
      ⟨hg, h⟩ | ⟨_, _, sp, res, h, _, _, _, ht⟩ | ⟨hg, s', sp, w, hh, sw', h, _, _, _, hw, hs, hnm, _⟩ <;> rw [h]
    · exact Propagates.quiet (by simp) (by simp)
    · cases res with
      | raise =>
        simp only [TermFacts] at ht
        refine Propagates.single ?_ rfl
        rcases ht with ht | ht | ⟨pre, ht⟩
        · exact Or.inl ht
        · exact Or.inr (Or.inl ht)
        · exact Or.inr (Or.inr (by rw [ht]; simp))
      | ok r =>
        simp only [TermFacts] at ht
        obtain ⟨_, _, hsumm, w, o, pre, hw, hst, hnm, _⟩ := ht
        refine Propagates.quiet ?_ (by simp)
        intro x hx
        simp only [List.mem_singleton] at hx
        subst hx
        refine not_raised_of_shape _ w hw (Or.inl hsumm) ?_
        rw [hst]
        intro hm
        rcases List.mem_append.mp hm with hm | hm
        · exact noMarker_no_raise code pre hnm hm
        · simp at hm
    · exact Propagates.cons (not_raised_of_shape sp w hw (Or.inr ⟨hh, hs⟩) (noMarker_no_raise code _ hnm)) (ih _ _ _ _)

/-- the same for the swarm whose limits are read where the code reads them (callbacks may assign them) -/
theorem superviseLoopL_propagates (L : SwarmLive σ ω) (adv : SwarmAdv σ W ω η ι τ) (task : τ) :
    ∀ fuel k hints sw s, Propagates Spawn.raised (superviseLoopL L adv task fuel k hints sw s).spawns
      ((superviseLoopL L adv task fuel k hints sw s).res = some .raise) := by
  intro fuel
  induction fuel with
  | zero =>
    intro k hints sw s
    simp only [superviseLoopL]
    exact Propagates.quiet (by simp) (by simp)
  | succ fuel ih =>
    intro k hints sw s
    unfold superviseLoopL
    split
    · split
      · exact Propagates.single (Or.inl rfl) rfl
      · rename_i s1 w _
        have hw := (runWorkerL_spec L adv w task (L.stepsOf s1).toNat [] s1).2
        split
        · rename_i s2 steps heq
          rw [heq] at hw
          simp only at hw
          obtain ⟨pre, g1, _⟩ := hw
          exact Propagates.single (Or.inr (Or.inr (by simp [g1]))) rfl
        · rename_i s2 o steps heq
          rw [heq] at hw
          simp only at hw
          obtain ⟨pre, g1, g2, _⟩ := hw
          refine Propagates.quiet ?_ (by simp)
          intro x hx
          simp only [List.mem_singleton] at hx
          subst hx
          refine not_raised_of_shape _ w rfl (Or.inl rfl) ?_
          simp only [g1]
          intro hm
          rcases List.mem_append.mp hm with hm | hm
          · exact noMarkerL_no_raise L pre g2 hm
          · simp at hm
        · rename_i s2 steps heq
          rw [heq] at hw
          simp only at hw
          split
          · exact Propagates.single (Or.inr (Or.inl rfl)) rfl
          · rename_i s3 h _
            exact Propagates.cons (not_raised_of_shape _ w rfl (Or.inr ⟨h, rfl⟩) (noMarkerL_no_raise L _ hw)) (ih _ _ _ _)
    · exact Propagates.quiet (by simp) (by simp)

end Swarm

/-! ## tool loop -/
section Tools
variable {σ ρ κ θ : Type}

/-- this provider call / tool execution ended in an exception -/
def TEv.raised : TEv ρ κ θ → Prop
  | .tools _ out => out = .raise
  | .exec _ out => out = .raise
  | .complete _ out => out = .raise

theorem execAll_propagates (adv : ToolAdv σ ρ κ θ) :
    ∀ cs s, Propagates TEv.raised (execAll adv cs s).2.2 ((execAll adv cs s).2.1 = .raise) := by
  intro cs
  induction cs with
  | nil => intro s; simp only [execAll]; exact Propagates.quiet (by simp) (by simp)
  | cons c cs ih =>
    intro s
    unfold execAll
    split
    · exact Propagates.single (by simp [TEv.raised]) rfl
    · rename_i s1 r _
      have h := ih s1
      split <;> rename_i hx <;> rw [hx] at h <;> simp only at h
      · have := Propagates.cons (a := (TEv.exec c (Out.ok r) : TEv ρ κ θ)) (by simp [TEv.raised]) h
        exact ⟨fun _ => this.1 trivial, fun hn => absurd rfl hn⟩
      · refine Propagates.cons (by simp [TEv.raised]) ?_
        exact Propagates.quiet (h.2 (by simp)) (by simp)

theorem transcribe_propagates (adv : ToolAdv σ ρ κ θ) (p : PromptView θ) (s : σ) :
    Propagates TEv.raised (transcribe adv p s).evs ((transcribe adv p s).res = some .raise) := by
  unfold transcribe
  split
  · exact Propagates.single (by simp [TEv.raised]) rfl
  · refine Propagates.quiet ?_ (by simp)
    intro x hx
    simp only [List.mem_singleton] at hx
    subst hx
    simp [TEv.raised]

theorem toolLoop_propagates (cfg : ToolCfg) (adv : ToolAdv σ ρ κ θ) :
    ∀ fuel k cur s, Propagates TEv.raised (toolLoop cfg adv fuel k cur s).evs
      ((toolLoop cfg adv fuel k cur s).res = some .raise) := by
  intro fuel
  induction fuel with
  | zero => intro k cur s; simp only [toolLoop]; exact Propagates.quiet (by simp) (by simp)
  | succ fuel ih =>
    intro k cur s
    unfold toolLoop
    split
    · split
      · exact Propagates.single (by simp [TEv.raised]) rfl
      · rename_i s1 resp calls _
        have quiet1 : ∀ x ∈ [(TEv.tools cur (Out.ok (resp, calls)) : TEv ρ κ θ)], ¬ x.raised := by
          intro x hx
          simp only [List.mem_singleton] at hx
          subst hx
          simp [TEv.raised]
        split
        · exact Propagates.quiet quiet1 (by simp)
        · split
          · exact Propagates.quiet quiet1 (by simp)
          · have he := execAll_propagates adv calls s1
            split <;> rename_i hx <;> rw [hx] at he <;> simp only at he
            · have := Propagates.cons (a := (TEv.tools cur (Out.ok (resp, calls)) : TEv ρ κ θ)) (by simp [TEv.raised]) he
              exact ⟨fun _ => this.1 trivial, fun hn => absurd rfl hn⟩
            · rename_i s2 results evs
              have hq : ∀ x ∈ evs, ¬ TEv.raised x := he.2 (by simp)
              have := Propagates.append hq (ih (k + 1) (some results) s2)
              exact Propagates.cons (by simp [TEv.raised]) this
    · exact transcribe_propagates adv cur s

theorem transcribeWithTools_propagates (cfg : ToolCfg) (adv : ToolAdv σ ρ κ θ) (s : σ) :
    Propagates TEv.raised (transcribeWithTools cfg adv s).evs ((transcribeWithTools cfg adv s).res = some .raise) := by
  unfold transcribeWithTools
  split
  · exact transcribe_propagates adv none s
  · split
    · exact transcribe_propagates adv none s
    · exact toolLoop_propagates cfg adv _ _ _ _

end Tools

end Operon.Loops
