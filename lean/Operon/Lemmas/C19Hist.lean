import Operon.Model.CascadeHist
import Operon.Model.CascadeMapk
import Operon.Model.CascadeObs
/-! Helper lemmas for the history part of C19 (`_results_history`, `get_history`). -/
namespace Operon.Cascade

variable {σ : Type} {α : Type}

theorem lastN_of_le (n : Nat) (l : List α) (h : l.length ≤ n) : lastN n l = l := by
  unfold lastN
  have : l.length - n = 0 := by omega
  simp [this]

theorem length_lastN (n : Nat) (l : List α) : (lastN n l).length = min n l.length := by
  unfold lastN; simp; omega

theorem mem_lastN {n : Nat} {l : List α} {a : α} (h : a ∈ lastN n l) : a ∈ l :=
  List.mem_of_mem_drop h

/-- trimming before appending changes nothing once the result is trimmed again -/
theorem lastN_append_lastN (n : Nat) (l m : List α) : lastN n (lastN n l ++ m) = lastN n (l ++ m) := by
  by_cases hl : l.length ≤ n
  · rw [lastN_of_le n l hl]
  · have hlen : (lastN n l).length = n := by rw [length_lastN]; omega
    unfold lastN at *
    rw [List.drop_append, List.drop_append, List.drop_drop]
    simp only [List.length_append, List.length_drop] at *
    congr 2 <;> omega

/-- the newest `k` of the newest `n` are the newest `min k n` -/
theorem lastN_lastN (k n : Nat) (l : List α) : lastN k (lastN n l) = lastN (min k n) l := by
  unfold lastN
  rw [List.drop_drop, List.length_drop]
  congr 1
  omega

/-- `run`'s bookkeeping is "append and keep the newest `histCap`" whatever the length was -/
theorem pushSeq_eq (h : List (HRec σ)) (r : Result σ) : pushSeq h r = lastN histCap (h ++ [HRec.seq r]) := by
  unfold pushSeq
  split
  · rfl
  · rw [lastN_of_le]; omega

theorem mem_pushSeq {h : List (HRec σ)} {r : Result σ} {e : HRec σ} (he : e ∈ pushSeq h r) : e ∈ h ∨ e = .seq r := by
  rw [pushSeq_eq] at he
  have := mem_lastN he
  simpa using this

theorem mem_histStep {h : List (HRec σ)} {c : Call σ} {r : Result σ} (he : HRec.seq r ∈ histStep h c) :
    HRec.seq r ∈ h ∨ ∃ cfg st x, c = .run cfg st x ∧ r = result cfg st x := by
  cases c with
  | run cfg st x =>
    rcases mem_pushSeq he with h1 | h1
    · exact Or.inl h1
    · right; refine ⟨cfg, st, x, rfl, ?_⟩
      cases h1; rfl
  | prun st x =>
    simp only [histStep] at he
    split at he
    · exact Or.inl he
    · simp [pushPar] at he; exact Or.inl he

theorem mem_foldl_histStep (cs : List (Call σ)) (h : List (HRec σ)) (r : Result σ)
    (he : HRec.seq r ∈ cs.foldl histStep h) :
    HRec.seq r ∈ h ∨ ∃ cfg st x, Call.run cfg st x ∈ cs ∧ r = result cfg st x := by
  induction cs generalizing h with
  | nil => exact Or.inl he
  | cons c cs ih =>
    rcases ih (histStep h c) he with h1 | ⟨cfg, st, x, hm, hr⟩
    · rcases mem_histStep h1 with h2 | ⟨cfg, st, x, hc, hr⟩
      · exact Or.inl h2
      · exact Or.inr ⟨cfg, st, x, by simp [hc], hr⟩
    · exact Or.inr ⟨cfg, st, x, by simp [hm], hr⟩

/-- sequential runs only: the history is the newest `histCap` of everything ever returned -/
theorem foldl_runs_eq (rs : List (Cfg × List (Stage σ) × σ)) (l : List (HRec σ)) :
    (rs.map fun c => Call.run c.1 c.2.1 c.2.2).foldl histStep (lastN histCap l) =
      lastN histCap (l ++ rs.map fun c => HRec.seq (result c.1 c.2.1 c.2.2)) := by
  induction rs generalizing l with
  | nil => simp
  | cons c rs ih =>
    simp only [List.map_cons, List.foldl_cons, histStep]
    rw [pushSeq_eq, lastN_append_lastN, ih]
    simp

/-! ### statistics -/

theorem foldl_statsStep (cs : List (Call σ)) (s : Stats) :
    (cs.foldl statsStep s).runs = s.runs + cs.length ∧
    (cs.foldl statsStep s).ok = s.ok + (cs.filter fun c => callSucceeded c == some true).length ∧
    (cs.foldl statsStep s).bad = s.bad + (cs.filter fun c => callSucceeded c == some false).length := by
  induction cs generalizing s with
  | nil => simp
  | cons c cs ih =>
    simp only [List.foldl_cons, List.length_cons, List.filter_cons]
    obtain ⟨h1, h2, h3⟩ := ih (statsStep s c)
    rw [h1, h2, h3]
    unfold statsStep
    cases hc : callSucceeded c with
    | none => simp; omega
    | some b => cases b <;> simp <;> omega

theorem ok_bad_le (cs : List (Call σ)) :
    (cs.filter fun c => callSucceeded c == some true).length +
      (cs.filter fun c => callSucceeded c == some false).length ≤ cs.length := by
  induction cs with
  | nil => simp
  | cons c cs ih =>
    simp only [List.filter_cons, List.length_cons]
    cases hc : callSucceeded c with
    | none => simp; omega
    | some b => cases b <;> simp <;> omega

/-! ### the call sequence with the observer's notifications in place -/

theorem filterMap_cb_stepNotes (cfg : Cfg) (obs : Option StageObs) (i : Nat) (s : Stage σ) (a : Acc σ) :
    (stepNotes cfg obs i s a).filterMap Note.cb? = (stageStep cfg i s a).evs ∧
    (stepNotes cfg obs i s a).filterMap Note.shown? = stageSeen obs i s a := by
  unfold stepNotes
  simp [List.filterMap_append, List.filterMap_map, Function.comp_def, Note.cb?, Note.shown?]

theorem notesFrom_project (cfg : Cfg) (obs : Option StageObs) :
    ∀ (rest : List (Stage σ)) (i : Nat) (a : Acc σ),
      (notesFrom cfg obs i rest a).filterMap Note.cb? = (runFromO cfg obs i rest a).1.log ∧
      (notesFrom cfg obs i rest a).filterMap Note.shown? = (runFromO cfg obs i rest a).2 := by
  intro rest
  induction rest with
  | nil => intro i a; simp [notesFrom, runFromO]
  | cons s rest ih =>
    intro i a
    have hs := filterMap_cb_stepNotes cfg obs i s a
    simp only [notesFrom, runFromO]
    split
    · exact hs
    · have := ih (i + 1) (stageStep cfg i s a).acc
      simp [List.filterMap_append, hs.1, hs.2, this.1, this.2]

/-- a stage is shown to the observer at most once while it is worked, and then its last callback was its processor, on the
    signal the stage was handed -/
theorem stepNotes_shape (cfg : Cfg) (obs : Option StageObs) (i : Nat) (s : Stage σ) (a : Acc σ) :
    stepNotes cfg obs i s a = (stageStep cfg i s a).evs.map .cb ∨
    ∃ pre : List (Ev σ), stepNotes cfg obs i s a = pre.map .cb ++ [.cb (.proc i a.cur), .shown i] := by
  unfold stepNotes stageSeen
  cases obs with
  | none => left; simp
  | some f =>
    simp only
    split
    · rename_i hg
      cases hp : procOutcome s a.cur with
      | ok v =>
        right
        simp only [List.map_cons, List.map_nil]
        unfold gateOpen at hg
        unfold stageStep
        cases hc : s.checkpoint with
        | none =>
          refine ⟨[], ?_⟩
          simp [process, hp, procEvs]
        | some cp =>
          simp only [hc] at hg
          cases hcp : cp a.cur with
          | raise => simp [hcp] at hg
          | ok b =>
            cases b with
            | false => simp [hcp] at hg
            | true =>
              refine ⟨[.cp i a.cur (.ok true)], ?_⟩
              simp [hcp, process, hp, procEvs]
      | recovered v => left; simp
      | failed b => left; simp
    · left; simp

theorem notesFrom_shown (cfg : Cfg) (obs : Option StageObs) :
    ∀ (rest : List (Stage σ)) (i : Nat) (a : Acc σ) (j : Nat), Note.shown j ∈ notesFrom cfg obs i rest a →
      ∃ pre post sig, notesFrom cfg obs i rest a = pre ++ Note.cb (.proc j sig) :: Note.shown j :: post := by
  intro rest
  induction rest with
  | nil => intro i a j h; simp [notesFrom] at h
  | cons s rest ih =>
    intro i a j h
    have hstep : Note.shown j ∈ stepNotes cfg obs i s a →
        ∃ pre sig, stepNotes cfg obs i s a = pre ++ [Note.cb (.proc j sig), Note.shown j] := by
      intro hm
      rcases stepNotes_shape cfg obs i s a with h1 | ⟨pre, h1⟩
      · rw [h1] at hm; simp at hm
      · rw [h1] at hm
        simp at hm
        subst hm
        exact ⟨pre.map .cb, a.cur, h1⟩
    simp only [notesFrom] at h ⊢
    split at h
    · rename_i hstop
      simp only [hstop, if_true]
      obtain ⟨pre, sig, e⟩ := hstep h
      exact ⟨pre, [], sig, by rw [e]⟩
    · rename_i hstop
      simp only [hstop]
      rcases List.mem_append.mp h with hm | hm
      · obtain ⟨pre, sig, e⟩ := hstep hm
        exact ⟨pre, notesFrom cfg obs (i + 1) rest (stageStep cfg i s a).acc, sig, by rw [e]; simp⟩
      · obtain ⟨pre, post, sig, e⟩ := ih (i + 1) (stageStep cfg i s a).acc j hm
        exact ⟨stepNotes cfg obs i s a ++ pre, post, sig, by rw [e]; simp⟩

/-- do `histCap`, `pushSeq` / `pushPar`, `getHistory` and `histDefault` reproduce what the real Cascade's history did? -/
def histAgrees (f : List Nat × Nat × Nat × Bool × Bool × List (Int × List Nat) × Nat) : Bool :=
  let idStage : Stage Nat := ⟨none, fun x => .ok x, none, true, 1⟩
  let cfg : Cfg := ⟨true, 100⟩
  -- the records kept after 1005 runs are the newest `histCap`, oldest first
  f.1 == lastN histCap (List.range 1005) &&
  -- a fork appends without trimming; the next run trims (on a full history of any records)
  f.2.1 == (pushPar (List.replicate histCap (HRec.seq (result cfg [idStage] 0))) ⟨true, none, 0, 0, [], []⟩).length &&
  f.2.2.1 == (pushSeq (List.replicate (histCap + 1) (HRec.seq (result cfg [idStage] 0))) (result cfg [idStage] 9)).length &&
  -- the record is kept whether or not `on_cascade_complete` raises (`histStep` does not know the observer)
  f.2.2.2.1 &&
  -- a fork of an empty cascade raises and records nothing
  f.2.2.2.2.1 == (histStep ([] : List (HRec Nat)) (.prun [] 1)).isEmpty &&
  f.2.2.2.2.2.1.all (fun kl => getHistory (List.range 5) kl.1 == kl.2) &&
  f.2.2.2.2.2.1.map (·.1) == (List.range 15).map (fun (k : Nat) => Int.ofNat k - 7) &&
  f.2.2.2.2.2.2 == (getHistory (List.range 105) histDefault).length

/-- do the counters of the model reproduce `get_statistics()` of the real cascades driven for `histFacts`
    (1005 runs + a fork + a run, all successful; one run whose completion observer raised; one fork of an empty cascade)? -/
def statsAgrees (f : List (Nat × Nat × Nat)) : Bool :=
  let idStage : Stage Nat := ⟨none, fun x => .ok x, none, true, 1⟩
  let cfg : Cfg := ⟨true, 100⟩
  let show_ (s : Stats) : Nat × Nat × Nat := (s.runs, s.ok, s.bad)
  f == [show_ (statsAfter (((List.range 1005).map fun i => Call.run cfg [idStage] i) ++ [.prun [idStage] 7, .run cfg [idStage] 9])),
        show_ (statsAfter [Call.run cfg ([] : List (Stage Nat)) 1]),
        show_ (statsAfter [Call.prun ([] : List (Stage Nat)) 1])]

/-- does `agentStage` reproduce what `add_agent_stage` registered? -/
def agentAgrees (f : List Bool × Nat × Nat) : Bool :=
  let g : Nat → Out Bool := fun _ => .ok true
  let ex : Nat → Out Nat := fun x => if x = 0 then .raise else .ok (x + 1)
  let s1 : Stage Nat := agentStage (some g) ex 3
  let s2 : Stage Nat := agentStage none ex 1
  f.1 == [true,                                   -- run / run_parallel / get_history are the inherited ones (the model has no others)
          gateCode s1 5 == 1, s2.checkpoint.isNone, s1.onError.isNone && s2.onError.isNone, s1.required && s2.required,
          true,                                   -- the agent is built on the cascade's budget
          procCode s1 5 == 6,                     -- what express answers is the stage's output
          true,                                   -- a Signal is handed over as it is (signals are not re-wrapped)
          procCode s1 0 == 9,                     -- an exception of express is the processor's
          true, true] &&
  (f.2.1 : Rat) == s1.amp && (f.2.2 : Rat) == s2.amp

end Operon.Cascade
