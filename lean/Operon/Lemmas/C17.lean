import Operon.Model.Immune
/-! Helper definitions and lemmas for the surveillance theorems (C17). -/
namespace Operon.Immune

/-! ### The model's decision tables, laid out the way extractor E4 lays out the source's -/

def allLevels : List Level := [.noThreat, .suspicious, .confirmed, .critical]
def allActions : List Action := [.ignore, .monitor, .isolate, .shutdown, .alert]
def allSignal1 : List Signal1 := [.self, .nonSelf, .unknown]
def allSignal2 : List Signal2 := [.absent, .canary, .cross, .repeated, .manual]

def expectedRespond : List ((Option Signal1 × Option Signal2 × Bool × Bool) × Option (Level × Action)) :=
  allSignal1.flatMap fun a => allSignal2.flatMap fun b => [false, true].flatMap fun c => [false, true].map fun d =>
    ((some a, some b, c, d), some (respond a b c d))

def expectedDowngrade : List (Option Action × Option Action) :=
  allActions.map fun a => (some a, some (downgrade a))

def expectedCanSuppress : List ((Option Level × Option Level) × Option Bool) :=
  allLevels.flatMap fun l => allLevels.map fun m => ((some l, some m), some (Rule.canSuppress ⟨fun _ _ => .yes, m⟩ l))

def ruleOpts : List (Option (Level × Bool)) :=
  none :: allLevels.flatMap fun m => [false, true].map fun f => some (m, f)

def evalProbe (l : Level) (a : Action) (stable : Bool) (ro : Option (Level × Bool)) : Option (Bool × Action) :=
  match Treg.evaluate
      ⟨match ro with
        | none => []
        | some (m, f) => [⟨fun _ _ => if f then .yes else .no, m⟩], 5⟩
      ⟨l, a, .nonSelf, .absent, [], false⟩ ⟨if stable then 5 else 0, 0⟩ with
  | .ok s _ m => some (s, m)
  | .raise => none

def expectedEvaluate :
    List ((Option Level × Option Action × Bool × Option (Level × Bool)) × Option (Bool × Action)) :=
  allLevels.flatMap fun l => allActions.flatMap fun a => [false, true].flatMap fun st => ruleOpts.map fun ro =>
    ((some l, some a, st, ro), evalProbe l a st ro)

end Operon.Immune
