import Operon.Model.Immune
/-! Helper definitions and lemmas for the surveillance theorems (C17). -/
namespace Operon.Immune

/-! ### The model's decision tables, laid out the way extractor E4 lays out the source's -/

def allLevels : List Level := [.noThreat, .suspicious, .confirmed, .critical]
def allActions : List Action := [.ignore, .monitor, .isolate, .shutdown, .alert]
def allSignal1 : List Signal1 := [.self, .nonSelf, .unknown]
def allSignal2 : List Signal2 := [.absent, .canary, .cross, .repeated, .manual]

def expectedRespond : List ((Option Signal1 × Option Signal2 × Bool × Bool) × Option (Level × Action)) :=
  allSignal1.flatMap fun a => allSignal2.flatMap fun b => [false, true].flatMap fun c => [false, true].map fun d =>
    ((some a, some b, c, d), some (respond a b c d))

def expectedDowngrade : List (Option Action × Option Action) :=
  allActions.map fun a => (some a, some (downgrade a))

def expectedCanSuppress : List ((Option Level × Option Level) × Option Bool) :=
  allLevels.flatMap fun l => allLevels.map fun m => ((some l, some m), some (Rule.canSuppress ⟨fun _ _ => .yes, m⟩ l))

def ruleOpts : List (Option (Level × Bool)) :=
  none :: allLevels.flatMap fun m => [false, true].map fun f => some (m, f)

def evalProbe (l : Level) (a : Action) (stable : Bool) (ro : Option (Level × Bool)) : Option (Bool × Action) :=
  match Treg.evaluate
      ⟨match ro with
        | none => []
        | some (m, f) => [⟨fun _ _ => if f then .yes else .no, m⟩], 5⟩
      ⟨l, a, .nonSelf, .absent, [], false⟩ ⟨if stable then 5 else 0, 0, false⟩ with
  | .ok s _ m => some (s, m)
  | .raise => none

def expectedEvaluate :
    List ((Option Level × Option Action × Bool × Option (Level × Bool)) × Option (Bool × Action)) :=
  allLevels.flatMap fun l => allActions.flatMap fun a => [false, true].flatMap fun st => ruleOpts.map fun ro =>
    ((some l, some a, st, ro), evalProbe l a st ro)


/-! ### Probe rows of extractor E4 read back into the model (numbers in 256ths) -/

def q256 (n : Int) : Rat := (n : Rat) / 256

/-- the profile of a `checkProbes` row: the eight numbers, vocabularies {1, 2}, structures {1} -/
def probeProfile : List Int → Option Profile
  | [a, b, c, d, e, f, g, h] => some ⟨q256 a, q256 b, q256 c, q256 d, q256 e, q256 f, q256 g, [1, 2], [1], q256 h⟩
  | _ => none

/-- the fingerprint of a `checkProbes` row (reported deviations are 0) -/
def probePeptide : List Int × Nat × Nat × Option Int → Option Peptide
  | ([l, t, c, e], v, s, ca) => some ⟨q256 l, 0, q256 t, 0, q256 c, 0, v, s, q256 e, ca.map q256⟩
  | _ => none

/-- a `checkProbes` row says what the model's `check` says (number of violations) -/
def checkRowOk (row : List Int × (List Int × Nat × Nat × Option Int) × Option Nat) : Bool :=
  match probeProfile row.1, probePeptide row.2.1 with
  | some pr, some p => row.2.2 == some (check pr p).length
  | _, _ => false

/-- the fingerprint of a `trainProbes` row -/
def trainPeptide : List Int → Option Peptide
  | [l, ls, t, ts, c, cs, e] => some ⟨q256 l, q256 ls, q256 t, q256 ts, q256 c, q256 cs, 1, 1, q256 e, none⟩
  | _ => none

/-- a `trainProbes` row says what the model's `trainThymus` says: positive, with these eight numbers, every hash of the
    window accepted and no other -/
def trainRowOk (row : Nat × Int × List Int × Option (List Int)) : Bool :=
  match trainPeptide row.2.2.1, row.2.2.2 with
  | some p, some [a, b, c, d, e, f, g, h] =>
    match trainThymus ⟨(row.1 : Int), q256 row.2.1, 1 / 2⟩ ⟨0, 0, 0⟩ (List.replicate row.1 p) with
    | .positive pr =>
      decide (pr.lenLo = q256 a) && decide (pr.lenHi = q256 b) && decide (pr.timeLo = q256 c) &&
      decide (pr.timeHi = q256 d) && decide (pr.confLo = q256 e) && decide (pr.confHi = q256 f) &&
      decide (pr.errMax = q256 g) && decide (pr.canaryMin = q256 h) &&
      pr.vocabs.all (· == 1) && pr.structs.all (· == 1) && pr.vocabs.contains 1 && pr.structs.contains 1
    | _ => false
  | _, _ => false

/-- the baseline of the `inspectProbes` rows -/
def inspectProbeProfile : Profile := ⟨10, 20, 1 / 2, 3 / 2, 1 / 2, 1, 1 / 8, [1, 2], [1], 3 / 4⟩

/-- the fingerprints of the `inspectProbes` rows: inside the baseline / too slow / too long, too slow and unsure -/
def inspectProbePeptide (kind : Nat) (ca : Option Int) : Peptide :=
  match kind with
  | 0 => ⟨15, 0, 1, 0, 3 / 4, 0, 1, 1, 0, ca.map q256⟩
  | 1 => ⟨15, 0, 7 / 4, 0, 3 / 4, 0, 1, 1, 0, ca.map q256⟩
  | _ => ⟨21, 0, 7 / 4, 0, 1 / 4, 0, 1, 1, 0, ca.map q256⟩

/-- an `inspectProbes` row says what the model's `TCell.inspect` says -/
def inspectRowOk (row : ((Int × Nat × Int × Nat × Bool) × (Nat × Option Int)) ×
    Option (Level × Action × Signal1 × Signal2 × Nat × Bool × Nat)) : Bool :=
  match row with
  | (((rep, k, an, cnt, fl), (kind, ca)), out) =>
    let t : TCell := ⟨inspectProbeProfile, rep, an, k, cnt, fl, .self, .absent⟩
    let res := t.inspect (inspectProbePeptide kind ca)
    out == some (res.2.level, res.2.action, res.2.s1, res.2.s2, res.2.viols.length, res.2.anergic, res.1.anomaly)

/-! ### Baseline check -/

def InBaseline (pr : Profile) (p : Peptide) : Prop :=
  pr.lenLo ≤ p.lenMean ∧ p.lenMean ≤ pr.lenHi ∧ pr.timeLo ≤ p.timeMean ∧ p.timeMean ≤ pr.timeHi ∧
  pr.confLo ≤ p.confMean ∧ p.confMean ≤ pr.confHi ∧ p.errRate ≤ pr.errMax ∧
  p.vocab ∈ pr.vocabs ∧ p.struct ∈ pr.structs ∧ (∀ c, p.canary = some c → pr.canaryMin ≤ c)

theorem canaryFails_eq_false_iff (pr : Profile) (p : Peptide) :
    canaryFails pr p = false ↔ ∀ c, p.canary = some c → pr.canaryMin ≤ c := by
  unfold canaryFails
  cases h : p.canary with
  | none => simp
  | some c => simp [Rat.not_lt]

theorem check_eq_nil_iff (pr : Profile) (p : Peptide) : check pr p = [] ↔ InBaseline pr p := by
  unfold check InBaseline inBounds
  rw [← canaryFails_eq_false_iff]
  simp only [List.append_eq_nil_iff]
  constructor
  · intro h
    obtain ⟨h1, h2, h3, h4, h5, h6, h7⟩ := h
    simp at h1 h2 h3 h4 h5 h6 h7
    simp [Rat.not_lt] at h4
    exact ⟨h1.1, h1.2, h2.1, h2.2, h3.1, h3.2, h4, h5, h6, h7⟩
  · rintro ⟨a, b, c, d, e, f, g, h, i, j⟩
    simp [*, Rat.not_lt.mpr g]

/-! ### T cell -/

def Threat (l : Level) : Prop := l = .confirmed ∨ l = .critical

instance (l : Level) : Decidable (Threat l) := by unfold Threat; infer_instance

/-- the action `_determine_response` pairs with a level -/
def actionFor : Level → Action
  | .noThreat => .ignore | .suspicious => .monitor | .confirmed => .isolate | .critical => .shutdown

def TCell.SecondSignal (t : TCell) (p : Peptide) : Prop :=
  canaryFails t.profile p = true ∨ t.flag = true ∨ t.repThr ≤ (t.anomaly : Int) + 1

theorem respond_action (a : Signal1) (b : Signal2) (c d : Bool) :
    (respond a b c d).2 = actionFor (respond a b c d).1 := by
  cases a <;> cases b <;> cases c <;> cases d <;> rfl

theorem signal2Of_true_absent_iff (t : TCell) (p : Peptide) :
    signal2Of t p true = .absent ↔ ¬ t.SecondSignal p := by
  unfold signal2Of TCell.SecondSignal
  by_cases h1 : t.repThr ≤ (t.anomaly : Int) + 1 <;> by_cases h2 : canaryFails t.profile p = true <;>
    by_cases h3 : t.flag = true <;> simp [h1, h2, h3]

theorem respond_nonSelf_threat (s2 : Signal2) (c d : Bool) :
    Threat (respond .nonSelf s2 c d).1 ↔ s2 ≠ .absent := by
  cases s2 <;> cases c <;> cases d <;> simp [respond, Threat]

/-- everything later proofs need about one T-cell inspection -/
theorem inspect_spec (t : TCell) (p : Peptide) :
    (t.isAnergic = true ∧ (t.inspect p) = (t, ⟨.noThreat, .ignore, .unknown, .absent, [], true⟩)) ∨
    (t.isAnergic = false ∧ check t.profile p = [] ∧ (t.inspect p).2.level = .noThreat ∧
      (t.inspect p).2.action = .ignore ∧ (t.inspect p).2.s1 = .self ∧ (t.inspect p).2.viols = [] ∧
      (t.inspect p).2.anergic = false ∧ ((t.inspect p).2.s2 = .manual ∨ (t.inspect p).2.s2 = .absent)) ∨
    (t.isAnergic = false ∧ check t.profile p ≠ [] ∧ (t.inspect p).2.s1 = .nonSelf ∧
      (t.inspect p).2.s2 = signal2Of t p true ∧ (t.inspect p).2.viols = check t.profile p ∧
      (t.inspect p).2.anergic = false ∧
      (t.inspect p).2.level = (respond .nonSelf (signal2Of t p true) (decide (3 ≤ (check t.profile p).length)) (canaryLow p)).1 ∧
      (t.inspect p).2.action = (respond .nonSelf (signal2Of t p true) (decide (3 ≤ (check t.profile p).length)) (canaryLow p)).2) := by
  unfold TCell.inspect
  by_cases ha : t.isAnergic = true
  · left; simp [ha]
  · right
    have ha' : t.isAnergic = false := by simpa using ha
    by_cases hc : (check t.profile p).isEmpty = true
    · left
      have hnil : check t.profile p = [] := by simpa using hc
      have hcf : canaryFails t.profile p = false := by
        unfold check at hnil
        simp only [List.append_eq_nil_iff] at hnil
        have := hnil.2.2.2.2.2.2
        by_cases h : canaryFails t.profile p = true
        · simp [h] at this
        · simpa using h
      simp only [ha', hnil]
      refine ⟨trivial, trivial, ?_⟩
      simp [signal2Of, hcf, respond]
    · right
      have hne : check t.profile p ≠ [] := by simpa using hc
      simp [ha', hc, hne]


/-! ### Regulatory T cell -/

/-- rung of an action on the ladder IGNORE < MONITOR < ISOLATE < SHUTDOWN (ALERT is not on it) -/
def Action.rung : Action → Option Nat
  | .ignore => some 0 | .monitor => some 1 | .isolate => some 2 | .shutdown => some 3 | .alert => none

/-- `m` is `o` itself, or both are on the ladder and `m` is exactly one rung below `o` -/
def AtMostOneStepLower (o m : Action) : Prop :=
  m = o ∨ (m.rung.isSome = true ∧ o.rung = m.rung.map (· + 1))

instance (o m : Action) : Decidable (AtMostOneStepLower o m) :=
  inferInstanceAs (Decidable (_ ∨ _))

theorem downgrade_one_step (a : Action) (h : a ≠ .alert) : AtMostOneStepLower a (downgrade a) := by
  cases a <;> simp [AtMostOneStepLower, downgrade, Action.rung] at *

theorem evaluate_spec (g : Treg) (resp : Response) (rec : Record) :
    (resp.level = .critical ∧ g.evaluate resp rec = .ok false resp.action resp.action) ∨
    (resp.level ≠ .critical ∧
      (g.evaluate resp rec = .raise ∨
       g.evaluate resp rec = .ok false resp.action resp.action ∨
       g.evaluate resp rec = .ok true resp.action (downgrade resp.action) ∨
       (resp.level = .suspicious ∧ g.stability ≤ (rec.clean : Int) ∧ g.evaluate resp rec = .ok true resp.action .ignore))) := by
  unfold Treg.evaluate
  by_cases hc : resp.level = .critical
  · left; simp [hc]
  · right
    refine ⟨hc, ?_⟩
    simp only [hc, if_false]
    by_cases hs : (decide (g.stability ≤ (rec.clean : Int)) && decide (resp.level = .suspicious)) = true
    · simp only [hs, if_true]
      simp at hs
      exact Or.inr (Or.inr (Or.inr ⟨hs.2, hs.1, trivial⟩))
    · simp only [hs]
      cases firstFiring g.rules resp rec <;> simp


/-! ### Pipeline tail -/

/-- what the pipeline's tail can do to the T cell's answer -/
def Softened (r r' : Response) : Prop :=
  r'.level = r.level ∧ r'.s1 = r.s1 ∧ r'.s2 = r.s2 ∧ r'.viols = r.viols ∧
  (r'.action = r.action ∨
    (r.level ≠ .critical ∧ (r'.action = downgrade r.action ∨ (r.level = .suspicious ∧ r'.action = .ignore))))

theorem afterTCell_spec (s : Sys) (a : Nat) (ag : Agent) (p : Peptide) (mem : Memory) (t' : TCell) (r : Response) :
    ((s.afterTCell a ag p mem t' r).2 = .raiseCond ∧ (s.afterTCell a ag p mem t' r).1.mem = mem) ∨
    (∃ r', (s.afterTCell a ag p mem t' r).2 = .resp r' ∧ Softened r r' ∧
      ((¬ Threat r.level ∧ (s.afterTCell a ag p mem t' r).1.mem = mem) ∨
       (Threat r.level ∧ ∃ k : Nat, (s.afterTCell a ag p mem t' r).1.mem =
          mem.store ⟨a, p.vocab, p.struct, r.level, r'.action, k, (k : Int)⟩))) := by
  unfold Sys.afterTCell
  cases hrec : ag.record with
  | none =>
    right
    by_cases ht : r.level = .confirmed ∨ r.level = .critical
    · simp only [ht, if_true]
      exact ⟨r, rfl, ⟨rfl, rfl, rfl, rfl, Or.inl rfl⟩, Or.inr ⟨ht, _, rfl⟩⟩
    · simp only [ht, if_false]
      exact ⟨r, rfl, ⟨rfl, rfl, rfl, rfl, Or.inl rfl⟩, Or.inl ⟨ht, trivial⟩⟩
  | some rec =>
    simp only []
    rcases evaluate_spec s.treg r rec with ⟨hc, he⟩ | ⟨hc, he | he | he | ⟨hs, _, he⟩⟩
    · right
      rw [he]
      have ht : r.level = .confirmed ∨ r.level = .critical := Or.inr hc
      simp only [ht, if_true]
      exact ⟨_, rfl, ⟨rfl, rfl, rfl, rfl, Or.inl (by simp)⟩, Or.inr ⟨ht, _, rfl⟩⟩
    · left; rw [he]; exact ⟨rfl, rfl⟩
    · right
      rw [he]
      by_cases ht : r.level = .confirmed ∨ r.level = .critical
      · simp only [ht, if_true]
        exact ⟨_, rfl, ⟨rfl, rfl, rfl, rfl, Or.inl (by simp)⟩, Or.inr ⟨ht, _, rfl⟩⟩
      · simp only [ht, if_false]
        exact ⟨_, rfl, ⟨rfl, rfl, rfl, rfl, Or.inl (by simp)⟩, Or.inl ⟨ht, trivial⟩⟩
    · right
      rw [he]
      by_cases ht : r.level = .confirmed ∨ r.level = .critical
      · simp only [ht, if_true]
        exact ⟨_, rfl, ⟨rfl, rfl, rfl, rfl, Or.inr ⟨hc, Or.inl (by simp)⟩⟩, Or.inr ⟨ht, _, rfl⟩⟩
      · simp only [ht, if_false]
        exact ⟨_, rfl, ⟨rfl, rfl, rfl, rfl, Or.inr ⟨hc, Or.inl (by simp)⟩⟩, Or.inl ⟨ht, trivial⟩⟩
    · right
      rw [he]
      have ht : ¬ (r.level = .confirmed ∨ r.level = .critical) := by rw [hs]; simp
      simp only [ht, if_false]
      exact ⟨_, rfl, ⟨rfl, rfl, rfl, rfl, Or.inr ⟨hc, Or.inr ⟨hs, by simp⟩⟩⟩, Or.inl ⟨ht, trivial⟩⟩


/-! ### Memory and the pipeline's case split -/

def Sig.core (s : Sig) : Nat × Nat × Nat × Level × Action := (s.agent, s.vocab, s.struct, s.level, s.action)

theorem recallGo_some (a v st now : Nat) (l : List Sig) (sig : Sig)
    (h : (recallGo a v st now l).2 = some sig) : sig ∈ l ∧ sig.agent = a ∧ sig.vocab = v ∧ sig.struct = st := by
  induction l with
  | nil => simp [recallGo] at h
  | cons x r ih =>
    unfold recallGo at h
    by_cases hx : x.hits a v st = true
    · simp only [hx, if_true] at h
      cases h
      simp [Sig.hits] at hx
      exact ⟨List.mem_cons_self, hx.1.1, hx.1.2, hx.2⟩
    · simp only [hx] at h
      have := ih h
      exact ⟨List.mem_cons_of_mem _ this.1, this.2⟩

theorem recallGo_core (a v st now : Nat) (l : List Sig) :
    ∀ x ∈ (recallGo a v st now l).1, ∃ y ∈ l, y.core = x.core := by
  induction l with
  | nil => simp [recallGo]
  | cons z r ih =>
    unfold recallGo
    by_cases hz : z.hits a v st = true
    · simp only [hz, if_true]
      intro x hx
      rcases List.mem_cons.mp hx with rfl | hx
      · exact ⟨z, List.mem_cons_self, rfl⟩
      · exact ⟨x, List.mem_cons_of_mem _ hx, rfl⟩
    · simp only [hz]
      intro x hx
      rcases List.mem_cons.mp hx with rfl | hx
      · exact ⟨x, List.mem_cons_self, rfl⟩
      · obtain ⟨y, hy, hc⟩ := ih x hx
        exact ⟨y, List.mem_cons_of_mem _ hy, hc⟩

theorem eraseFirstAccessed_subset (k : Nat) (l : List Sig) : ∀ x ∈ eraseFirstAccessed k l, x ∈ l := by
  induction l with
  | nil => simp [eraseFirstAccessed]
  | cons z r ih =>
    unfold eraseFirstAccessed
    split
    · intro x hx; exact List.mem_cons_of_mem _ hx
    · intro x hx
      rcases List.mem_cons.mp hx with rfl | hx
      · exact List.mem_cons_self
      · exact List.mem_cons_of_mem _ (ih x hx)

theorem pruneOldest_subset (l : List Sig) : ∀ x ∈ pruneOldest l, x ∈ l := by
  cases l with
  | nil => simp [pruneOldest]
  | cons z r => exact eraseFirstAccessed_subset _ _

theorem store_mem (m : Memory) (sg : Sig) : ∀ x ∈ (m.store sg).sigs, x ∈ m.sigs ∨ x = sg := by
  intro x hx
  unfold Memory.store at hx
  simp only [List.mem_append, List.mem_singleton] at hx
  rcases hx with hx | hx
  · left
    split at hx
    · exact pruneOldest_subset _ _ hx
    · exact hx
  · exact Or.inr hx

/-- the fingerprint is CRITICAL by the T cell's own table once a second signal is there: three or more baseline
    violations, or a canary accuracy below one half -/
def CriticalNow (pr : Profile) (p : Peptide) : Prop := 3 ≤ (check pr p).length ∨ canaryLow p = true

instance (pr : Profile) (p : Peptide) : Decidable (CriticalNow pr p) := inferInstanceAs (Decidable (_ ∨ _))

theorem recalledPair_cases (t : TCell) (p : Peptide) (sig : Sig) :
    (CriticalNow t.profile p ∧ recalledPair t p sig = (.critical, .shutdown)) ∨
    (¬ CriticalNow t.profile p ∧ recalledPair t p sig = (sig.level, sig.action)) := by
  unfold recalledPair respond CriticalNow
  by_cases h1 : 3 ≤ (check t.profile p).length <;> by_cases h2 : canaryLow p = true <;> simp [h1, h2]

/-- the memory as the pipeline sees it after the recall attempt -/
def Sys.memAfterRecall (s : Sys) (a : Nat) (p : Peptide) : Memory :=
  ⟨s.mem.cap, (recallGo a p.vocab p.struct (s.clock + 1) s.mem.sigs).1⟩

theorem sys_inspect_cases (s : Sys) (a : Nat) :
    ((s.agents a).tcell = none ∧ s.inspect a = (s, .raiseValue)) ∨
    (∃ t, (s.agents a).tcell = some t ∧ (s.agents a).display = none ∧
      s.inspect a = (s, .resp ⟨.noThreat, .ignore, .unknown, .absent, [], false⟩)) ∨
    (∃ t p sig, (s.agents a).tcell = some t ∧ (s.agents a).display = some p ∧
      (recallGo a p.vocab p.struct (s.clock + 1) s.mem.sigs).2 = some sig ∧
      t.isAnergic = false ∧ check t.profile p ≠ [] ∧
      (s.inspect a).2 = .resp ⟨(recalledPair t p sig).1, (recalledPair t p sig).2, .nonSelf, .cross, [.recalled], false⟩ ∧
      (s.inspect a).1.mem = s.memAfterRecall a p ∧ (s.inspect a).1.agents = s.agents) ∨
    (∃ t p, (s.agents a).tcell = some t ∧ (s.agents a).display = some p ∧
      s.inspect a = s.afterTCell a (s.agents a) p (s.memAfterRecall a p) (t.inspect p).1 (t.inspect p).2) := by
  unfold Sys.inspect Sys.memAfterRecall
  cases ht : (s.agents a).tcell with
  | none => left; simp
  | some t =>
    right
    cases hd : (s.agents a).display with
    | none => left; exact ⟨t, rfl, rfl, rfl⟩
    | some p =>
      right
      simp only []
      cases hr : (recallGo a p.vocab p.struct (s.clock + 1) s.mem.sigs).2 with
      | none => right; exact ⟨t, p, rfl, rfl, rfl⟩
      | some sig =>
        simp only []
        by_cases hg : (!t.isAnergic && !(check t.profile p).isEmpty) = true
        · left
          simp only [hg, if_true]
          simp at hg
          exact ⟨t, p, sig, rfl, rfl, hr, hg.1, hg.2, by simp⟩
        · right
          simp only [hg]
          exact ⟨t, p, rfl, rfl, rfl⟩


/-! ### Thymus arithmetic -/

theorem le_rmax_left (a b : Rat) : a ≤ rmax a b := by unfold rmax; split <;> grind
theorem le_rmax_right (a b : Rat) : b ≤ rmax a b := by unfold rmax; split <;> grind
theorem rmin_le_left (a b : Rat) : rmin a b ≤ a := by unfold rmin; split <;> grind
theorem rmin_le_right (a b : Rat) : rmin a b ≤ b := by unfold rmin; split <;> grind

theorem sum_replicate (n : Nat) (v : Rat) : (List.replicate n v).sum = (n : Rat) * v := by
  induction n with
  | zero => simp
  | succ k ih =>
    simp only [List.replicate_succ, List.sum_cons, ih]
    have : ((k + 1 : Nat) : Rat) = (k : Rat) + 1 := by simp
    rw [this]; grind

theorem mean_replicate (n : Nat) (v : Rat) (h : 0 < n) : mean (List.replicate n v) = v := by
  unfold mean
  rw [sum_replicate, List.length_replicate]
  have hn : (n : Rat) ≠ 0 := by
    have : (0 : Rat) < (n : Rat) := by exact_mod_cast h
    grind
  rw [Rat.mul_comm, Rat.mul_div_cancel hn]

theorem combinedStd_ge (values stds : List Rat) (sd : Rat) : 1 / 100 ≤ combinedStd values stds sd :=
  le_rmax_right _ _

theorem calcBounds_contains_mean (tol : Rat) (htol : 0 ≤ tol) (values stds : List Rat) (sd : Rat) :
    (calcBounds tol values stds sd).1 ≤ mean values ∧ mean values ≤ (calcBounds tol values stds sd).2 := by
  unfold calcBounds
  have hc : (0 : Rat) ≤ combinedStd values stds sd := by
    have := combinedStd_ge values stds sd
    grind
  have : 0 ≤ tol * combinedStd values stds sd := Rat.mul_nonneg htol hc
  constructor <;> simp only <;> grind

theorem lmax_ge : ∀ (l : List Rat), ∀ x ∈ l, x ≤ lmax l
  | [], x, h => by simp at h
  | [y], x, h => by simp at h; subst h; simp [lmax]
  | y :: z :: r, x, h => by
    unfold lmax
    rcases List.mem_cons.mp h with rfl | h
    · exact le_rmax_left _ _
    · exact Rat.le_trans (lmax_ge (z :: r) x h) (le_rmax_right _ _)

theorem lmin_le : ∀ (l : List Rat), ∀ x ∈ l, lmin l ≤ x
  | [], x, h => by simp at h
  | [y], x, h => by simp at h; subst h; simp [lmin]
  | y :: z :: r, x, h => by
    unfold lmin
    rcases List.mem_cons.mp h with rfl | h
    · exact rmin_le_left _ _
    · exact Rat.le_trans (rmin_le_right _ _) (lmin_le (z :: r) x h)

theorem lmin_mem : ∀ (l : List Rat), l ≠ [] → lmin l ∈ l
  | [], h => by simp at h
  | [y], _ => by simp [lmin]
  | y :: z :: r, _ => by
    unfold lmin rmin
    split
    · exact List.mem_cons_self
    · exact List.mem_cons_of_mem _ (lmin_mem (z :: r) (by simp))

theorem errMaxOf_ge (samples : List Peptide) : ∀ s ∈ samples, s.errRate ≤ errMaxOf samples := by
  intro s hs
  unfold errMaxOf
  have h1 : s.errRate ≤ lmax (samples.map (·.errRate)) := lmax_ge _ _ (List.mem_map_of_mem hs)
  have h2 := le_rmax_left (lmax (samples.map (·.errRate)) * 2) (1 / 20)
  have h3 := le_rmax_right (lmax (samples.map (·.errRate)) * 2) (1 / 20)
  grind

theorem canaryMinOf_le (samples : List Peptide)
    (hpos : ∀ s ∈ samples, ∀ c, s.canary = some c → 0 ≤ c) :
    ∀ s ∈ samples, ∀ c, s.canary = some c → canaryMinOf samples ≤ c := by
  intro s hs c hc
  have hmem : c ∈ samples.filterMap (·.canary) := List.mem_filterMap.mpr ⟨s, hs, hc⟩
  have hne : samples.filterMap (·.canary) ≠ [] := by intro h; rw [h] at hmem; simp at hmem
  unfold canaryMinOf
  have hie : (samples.filterMap (·.canary)).isEmpty = false := by simpa using hne
  simp only [hie]
  have h1 : lmin (samples.filterMap (·.canary)) ≤ c := lmin_le _ _ hmem
  have h2 : 0 ≤ lmin (samples.filterMap (·.canary)) := by
    obtain ⟨s', hs', hc'⟩ := List.mem_filterMap.mp (lmin_mem _ hne)
    exact hpos s' hs' _ hc'
  simp only [Bool.false_eq_true, if_false]
  grind



/-! ### T cell and Treg facts -/

theorem l17_tcell_two_signal (t : TCell) (p : Peptide) :
    Threat (t.inspect p).2.level ↔ (¬ InBaseline t.profile p ∧ t.isAnergic = false ∧ t.SecondSignal p) := by
  rcases inspect_spec t p with ⟨ha, he⟩ | ⟨ha, hc, hl, -⟩ | ⟨ha, hc, -, -, -, -, hl, -⟩
  · rw [he]; simp [Threat, ha]
  · rw [hl]
    have := (check_eq_nil_iff _ _).mp hc
    simp [Threat, this]
  · rw [hl, respond_nonSelf_threat]
    have hnb : ¬ InBaseline t.profile p := fun h => hc ((check_eq_nil_iff _ _).mpr h)
    have := signal2Of_true_absent_iff t p
    constructor
    · intro h
      refine ⟨hnb, ha, ?_⟩
      exact Classical.byContradiction fun hn => h (this.mpr hn)
    · rintro ⟨-, -, hs⟩ habs
      exact (this.mp habs) hs

theorem l17_tcell_threat_reports_both_signals (t : TCell) (p : Peptide) (h : Threat (t.inspect p).2.level) :
    (t.inspect p).2.s1 = .nonSelf ∧ (t.inspect p).2.s2 ≠ .absent ∧ (t.inspect p).2.viols = check t.profile p ∧
    (t.inspect p).2.viols ≠ [] := by
  rcases inspect_spec t p with ⟨ha, he⟩ | ⟨ha, hc, hl, -⟩ | ⟨ha, hc, h1, h2, h3, -, hl, -⟩
  · rw [he] at h; simp [Threat] at h
  · rw [hl] at h; simp [Threat] at h
  · rw [hl, respond_nonSelf_threat] at h
    exact ⟨h1, by rw [h2]; exact h, h3, by rw [h3]; exact hc⟩

theorem l17_tcell_action_matches_level (t : TCell) (p : Peptide) :
    (t.inspect p).2.action = actionFor (t.inspect p).2.level := by
  rcases inspect_spec t p with ⟨ha, he⟩ | ⟨ha, hc, hl, hac, -⟩ | ⟨ha, hc, -, -, -, -, hl, hac⟩
  · rw [he]; rfl
  · rw [hl, hac]; rfl
  · rw [hl, hac]; exact respond_action _ _ _ _

theorem l17_tcell_inside_baseline_no_threat (t : TCell) (p : Peptide) (h : InBaseline t.profile p) :
    (t.inspect p).2.level = .noThreat ∧ (t.inspect p).2.action = .ignore := by
  rcases inspect_spec t p with ⟨ha, he⟩ | ⟨ha, hc, hl, hac, -⟩ | ⟨ha, hc, -⟩
  · rw [he]; exact ⟨rfl, rfl⟩
  · exact ⟨hl, hac⟩
  · exact absurd ((check_eq_nil_iff _ _).mpr h) hc

theorem l17_tcell_anergic_silent (t : TCell) (p : Peptide) (h : t.isAnergic = true) :
    t.inspect p = (t, ⟨.noThreat, .ignore, .unknown, .absent, [], true⟩) := by
  rcases inspect_spec t p with ⟨ha, he⟩ | ⟨ha, -⟩ | ⟨ha, -⟩
  · exact he
  · rw [h] at ha; cases ha
  · rw [h] at ha; cases ha

theorem l17_treg_critical_never_changed (g : Treg) (resp : Response) (rec : Record)
    (h : resp.level = .critical) : g.evaluate resp rec = .ok false resp.action resp.action := by
  rcases evaluate_spec g resp rec with ⟨-, he⟩ | ⟨hc, -⟩
  · exact he
  · exact absurd h hc

theorem l17_treg_one_step (g : Treg) (resp : Response) (rec : Record) (s : Bool) (o m : Action)
    (h : g.evaluate resp rec = .ok s o m) :
    o = resp.action ∧ (s = false → m = o) ∧
    (resp.action ≠ .alert → (resp.level = .suspicious → resp.action = .monitor) → AtMostOneStepLower o m) := by
  rcases evaluate_spec g resp rec with ⟨-, he⟩ | ⟨hc, he | he | he | ⟨hs, -, he⟩⟩ <;> rw [he] at h
  · cases h; exact ⟨rfl, fun _ => rfl, fun _ _ => Or.inl rfl⟩
  · cases h
  · cases h; exact ⟨rfl, fun _ => rfl, fun _ _ => Or.inl rfl⟩
  · cases h; exact ⟨rfl, fun h => Bool.noConfusion h, fun ha _ => downgrade_one_step _ ha⟩
  · cases h
    refine ⟨rfl, fun h => Bool.noConfusion h, fun _ hm => ?_⟩
    rw [hm hs]; exact Or.inr ⟨rfl, rfl⟩


/-- off the ladder ALERT may stay or go to MONITOR; on the ladder: the same action or one rung below -/
def RuleStep (o m : Action) : Prop := (o ≠ .alert → AtMostOneStepLower o m) ∧ (o = .alert → m = .alert ∨ m = .monitor)

instance (o m : Action) : Decidable (RuleStep o m) := inferInstanceAs (Decidable (_ ∧ _))

theorem downgrade_ruleStep (a : Action) : RuleStep a (downgrade a) := by
  cases a <;> simp [RuleStep, AtMostOneStepLower, downgrade, Action.rung]

theorem ruleStep_refl (a : Action) : RuleStep a a := ⟨fun _ => Or.inl rfl, fun h => Or.inl h⟩

/-- whenever the stability shortcut does not apply (the record is not stable, or the level is not SUSPICIOUS), the
    outcome of `evaluate` is within one step of the response's action — for every level / action pair -/
theorem l17_treg_rule_one_step (g : Treg) (resp : Response) (rec : Record) (s : Bool) (o m : Action)
    (h : g.evaluate resp rec = .ok s o m)
    (hns : ¬ (g.stability ≤ (rec.clean : Int) ∧ resp.level = .suspicious)) :
    o = resp.action ∧ RuleStep o m := by
  rcases evaluate_spec g resp rec with ⟨-, he⟩ | ⟨hc, he | he | he | ⟨hs, hst, he⟩⟩ <;> rw [he] at h
  · cases h; exact ⟨rfl, ruleStep_refl _⟩
  · cases h
  · cases h; exact ⟨rfl, ruleStep_refl _⟩
  · cases h; exact ⟨rfl, downgrade_ruleStep _⟩
  · exact absurd ⟨hst, hs⟩ hns


/-! ### Pipeline, one inspection -/

/-- a remembered threat: a stored signature of this agent with both hashes of the fingerprint -/
def Remembered (m : Memory) (a : Nat) (p : Peptide) (l : Level) (act : Action) : Prop :=
  ∃ sig ∈ m.sigs, sig.agent = a ∧ sig.vocab = p.vocab ∧ sig.struct = p.struct ∧ sig.level = l ∧ sig.action = act

/-- the tail of the pipeline never moves an action by more than one rung and leaves CRITICAL alone -/
theorem softened_one_step (t : TCell) (p : Peptide) (r : Response) (h : Softened (t.inspect p).2 r) :
    r.level = (t.inspect p).2.level ∧ AtMostOneStepLower (t.inspect p).2.action r.action ∧
    ((t.inspect p).2.level = .critical → r.action = .shutdown) := by
  obtain ⟨hl, -, -, -, ha⟩ := h
  have hm := l17_tcell_action_matches_level t p
  refine ⟨hl, ?_, ?_⟩
  · rcases ha with ha | ⟨-, ha | ⟨hs, ha⟩⟩
    · exact Or.inl ha
    · rw [ha]; apply downgrade_one_step
      rw [hm]; cases (t.inspect p).2.level <;> simp [actionFor]
    · rw [ha, hm, hs]; exact Or.inr ⟨rfl, rfl⟩
  · intro hc
    rcases ha with ha | ⟨hn, -⟩
    · rw [ha, hm, hc]; rfl
    · exact absurd hc hn

/-- how a response relates to the remembered pair `(l, act)` that answered: it is that pair, or the fingerprint is
    CRITICAL now and the response is CRITICAL / SHUTDOWN (memory never softens a critical threat) -/
def AnswersFromMemory (t : TCell) (p : Peptide) (r : Response) (l : Level) (act : Action) : Prop :=
  (r.level = l ∧ r.action = act) ∨ (CriticalNow t.profile p ∧ r.level = .critical ∧ r.action = .shutdown)

theorem answersFromMemory_recalled (t : TCell) (p : Peptide) (sig : Sig) :
    AnswersFromMemory t p ⟨(recalledPair t p sig).1, (recalledPair t p sig).2, .nonSelf, .cross, [.recalled], false⟩
      sig.level sig.action := by
  rcases recalledPair_cases t p sig with ⟨hc, hp⟩ | ⟨-, hp⟩
  · exact Or.inr ⟨hc, by simp [hp], by simp [hp]⟩
  · exact Or.inl ⟨by simp [hp], by simp [hp]⟩

theorem l17_pipeline_two_signal (s : Sys) (a : Nat) (r : Response)
    (h : (s.inspect a).2 = .resp r) (ht : Threat r.level) :
    ∃ t p, (s.agents a).tcell = some t ∧ (s.agents a).display = some p ∧
      ¬ InBaseline t.profile p ∧ t.isAnergic = false ∧
      (t.SecondSignal p ∨ ∃ l act, Remembered s.mem a p l act ∧ AnswersFromMemory t p r l act) ∧
      r.s1 = .nonSelf ∧ r.s2 ≠ .absent := by
  rcases sys_inspect_cases s a with ⟨-, he⟩ | ⟨t, -, -, he⟩ | ⟨t, p, sig, h1, h2, hr, ha, hc, he, -⟩ | ⟨t, p, h1, h2, he⟩
  · rw [he] at h; cases h
  · rw [he] at h; cases h; simp [Threat] at ht
  · rw [he] at h; cases h
    obtain ⟨hm, hag, hv, hs⟩ := recallGo_some _ _ _ _ _ _ hr
    exact ⟨t, p, h1, h2, fun hb => hc ((check_eq_nil_iff _ _).mpr hb), ha,
      Or.inr ⟨sig.level, sig.action, ⟨sig, hm, hag, hv, hs, rfl, rfl⟩, answersFromMemory_recalled t p sig⟩, rfl, by simp⟩
  · rw [he] at h
    rcases afterTCell_spec s a (s.agents a) p (s.memAfterRecall a p) (t.inspect p).1 (t.inspect p).2 with
      ⟨hx, -⟩ | ⟨r', hx, hsoft, -⟩
    · rw [hx] at h; cases h
    · rw [hx] at h; cases h
      obtain ⟨hl, hs1, hs2, -, -⟩ := hsoft
      rw [hl] at ht
      obtain ⟨hnb, hna, hss⟩ := (l17_tcell_two_signal t p).mp ht
      obtain ⟨g1, g2, -, -⟩ := l17_tcell_threat_reports_both_signals t p ht
      exact ⟨t, p, h1, h2, hnb, hna, Or.inl hss, by rw [hs1]; exact g1, by rw [hs2]; exact g2⟩

theorem l17_pipeline_inside_baseline_no_threat (s : Sys) (a : Nat) (r : Response) (t : TCell) (p : Peptide)
    (h : (s.inspect a).2 = .resp r) (htc : (s.agents a).tcell = some t) (hd : (s.agents a).display = some p)
    (hb : InBaseline t.profile p) : r.level = .noThreat ∧ r.action = .ignore := by
  rcases sys_inspect_cases s a with ⟨h0, -⟩ | ⟨t', -, h0, -⟩ | ⟨t', p', sig, h1, h2, -, -, hc, -⟩ | ⟨t', p', h1, h2, he⟩
  · rw [htc] at h0; cases h0
  · rw [hd] at h0; cases h0
  · rw [htc] at h1; rw [hd] at h2; cases h1; cases h2
    exact absurd ((check_eq_nil_iff _ _).mpr hb) hc
  · rw [htc] at h1; rw [hd] at h2; cases h1; cases h2
    rw [he] at h
    rcases afterTCell_spec s a (s.agents a) p (s.memAfterRecall a p) (t.inspect p).1 (t.inspect p).2 with
      ⟨hx, -⟩ | ⟨r', hx, hsoft, -⟩
    · rw [hx] at h; cases h
    · rw [hx] at h; cases h
      obtain ⟨hl, ha⟩ := l17_tcell_inside_baseline_no_threat t p hb
      obtain ⟨h1, -, -, -, h5⟩ := hsoft
      refine ⟨by rw [h1, hl], ?_⟩
      rcases h5 with h5 | ⟨-, h5 | ⟨hs, -⟩⟩
      · rw [h5, ha]
      · rw [h5, ha]; rfl
      · rw [hl] at hs; cases hs

theorem l17_pipeline_no_fingerprint_no_threat (s : Sys) (a : Nat) (r : Response)
    (h : (s.inspect a).2 = .resp r) (hd : (s.agents a).display = none) :
    r.level = .noThreat ∧ r.action = .ignore := by
  rcases sys_inspect_cases s a with ⟨-, he⟩ | ⟨t', -, -, he⟩ | ⟨t', p', sig, -, h2, -⟩ | ⟨t', p', -, h2, -⟩
  · rw [he] at h; cases h
  · rw [he] at h; cases h; exact ⟨rfl, rfl⟩
  · rw [hd] at h2; cases h2
  · rw [hd] at h2; cases h2

theorem l17_pipeline_anergic_silent (s : Sys) (a : Nat) (r : Response) (t : TCell)
    (h : (s.inspect a).2 = .resp r) (htc : (s.agents a).tcell = some t) (han : t.isAnergic = true) :
    r.level = .noThreat ∧ r.action = .ignore := by
  rcases sys_inspect_cases s a with ⟨h0, -⟩ | ⟨t', -, -, he⟩ | ⟨t', p', sig, h1, -, -, ha, -⟩ | ⟨t', p', h1, h2, he⟩
  · rw [htc] at h0; cases h0
  · rw [he] at h; cases h; exact ⟨rfl, rfl⟩
  · rw [htc] at h1; cases h1; rw [han] at ha; cases ha
  · rw [htc] at h1; cases h1
    rw [he] at h
    rcases afterTCell_spec s a (s.agents a) p' (s.memAfterRecall a p') (t.inspect p').1 (t.inspect p').2 with
      ⟨hx, -⟩ | ⟨r', hx, hsoft, -⟩
    · rw [hx] at h; cases h
    · rw [hx] at h; cases h
      rw [l17_tcell_anergic_silent t p' han] at hsoft
      obtain ⟨h1, -, -, -, h5⟩ := hsoft
      refine ⟨h1, ?_⟩
      rcases h5 with h5 | ⟨-, h5 | ⟨hs, -⟩⟩
      · exact h5
      · exact h5
      · cases hs

theorem l17_pipeline_tolerance_one_step (s : Sys) (a : Nat) (r : Response) (t : TCell) (p : Peptide)
    (h : (s.inspect a).2 = .resp r) (htc : (s.agents a).tcell = some t) (hd : (s.agents a).display = some p) :
    (r.s2 = .cross ∧ ∃ l act, Remembered s.mem a p l act ∧ AnswersFromMemory t p r l act) ∨
    (r.level = (t.inspect p).2.level ∧ AtMostOneStepLower (t.inspect p).2.action r.action ∧
      ((t.inspect p).2.level = .critical → r.action = .shutdown)) := by
  rcases sys_inspect_cases s a with ⟨h0, -⟩ | ⟨t', -, h0, -⟩ | ⟨t', p', sig, h1, h2, hr, -, -, he, -⟩ | ⟨t', p', h1, h2, he⟩
  · rw [htc] at h0; cases h0
  · rw [hd] at h0; cases h0
  · rw [htc] at h1; rw [hd] at h2; cases h1; cases h2
    rw [he] at h; cases h
    obtain ⟨hm, hag, hv, hs⟩ := recallGo_some _ _ _ _ _ _ hr
    exact Or.inl ⟨rfl, sig.level, sig.action, ⟨sig, hm, hag, hv, hs, rfl, rfl⟩, answersFromMemory_recalled t p sig⟩
  · rw [htc] at h1; rw [hd] at h2; cases h1; cases h2
    rw [he] at h
    rcases afterTCell_spec s a (s.agents a) p (s.memAfterRecall a p) (t.inspect p).1 (t.inspect p).2 with
      ⟨hx, -⟩ | ⟨r', hx, hsoft, -⟩
    · rw [hx] at h; cases h
    · rw [hx] at h; cases h
      exact Or.inr (softened_one_step t p _ hsoft)


/-- a threat verdict of the T cell is CRITICAL exactly when the fingerprint is critical-grade -/
theorem tcell_threat_critical_iff (t : TCell) (p : Peptide) (h : Threat (t.inspect p).2.level) :
    (t.inspect p).2.level = .critical ↔ CriticalNow t.profile p := by
  rcases inspect_spec t p with ⟨-, he⟩ | ⟨-, -, hl, -⟩ | ⟨-, -, -, -, -, -, hl, -⟩
  · rw [he] at h; simp [Threat] at h
  · rw [hl] at h; simp [Threat] at h
  · rw [hl] at h ⊢
    have hs2 := (respond_nonSelf_threat _ _ _).mp h
    unfold CriticalNow
    cases hs : signal2Of t p true
    · exact absurd hs hs2
    all_goals
      by_cases h1 : 3 ≤ (check t.profile p).length <;> by_cases h2 : canaryLow p = true <;> simp [respond, h1, h2]

/-- memory never softens a critical threat, nor does a tolerance rule: whenever the pipeline reports a threat about a
    fingerprint that is CRITICAL by the T cell's table, the report is CRITICAL / SHUTDOWN -/
theorem l17_pipeline_critical_never_softened (s : Sys) (a : Nat) (r : Response) (t : TCell) (p : Peptide)
    (h : (s.inspect a).2 = .resp r) (htc : (s.agents a).tcell = some t) (hd : (s.agents a).display = some p)
    (ht : Threat r.level) (hc : CriticalNow t.profile p) : r.level = .critical ∧ r.action = .shutdown := by
  rcases sys_inspect_cases s a with ⟨h0, -⟩ | ⟨t', -, h0, -⟩ | ⟨t', p', sig, h1, h2, -, -, -, he, -⟩ | ⟨t', p', h1, h2, he⟩
  · rw [htc] at h0; cases h0
  · rw [hd] at h0; cases h0
  · rw [htc] at h1; rw [hd] at h2; cases h1; cases h2
    rw [he] at h; cases h
    rcases recalledPair_cases t p sig with ⟨-, hp⟩ | ⟨hn, -⟩
    · simp [hp]
    · exact absurd hc hn
  · rw [htc] at h1; rw [hd] at h2; cases h1; cases h2
    rw [he] at h
    rcases afterTCell_spec s a (s.agents a) p (s.memAfterRecall a p) (t.inspect p).1 (t.inspect p).2 with
      ⟨hx, -⟩ | ⟨r', hx, hsoft, -⟩
    · rw [hx] at h; cases h
    · rw [hx] at h; cases h
      obtain ⟨h1, -, h3⟩ := softened_one_step t p _ hsoft
      have hcr : (t.inspect p).2.level = .critical := (tcell_threat_critical_iff t p (by rw [← h1]; exact ht)).mpr hc
      exact ⟨by rw [h1]; exact hcr, h3 hcr⟩

/-- what the T cell alone calls CRITICAL is critical-grade (and the watcher is looking) -/
theorem tcell_critical_grade (t : TCell) (p : Peptide) (h : (t.inspect p).2.level = .critical) :
    CriticalNow t.profile p ∧ t.isAnergic = false ∧ check t.profile p ≠ [] := by
  have ht : Threat (t.inspect p).2.level := Or.inr h
  refine ⟨(tcell_threat_critical_iff t p ht).mp h, ?_⟩
  rcases inspect_spec t p with ⟨-, he⟩ | ⟨-, -, hl, -⟩ | ⟨ha, hne, -⟩
  · rw [he] at h; cases h
  · rw [hl] at h; cases h
  · exact ⟨ha, hne⟩

/-! ### Pipeline histories -/

theorem inspect_s2_ne_cross (t : TCell) (p : Peptide) : (t.inspect p).2.s2 ≠ .cross := by
  rcases inspect_spec t p with ⟨-, he⟩ | ⟨-, -, -, -, -, -, -, h | h⟩ | ⟨-, -, -, h, -⟩
  · rw [he]; simp
  · rw [h]; simp
  · rw [h]; simp
  · rw [h]; unfold signal2Of
    split
    · simp
    · split
      · simp
      · split <;> simp

/-- where the signatures in memory after an inspection come from: they were there before (possibly re-stamped),
    or the inspection itself reported a threat through the T cell and stored it -/
theorem inspect_mem (s : Sys) (a : Nat) :
    ∀ x ∈ (s.inspect a).1.mem.sigs,
      (∃ y ∈ s.mem.sigs, y.core = x.core) ∨
      (∃ p r k, (s.agents a).display = some p ∧ (s.inspect a).2 = .resp r ∧ Threat r.level ∧ r.s2 ≠ .cross ∧
        (r.level = .critical → r.action = .shutdown) ∧ AtMostOneStepLower (actionFor r.level) r.action ∧
        x = ⟨a, p.vocab, p.struct, r.level, r.action, k, (k : Int)⟩) := by
  intro x hx
  rcases sys_inspect_cases s a with ⟨-, he⟩ | ⟨t, -, -, he⟩ | ⟨t, p, sig, -, -, -, -, -, -, hm, -⟩ | ⟨t, p, -, h2, he⟩
  · rw [he] at hx; exact Or.inl ⟨x, hx, rfl⟩
  · rw [he] at hx; exact Or.inl ⟨x, hx, rfl⟩
  · rw [hm] at hx; exact Or.inl (recallGo_core _ _ _ _ _ x hx)
  · rw [he] at hx ⊢
    rcases afterTCell_spec s a (s.agents a) p (s.memAfterRecall a p) (t.inspect p).1 (t.inspect p).2 with
      ⟨-, hm⟩ | ⟨r', hx', hsoft, ⟨-, hm⟩ | ⟨hthr, k, hm⟩⟩
    · rw [hm] at hx; exact Or.inl (recallGo_core _ _ _ _ _ x hx)
    · rw [hm] at hx; exact Or.inl (recallGo_core _ _ _ _ _ x hx)
    · rw [hm] at hx
      rcases store_mem _ _ x hx with hx | hx
      · exact Or.inl (recallGo_core _ _ _ _ _ x hx)
      · right
        obtain ⟨h1, h2', h3⟩ := softened_one_step t p r' hsoft
        refine ⟨p, r', k, h2, hx', by rw [h1]; exact hthr, ?_, ?_, ?_, ?_⟩
        · rw [hsoft.2.2.1]; exact inspect_s2_ne_cross t p
        · intro hc; rw [h1] at hc; exact h3 hc
        · rw [h1, ← l17_tcell_action_matches_level]; exact h2'
        · rw [hx, h1]

theorem train_mem (s : Sys) (a : Nat) : (s.train a).1.mem = s.mem := by
  unfold Sys.train
  split
  · split
    · rfl
    · split <;> rfl
  · rfl

theorem keepMask_subset : ∀ (mask : List Bool) (l : List Sig), ∀ x ∈ keepMask mask l, x ∈ l
  | _, [] => by intro x hx; simp [keepMask] at hx
  | [], _ :: _ => by intro x hx; simp [keepMask] at hx
  | b :: bs, y :: ys => by
    intro x hx
    unfold keepMask at hx
    split at hx
    · rcases List.mem_cons.mp hx with h | h
      · exact h ▸ List.mem_cons_self
      · exact List.mem_cons_of_mem _ (keepMask_subset bs ys x h)
    · exact List.mem_cons_of_mem _ (keepMask_subset bs ys x hx)

theorem step_mem (s : Sys) (op : Op) (h : ∀ a, op ≠ .inspect a) (h2 : ∀ k, op ≠ .pruneOld k)
    (h3 : ∀ d, op ≠ .importSigs d) (h4 : ∀ c, op ≠ .setCap c) (h5 : ∀ m, op ≠ .forget m)
    (h6 : ∀ a v st, op ≠ .recall a v st) :
    (s.step op).1.mem = s.mem := by
  cases op with
  | forget m => exact absurd rfl (h5 m)
  | recall a v st => exact absurd rfl (h6 a v st)
  | peek => rfl
  | setCap c => exact absurd rfl (h4 c)
  | inspect a => exact absurd rfl (h a)
  | pruneOld k => exact absurd rfl (h2 k)
  | importSigs d => exact absurd rfl (h3 d)
  | markUpdated a => simp only [Sys.step, Sys.markUpdated]; split <;> rfl
  | expire => rfl
  | setRep a k => simp only [Sys.step, Sys.configT]; split <;> rfl
  | setAnergy a k => simp only [Sys.step, Sys.configT]; split <;> rfl
  | setProfile a pr => simp only [Sys.step, Sys.configT]; split <;> rfl
  | setTreg g => rfl
  | setThymus t v => rfl
  | train a => exact train_mem s a
  | register a => rfl
  | showP a p => simp only [Sys.step, Sys.showPeptide]; split <;> rfl
  | flag a b => simp only [Sys.step, Sys.flag]; split <;> rfl
  | reset a => simp only [Sys.step, Sys.resetT]; split <;> rfl
  | resetFA a => simp only [Sys.step, Sys.resetT]; split <;> rfl
  | dropRecord a => rfl

/-- level, action and second signal of a response, if the inspection produced one -/
def InspectOut.summary : InspectOut → Option (Level × Action × Signal2)
  | .resp r => some (r.level, r.action, r.s2)
  | _ => none

def Obs.summary : Obs → Option (Level × Action × Signal2)
  | .inspected _ _ o => o.summary
  | _ => none

/-- an earlier inspection in the trace reported exactly this signature's threat, through the T cell -/
def Reported (tr : List Obs) (x : Sig) : Prop :=
  ∃ p r, Obs.inspected x.agent (some p) (.resp r) ∈ tr ∧ p.vocab = x.vocab ∧ p.struct = x.struct ∧
    r.level = x.level ∧ r.action = x.action ∧ r.s2 ≠ .cross

/-- the signature (agent, hashes, level, action) was part of an earlier `import_signatures` in the trace -/
def ImportedIn (tr : List Obs) (x : Sig) : Prop :=
  ∃ data, Obs.imported data ∈ tr ∧ ∃ y ∈ data, y.core = x.core

/-- what an exported signature must look like to be importable: a CONFIRMED / CRITICAL threat, CRITICAL paired with
    SHUTDOWN, the action at most one rung below the one the level calls for -/
def WellFormedSig (x : Sig) : Prop :=
  Threat x.level ∧ (x.level = .critical → x.action = .shutdown) ∧ AtMostOneStepLower (actionFor x.level) x.action

/-- an operation is well formed if the data it imports is -/
def Op.WF : Op → Prop
  | .importSigs data => ∀ x ∈ data, WellFormedSig x
  | _ => True

def MemGenuine (m : Memory) (tr : List Obs) : Prop :=
  ∀ x ∈ m.sigs, WellFormedSig x ∧ (Reported tr x ∨ ImportedIn tr x)

theorem wellFormed_of_core (x y : Sig) (h : y.core = x.core) (hy : WellFormedSig y) : WellFormedSig x := by
  simp only [Sig.core, Prod.mk.injEq] at h
  obtain ⟨-, -, -, h4, h5⟩ := h
  unfold WellFormedSig at *
  rw [← h4, ← h5]; exact hy

theorem reported_of_core (tr : List Obs) (x y : Sig) (h : y.core = x.core) (hy : Reported tr y) : Reported tr x := by
  simp only [Sig.core, Prod.mk.injEq] at h
  obtain ⟨h1, h2, h3, h4, h5⟩ := h
  obtain ⟨p, r, hm, a, b, c, d, e⟩ := hy
  exact ⟨p, r, by rw [← h1]; exact hm, by rw [← h2]; exact a, by rw [← h3]; exact b, by rw [← h4]; exact c,
    by rw [← h5]; exact d, e⟩

theorem provenance_of_core (tr more : List Obs) (x y : Sig) (h : y.core = x.core)
    (hy : Reported tr y ∨ ImportedIn tr y) : Reported (tr ++ more) x ∨ ImportedIn (tr ++ more) x := by
  rcases hy with hy | ⟨data, hd, z, hz, hc⟩
  · obtain ⟨p, r, hm, rest⟩ := reported_of_core tr x y h hy
    exact Or.inl ⟨p, r, List.mem_append_left _ hm, rest⟩
  · exact Or.inr ⟨data, List.mem_append_left _ hd, z, hz, hc.trans h⟩

theorem importGo_mem (cap : Int) (now : Nat) (data : List Sig) : ∀ (acc : List Sig),
    ∀ x ∈ importGo cap now acc data, x ∈ acc ∨ ∃ y ∈ data, y.core = x.core := by
  induction data with
  | nil => intro acc x hx; exact Or.inl (by simpa [importGo] using hx)
  | cons d rest ih =>
    intro acc x hx
    unfold importGo at hx
    split at hx
    · rcases ih _ x hx with h | ⟨y, hy, hc⟩
      · rcases List.mem_append.mp h with h | h
        · exact Or.inl h
        · simp only [List.mem_singleton] at h
          exact Or.inr ⟨d, List.mem_cons_self, by rw [h]; rfl⟩
      · exact Or.inr ⟨y, List.mem_cons_of_mem _ hy, hc⟩
    · rcases ih _ x hx with h | ⟨y, hy, hc⟩
      · exact Or.inl h
      · exact Or.inr ⟨y, List.mem_cons_of_mem _ hy, hc⟩

theorem step_genuine (s : Sys) (pre : List Obs) (op : Op) (hwf : op.WF) (h : MemGenuine s.mem pre) :
    MemGenuine (s.step op).1.mem (pre ++ [(s.step op).2]) := by
  cases op with
  | inspect a =>
    intro x hx
    simp only [Sys.step] at hx ⊢
    rcases inspect_mem s a x hx with ⟨y, hy, hc⟩ | ⟨p, r, k, hd, hr, hthr, hs2, hcr, hone, rfl⟩
    · obtain ⟨g1, g3⟩ := h y hy
      exact ⟨wellFormed_of_core _ _ hc g1, provenance_of_core _ _ _ _ hc g3⟩
    · refine ⟨⟨hthr, hcr, hone⟩, Or.inl ⟨p, r, ?_, rfl, rfl, rfl, rfl, hs2⟩⟩
      rw [hd, hr]; simp
  | pruneOld k =>
    intro x hx
    simp only [Sys.step, Sys.pruneOld] at hx
    obtain ⟨g1, g3⟩ := h x (List.mem_filter.mp hx).1
    exact ⟨g1, provenance_of_core _ _ _ _ rfl g3⟩
  | importSigs data =>
    intro x hx
    simp only [Sys.step, Sys.importSigs] at hx ⊢
    rcases importGo_mem _ _ data _ x hx with hx | ⟨y, hy, hc⟩
    · obtain ⟨g1, g3⟩ := h x hx
      exact ⟨g1, provenance_of_core _ _ _ _ rfl g3⟩
    · exact ⟨wellFormed_of_core _ _ hc (hwf y hy), Or.inr ⟨data, by simp, y, hy, hc⟩⟩
  | setCap c =>
    intro x hx
    obtain ⟨g1, g3⟩ := h x hx
    exact ⟨g1, provenance_of_core _ _ _ _ rfl g3⟩
  | forget mask =>
    intro x hx
    simp only [Sys.step, Sys.forget] at hx
    obtain ⟨g1, g3⟩ := h x (keepMask_subset mask _ x hx)
    exact ⟨g1, provenance_of_core _ _ _ _ rfl g3⟩
  | recall a v st =>
    intro x hx
    simp only [Sys.step, Sys.recall] at hx
    obtain ⟨y, hy, hc⟩ := recallGo_core _ _ _ _ _ x hx
    obtain ⟨g1, g3⟩ := h y hy
    exact ⟨wellFormed_of_core _ _ hc g1, provenance_of_core _ _ _ _ hc g3⟩
  | register a | showP a p | train a | flag a b | reset a | resetFA a | dropRecord a | markUpdated a | expire
    | setRep a k | setAnergy a k | setProfile a pr | setTreg g | setThymus t v | peek =>
    intro x hx
    rw [step_mem s _ (by intro a h; cases h) (by intro a h; cases h) (by intro a h; cases h)
      (by intro a h; cases h) (by intro a h; cases h) (by intro a v st h; cases h)] at hx
    obtain ⟨g1, g3⟩ := h x hx
    exact ⟨g1, provenance_of_core _ _ _ _ rfl g3⟩

theorem run_genuine (ops : List Op) : ∀ (s : Sys) (pre : List Obs), (∀ op ∈ ops, op.WF) → MemGenuine s.mem pre →
    MemGenuine (s.run ops).1.mem (pre ++ (s.run ops).2) := by
  induction ops with
  | nil => intro s pre _ h; simpa [Sys.run] using h
  | cons op rest ih =>
    intro s pre hwf h
    have := ih (s.step op).1 (pre ++ [(s.step op).2]) (fun o ho => hwf o (List.mem_cons_of_mem _ ho))
      (step_genuine s pre op (hwf op List.mem_cons_self) h)
    simpa [Sys.run] using this

/-- a response that comes out CRITICAL recommends SHUTDOWN, provided the memory only holds such pairs -/
theorem inspect_critical_shutdown (s : Sys) (a : Nat) (r : Response)
    (hm : ∀ x ∈ s.mem.sigs, x.level = .critical → x.action = .shutdown)
    (h : (s.inspect a).2 = .resp r) (hc : r.level = .critical) : r.action = .shutdown := by
  rcases sys_inspect_cases s a with ⟨-, he⟩ | ⟨t, -, -, he⟩ | ⟨t, p, sig, -, -, hr, -, -, he, -⟩ | ⟨t, p, -, -, he⟩
  · rw [he] at h; cases h
  · rw [he] at h; cases h; cases hc
  · rw [he] at h; cases h
    rcases recalledPair_cases t p sig with ⟨-, hp⟩ | ⟨-, hp⟩
    · simp [hp]
    · simp only [hp] at hc ⊢
      exact hm sig (recallGo_some _ _ _ _ _ _ hr).1 hc
  · rw [he] at h
    rcases afterTCell_spec s a (s.agents a) p (s.memAfterRecall a p) (t.inspect p).1 (t.inspect p).2 with
      ⟨hx, -⟩ | ⟨r', hx, hsoft, -⟩
    · rw [hx] at h; cases h
    · rw [hx] at h; cases h
      obtain ⟨h1, -, h3⟩ := softened_one_step t p _ hsoft
      exact h3 (by rw [← h1]; exact hc)

theorem run_critical_shutdown (ops : List Op) : ∀ (s : Sys) (pre : List Obs), (∀ op ∈ ops, op.WF) →
    MemGenuine s.mem pre →
    ∀ o ∈ (s.run ops).2, ∀ a sh r, o = .inspected a sh (.resp r) → r.level = .critical → r.action = .shutdown := by
  induction ops with
  | nil => intro s pre _ _ o ho; simp [Sys.run] at ho
  | cons op rest ih =>
    intro s pre hwf h o ho a sh r hor hc
    simp only [Sys.run, List.mem_cons] at ho
    rcases ho with ho | ho
    · cases op with
      | inspect b =>
        simp only [Sys.step] at ho
        rw [hor] at ho
        injection ho with e1 e2 e3
        exact inspect_critical_shutdown s b r (fun x hx => (h x hx).1.2.1) e3.symm hc
      | _ => simp [Sys.step, hor] at ho
    · exact ih (s.step op).1 (pre ++ [(s.step op).2]) (fun o ho => hwf o (List.mem_cons_of_mem _ ho))
        (step_genuine s pre op (hwf op List.mem_cons_self) h) o ho a sh r hor hc


/-- every response's action is the one its level calls for or one rung below, provided the memory only holds
    such pairs -/
theorem inspect_within_one_step (s : Sys) (a : Nat) (r : Response)
    (hm : ∀ x ∈ s.mem.sigs, AtMostOneStepLower (actionFor x.level) x.action)
    (h : (s.inspect a).2 = .resp r) : AtMostOneStepLower (actionFor r.level) r.action := by
  rcases sys_inspect_cases s a with ⟨-, he⟩ | ⟨t, -, -, he⟩ | ⟨t, p, sig, -, -, hr, -, -, he, -⟩ | ⟨t, p, -, -, he⟩
  · rw [he] at h; cases h
  · rw [he] at h; cases h; exact Or.inl rfl
  · rw [he] at h; cases h
    rcases recalledPair_cases t p sig with ⟨-, hp⟩ | ⟨-, hp⟩
    · simp only [hp]; exact Or.inl rfl
    · simp only [hp]
      exact hm sig (recallGo_some _ _ _ _ _ _ hr).1
  · rw [he] at h
    rcases afterTCell_spec s a (s.agents a) p (s.memAfterRecall a p) (t.inspect p).1 (t.inspect p).2 with
      ⟨hx, -⟩ | ⟨r', hx, hsoft, -⟩
    · rw [hx] at h; cases h
    · rw [hx] at h; cases h
      obtain ⟨h1, h2, -⟩ := softened_one_step t p _ hsoft
      rw [h1, ← l17_tcell_action_matches_level]; exact h2

theorem run_within_one_step (ops : List Op) : ∀ (s : Sys) (pre : List Obs), (∀ op ∈ ops, op.WF) →
    MemGenuine s.mem pre →
    ∀ o ∈ (s.run ops).2, ∀ a sh r, o = .inspected a sh (.resp r) →
      AtMostOneStepLower (actionFor r.level) r.action := by
  induction ops with
  | nil => intro s pre _ _ o ho; simp [Sys.run] at ho
  | cons op rest ih =>
    intro s pre hwf h o ho a sh r hor
    simp only [Sys.run, List.mem_cons] at ho
    rcases ho with ho | ho
    · cases op with
      | inspect b =>
        simp only [Sys.step] at ho
        rw [hor] at ho
        injection ho with e1 e2 e3
        exact inspect_within_one_step s b r (fun x hx => (h x hx).1.2.2) e3.symm
      | _ => simp [Sys.step, hor] at ho
    · exact ih (s.step op).1 (pre ++ [(s.step op).2]) (fun o ho => hwf o (List.mem_cons_of_mem _ ho))
        (step_genuine s pre op (hwf op List.mem_cons_self) h) o ho a sh r hor

theorem resetT_false_agent (s : Sys) (a : Nat) (t : TCell) (h : (s.agents a).tcell = some t) :
    ((s.resetT a false).agents a).tcell = some t.reset ∧ ((s.resetT a false).agents a).display = (s.agents a).display ∧
    (s.resetT a false).mem = s.mem := by
  unfold Sys.resetT
  rw [h]
  simp [Sys.setAgent]

/-! ### Read-only accessors -/

def Op.isPeek : Op → Bool
  | .peek => true
  | _ => false

/-- dropping every read-only accessor call from a history changes neither the final state nor what any other
    operation shows -/
theorem run_without_peeks (ops : List Op) : ∀ s : Sys,
    (s.run (ops.filter (fun op => !op.isPeek))).1 = (s.run ops).1 ∧
    (s.run (ops.filter (fun op => !op.isPeek))).2 =
      ((ops.zip (s.run ops).2).filter (fun x => !x.1.isPeek)).map (·.2) := by
  induction ops with
  | nil => intro s; simp [Sys.run]
  | cons op rest ih =>
    intro s
    by_cases hp : op.isPeek = true
    · have hop : op = .peek := by cases op <;> simp [Op.isPeek] at hp ⊢
      subst hop
      have := ih s
      simp only [List.filter_cons, Op.isPeek, Bool.not_true, Bool.false_eq_true, if_false, Sys.run, Sys.step,
        List.zip_cons_cons]
      exact this
    · have hp' : op.isPeek = false := by simpa using hp
      have := ih (s.step op).1
      simp only [List.filter_cons, hp', Bool.not_false, if_true, Sys.run, List.zip_cons_cons, List.map_cons]
      exact ⟨this.1, by rw [this.2]⟩

/-- the observations of a history are as many as its operations -/
theorem run_length (ops : List Op) : ∀ s : Sys, (s.run ops).2.length = ops.length := by
  induction ops with
  | nil => intro s; simp [Sys.run]
  | cons op rest ih => intro s; simp [Sys.run, ih]

/-! ### Training and T-cell histories -/

/-! thymus -/
theorem profileOf_accepts (cfg : ThymusCfg) (sd : Sds) (samples : List Peptide) (htol : 0 ≤ cfg.tol) :
    ((profileOf cfg sd samples).lenLo ≤ mean (samples.map (·.lenMean)) ∧
      mean (samples.map (·.lenMean)) ≤ (profileOf cfg sd samples).lenHi) ∧
    ((profileOf cfg sd samples).timeLo ≤ mean (samples.map (·.timeMean)) ∧
      mean (samples.map (·.timeMean)) ≤ (profileOf cfg sd samples).timeHi) ∧
    ((profileOf cfg sd samples).confLo ≤ mean (samples.map (·.confMean)) ∧
      mean (samples.map (·.confMean)) ≤ (profileOf cfg sd samples).confHi) ∧
    (∀ s ∈ samples, s.errRate ≤ (profileOf cfg sd samples).errMax ∧ s.vocab ∈ (profileOf cfg sd samples).vocabs ∧
      s.struct ∈ (profileOf cfg sd samples).structs) ∧
    ((∀ s ∈ samples, ∀ c, s.canary = some c → 0 ≤ c) →
      ∀ s ∈ samples, ∀ c, s.canary = some c → (profileOf cfg sd samples).canaryMin ≤ c) := by
  refine ⟨calcBounds_contains_mean _ htol _ _ _, calcBounds_contains_mean _ htol _ _ _,
    calcBounds_contains_mean _ htol _ _ _, ?_, ?_⟩
  · intro s hs
    exact ⟨errMaxOf_ge samples s hs, List.mem_map_of_mem hs, List.mem_map_of_mem hs⟩
  · intro hpos
    exact canaryMinOf_le samples hpos

theorem profileOf_replicate_inBaseline (cfg : ThymusCfg) (sd : Sds) (n : Nat) (p : Peptide) (hn : 0 < n)
    (htol : 0 ≤ cfg.tol) (hc : ∀ c, p.canary = some c → 0 ≤ c) :
    InBaseline (profileOf cfg sd (List.replicate n p)) p := by
  obtain ⟨⟨a1, a2⟩, ⟨b1, b2⟩, ⟨c1, c2⟩, d, e⟩ := profileOf_accepts cfg sd (List.replicate n p) htol
  have hmem : p ∈ List.replicate n p := List.mem_replicate.mpr ⟨by omega, rfl⟩
  simp only [List.map_replicate, mean_replicate _ _ hn] at a1 a2 b1 b2 c1 c2
  obtain ⟨d1, d2, d3⟩ := d p hmem
  refine ⟨a1, a2, b1, b2, c1, c2, d1, d2, d3, ?_⟩
  exact e (fun s hs c h => by rw [(List.mem_replicate.mp hs).2] at h; exact hc c h) p hmem

theorem trainThymus_positive (cfg : ThymusCfg) (sd : Sds) (samples : List Peptide) (pr : Profile)
    (h : trainThymus cfg sd samples = .positive pr) : samples ≠ [] ∧ pr = profileOf cfg sd samples := by
  unfold trainThymus at h
  split at h
  · cases h
  · split at h
    · cases h
    · split at h
      · cases h
      · rename_i hne
        injection h with h
        exact ⟨by simpa using hne, h.symm⟩

theorem train_positive (s : Sys) (a : Nat) (h : (s.train a).2 = .sel .positive) :
    ∃ p, (s.agents a).display = some p ∧ 0 < s.minTrain.toNat ∧
      ((s.train a).1.agents a).display = some p ∧
      ((s.train a).1.agents a).tcell = some (TCell.fresh
        (profileOf ⟨s.minTrain, s.tol, s.varThr⟩ ⟨0, 0, 0⟩ (List.replicate s.minTrain.toNat p)) 3 5) := by
  unfold Sys.train at h ⊢
  by_cases hr : (s.agents a).registered = true
  · simp only [hr, if_true] at h ⊢
    cases hd : (s.agents a).display with
    | none => simp [hd] at h
    | some p =>
      simp only [hd] at h ⊢
      cases ht : trainThymus ⟨s.minTrain, s.tol, s.varThr⟩ ⟨0, 0, 0⟩ (List.replicate s.minTrain.toNat p) with
      | positive pr =>
        obtain ⟨hne, hpr⟩ := trainThymus_positive _ _ _ _ ht
        refine ⟨p, rfl, ?_, ?_⟩
        · cases hn : s.minTrain.toNat with
          | zero => rw [hn] at hne; simp at hne
          | succ k => omega
        · simp [Sys.setAgent, hpr]
      | insufficient => simp [ht] at h
      | anergic => simp [ht] at h
      | raiseStats => simp [ht] at h
  · simp [hr] at h

theorem self_tolerance (s : Sys) (a : Nat) (htol : 0 ≤ s.tol)
    (hcan : ∀ p c, (s.agents a).display = some p → p.canary = some c → 0 ≤ c)
    (h : (s.train a).2 = .sel .positive) :
    ((s.train a).1.inspect a).2 ≠ .raiseValue ∧
    ∀ r, ((s.train a).1.inspect a).2 = .resp r → r.level = .noThreat ∧ r.action = .ignore := by
  obtain ⟨p, hd, hn, hd', ht'⟩ := train_positive s a h
  constructor
  · intro hrv
    rcases sys_inspect_cases (s.train a).1 a with ⟨h0, -⟩ | ⟨t, -, -, he⟩ | ⟨t, p', sig, -, -, -, -, -, he, -⟩ | ⟨t, p', -, -, he⟩
    · rw [ht'] at h0; cases h0
    · rw [he] at hrv; cases hrv
    · rw [he] at hrv; cases hrv
    · rw [he] at hrv
      rcases afterTCell_spec (s.train a).1 a ((s.train a).1.agents a) p' ((s.train a).1.memAfterRecall a p')
        (t.inspect p').1 (t.inspect p').2 with ⟨hx, -⟩ | ⟨r', hx, -⟩ <;> rw [hx] at hrv <;> cases hrv
  · intro r hr
    refine l17_pipeline_inside_baseline_no_threat _ a r _ p hr ht' hd' ?_
    exact profileOf_replicate_inBaseline _ _ _ p hn htol (fun c hc => hcan p c hd hc)

/-! T-cell histories -/

/-- consecutive violating inspections at the end of a history (argument: the log, most recent operation first).
    An inspection is judged by the baseline in force when it happened; inspections made while the watcher was
    anergic do not count either way (it was not looking); assignments and flags do not interrupt a streak. -/
def trailingAnomalies : List (TOp × Bool × Profile) → Nat
  | [] => 0
  | (.inspect p, anergic, pr) :: rest =>
    if anergic then trailingAnomalies rest
    else if check pr p = [] then 0 else trailingAnomalies rest + 1
  | (.reset, _, _) :: _ => 0
  | (.resetFA, _, _) :: _ => 0
  | (.flag _, _, _) :: rest => trailingAnomalies rest
  | (.setRep _, _, _) :: rest => trailingAnomalies rest
  | (.setAnergy _, _, _) :: rest => trailingAnomalies rest
  | (.setProfile _, _, _) :: rest => trailingAnomalies rest

/-- a non-empty manual flag was set and not cleared by a reset since (most recent operation first) -/
def flaggedSince : List (TOp × Bool × Profile) → Bool
  | [] => false
  | (.flag b, _, _) :: _ => b
  | (.reset, _, _) :: _ => false
  | (_, _, _) :: rest => flaggedSince rest

/-- invariant of a T-cell history; `h` is the log so far, most recent operation first -/
structure TInv (t : TCell) (h : List (TOp × Bool × Profile)) : Prop where
  streak : t.anomaly ≤ trailingAnomalies h
  flag : t.flag = true → flaggedSince h = true

theorem tstep_inv (t : TCell) (h : List (TOp × Bool × Profile)) (op : TOp) (inv : TInv t h) :
    TInv (t.step op).1 ((op, t.isAnergic, t.profile) :: h) := by
  obtain ⟨h3, h4⟩ := inv
  cases op with
  | inspect p =>
    simp only [TCell.step]
    unfold TCell.inspect
    by_cases ha : t.isAnergic = true
    · simp only [ha, if_true]
      exact ⟨by simpa [trailingAnomalies] using h3, by simpa [flaggedSince] using h4⟩
    · have ha' : t.isAnergic = false := by simpa using ha
      simp only [ha', Bool.false_eq_true, if_false]
      by_cases hc : (check t.profile p).isEmpty = true
      · simp only [hc, if_true]
        exact ⟨Nat.zero_le _, by simpa [flaggedSince] using h4⟩
      · have hc' : (check t.profile p).isEmpty = false := by simpa using hc
        simp only [hc', Bool.false_eq_true, if_false]
        have hne : check t.profile p ≠ [] := by simpa using hc
        refine ⟨?_, by simpa [flaggedSince] using h4⟩
        simp only [trailingAnomalies, hne, if_false, Bool.false_eq_true]; omega
  | flag b =>
    simp only [TCell.step, TCell.flagManually]
    exact ⟨by simpa [trailingAnomalies] using h3, by simp [flaggedSince]⟩
  | reset =>
    simp only [TCell.step, TCell.reset]
    exact ⟨Nat.zero_le _, by simp⟩
  | resetFA =>
    simp only [TCell.step, TCell.resetFA]
    exact ⟨Nat.zero_le _, by simpa [flaggedSince] using h4⟩
  | setRep k =>
    simp only [TCell.step, TCell.setRep]
    exact ⟨by simpa [trailingAnomalies] using h3, by simpa [flaggedSince] using h4⟩
  | setAnergy k =>
    simp only [TCell.step, TCell.setAnergy]
    exact ⟨by simpa [trailingAnomalies] using h3, by simpa [flaggedSince] using h4⟩
  | setProfile pr =>
    simp only [TCell.step, TCell.setProfile]
    exact ⟨by simpa [trailingAnomalies] using h3, by simpa [flaggedSince] using h4⟩

theorem trun_inv (ops : List TOp) : ∀ (t : TCell) (h : List (TOp × Bool × Profile)), TInv t h →
    TInv (t.run ops) ((t.log ops).reverse ++ h) := by
  induction ops with
  | nil => intro t h inv; simpa [TCell.run, TCell.log] using inv
  | cons op rest ih =>
    intro t h inv
    have := ih _ _ (tstep_inv t h op inv)
    simpa [TCell.run, TCell.log] using this

theorem fresh_inv (pr : Profile) (rep an : Int) : TInv (TCell.fresh pr rep an) [] :=
  ⟨Nat.le_refl _, by simp [TCell.fresh]⟩

theorem tstep_anergic (t : TCell) (op : TOp) (hop : ∀ k, op ≠ .setAnergy k) (h : t.isAnergic = true) :
    (t.step op).1.isAnergic = true := by
  cases op with
  | inspect p =>
    simp only [TCell.step]
    unfold TCell.inspect
    simp [h]
  | flag b => exact h
  | reset => exact h
  | setRep k => exact h
  | setProfile pr => exact h
  | setAnergy k => exact absurd rfl (hop k)
  | resetFA =>
    simp only [TCell.step, TCell.resetFA, TCell.isAnergic, decide_eq_true_eq] at h ⊢
    by_cases hcnd : t.lastS1 = .nonSelf ∧ t.lastS2 = .absent
    · simp only [hcnd, and_self, if_true, decide_eq_true_eq]; omega
    · simp only [hcnd, if_false, decide_eq_true_eq]; exact h

theorem trun_anergic (ops : List TOp) : ∀ t : TCell, (∀ op ∈ ops, ∀ k, op ≠ .setAnergy k) → t.isAnergic = true →
    (t.run ops).isAnergic = true := by
  induction ops with
  | nil => intro t _ h; simpa [TCell.run] using h
  | cons op rest ih =>
    intro t hops h
    exact ih _ (fun o ho => hops o (List.mem_cons_of_mem _ ho)) (tstep_anergic t op (hops op List.mem_cons_self) h)

/-! ### MHC display -/

theorem ratio_range (k n : Nat) (h : k ≤ n) : 0 ≤ ratio k n ∧ ratio k n ≤ 1 := by
  unfold ratio
  rw [Rat.div_def]
  by_cases hn : n = 0
  · subst hn
    have : k = 0 := by omega
    subst this
    simp; decide
  · have hpos : (0 : Rat) < (n : Rat) := by exact_mod_cast Nat.pos_of_ne_zero hn
    have hk : (0 : Rat) ≤ (k : Rat) := by exact_mod_cast Nat.zero_le k
    have hkn : (k : Rat) ≤ (n : Rat) := by exact_mod_cast h
    have hinv : (0 : Rat) ≤ (n : Rat)⁻¹ := Rat.le_of_lt (Rat.inv_pos.mpr hpos)
    constructor
    · exact Rat.mul_nonneg hk hinv
    · have := Rat.mul_le_mul_of_nonneg_right hkn hinv
      rwa [Rat.mul_inv_cancel _ (by grind)] at this

theorem generate_ranges (d : Display) (sd : Sds) (p : Peptide) (h : d.generate sd = some p) :
    0 ≤ p.errRate ∧ p.errRate ≤ 1 ∧ ∀ c, p.canary = some c → 0 ≤ c ∧ c ≤ 1 := by
  unfold Display.generate at h
  split at h
  · cases h
  · injection h with h
    subst h
    refine ⟨(ratio_range _ _ (List.length_filter_le _ _)).1, (ratio_range _ _ (List.length_filter_le _ _)).2, ?_⟩
    intro c hc
    simp only at hc
    split at hc
    · cases hc
    · injection hc with hc
      subst hc
      exact ratio_range _ _ (List.length_filter_le _ _)


/-! ### The watcher inside the pipeline is a T-cell history -/

theorem afterTCell_tcell (s : Sys) (a : Nat) (ag : Agent) (p : Peptide) (mem : Memory) (t' : TCell) (r : Response)
    (b : Nat) :
    ((s.afterTCell a ag p mem t' r).1.agents b).tcell = if b = a then some t' else (s.agents b).tcell := by
  unfold Sys.afterTCell
  cases ag.record with
  | none =>
    simp only []
    split <;> (simp only []; split <;> simp_all)
  | some rec =>
    simp only []
    cases s.treg.evaluate r rec with
    | raise => simp only []; split <;> simp_all
    | ok su o m =>
      simp only []
      split <;> (simp only []; split <;> simp_all)

/-- the fingerprint a pipeline inspection hands to the watcher of agent `a` — `none` when the watcher is not consulted
    (untrained, no fingerprint, or the memory answers) -/
def Sys.reachesTCell (s : Sys) (a : Nat) : Option Peptide :=
  match (s.agents a).tcell, (s.agents a).display with
  | some t, some p =>
    match (recallGo a p.vocab p.struct (s.clock + 1) s.mem.sigs).2 with
    | some _ => if !t.isAnergic && !(check t.profile p).isEmpty then none else some p
    | none => some p
  | _, _ => none

theorem inspect_tcell (s : Sys) (a b : Nat) :
    ((s.inspect a).1.agents b).tcell =
      if b = a then
        (match s.reachesTCell a, (s.agents a).tcell with
         | some p, some t => some (t.inspect p).1
         | _, _ => (s.agents a).tcell)
      else (s.agents b).tcell := by
  unfold Sys.inspect Sys.reachesTCell
  cases ht : (s.agents a).tcell with
  | none => by_cases hb : b = a <;> simp [hb, ht]
  | some t =>
    cases hd : (s.agents a).display with
    | none => by_cases hb : b = a <;> simp [hb, ht]
    | some p =>
      simp only []
      cases hr : (recallGo a p.vocab p.struct (s.clock + 1) s.mem.sigs).2 with
      | none =>
        rw [afterTCell_tcell]
      | some sig =>
        simp only []
        by_cases hg : (!t.isAnergic && !(check t.profile p).isEmpty) = true
        · simp only [hg, if_true]
          by_cases hb : b = a <;> simp [hb, ht]
        · have hg' : (!t.isAnergic && !(check t.profile p).isEmpty) = false := by simpa using hg
          simp only [hg', Bool.false_eq_true, if_false]
          rw [afterTCell_tcell]


theorem trun_append (h : List TOp) : ∀ (t : TCell) (op : TOp), t.run (h ++ [op]) = ((t.run h).step op).1 := by
  induction h with
  | nil => intro t op; simp [TCell.run]
  | cons x r ih => intro t op; simp [TCell.run, ih]

/-- a training that is not positive leaves the system as it is; a positive one installs a fresh default watcher for
    that agent and touches no other agent's watcher -/
theorem train_tcell (s : Sys) (b a : Nat) :
    ((s.train b).2 = .sel .positive ∧
      (a = b → ∃ pr, ((s.train b).1.agents a).tcell = some (TCell.fresh pr 3 5)) ∧
      (a ≠ b → ((s.train b).1.agents a).tcell = (s.agents a).tcell)) ∨
    ((s.train b).2 ≠ .sel .positive ∧ (s.train b).1 = s) := by
  unfold Sys.train
  by_cases hr : (s.agents b).registered = true
  · simp only [hr, if_true]
    cases hd : (s.agents b).display with
    | none => right; simp
    | some p =>
      simp only []
      cases ht : trainThymus ⟨s.minTrain, s.tol, s.varThr⟩ ⟨0, 0, 0⟩ (List.replicate s.minTrain.toNat p) with
      | positive pr =>
        left
        refine ⟨rfl, ?_, ?_⟩
        · intro hab; subst hab; exact ⟨pr, by simp [Sys.setAgent]⟩
        · intro hab; simp [Sys.setAgent, hab]
      | insufficient => right; simp
      | anergic => right; simp
      | raiseStats => right; simp
  · right; simp [hr]

/-- what one pipeline operation appends to the history of agent `a`'s watcher (`[]` after a positive training: a new
    watcher).  Inspections answered from memory, or made without a fingerprint, do not reach the watcher.  Operations
    issued while the agent has no watcher yet change nothing and are erased by the training that creates it. -/
def stepHist (s : Sys) (a : Nat) (h : List TOp) : Op → List TOp
  | .train b => if b = a ∧ (s.train b).2 = .sel .positive then [] else h
  | .inspect b =>
    if b = a then
      match s.reachesTCell a with
      | some p => h ++ [.inspect p]
      | none => h
    else h
  | .flag b ne => if b = a then h ++ [.flag ne] else h
  | .reset b => if b = a then h ++ [.reset] else h
  | .resetFA b => if b = a then h ++ [.resetFA] else h
  | .setRep b k => if b = a then h ++ [.setRep k] else h
  | .setAnergy b k => if b = a then h ++ [.setAnergy k] else h
  | .setProfile b pr => if b = a then h ++ [.setProfile pr] else h
  | _ => h

/-- the history of agent `a`'s watcher along a pipeline history -/
def watcherHist (s : Sys) (a : Nat) (h : List TOp) : List Op → List TOp
  | [] => h
  | op :: rest => watcherHist (s.step op).1 a (stepHist s a h op) rest

/-- the watcher the system holds for agent `a` is the default watcher created by the last positive training, run
    through the history `h` -/
def WInv (s : Sys) (a : Nat) (h : List TOp) : Prop :=
  ∀ t, (s.agents a).tcell = some t → ∃ pr, t = (TCell.fresh pr 3 5).run h

theorem setAgent_tcell (s : Sys) (b a : Nat) (ag : Agent) :
    ((s.setAgent b ag).agents a).tcell = if a = b then ag.tcell else (s.agents a).tcell := by
  unfold Sys.setAgent; by_cases h : a = b <;> simp [h]

theorem configT_tcell (s : Sys) (b a : Nat) (f : TCell → TCell) :
    ((s.configT b f).agents a).tcell = if a = b then (s.agents b).tcell.map f else (s.agents a).tcell := by
  unfold Sys.configT
  cases ht : (s.agents b).tcell with
  | none => by_cases h : a = b <;> simp [h, ht]
  | some t => rw [setAgent_tcell]; by_cases h : a = b <;> simp [h]

theorem step_winv (s : Sys) (a : Nat) (h : List TOp) (op : Op) (inv : WInv s a h) :
    WInv (s.step op).1 a (stepHist s a h op) := by
  intro t ht
  cases op with
  | train b =>
    simp only [Sys.step, stepHist] at ht ⊢
    rcases train_tcell s b a with ⟨hp, h1, h2⟩ | ⟨hn, hs⟩
    · by_cases hab : a = b
      · obtain ⟨pr, hpr⟩ := h1 hab
        rw [hpr] at ht; cases ht
        simp only [hab, hp, and_self, if_true]
        exact ⟨pr, rfl⟩
      · rw [h2 hab] at ht
        have : ¬ (b = a ∧ (s.train b).2 = .sel .positive) := fun hh => hab hh.1.symm
        simp only [this, if_false]
        exact inv t ht
    · rw [hs] at ht
      have : ¬ (b = a ∧ (s.train b).2 = .sel .positive) := fun hh => hn hh.2
      simp only [this, if_false]
      exact inv t ht
  | inspect b =>
    simp only [Sys.step, stepHist] at ht ⊢
    rw [inspect_tcell] at ht
    by_cases hab : a = b
    · subst hab
      simp only [if_true] at ht ⊢
      cases hr : s.reachesTCell a with
      | none => rw [hr] at ht; simp only [] ; exact inv t (by simpa using ht)
      | some p =>
        rw [hr] at ht
        cases htc : (s.agents a).tcell with
        | none => rw [htc] at ht; simp at ht
        | some t0 =>
          rw [htc] at ht
          simp only [Option.some.injEq] at ht
          obtain ⟨pr, hpr⟩ := inv t0 htc
          refine ⟨pr, ?_⟩
          simp only []
          rw [trun_append, ← hpr, ← ht]; rfl
    · have hba : ¬ b = a := fun e => hab e.symm
      simp only [hab, hba, if_false] at ht ⊢
      exact inv t ht
  | flag b ne =>
    simp only [Sys.step, stepHist, Sys.flag] at ht ⊢
    cases htc : (s.agents b).tcell with
    | none =>
      rw [htc] at ht
      by_cases hab : b = a
      · subst hab; rw [htc] at ht; cases ht
      · simp only [hab, if_false]; exact inv t ht
    | some t0 =>
      rw [htc] at ht; simp only [] at ht
      rw [setAgent_tcell] at ht
      by_cases hab : b = a
      · subst hab
        simp only [if_true] at ht ⊢
        obtain ⟨pr, hpr⟩ := inv t0 htc
        exact ⟨pr, by rw [trun_append, ← hpr]; simpa [TCell.step] using ht.symm⟩
      · have : ¬ a = b := fun e => hab e.symm
        simp only [this, hab, if_false] at ht ⊢
        exact inv t ht
  | reset b =>
    simp only [Sys.step, stepHist, Sys.resetT] at ht ⊢
    cases htc : (s.agents b).tcell with
    | none =>
      rw [htc] at ht
      by_cases hab : b = a
      · subst hab; rw [htc] at ht; cases ht
      · simp only [hab, if_false]; exact inv t ht
    | some t0 =>
      rw [htc] at ht; simp only [] at ht
      rw [setAgent_tcell] at ht
      by_cases hab : b = a
      · subst hab
        simp only [if_true] at ht ⊢
        obtain ⟨pr, hpr⟩ := inv t0 htc
        exact ⟨pr, by rw [trun_append, ← hpr]; simpa [TCell.step] using ht.symm⟩
      · have : ¬ a = b := fun e => hab e.symm
        simp only [this, hab, if_false] at ht ⊢
        exact inv t ht
  | resetFA b =>
    simp only [Sys.step, stepHist, Sys.resetT] at ht ⊢
    cases htc : (s.agents b).tcell with
    | none =>
      rw [htc] at ht
      by_cases hab : b = a
      · subst hab; rw [htc] at ht; cases ht
      · simp only [hab, if_false]; exact inv t ht
    | some t0 =>
      rw [htc] at ht; simp only [] at ht
      rw [setAgent_tcell] at ht
      by_cases hab : b = a
      · subst hab
        simp only [if_true] at ht ⊢
        obtain ⟨pr, hpr⟩ := inv t0 htc
        exact ⟨pr, by rw [trun_append, ← hpr]; simpa [TCell.step] using ht.symm⟩
      · have : ¬ a = b := fun e => hab e.symm
        simp only [this, hab, if_false] at ht ⊢
        exact inv t ht
  | setRep b k =>
    simp only [Sys.step, stepHist] at ht ⊢
    rw [configT_tcell] at ht
    by_cases hab : b = a
    · subst hab
      simp only [if_true] at ht ⊢
      cases htc : (s.agents b).tcell with
      | none => rw [htc] at ht; simp at ht
      | some t0 =>
        rw [htc] at ht; simp only [Option.map_some, Option.some.injEq] at ht
        obtain ⟨pr, hpr⟩ := inv t0 htc
        exact ⟨pr, by rw [trun_append, ← hpr]; simpa [TCell.step] using ht.symm⟩
    · have : ¬ a = b := fun e => hab e.symm
      simp only [this, hab, if_false] at ht ⊢
      exact inv t ht
  | setAnergy b k =>
    simp only [Sys.step, stepHist] at ht ⊢
    rw [configT_tcell] at ht
    by_cases hab : b = a
    · subst hab
      simp only [if_true] at ht ⊢
      cases htc : (s.agents b).tcell with
      | none => rw [htc] at ht; simp at ht
      | some t0 =>
        rw [htc] at ht; simp only [Option.map_some, Option.some.injEq] at ht
        obtain ⟨pr, hpr⟩ := inv t0 htc
        exact ⟨pr, by rw [trun_append, ← hpr]; simpa [TCell.step] using ht.symm⟩
    · have : ¬ a = b := fun e => hab e.symm
      simp only [this, hab, if_false] at ht ⊢
      exact inv t ht
  | setProfile b k =>
    simp only [Sys.step, stepHist] at ht ⊢
    rw [configT_tcell] at ht
    by_cases hab : b = a
    · subst hab
      simp only [if_true] at ht ⊢
      cases htc : (s.agents b).tcell with
      | none => rw [htc] at ht; simp at ht
      | some t0 =>
        rw [htc] at ht; simp only [Option.map_some, Option.some.injEq] at ht
        obtain ⟨pr, hpr⟩ := inv t0 htc
        exact ⟨pr, by rw [trun_append, ← hpr]; simpa [TCell.step] using ht.symm⟩
    · have : ¬ a = b := fun e => hab e.symm
      simp only [this, hab, if_false] at ht ⊢
      exact inv t ht
  | register b =>
    simp only [Sys.step, stepHist, Sys.register] at ht ⊢
    rw [setAgent_tcell] at ht
    by_cases hab : a = b
    · subst hab; simp only [if_true] at ht; exact inv t ht
    · simp only [hab, if_false] at ht; exact inv t ht
  | showP b p =>
    simp only [Sys.step, stepHist, Sys.showPeptide] at ht ⊢
    split at ht
    · rw [setAgent_tcell] at ht
      by_cases hab : a = b
      · subst hab; simp only [if_true] at ht; exact inv t ht
      · simp only [hab, if_false] at ht; exact inv t ht
    · exact inv t ht
  | dropRecord b =>
    simp only [Sys.step, stepHist, Sys.dropRecord] at ht ⊢
    rw [setAgent_tcell] at ht
    by_cases hab : a = b
    · subst hab; simp only [if_true] at ht; exact inv t ht
    · simp only [hab, if_false] at ht; exact inv t ht
  | markUpdated b =>
    simp only [Sys.step, stepHist, Sys.markUpdated] at ht ⊢
    split at ht
    · exact inv t ht
    · rw [setAgent_tcell] at ht
      by_cases hab : a = b
      · subst hab; simp only [if_true] at ht; exact inv t ht
      · simp only [hab, if_false] at ht; exact inv t ht
  | expire => exact inv t ht
  | pruneOld k => exact inv t ht
  | importSigs d => exact inv t ht
  | setTreg g => exact inv t ht
  | setThymus t' v => exact inv t ht
  | setCap c => exact inv t ht
  | peek => exact inv t ht
  | forget m => exact inv t ht
  | recall x y z => exact inv t ht

theorem run_winv (ops : List Op) : ∀ (s : Sys) (a : Nat) (h : List TOp), WInv s a h →
    WInv (s.run ops).1 a (watcherHist s a h ops) := by
  induction ops with
  | nil => intro s a h inv; simpa [Sys.run, watcherHist] using inv
  | cons op rest ih =>
    intro s a h inv
    have := ih (s.step op).1 a _ (step_winv s a h op inv)
    simpa [Sys.run, watcherHist] using this


theorem inspect_repeated (t : TCell) (p : Peptide) (h : (t.inspect p).2.s2 = .repeated) :
    t.repThr ≤ (t.anomaly : Int) + 1 := by
  rcases inspect_spec t p with ⟨-, he⟩ | ⟨-, -, -, -, -, -, -, h' | h'⟩ | ⟨-, -, -, h', -⟩
  · rw [he] at h; cases h
  · rw [h'] at h; cases h
  · rw [h'] at h; cases h
  · rw [h'] at h
    unfold signal2Of at h
    split at h
    · rename_i hc; simp at hc; exact hc
    · split at h
      · cases h
      · split at h <;> cases h

end Operon.Immune
