import Operon.Lemmas.C18
/-! Lemmas for the swarm with its limits read where the code reads them (`Model/Loops.lean` section 5):
    facts that hold whatever the callbacks assign while `supervise` runs, and the refinement to the
    entry-snapshot model `superviseLoop` when they leave the limits alone. -/
namespace Operon.Loops

section Live
variable {σ W ω η ι τ : Type}

def NoMarkerL (L : SwarmLive σ ω) (steps : List (Out ω)) : Prop :=
  ∀ x ∈ steps, ∃ o, x = .ok o ∧ L.marker o = false

theorem noMarkerL_cons (L : SwarmLive σ ω) (o : ω) (l : List (Out ω)) (ho : L.marker o = false)
    (hl : NoMarkerL L l) : NoMarkerL L (.ok o :: l) := by
  intro x hx
  simp only [List.mem_cons] at hx
  rcases hx with hx | hx
  · exact ⟨o, hx, ho⟩
  · exact hl x hx

/-- at most `n` steps, and the shape of the step list: outputs without marker, ended by nothing, by the marker
    output that is returned, or by the exception that propagates -/
theorem runWorkerL_spec (L : SwarmLive σ ω) (adv : SwarmAdv σ W ω η ι τ) (w : W) (task : τ) :
    ∀ n recent s,
      (runWorkerL L adv w task n recent s).steps.length ≤ n ∧
      match (runWorkerL L adv w task n recent s).res with
      | .ok none => NoMarkerL L (runWorkerL L adv w task n recent s).steps
      | .ok (some o) => ∃ pre, (runWorkerL L adv w task n recent s).steps = pre ++ [.ok o] ∧ NoMarkerL L pre ∧
          L.marker o = true
      | .raise => ∃ pre, (runWorkerL L adv w task n recent s).steps = pre ++ [.raise] ∧ NoMarkerL L pre := by
  intro n
  induction n with
  | zero => intro recent s; simp [runWorkerL, NoMarkerL]
  | succ n ih =>
    intro recent s
    unfold runWorkerL
    split
    · exact ⟨by simp, [], rfl, by intro x hx; cases hx⟩
    · rename_i s1 o _
      split
      · rename_i hm
        exact ⟨by simp, [], rfl, (by intro x hx; cases hx), hm⟩
      · rename_i hm
        have hm' : L.marker o = false := by simpa using hm
        split
        · exact ⟨by simp, noMarkerL_cons L o [] hm' (by intro x hx; cases hx)⟩
        · obtain ⟨h1, h2⟩ := ih (window recent o) s1
          refine ⟨by simp; omega, ?_⟩
          simp only
          split <;> rename_i hres <;> rw [hres] at h2 <;> simp only at h2
          · exact noMarkerL_cons L o _ hm' h2
          · obtain ⟨pre, g1, g2, g3⟩ := h2
            exact ⟨.ok o :: pre, by rw [g1]; rfl, noMarkerL_cons L o _ hm' g2, g3⟩
          · obtain ⟨pre, g1, g2⟩ := h2
            exact ⟨.ok o :: pre, by rw [g1]; rfl, noMarkerL_cons L o _ hm' g2⟩

/-- What holds of a `supervise` call whatever its callbacks assign while it runs. -/
structure LiveFacts (L : SwarmLive σ ω) (adv : SwarmAdv σ W ω η ι τ) (k : Nat) (sw0 : SwarmSt ι η)
    (run : SwarmRunL σ W ω η ι) : Prop where
  len : run.reads.length = run.spawns.length
  guard : ∀ (i : Nat) (rm : Int × Int), run.reads[i]? = some rm → ((k + i : Nat) : Int) ≤ rm.1
  steps : ∀ (i : Nat) (sp : Spawn W ω η) (rm : Int × Int), run.spawns[i]? = some sp → run.reads[i]? = some rm →
    sp.steps.length ≤ rm.2.toNat
  counter : run.sw.counter = sw0.counter + run.spawns.length
  success : ∀ r, run.res = some (.ok r) → r.success = true →
    ∃ sp w o pre, run.spawns.getLast? = some sp ∧ sp.worker = .ok w ∧ sp.steps = pre ++ [.ok o] ∧
      NoMarkerL L pre ∧ L.marker o = true ∧ r.output = some o ∧ r.finalId = some (adv.wid w) ∧
      r.total = run.sw.counter
  failure : ∀ r, run.res = some (.ok r) → r.success = false → r.output = none ∧ r.finalId = none ∧
    -- the loop test failed on the limit as it is in the final state, after all the spawns of the call
    ¬ ((k + run.spawns.length : Nat) : Int) ≤ L.regenOf run.st ∧
    ∀ sp ∈ run.spawns, NoMarkerL L sp.steps ∧ ∃ w hh, sp.worker = .ok w ∧ sp.summ = some (.ok hh)

theorem superviseLoopL_facts (L : SwarmLive σ ω) (adv : SwarmAdv σ W ω η ι τ) (task : τ) :
    ∀ fuel k hints sw s, LiveFacts L adv k sw (superviseLoopL L adv task fuel k hints sw s) := by
  intro fuel
  induction fuel with
  | zero =>
    intro k hints sw s
    simp only [superviseLoopL]
    exact ⟨rfl, by simp, by simp, by simp, by simp, by simp⟩
  | succ fuel ih =>
    intro k hints sw s
    unfold superviseLoopL
    split
    · rename_i hg
      -- facts shared by every way a single (terminal) spawn can end
      have single : ∀ (s' : σ) (res : Option (Out (SwarmResult ω ι))) (sp : Spawn W ω η) (m : Int),
          sp.steps.length ≤ m.toNat →
          (∀ r, res = some (.ok r) → r.success = true →
            ∃ w o pre, sp.worker = .ok w ∧ sp.steps = pre ++ [.ok o] ∧ NoMarkerL L pre ∧ L.marker o = true ∧
              r.output = some o ∧ r.finalId = some (adv.wid w) ∧ r.total = sw.counter + 1) →
          (∀ r, res = some (.ok r) → r.success = false → False) →
          LiveFacts L adv k sw ⟨s', ⟨sw.counter + 1, sw.apop, sw.regen⟩, res, [sp], [(L.regenOf s, m)]⟩ := by
        intro s' res sp m hst hsucc hfail
        refine ⟨rfl, ?_, ?_, rfl, ?_, fun r hr hs => (hfail r hr hs).elim⟩
        · intro i rm hi
          cases i with
          | zero => simp at hi; subst hi; simpa using hg
          | succ i => simp at hi
        · intro i sp' rm h1 h2
          cases i with
          | zero => simp at h1 h2; subst h1; subst h2; exact hst
          | succ i => simp at h1
        · intro r hr hs
          obtain ⟨w, o, pre, g⟩ := hsucc r hr hs
          exact ⟨sp, w, o, pre, rfl, g⟩
      split
      · exact single _ _ _ 0 (by simp) (by intro r hr; cases hr) (by intro r hr; cases hr)
      · rename_i s1 w _
        have hw := runWorkerL_spec L adv w task (L.stepsOf s1).toNat [] s1
        split
        · rename_i s2 steps heq
          rw [heq] at hw
          exact single _ _ _ _ hw.1 (by intro r hr; cases hr) (by intro r hr; cases hr)
        · rename_i s2 o steps heq
          rw [heq] at hw
          obtain ⟨hw1, pre, g1, g2, g3⟩ := hw
          refine single _ _ _ _ hw1 ?_ ?_
          · intro r hr _
            simp only [Option.some.injEq, Out.ok.injEq] at hr
            subst hr
            exact ⟨w, o, pre, rfl, g1, g2, g3, rfl, rfl, rfl⟩
          · intro r hr hs
            simp only [Option.some.injEq, Out.ok.injEq] at hr
            subst hr
            cases hs
        · rename_i s2 steps heq
          rw [heq] at hw
          split
          · exact single _ _ _ _ hw.1 (by intro r hr; cases hr) (by intro r hr; cases hr)
          · rename_i s3 h _
            generalize hsw' : (⟨sw.counter + 1, sw.apop ++ [(adv.wid w, h)],
                if ((k + 1 : Nat) : Int) ≤ L.regenOf s3 then sw.regen ++ [(adv.wid w, sw.counter + 2, h)]
                else sw.regen⟩ : SwarmSt ι η) = sw'
            have hc : sw'.counter = sw.counter + 1 := by rw [← hsw']
            have f := ih (k + 1) h sw' s3
            generalize superviseLoopL L adv task fuel (k + 1) h sw' s3 = rest at f
            have hnm : NoMarkerL L steps := by
              have := hw.2
              simpa using this
            refine ⟨by simp [f.len], ?_, ?_, ?_, ?_, ?_⟩
            · intro i rm hi
              cases i with
              | zero => simp at hi; subst hi; simpa using hg
              | succ i =>
                simp only [List.getElem?_cons_succ] at hi
                have := f.guard i rm hi
                have e : k + (i + 1) = k + 1 + i := by omega
                rw [e]; exact this
            · intro i sp' rm h1 h2
              cases i with
              | zero => simp at h1 h2; subst h1; subst h2; exact hw.1
              | succ i =>
                simp only [List.getElem?_cons_succ] at h1 h2
                exact f.steps i sp' rm h1 h2
            · simp only [List.length_cons]
              rw [f.counter, hc]; omega
            · intro r hr hs
              obtain ⟨sp, w', o, pre, g0, g⟩ := f.success r hr hs
              exact ⟨sp, w', o, pre, getLast?_cons_of_getLast? _ _ _ g0, g⟩
            · intro r hr hs
              obtain ⟨g1, g2, g3, g4⟩ := f.failure r hr hs
              refine ⟨g1, g2, ?_, ?_⟩
              · simp only [List.length_cons]
                have e : k + (rest.spawns.length + 1) = k + 1 + rest.spawns.length := by omega
                rw [e]; exact g3
              · intro sp hsp
                simp only [List.mem_cons] at hsp
                rcases hsp with hsp | hsp
                · subst hsp; exact ⟨hnm, w, h, rfl, rfl⟩
                · exact g4 sp hsp
    · refine ⟨rfl, by simp, by simp, by simp, ?_, ?_⟩
      · intro r hr hs
        simp only [Option.some.injEq, Out.ok.injEq] at hr
        subst hr
        cases hs
      · rename_i hg
        intro r hr _
        simp only [Option.some.injEq, Out.ok.injEq] at hr
        subst hr
        exact ⟨rfl, rfl, by simpa using hg, by simp⟩

/-- `spawns.length ≤ (largest regeneration limit read) + 1 - k` -/
theorem liveFacts_spawns_le (L : SwarmLive σ ω) (adv : SwarmAdv σ W ω η ι τ) (k : Nat) (sw0 : SwarmSt ι η)
    (run : SwarmRunL σ W ω η ι) (f : LiveFacts L adv k sw0 run) (M : Int) (hM : ∀ rm ∈ run.reads, rm.1 ≤ M) :
    run.spawns.length ≤ (M + 1 - k).toNat := by
  rw [← f.len]
  cases hn : run.reads.length with
  | zero => omega
  | succ n =>
    have hlt : n < run.reads.length := by omega
    have hget : run.reads[n]? = some run.reads[n] := List.getElem?_eq_getElem hlt
    have h1 := f.guard n _ hget
    have h2 := hM _ (List.getElem_mem hlt)
    omega

/-! ### refinement: callbacks that leave the limits alone -/

theorem runWorkerL_eq (L : SwarmLive σ ω) (code : SwarmCode ω) (adv : SwarmAdv σ W ω η ι τ) (w : W) (task : τ)
    (Inv : σ → Prop) (hstep : ∀ s w t, Inv s → Inv (adv.step s w t).1) (hcode : ∀ s, Inv s → L.codeAt s = code) :
    ∀ n recent s, Inv s →
      runWorkerL L adv w task n recent s = runWorker code adv w task n recent s ∧
      Inv (runWorker code adv w task n recent s).st := by
  intro n
  induction n with
  | zero => intro recent s hI; exact ⟨by simp [runWorkerL, runWorker], by simpa [runWorker] using hI⟩
  | succ n ih =>
    intro recent s hI
    have h1 := hstep s w task hI
    unfold runWorkerL runWorker
    rcases hs : adv.step s w task with ⟨s1, out⟩
    rw [hs] at h1
    cases out with
    | raise => exact ⟨rfl, h1⟩
    | ok o =>
      have hc := hcode s1 h1
      have hm : L.marker = code.marker := by rw [← hc]; rfl
      have hd : L.distinct = code.distinct := by rw [← hc]; rfl
      have hl : L.lowOf s1 = code.low := by rw [← hc]; rfl
      simp only [hm, hd, hl]
      split
      · exact ⟨rfl, h1⟩
      · split
        · exact ⟨rfl, h1⟩
        · obtain ⟨e, hI'⟩ := ih (window recent o) s1 h1
          rw [e]
          exact ⟨rfl, hI'⟩

/-- With callbacks that keep an invariant under which the limits have the values `cfg` / `code`, the swarm that
    re-reads its limits is the entry-snapshot model, spawn for spawn. -/
theorem superviseLoopL_eq (L : SwarmLive σ ω) (code : SwarmCode ω) (cfg : SwarmCfg) (adv : SwarmAdv σ W ω η ι τ)
    (task : τ) (Inv : σ → Prop)
    (hfac : ∀ s n h, Inv s → Inv (adv.factory s n h).1) (hstep : ∀ s w t, Inv s → Inv (adv.step s w t).1)
    (hsum : ∀ s w, Inv s → Inv (adv.summarize s w).1)
    (hcode : ∀ s, Inv s → L.codeAt s = code) (hcfg : ∀ s, Inv s → L.cfgAt s = cfg) :
    ∀ fuel k hints sw s, Inv s →
      (superviseLoopL L adv task fuel k hints sw s).toRun = superviseLoop code cfg adv task fuel k hints sw s ∧
      Inv (superviseLoop code cfg adv task fuel k hints sw s).st := by
  intro fuel
  induction fuel with
  | zero => intro k hints sw s hI; exact ⟨by simp [superviseLoopL, superviseLoop, SwarmRunL.toRun], by simpa [superviseLoop] using hI⟩
  | succ fuel ih =>
    intro k hints sw s hI
    have hr : L.regenOf s = cfg.maxRegen := by rw [← hcfg s hI]; rfl
    have h1 := hfac s (sw.counter + 1) hints hI
    unfold superviseLoopL superviseLoop
    rw [hr]
    split
    · rcases hf : adv.factory s (sw.counter + 1) hints with ⟨s1, out⟩
      rw [hf] at h1
      cases out with
      | raise => exact ⟨rfl, h1⟩
      | ok w =>
        have hm : L.stepsOf s1 = cfg.maxSteps := by rw [← hcfg s1 h1]; rfl
        obtain ⟨e, hI2⟩ := runWorkerL_eq L code adv w task Inv hstep hcode cfg.maxSteps.toNat [] s1 h1
        simp only [hm, e]
        rcases hw : runWorker code adv w task cfg.maxSteps.toNat [] s1 with ⟨s2, res, steps⟩
        rw [hw] at hI2
        simp only at hI2
        cases res with
        | raise => exact ⟨rfl, hI2⟩
        | ok oo =>
          cases oo with
          | some o => exact ⟨rfl, hI2⟩
          | none =>
            have h3 := hsum s2 w hI2
            simp only
            rcases hsm : adv.summarize s2 w with ⟨s3, out3⟩
            rw [hsm] at h3
            cases out3 with
            | raise => exact ⟨rfl, h3⟩
            | ok h =>
              have hr3 : L.regenOf s3 = cfg.maxRegen := by rw [← hcfg s3 h3]; rfl
              simp only [hr3]
              obtain ⟨e2, hI4⟩ := ih (k + 1) h _ s3 h3
              refine ⟨?_, hI4⟩
              simp only [SwarmRunL.toRun] at e2 ⊢
              rw [← e2]
    · exact ⟨rfl, hI⟩

end Live

end Operon.Loops
