import Operon.Model.Chaperone
/-!
Helper lemmas and specification predicates for C11 (core Lean only).
-/
namespace Operon.Chaperone

variable {J S C : Type} {κ α β : Type}

/-! ### the writer monad -/

@[simp] theorem W.pure_eq (a : α) : (Pure.pure a : W κ α) = ⟨[], .ok a⟩ := rfl
@[simp] theorem W.bind_eq (x : W κ α) (f : α → W κ β) : (x >>= f) = W.bind x f := rfl

@[simp] theorem W.bind_ok (t : List κ) (a : α) (f : α → W κ β) :
    W.bind ⟨t, Res.ok a⟩ f = ⟨t ++ (f a).trace, (f a).res⟩ := rfl
@[simp] theorem W.bind_raise (t : List κ) (e : Exc) (f : α → W κ β) :
    W.bind (⟨t, Res.raise e⟩ : W κ α) f = ⟨t, Res.raise e⟩ := rfl

@[simp] theorem W.tryCatch_ok (t : List κ) (a : α) (h : Exc → Option α) :
    W.tryCatch ⟨t, Res.ok a⟩ h = ⟨t, Res.ok a⟩ := rfl
@[simp] theorem W.tryCatch_raise (t : List κ) (e : Exc) (h : Exc → Option α) :
    W.tryCatch (⟨t, Res.raise e⟩ : W κ α) h =
      ⟨t, match h e with | some a => Res.ok a | none => Res.raise e⟩ := by
  cases hh : h e <;> simp [W.tryCatch, hh]

def Res.map (f : α → β) : Res α → Res β
  | .ok a => .ok (f a)
  | .raise e => .raise e

/-- same calls, result mapped -/
def W.map (f : α → β) (x : W κ α) : W κ β := ⟨x.trace, x.res.map f⟩

@[simp] theorem W.map_mk_ok (f : α → β) (t : List κ) (a : α) : W.map f ⟨t, .ok a⟩ = ⟨t, .ok (f a)⟩ := rfl
@[simp] theorem W.map_mk_raise (f : α → β) (t : List κ) (e : Exc) :
    W.map f (⟨t, .raise e⟩ : W κ α) = ⟨t, .raise e⟩ := rfl

@[simp] theorem W.map_trace (f : α → β) (x : W κ α) : (W.map f x).trace = x.trace := rfl
@[simp] theorem W.map_res (f : α → β) (x : W κ α) : (W.map f x).res = x.res.map f := rfl
theorem W.map_mk (f : α → β) (t : List κ) (r : Res α) : W.map f ⟨t, r⟩ = ⟨t, r.map f⟩ := rfl
@[simp] theorem Res.map_ok (f : α → β) (a : α) : (Res.ok a).map f = .ok (f a) := rfl
@[simp] theorem Res.map_raise (f : α → β) (e : Exc) : (Res.raise e : Res α).map f = .raise e := rfl

theorem W.eta (x : W κ α) : x = ⟨x.trace, x.res⟩ := rfl

/-- the trace ends with the call `c` -/
def Ends (tr : List κ) (c : κ) : Prop := ∃ pre, tr = pre ++ [c]

theorem Ends.append_left {tr : List κ} {c : κ} (pre : List κ) (h : Ends tr c) : Ends (pre ++ tr) c := by
  obtain ⟨p, rfl⟩ := h
  exact ⟨pre ++ p, by simp⟩

theorem Ends.getLast? {tr : List κ} {c : κ} (h : Ends tr c) : tr.getLast? = some c := by
  obtain ⟨p, rfl⟩ := h
  simp

/-! ### specification predicates -/

/-- `d` is what json parsing gives for (the stripped text of) some match of an extraction pattern in `raw` -/
def FromMatch (env : Env J S C) (raw : Text) (d : J) : Prop :=
  ∃ i ∈ env.patterns, ∃ ms, env.findall i raw = .ok ms ∧ ∃ m ∈ ms, env.loads (strip m) = .ok d

/-- `d` is JSON actually present in `raw`: the whole stripped text, or an extraction match -/
def Present (env : Env J S C) (raw : Text) (d : J) : Prop :=
  env.loads (strip raw) = .ok d ∨ FromMatch env raw d

/-- the repair table applied in order (no trace) -/
def repairPure (env : Env J S C) : List Nat → Text → Res Text
  | [], t => .ok t
  | i :: is, t =>
    match env.sub i t with
    | .ok t' => repairPure env is t'
    | .raise e => .raise e

/-- How the validated JSON value `d` was obtained from the raw text, per strategy. -/
def Derived (env : Env J S C) (raw : Text) : Strategy → J → Prop
  | .strict, d => env.loads (strip raw) = .ok d
  | .extraction, d => FromMatch env raw d
  | .lenient, d => ∃ e cs, Present env raw e ∧ env.isNone e = false ∧ env.coerce e = .ok (d, cs)
  | .repair, d => ∃ t, repairPure env env.repairs (strip raw) = .ok t ∧ env.loads t = .ok d

/-! ### STRICT -/

theorem foldStrict_eq (env : Env J S C) (raw : Text) :
    foldStrict env raw = W.map X.erase (foldStrictX env raw) := by
  unfold foldStrict foldStrictX cLoads cValidate
  cases h : env.loads (strip raw) with
  | ok d => cases h2 : env.validate d with
    | ok s => simp [X.erase, h2]
    | raise e => cases e <;> simp [X.erase, h2]
  | raise e => cases e <;> simp [X.erase]

/-- complete description of `_fold_strict_enhanced` -/
theorem foldStrictX_spec (env : Env J S C) (raw : Text) :
    (∃ d s, env.loads (strip raw) = .ok d ∧ env.validate d = .ok s ∧
      foldStrictX env raw = ⟨[.loads (strip raw) (.ok d), .validate d (.ok s)],
        .ok ⟨true, some s, none, 1, [], some .strict⟩⟩) ∨
    (∃ x, (foldStrictX env raw).res = .ok x ∧ x.valid = false ∧ x.struct = none ∧ x.err ≠ none) ∨
    (∃ e, (foldStrictX env raw).res = .raise e) := by
  unfold foldStrictX cLoads cValidate
  cases h : env.loads (strip raw) with
  | ok d => cases h2 : env.validate d with
    | ok s => left; exact ⟨d, s, rfl, h2, by simp [h2]⟩
    | raise e => right; cases e <;> simp [h2]
  | raise e => right; cases e <;> simp

/-! ### EXTRACTION -/

theorem tryOne_spec (env : Env J S C) (m : Text) :
    (∃ d s, env.loads (strip m) = .ok d ∧ env.validate d = .ok s ∧
      tryOne env m = ⟨[.loads (strip m) (.ok d), .validate d (.ok s)], .ok (some s)⟩) ∨
    (tryOne env m).res = .ok none ∨ (∃ e, (tryOne env m).res = .raise e) := by
  unfold tryOne cLoads cValidate
  cases h : env.loads (strip m) with
  | ok d => cases h2 : env.validate d with
    | ok s => left; exact ⟨d, s, rfl, h2, by simp [h2]⟩
    | raise e => right; cases e <;> simp [h2, isDecodeOrValidation]
  | raise e => right; cases e <;> simp [isDecodeOrValidation]

theorem firstValid_some (env : Env J S C) : ∀ (ms : List Text) (s : S),
    (firstValid env ms).res = .ok (some s) →
    ∃ m ∈ ms, ∃ d, env.loads (strip m) = .ok d ∧ env.validate d = .ok s ∧
      Ends (firstValid env ms).trace (.validate d (.ok s)) := by
  intro ms
  induction ms with
  | nil => intro s h; simp [firstValid] at h
  | cons m ms ih =>
    intro s h
    unfold firstValid at h ⊢
    rcases tryOne_spec env m with ⟨d, s', hl, hv, heq⟩ | hn | ⟨e, he⟩
    · rw [heq] at h ⊢
      simp at h ⊢
      subst h
      exact Or.inl ⟨d, hl, hv, ⟨[.loads (strip m) (.ok d)], by simp⟩⟩
    · rcases hx : tryOne env m with ⟨t, r⟩
      rw [hx] at hn h
      simp at hn
      subst hn
      simp at h ⊢
      obtain ⟨m', hm', d, hl, hv, hend⟩ := ih s h
      exact Or.inr ⟨m', hm', d, hl, hv, hend.append_left t⟩
    · rcases hx : tryOne env m with ⟨t, r⟩
      rw [hx] at he h
      simp at he
      subst he
      simp at h

theorem scanPatterns_some (env : Env J S C) (raw : Text) : ∀ (is : List Nat) (i : Nat) (s : S),
    (scanPatterns env raw is).res = .ok (some (i, s)) →
    i ∈ is ∧ ∃ ms, env.findall i raw = .ok ms ∧ ∃ m ∈ ms, ∃ d, env.loads (strip m) = .ok d ∧
      env.validate d = .ok s ∧ Ends (scanPatterns env raw is).trace (.validate d (.ok s)) := by
  intro is
  induction is with
  | nil => intro i s h; simp [scanPatterns] at h
  | cons j is ih =>
    intro i s h
    unfold scanPatterns cFindall at h ⊢
    cases hf : env.findall j raw with
    | raise e => simp [hf] at h
    | ok ms =>
      rcases hx : firstValid env ms with ⟨t, r⟩
      have hfv := firstValid_some env ms
      rw [hx] at hfv
      cases r with
      | raise e => simp [hf, hx] at h
      | ok o =>
        cases o with
        | some s' =>
          simp [hf, hx] at h ⊢
          obtain ⟨rfl, rfl⟩ := h
          obtain ⟨m, hm, d, hl, hv, hend⟩ := hfv s' rfl
          exact ⟨Or.inl rfl, ms, hf, m, hm, d, hl, hv, by simpa using hend.append_left [Call.findall j raw (.ok ms)]⟩
        | none =>
          simp [hf, hx] at h ⊢
          obtain ⟨hi, ms', hf', m, hm, d, hl, hv, hend⟩ := ih i s h
          refine ⟨Or.inr hi, ms', hf', m, hm, d, hl, hv, ?_⟩
          simpa using hend.append_left (Call.findall j raw (.ok ms) :: t)

theorem foldExtraction_eq (env : Env J S C) (raw : Text) :
    foldExtraction env raw = W.map X.erase (foldExtractionX env raw) := by
  unfold foldExtraction foldExtractionX
  rcases hx : scanPatterns env raw env.patterns with ⟨t, (_ | ⟨i, s⟩) | e⟩ <;> simp [X.erase]

theorem foldExtractionX_valid (env : Env J S C) (raw : Text) (x : X S C)
    (h : (foldExtractionX env raw).res = .ok x) (hv : x.valid = true) :
    ∃ i ∈ env.patterns, ∃ d s, x = ⟨true, some s, none, 9 / 10, [.extractedVia i], some .extraction⟩ ∧
      env.validate d = .ok s ∧ FromMatch env raw d ∧
      Ends (foldExtractionX env raw).trace (.validate d (.ok s)) := by
  unfold foldExtractionX at h ⊢
  have hsp := scanPatterns_some env raw env.patterns
  rcases hx : scanPatterns env raw env.patterns with ⟨t, (_ | ⟨i, s⟩) | e⟩ <;> rw [hx] at h hsp <;> simp at h
  · subst h; simp at hv
  · subst h
    obtain ⟨hi, ms, hf, m, hm, d, hl, hval, hend⟩ := hsp i s rfl
    refine ⟨i, hi, d, s, rfl, hval, ⟨i, hi, ms, hf, m, hm, hl⟩, ?_⟩
    simpa using hend

theorem foldExtractionX_invalid (env : Env J S C) (raw : Text) (x : X S C)
    (h : (foldExtractionX env raw).res = .ok x) (hv : x.valid = false) :
    x.struct = none ∧ x.err ≠ none := by
  unfold foldExtractionX at h
  rcases hx : scanPatterns env raw env.patterns with ⟨t, (_ | ⟨i, s⟩) | e⟩ <;> rw [hx] at h <;> simp at h
  · subst h; simp
  · subst h; simp at hv

/-! ### `_extract_json` -/

theorem loadOne_spec (env : Env J S C) (t : Text) :
    (∃ d, env.loads (strip t) = .ok d ∧ loadOne env t = ⟨[.loads (strip t) (.ok d)], .ok (some d)⟩) ∨
    (loadOne env t).res = .ok none ∨ (∃ e, (loadOne env t).res = .raise e) := by
  unfold loadOne cLoads
  cases h : env.loads (strip t) with
  | ok d => left; exact ⟨d, rfl, by simp⟩
  | raise e => right; cases e <;> simp

theorem firstLoad_some (env : Env J S C) : ∀ (ms : List Text) (d : J),
    (firstLoad env ms).res = .ok (some d) → ∃ m ∈ ms, env.loads (strip m) = .ok d := by
  intro ms
  induction ms with
  | nil => intro d h; simp [firstLoad] at h
  | cons m ms ih =>
    intro d h
    unfold firstLoad at h
    rcases loadOne_spec env m with ⟨d', hl, heq⟩ | hn | ⟨e, he⟩
    · rw [heq] at h
      simp at h
      subst h
      exact ⟨m, by simp, hl⟩
    · rcases hx : loadOne env m with ⟨t, r⟩
      rw [hx] at hn h
      simp at hn
      subst hn
      simp at h
      obtain ⟨m', hm', hl⟩ := ih d h
      exact ⟨m', by simp [hm'], hl⟩
    · rcases hx : loadOne env m with ⟨t, r⟩
      rw [hx] at he h
      simp at he
      subst he
      simp at h

theorem scanLoad_some (env : Env J S C) (raw : Text) : ∀ (is : List Nat) (d : J),
    (scanLoad env raw is).res = .ok (some d) →
    ∃ i ∈ is, ∃ ms, env.findall i raw = .ok ms ∧ ∃ m ∈ ms, env.loads (strip m) = .ok d := by
  intro is
  induction is with
  | nil => intro d h; simp [scanLoad] at h
  | cons j is ih =>
    intro d h
    unfold scanLoad cFindall at h
    cases hf : env.findall j raw with
    | raise e => simp [hf] at h
    | ok ms =>
      have hfl := firstLoad_some env ms
      rcases hx : firstLoad env ms with ⟨t, (_ | d') | e⟩ <;> rw [hx] at hfl <;> simp [hf, hx] at h
      · obtain ⟨i, hi, ms', hf', m, hm, hl⟩ := ih d h
        exact ⟨i, by simp [hi], ms', hf', m, hm, hl⟩
      · subst h
        obtain ⟨m, hm, hl⟩ := hfl d' rfl
        exact ⟨j, by simp, ms, hf, m, hm, hl⟩

theorem extractJson_some (env : Env J S C) (raw : Text) (d : J)
    (h : (extractJson env raw).res = .ok (some d)) : Present env raw d := by
  unfold extractJson at h
  have hsl := scanLoad_some env raw env.patterns
  rcases hx : scanLoad env raw env.patterns with ⟨t, (_ | d') | e⟩ <;> rw [hx] at h hsl <;> simp at h
  · rcases loadOne_spec env raw with ⟨d'', hl, heq⟩ | hn | ⟨e, he⟩
    · rw [heq] at h; simp at h; subst h; exact Or.inl hl
    · rw [h] at hn; simp at hn
    · rw [h] at he; simp at he
  · subst h
    exact Or.inr (hsl d' rfl)

/-! ### LENIENT -/

theorem foldLenient_eq (env : Env J S C) (raw : Text) :
    foldLenient env raw = W.map X.erase (foldLenientX env raw) := by
  unfold foldLenient foldLenientX cCoerce cValidate
  rcases hx : extractJson env raw with ⟨t, (_ | e) | exc⟩ <;> simp [X.erase]
  cases hn : env.isNone e <;> simp [X.erase]
  cases hc : env.coerce e with
  | raise ex => simp
  | ok dc =>
    cases hv : env.validate dc.1 with
    | ok s => simp [hv, X.erase]
    | raise ex => cases ex <;> simp [hv, X.erase]

theorem foldLenientX_valid (env : Env J S C) (raw : Text) (x : X S C)
    (h : (foldLenientX env raw).res = .ok x) (hv : x.valid = true) :
    ∃ (d : J) (s : S) (cs : List C), x = ⟨true, some s, none, lenientConfidence cs.length, cs.map .coerced, some .lenient⟩ ∧
      env.validate d = .ok s ∧ Derived env raw .lenient d ∧
      Ends (foldLenientX env raw).trace (.validate d (.ok s)) := by
  unfold foldLenientX cCoerce cValidate at h ⊢
  have hp := extractJson_some env raw
  rcases hx : extractJson env raw with ⟨t, (_ | e) | exc⟩ <;> rw [hx] at h hp <;> simp at h
  · subst h; simp at hv
  · cases hn : env.isNone e <;> simp [hn] at h
    · cases hc : env.coerce e with
      | raise ex => simp [hc] at h
      | ok dc =>
        cases hval : env.validate dc.1 with
        | ok s =>
          simp [hc, hval] at h
          subst h
          refine ⟨dc.1, s, dc.2, rfl, hval, ⟨e, dc.2, hp e rfl, hn, hc⟩, ?_⟩
          simp [hn, hc, hval]
          exact ⟨t ++ [Call.coerce e (.ok dc)], by simp⟩
        | raise ex => cases ex <;> simp [hc, hval] at h <;> (subst h; simp at hv)
    · subst h; simp at hv

theorem foldLenientX_invalid (env : Env J S C) (raw : Text) (x : X S C)
    (h : (foldLenientX env raw).res = .ok x) (hv : x.valid = false) :
    x.struct = none ∧ x.err ≠ none := by
  unfold foldLenientX cCoerce cValidate at h
  rcases hx : extractJson env raw with ⟨t, (_ | e) | exc⟩ <;> rw [hx] at h <;> simp at h
  · subst h; simp
  · cases hn : env.isNone e <;> simp [hn] at h
    · cases hc : env.coerce e with
      | raise ex => simp [hc] at h
      | ok dc =>
        cases hval : env.validate dc.1 with
        | ok s => simp [hc, hval] at h; subst h; simp at hv
        | raise ex => cases ex <;> simp [hc, hval] at h <;> (subst h; simp)
    · subst h; simp

/-! ### REPAIR -/

theorem repairChain_res (env : Env J S C) : ∀ (is : List Nat) (t : Text),
    (repairChain env is t).res = repairPure env is t := by
  intro is
  induction is with
  | nil => intro t; rfl
  | cons i is ih =>
    intro t
    unfold repairChain repairPure cSub
    cases h : env.sub i t with
    | ok t' => simp [ih]
    | raise e => simp

theorem repairChainX_eq (env : Env J S C) : ∀ (is : List Nat) (t : Text) (names : List Nat),
    repairChain env is t = W.map (·.1) (repairChainX env is t names) := by
  intro is
  induction is with
  | nil => intro t names; rfl
  | cons i is ih =>
    intro t names
    unfold repairChain repairChainX cSub
    cases h : env.sub i t with
    | raise e => simp
    | ok t' =>
      by_cases hne : t' = t
      · simp [hne, ih t names, W.map]
      · simp [hne, ih t' (names ++ [i]), W.map]

theorem foldRepair_eq (env : Env J S C) (raw : Text) :
    foldRepair env raw = W.map X.erase (foldRepairX env raw) := by
  unfold foldRepair foldRepairX cLoads cValidate
  rw [repairChainX_eq env env.repairs (strip raw) []]
  rcases hx : repairChainX env env.repairs (strip raw) [] with ⟨t, ⟨txt, ns⟩ | e⟩ <;> simp
  cases hl : env.loads txt with
  | raise ex => cases ex <;> simp [X.erase, decodeOrValidationMsg, isDecodeOrValidation]
  | ok d =>
    cases hv : env.validate d with
    | ok s => simp [hv, X.erase]
    | raise ex => cases ex <;> simp [hv, X.erase, decodeOrValidationMsg, isDecodeOrValidation]

theorem foldRepairX_valid (env : Env J S C) (raw : Text) (x : X S C)
    (h : (foldRepairX env raw).res = .ok x) (hv : x.valid = true) :
    ∃ (d : J) (s : S) (ns : List Nat),
      x = ⟨true, some s, none, repairConfidence ns.length, ns.map .repair, some .repair⟩ ∧
      env.validate d = .ok s ∧ Derived env raw .repair d ∧
      Ends (foldRepairX env raw).trace (.validate d (.ok s)) := by
  unfold foldRepairX cLoads cValidate at h ⊢
  have hpure := repairChain_res env env.repairs (strip raw)
  rw [repairChainX_eq env env.repairs (strip raw) []] at hpure
  rcases hx : repairChainX env env.repairs (strip raw) [] with ⟨t, ⟨txt, ns⟩ | e⟩ <;> rw [hx] at h hpure <;> simp at h
  cases hl : env.loads txt with
  | raise ex => cases ex <;> simp [hl, decodeOrValidationMsg, isDecodeOrValidation] at h <;> (subst h; simp at hv)
  | ok d =>
    cases hval : env.validate d with
    | ok s =>
      simp [hl, hval] at h
      subst h
      refine ⟨d, s, ns, rfl, hval, ⟨txt, ?_, hl⟩, ?_⟩
      · simpa [W.map, Res.map] using hpure.symm
      · simp [hl, hval]
        exact ⟨t ++ [Call.loads txt (.ok d)], by simp⟩
    | raise ex =>
      cases ex <;> simp [hl, hval, decodeOrValidationMsg, isDecodeOrValidation] at h <;> (subst h; simp at hv)

theorem foldRepairX_invalid (env : Env J S C) (raw : Text) (x : X S C)
    (h : (foldRepairX env raw).res = .ok x) (hv : x.valid = false) :
    x.struct = none ∧ x.err ≠ none := by
  unfold foldRepairX cLoads cValidate at h
  rcases hx : repairChainX env env.repairs (strip raw) [] with ⟨t, ⟨txt, ns⟩ | e⟩ <;> rw [hx] at h <;> simp at h
  cases hl : env.loads txt with
  | raise ex => cases ex <;> simp [hl, decodeOrValidationMsg, isDecodeOrValidation] at h <;> (subst h; simp)
  | ok d =>
    cases hval : env.validate d with
    | ok s => simp [hl, hval] at h; subst h; simp at hv
    | raise ex =>
      cases ex <;> simp [hl, hval, decodeOrValidationMsg, isDecodeOrValidation] at h <;> (subst h; simp)

/-! ### per-strategy summary -/

/-- the plain implementation of every strategy makes the same calls and returns the same validity,
    structure and error as the enhanced one -/
theorem attemptP_eq (env : Env J S C) (raw : Text) (s : Strategy) :
    attemptP env raw s = W.map X.erase (attemptX env raw s) := by
  cases s
  · exact foldStrict_eq env raw
  · exact foldExtraction_eq env raw
  · exact foldLenient_eq env raw
  · exact foldRepair_eq env raw

/-- the shapes a successful enhanced result can have, per strategy -/
def SuccessShape (s : Strategy) (x : X S C) (st : S) : Prop :=
  match s with
  | .strict => x = ⟨true, some st, none, 1, [], some .strict⟩
  | .extraction => ∃ i : Nat, x = ⟨true, some st, none, 9 / 10, [.extractedVia i], some .extraction⟩
  | .lenient => ∃ cs : List C, x = ⟨true, some st, none, lenientConfidence cs.length, cs.map .coerced, some .lenient⟩
  | .repair => ∃ ns : List Nat, x = ⟨true, some st, none, repairConfidence ns.length, ns.map .repair, some .repair⟩

theorem attemptX_valid (env : Env J S C) (raw : Text) (s : Strategy) (x : X S C)
    (h : (attemptX env raw s).res = .ok x) (hv : x.valid = true) :
    ∃ d st, SuccessShape s x st ∧ env.validate d = .ok st ∧ Derived env raw s d ∧
      Ends (attemptX env raw s).trace (.validate d (.ok st)) := by
  cases s
  · rcases foldStrictX_spec env raw with ⟨d, st, hl, hval, heq⟩ | ⟨x', hx', hinv, _⟩ | ⟨e, he⟩
    · simp only [attemptX] at h ⊢
      rw [heq] at h ⊢
      simp at h
      subst h
      exact ⟨d, st, rfl, hval, hl, ⟨[.loads (strip raw) (.ok d)], by simp⟩⟩
    · simp only [attemptX] at h
      rw [hx'] at h; simp at h; subst h; simp [hinv] at hv
    · simp only [attemptX] at h
      rw [he] at h; simp at h
  · obtain ⟨i, hi, d, st, hx, hval, hd, hend⟩ := foldExtractionX_valid env raw x h hv
    exact ⟨d, st, ⟨i, hx⟩, hval, hd, hend⟩
  · obtain ⟨d, st, cs, hx, hval, hd, hend⟩ := foldLenientX_valid env raw x h hv
    exact ⟨d, st, ⟨cs, hx⟩, hval, hd, hend⟩
  · obtain ⟨d, st, ns, hx, hval, hd, hend⟩ := foldRepairX_valid env raw x h hv
    exact ⟨d, st, ⟨ns, hx⟩, hval, hd, hend⟩

theorem attemptX_invalid (env : Env J S C) (raw : Text) (s : Strategy) (x : X S C)
    (h : (attemptX env raw s).res = .ok x) (hv : x.valid = false) :
    x.struct = none ∧ x.err ≠ none := by
  cases s
  · rcases foldStrictX_spec env raw with ⟨d, st, hl, hval, heq⟩ | ⟨x', hx', hinv, hs, he⟩ | ⟨e, he⟩
    · simp only [attemptX] at h
      rw [heq] at h; simp at h; subst h; simp at hv
    · simp only [attemptX] at h
      rw [hx'] at h; simp at h; subst h; exact ⟨hs, he⟩
    · simp only [attemptX] at h
      rw [he] at h; simp at h
  · exact foldExtractionX_invalid env raw x h hv
  · exact foldLenientX_invalid env raw x h hv
  · exact foldRepairX_invalid env raw x h hv

/-! ### confidence arithmetic -/

theorem lenientConfidence_bounds (n : Nat) : 1 / 2 ≤ lenientConfidence n ∧ lenientConfidence n < 1 := by
  have hn : (0 : Rat) ≤ (n : Rat) := Rat.natCast_nonneg
  unfold lenientConfidence ratMax
  split <;> constructor <;> grind

theorem repairConfidence_bounds (n : Nat) : 2 / 5 ≤ repairConfidence n ∧ repairConfidence n < 1 := by
  have hn : (0 : Rat) ≤ (n : Rat) := Rat.natCast_nonneg
  unfold repairConfidence ratMax
  split <;> constructor <;> grind

/-! ### the strategy loop, once for both implementations -/

/-- the loop of `fold` / `fold_enhanced` over an arbitrary attempt function -/
def loopG (att : Strategy → W κ α) (valid : α → Bool) (err : α → Option ErrTag) :
    List Strategy → Stats → List AttRec → W κ (LoopOut α)
  | [], st, atts => ⟨[], .ok ⟨st, none, atts⟩⟩
  | s :: rest, st, atts =>
    match (att s).res with
    | .ok a =>
      if valid a then
        ⟨(att s).trace, .ok ⟨⟨st.total, st.successful + 1, bump st.succ s, bump st.att s⟩, some (s, a), atts⟩⟩
      else
        ⟨(att s).trace ++
          (loopG att valid err rest ⟨st.total, st.successful, st.succ, bump st.att s⟩ (atts ++ [⟨s, false, err a⟩])).trace,
         (loopG att valid err rest ⟨st.total, st.successful, st.succ, bump st.att s⟩ (atts ++ [⟨s, false, err a⟩])).res⟩
    | .raise e =>
      ⟨(att s).trace ++
        (loopG att valid err rest ⟨st.total, st.successful, st.succ, bump st.att s⟩
          (atts ++ [⟨s, false, some (.msg e)⟩])).trace,
       (loopG att valid err rest ⟨st.total, st.successful, st.succ, bump st.att s⟩
          (atts ++ [⟨s, false, some (.msg e)⟩])).res⟩

theorem loopP_eq_loopG (env : Env J S C) (raw : Text) : ∀ (strs : List Strategy) (st : Stats) (atts : List AttRec),
    loopP env raw strs st atts = loopG (attemptP env raw) (·.valid) (·.err) strs st atts := by
  intro strs
  induction strs with
  | nil => intro st atts; rfl
  | cons s rest ih =>
    intro st atts
    unfold loopP loopG
    rcases hx : attemptP env raw s with ⟨t, a | e⟩
    · by_cases hv : a.valid = true <;> simp [hv, ih]
    · simp [ih]

theorem loopX_eq_loopG (env : Env J S C) (raw : Text) : ∀ (strs : List Strategy) (st : Stats) (atts : List AttRec),
    loopX env raw strs st atts = loopG (attemptX env raw) (·.valid) (·.err) strs st atts := by
  intro strs
  induction strs with
  | nil => intro st atts; rfl
  | cons s rest ih =>
    intro st atts
    unfold loopX loopG
    rcases hx : attemptX env raw s with ⟨t, a | e⟩
    · by_cases hv : a.valid = true <;> simp [hv, ih]
    · simp [ih]

/-- the attempt record a failing strategy leaves behind -/
def failRec (att : Strategy → W κ α) (err : α → Option ErrTag) (s : Strategy) : AttRec :=
  ⟨s, false, match (att s).res with | .ok a => err a | .raise e => some (.msg e)⟩

/-- strategy `s` does not succeed: it raises, or returns an invalid result -/
def Fails (att : Strategy → W κ α) (valid : α → Bool) (s : Strategy) : Prop :=
  ∀ a, (att s).res = .ok a → valid a = false

def bumpAll (f : Strategy → Nat) (l : List Strategy) : Strategy → Nat := l.foldl bump f

/-- Complete description of the loop: it never raises; either every strategy failed, or the result is that of
    the first strategy in the list that succeeds, the earlier ones having failed. -/
theorem loopG_spec (att : Strategy → W κ α) (valid : α → Bool) (err : α → Option ErrTag) :
    ∀ (strs : List Strategy) (st : Stats) (atts : List AttRec),
    (∃ o, (loopG att valid err strs st atts).res = .ok o ∧ o.hit = none ∧ (∀ s ∈ strs, Fails att valid s) ∧
      o.attempts = atts ++ strs.map (failRec att err) ∧
      o.stats = ⟨st.total, st.successful, st.succ, bumpAll st.att strs⟩) ∨
    (∃ o pre s post a, (loopG att valid err strs st atts).res = .ok o ∧ strs = pre ++ s :: post ∧
      (∀ s' ∈ pre, Fails att valid s') ∧ (att s).res = .ok a ∧ valid a = true ∧ o.hit = some (s, a) ∧
      o.attempts = atts ++ pre.map (failRec att err) ∧
      o.stats = ⟨st.total, st.successful + 1, bump st.succ s, bumpAll st.att (pre ++ [s])⟩ ∧
      ∃ tpre, (loopG att valid err strs st atts).trace = tpre ++ (att s).trace) := by
  intro strs
  induction strs with
  | nil =>
    intro st atts
    left
    exact ⟨⟨st, none, atts⟩, rfl, rfl, by simp, by simp, rfl⟩
  | cons s rest ih =>
    intro st atts
    unfold loopG
    cases hres : (att s).res with
    | ok a =>
      by_cases hv : valid a = true
      · right
        refine ⟨⟨⟨st.total, st.successful + 1, bump st.succ s, bump st.att s⟩, some (s, a), atts⟩, [], s, rest, a,
          by simp [hv], rfl, by simp, hres, hv, rfl, by simp, by simp [bumpAll], [], by simp [hv]⟩
      · have hfail : Fails att valid s := by
          intro a' ha'; rw [hres] at ha'; cases ha'; simpa using hv
        have hrec : failRec att err s = ⟨s, false, err a⟩ := by simp [failRec, hres]
        rcases ih ⟨st.total, st.successful, st.succ, bump st.att s⟩ (atts ++ [⟨s, false, err a⟩]) with
          ⟨o, ho, hh, hf, ha, hs⟩ | ⟨o, pre, s', post, a', ho, hstrs, hf, hr, hva, hh, ha, hs, tpre, htr⟩
        · left
          refine ⟨o, by simp [hv, ho], hh, ?_, by simp [ha, hrec], by simp [hs, bumpAll]⟩
          intro s'' hs''
          rcases List.mem_cons.mp hs'' with rfl | h
          · exact hfail
          · exact hf s'' h
        · right
          refine ⟨o, s :: pre, s', post, a', by simp [hv, ho], by simp [hstrs], ?_, hr, hva, hh,
            by simp [ha, hrec], by simp [hs, bumpAll], (att s).trace ++ tpre, by simp [hv, htr]⟩
          intro s'' hs''
          rcases List.mem_cons.mp hs'' with rfl | h
          · exact hfail
          · exact hf s'' h
    | raise e =>
      have hfail : Fails att valid s := by
        intro a' ha'; rw [hres] at ha'; cases ha'
      have hrec : failRec att err s = ⟨s, false, some (.msg e)⟩ := by simp [failRec, hres]
      rcases ih ⟨st.total, st.successful, st.succ, bump st.att s⟩ (atts ++ [⟨s, false, some (.msg e)⟩]) with
        ⟨o, ho, hh, hf, ha, hs⟩ | ⟨o, pre, s', post, a', ho, hstrs, hf, hr, hva, hh, ha, hs, tpre, htr⟩
      · left
        refine ⟨o, by simp [ho], hh, ?_, by simp [ha, hrec], by simp [hs, bumpAll]⟩
        intro s'' hs''
        rcases List.mem_cons.mp hs'' with rfl | h
        · exact hfail
        · exact hf s'' h
      · right
        refine ⟨o, s :: pre, s', post, a', by simp [ho], by simp [hstrs], ?_, hr, hva, hh,
          by simp [ha, hrec], by simp [hs, bumpAll], (att s).trace ++ tpre, by simp [htr]⟩
        intro s'' hs''
        rcases List.mem_cons.mp hs'' with rfl | h
        · exact hfail
        · exact hf s'' h

def LoopOut.map (g : α → β) (o : LoopOut α) : LoopOut β :=
  ⟨o.stats, o.hit.map (fun p => (p.1, g p.2)), o.attempts⟩

theorem loopG_map (g : α → β) (att : Strategy → W κ α) (valid : β → Bool) (err : β → Option ErrTag) :
    ∀ (strs : List Strategy) (st : Stats) (atts : List AttRec),
    loopG (fun s => W.map g (att s)) valid err strs st atts =
      W.map (LoopOut.map g) (loopG att (fun a => valid (g a)) (fun a => err (g a)) strs st atts) := by
  intro strs
  induction strs with
  | nil => intro st atts; rfl
  | cons s rest ih =>
    intro st atts
    unfold loopG
    rcases hx : att s with ⟨t, a | e⟩
    · by_cases hv : valid (g a) = true <;> simp [W.map_mk, hv, ih, LoopOut.map]
    · simp [W.map_mk, ih]

/-- the plain loop is the enhanced loop with the extra fields of every strategy result dropped -/
theorem loopP_as_map (env : Env J S C) (raw : Text) (strs : List Strategy) (st : Stats) (atts : List AttRec) :
    loopP env raw strs st atts = W.map (LoopOut.map X.erase) (loopX env raw strs st atts) := by
  rw [loopP_eq_loopG, loopX_eq_loopG]
  have h : attemptP env raw = fun s => W.map X.erase (attemptX env raw s) := by
    funext s; exact attemptP_eq env raw s
  rw [h]
  exact loopG_map X.erase (attemptX env raw) (·.valid) (·.err) strs st atts

/-- Complete description of `fold` and `fold_enhanced` on the same input, side by side. -/
theorem foldBoth_spec (env : Env J S C) (cfg : Cfg) (st : Stats) (raw : Text) (call : List Strategy) :
    (∃ tr, (∀ s ∈ effective cfg call, Fails (attemptX env raw) (·.valid) s) ∧
      foldX env cfg st raw call = ⟨tr, .ok (⟨st.total + 1, st.successful, st.succ, bumpAll st.att (effective cfg call)⟩,
        ⟨false, none, raw, some (.allFailed (effective cfg call).length),
          (effective cfg call).map (failRec (attemptX env raw) (·.err)), 0, [], none⟩)⟩ ∧
      fold env cfg st raw call = ⟨tr, .ok (⟨st.total + 1, st.successful, st.succ, bumpAll st.att (effective cfg call)⟩,
        ⟨false, none, raw, some (.allFailed (effective cfg call).length)⟩)⟩) ∨
    (∃ tpre pre s post x, effective cfg call = pre ++ s :: post ∧
      (∀ s' ∈ pre, Fails (attemptX env raw) (·.valid) s') ∧ (attemptX env raw s).res = .ok x ∧ x.valid = true ∧
      foldX env cfg st raw call = ⟨tpre ++ (attemptX env raw s).trace,
        .ok (⟨st.total + 1, st.successful + 1, bump st.succ s, bumpAll st.att (pre ++ [s])⟩,
          ⟨x.valid, x.struct, raw, x.err.map .attempt,
            pre.map (failRec (attemptX env raw) (·.err)) ++ [⟨s, true, none⟩],
            x.confidence, x.coercions, x.strategyUsed⟩)⟩ ∧
      fold env cfg st raw call = ⟨tpre ++ (attemptX env raw s).trace,
        .ok (⟨st.total + 1, st.successful + 1, bump st.succ s, bumpAll st.att (pre ++ [s])⟩,
          ⟨true, x.struct, raw, none⟩)⟩) := by
  unfold fold foldX
  simp only [loopP_as_map]
  rcases loopG_spec (attemptX env raw) (·.valid) (·.err) (effective cfg call)
      ⟨st.total + 1, st.successful, st.succ, st.att⟩ [] with
    ⟨o, ho, hh, hf, ha, hs⟩ | ⟨o, pre, s, post, x, ho, hstrs, hf, hr, hv, hh, ha, hs, tpre, htr⟩
  · left
    rw [← loopX_eq_loopG] at ho
    obtain ⟨ostats, ohit, oatts⟩ := o
    simp at hh ha hs
    subst hh ha hs
    refine ⟨(loopX env raw (effective cfg call) ⟨st.total + 1, st.successful, st.succ, st.att⟩ []).trace, hf, ?_, ?_⟩
    · rw [W.eta (loopX env raw (effective cfg call) ⟨st.total + 1, st.successful, st.succ, st.att⟩ []), ho]
      simp
    · rw [W.eta (loopX env raw (effective cfg call) ⟨st.total + 1, st.successful, st.succ, st.att⟩ []), ho]
      simp [W.map_mk, LoopOut.map]
  · right
    rw [← loopX_eq_loopG] at ho htr
    obtain ⟨ostats, ohit, oatts⟩ := o
    simp at hh ha hs
    subst hh ha hs
    refine ⟨tpre, pre, s, post, x, hstrs, hf, hr, hv, ?_, ?_⟩
    · rw [W.eta (loopX env raw (effective cfg call) ⟨st.total + 1, st.successful, st.succ, st.att⟩ []), ho, htr]
      simp
    · rw [W.eta (loopX env raw (effective cfg call) ⟨st.total + 1, st.successful, st.succ, st.att⟩ []), ho, htr]
      simp [W.map_mk, LoopOut.map, X.erase]

/-! ### folds with user callbacks -/

/-- `fold` / `fold_enhanced` from the strategy loop on, with callbacks, described through `fold` / `fold_enhanced`
    without callbacks on the text the strategies work on: same library calls, same counters; a success is the same
    report with the caller's raw text echoed; a failure goes through `on_misfold` with one and the same report. -/
theorem foldHOnBoth_spec (env : Env J S C) (hk : Hooks S C) (cfg : Cfg) (st : Stats) (raw t : Text)
    (call : List Strategy) (hooks : List (HookCall S C)) :
    (∃ tr stF, (∀ s ∈ effective cfg call, Fails (attemptX env t) (·.valid) s) ∧
      stF = ⟨st.total + 1, st.successful, st.succ, bumpAll st.att (effective cfg call)⟩ ∧
      foldX env cfg st t call = ⟨tr, .ok (stF, misfoldReport t (effective cfg call).length
          ((effective cfg call).map (failRec (attemptX env t) (·.err))))⟩ ∧
      fold env cfg st t call = ⟨tr, .ok (stF, ⟨false, none, t, some (.allFailed (effective cfg call).length)⟩)⟩ ∧
      foldXHOn env hk cfg st raw t call hooks =
        callMisfold hk stF hooks tr
          (misfoldReport raw (effective cfg call).length ((effective cfg call).map (failRec (attemptX env t) (·.err))))
          (misfoldReport raw (effective cfg call).length ((effective cfg call).map (failRec (attemptX env t) (·.err)))) ∧
      foldHOn env hk cfg st raw t call hooks =
        callMisfold hk stF hooks tr
          (misfoldReport raw (effective cfg call).length ((effective cfg call).map (failRec (attemptX env t) (·.err))))
          ⟨false, none, raw, some (.allFailed (effective cfg call).length)⟩) ∨
    (∃ tr stH rx, rx.valid = true ∧
      foldX env cfg st t call = ⟨tr, .ok (stH, rx)⟩ ∧
      fold env cfg st t call = ⟨tr, .ok (stH, ⟨true, rx.struct, t, none⟩)⟩ ∧ rx.raw = t ∧
      foldXHOn env hk cfg st raw t call hooks =
        ⟨stH, hooks, tr, .ok ⟨rx.valid, rx.struct, raw, rx.err, rx.attempts, rx.confidence, rx.coercions,
                               rx.strategyUsed⟩⟩ ∧
      foldHOn env hk cfg st raw t call hooks = ⟨stH, hooks, tr, .ok ⟨true, rx.struct, raw, none⟩⟩) := by
  unfold fold foldX foldHOn foldXHOn
  simp only [loopP_as_map]
  rcases loopG_spec (attemptX env t) (·.valid) (·.err) (effective cfg call)
      ⟨st.total + 1, st.successful, st.succ, st.att⟩ [] with
    ⟨o, ho, hh, hf, ha, hs⟩ | ⟨o, pre, s, post, x, ho, hstrs, hf, hr, hv, hh, ha, hs, tpre, htr⟩
  · left
    rw [← loopX_eq_loopG] at ho
    obtain ⟨ostats, ohit, oatts⟩ := o
    simp at hh ha hs
    subst hh ha hs
    refine ⟨(loopX env t (effective cfg call) ⟨st.total + 1, st.successful, st.succ, st.att⟩ []).trace,
      ⟨st.total + 1, st.successful, st.succ, bumpAll st.att (effective cfg call)⟩, hf, rfl, ?_, ?_, ?_, ?_⟩
    · rw [W.eta (loopX env t (effective cfg call) ⟨st.total + 1, st.successful, st.succ, st.att⟩ []), ho]
      simp [misfoldReport]
    · rw [W.eta (loopX env t (effective cfg call) ⟨st.total + 1, st.successful, st.succ, st.att⟩ []), ho]
      simp [W.map_mk, LoopOut.map]
    · rw [W.eta (loopX env t (effective cfg call) ⟨st.total + 1, st.successful, st.succ, st.att⟩ []), ho]
    · rw [W.eta (loopX env t (effective cfg call) ⟨st.total + 1, st.successful, st.succ, st.att⟩ []), ho]
      simp [W.map_mk, LoopOut.map]
  · right
    rw [← loopX_eq_loopG] at ho htr
    obtain ⟨ostats, ohit, oatts⟩ := o
    simp at hh ha hs
    subst hh ha hs
    refine ⟨tpre ++ (attemptX env t s).trace,
      ⟨st.total + 1, st.successful + 1, bump st.succ s, bumpAll st.att (pre ++ [s])⟩,
      ⟨x.valid, x.struct, t, x.err.map .attempt,
        pre.map (failRec (attemptX env t) (·.err)) ++ [⟨s, true, none⟩], x.confidence, x.coercions, x.strategyUsed⟩,
      hv, ?_, ?_, rfl, ?_, ?_⟩
    · rw [W.eta (loopX env t (effective cfg call) ⟨st.total + 1, st.successful, st.succ, st.att⟩ []), ho, htr]
      simp
    · rw [W.eta (loopX env t (effective cfg call) ⟨st.total + 1, st.successful, st.succ, st.att⟩ []), ho, htr]
      simp [W.map_mk, LoopOut.map, X.erase, hv]
    · rw [W.eta (loopX env t (effective cfg call) ⟨st.total + 1, st.successful, st.succ, st.att⟩ []), ho, htr]
    · rw [W.eta (loopX env t (effective cfg call) ⟨st.total + 1, st.successful, st.succ, st.att⟩ []), ho, htr]
      simp [W.map_mk, LoopOut.map, X.erase]

/-- `t` is the text the strategies of a fold of `raw` work on: `raw` itself when no co-chaperone is registered for the
    schema, else what the co-chaperone returned for `raw` -/
def Hooks.Feeds (hk : Hooks S C) (raw t : Text) : Prop :=
  (hk.pre = none ∧ t = raw) ∨ (∃ f, hk.pre = some f ∧ f raw = .ok t)

/-- the co-chaperone invocation that precedes the strategy loop (none when no co-chaperone is registered) -/
def preHooks (hk : Hooks S C) (raw t : Text) : List (HookCall S C) :=
  match hk.pre with
  | none => []
  | some _ => [.pre raw (.ok t)]

/-- either the co-chaperone raises (and that is all that happens), or the strategies run on the text it feeds -/
theorem foldH_cases (env : Env J S C) (hk : Hooks S C) (cfg : Cfg) (st : Stats) (raw : Text) (call : List Strategy) :
    (∃ f e, hk.pre = some f ∧ f raw = .raise e ∧
      foldH env hk cfg st raw call =
        ⟨⟨st.total + 1, st.successful, st.succ, st.att⟩, [.pre raw (.raise e)], [], .raise e⟩ ∧
      foldXH env hk cfg st raw call =
        ⟨⟨st.total + 1, st.successful, st.succ, st.att⟩, [.pre raw (.raise e)], [], .raise e⟩) ∨
    (∃ t, hk.Feeds raw t ∧
      foldH env hk cfg st raw call = foldHOn env hk cfg st raw t call (preHooks hk raw t) ∧
      foldXH env hk cfg st raw call = foldXHOn env hk cfg st raw t call (preHooks hk raw t)) := by
  unfold foldH foldXH withPre
  cases hp : hk.pre with
  | none => exact Or.inr ⟨raw, Or.inl ⟨hp, rfl⟩, by simp [preHooks, hp], by simp [preHooks, hp]⟩
  | some f =>
    cases hf : f raw with
    | ok t => exact Or.inr ⟨t, Or.inr ⟨f, hp, hf⟩, by simp [preHooks, hp, hf], by simp [preHooks, hp, hf]⟩
    | raise e => exact Or.inl ⟨f, e, rfl, hf, by simp [hf], by simp [hf]⟩

theorem Hooks.Feeds.unique {hk : Hooks S C} {raw t t' : Text} (h : hk.Feeds raw t) (h' : hk.Feeds raw t') : t = t' := by
  rcases h with ⟨hn, rfl⟩ | ⟨f, hf, hr⟩ <;> rcases h' with ⟨hn', rfl⟩ | ⟨f', hf', hr'⟩
  · rfl
  · rw [hn] at hf'; cases hf'
  · rw [hn'] at hf; cases hf
  · rw [hf] at hf'; cases hf'; rw [hr] at hr'; cases hr'; rfl

theorem Hooks.Feeds.not_raise {hk : Hooks S C} {raw t : Text} (h : hk.Feeds raw t) (f : Text → Res Text) (e : Exc)
    (hf : hk.pre = some f) : f raw ≠ .raise e := by
  rcases h with ⟨hn, _⟩ | ⟨f', hf', hr⟩
  · rw [hn] at hf; cases hf
  · rw [hf] at hf'; cases hf'; rw [hr]; intro h; cases h

/-- what `if self.on_misfold: self.on_misfold(report)` does: counters and library calls untouched; without a (truthy)
    callback nothing is invoked and the result is returned; with one it is invoked exactly once, last, on the report,
    and the result is returned unless the callback raises -/
theorem callMisfold_spec (hk : Hooks S C) (stats : Stats) (hooks : List (HookCall S C)) (tr : Tr J S C)
    (rep : FoldedX S C) (result : α) :
    (callMisfold hk stats hooks tr rep result).stats = stats ∧
    (callMisfold hk stats hooks tr rep result).trace = tr ∧
    ((hk.onMisfold = none ∧ (callMisfold hk stats hooks tr rep result).hooks = hooks ∧
        (callMisfold hk stats hooks tr rep result).res = .ok result) ∨
     (∃ g, hk.onMisfold = some g ∧
        (callMisfold hk stats hooks tr rep result).hooks = hooks ++ [.misfold rep (g rep)] ∧
        (callMisfold hk stats hooks tr rep result).res =
          (match g rep with | .ok _ => .ok result | .raise e => .raise e))) := by
  unfold callMisfold
  cases hg : hk.onMisfold with
  | none => exact ⟨rfl, rfl, Or.inl ⟨rfl, rfl, rfl⟩⟩
  | some g =>
    cases hr : g rep with
    | ok u => cases u; exact ⟨by simp [hr], by simp [hr], Or.inr ⟨g, rfl, by simp [hr], by simp [hr]⟩⟩
    | raise e => exact ⟨by simp [hr], by simp [hr], Or.inr ⟨g, rfl, by simp [hr], by simp [hr]⟩⟩

/-- the report with the caller's raw text echoed instead of the preprocessed one -/
def Folded.echo (p : Folded S) (raw : Text) : Folded S := ⟨p.valid, p.struct, raw, p.err⟩
def FoldedX.echo (x : FoldedX S C) (raw : Text) : FoldedX S C :=
  ⟨x.valid, x.struct, raw, x.err, x.attempts, x.confidence, x.coercions, x.strategyUsed⟩

/-- Complete description of `fold` and `fold_enhanced` with callbacks, when the co-chaperone (if any) returns:
    through the two methods without callbacks on the text `t` the strategies work on. -/
theorem foldHBoth_spec (env : Env J S C) (hk : Hooks S C) (cfg : Cfg) (st : Stats) (raw t : Text)
    (call : List Strategy) (hfeeds : hk.Feeds raw t) :
    ∃ tr st' p x, fold env cfg st t call = ⟨tr, .ok (st', p)⟩ ∧ foldX env cfg st t call = ⟨tr, .ok (st', x)⟩ ∧
      p.valid = x.valid ∧
      (foldH env hk cfg st raw call).stats = st' ∧ (foldXH env hk cfg st raw call).stats = st' ∧
      (foldH env hk cfg st raw call).trace = tr ∧ (foldXH env hk cfg st raw call).trace = tr ∧
      ((x.valid = true ∧
          (foldH env hk cfg st raw call).hooks = preHooks hk raw t ∧
          (foldXH env hk cfg st raw call).hooks = preHooks hk raw t ∧
          (foldH env hk cfg st raw call).res = .ok (p.echo raw) ∧
          (foldXH env hk cfg st raw call).res = .ok (x.echo raw)) ∨
       (x.valid = false ∧
          x = misfoldReport t (effective cfg call).length
                ((effective cfg call).map (failRec (attemptX env t) (·.err))) ∧
          ((hk.onMisfold = none ∧
              (foldH env hk cfg st raw call).hooks = preHooks hk raw t ∧
              (foldXH env hk cfg st raw call).hooks = preHooks hk raw t ∧
              (foldH env hk cfg st raw call).res = .ok (p.echo raw) ∧
              (foldXH env hk cfg st raw call).res = .ok (x.echo raw)) ∨
           (∃ g, hk.onMisfold = some g ∧
              (foldH env hk cfg st raw call).hooks = preHooks hk raw t ++ [.misfold (x.echo raw) (g (x.echo raw))] ∧
              (foldXH env hk cfg st raw call).hooks = preHooks hk raw t ++ [.misfold (x.echo raw) (g (x.echo raw))] ∧
              (foldH env hk cfg st raw call).res =
                (match g (x.echo raw) with | .ok _ => .ok (p.echo raw) | .raise e => .raise e) ∧
              (foldXH env hk cfg st raw call).res =
                (match g (x.echo raw) with | .ok _ => .ok (x.echo raw) | .raise e => .raise e))))) := by
  rcases foldH_cases env hk cfg st raw call with ⟨f, e, hp, hr, _, _⟩ | ⟨t', hfeeds', hH, hXH⟩
  · exact absurd hr (hfeeds.not_raise f e hp)
  · have ht := hfeeds'.unique hfeeds
    subst ht
    rw [hH, hXH]
    rcases foldHOnBoth_spec env hk cfg st raw t' call (preHooks hk raw t') with
      ⟨tr, stF, _, _, hx, hp, hxh, hph⟩ | ⟨tr, stH, rx, hv, hx, hp, hraw, hxh, hph⟩
    · refine ⟨tr, stF, _, _, hp, hx, rfl, ?_⟩
      rw [hxh, hph]
      obtain ⟨h1, h2, h3⟩ := callMisfold_spec (J := J) hk stF (preHooks hk raw t') tr
        (misfoldReport raw (effective cfg call).length ((effective cfg call).map (failRec (attemptX env t') (·.err))))
        (misfoldReport raw (effective cfg call).length ((effective cfg call).map (failRec (attemptX env t') (·.err))) : FoldedX S C)
      obtain ⟨k1, k2, k3⟩ := callMisfold_spec (J := J) hk stF (preHooks hk raw t') tr
        (misfoldReport raw (effective cfg call).length ((effective cfg call).map (failRec (attemptX env t') (·.err))))
        (⟨false, none, raw, some (.allFailed (effective cfg call).length)⟩ : Folded S)
      refine ⟨k1, h1, k2, h2, Or.inr ⟨rfl, rfl, ?_⟩⟩
      rcases h3 with ⟨hn, hh, hr⟩ | ⟨g, hg, hh, hr⟩ <;> rcases k3 with ⟨kn, kh, kr⟩ | ⟨g', kg, kh, kr⟩
      · exact Or.inl ⟨hn, kh, hh, kr, hr⟩
      · rw [hn] at kg; cases kg
      · rw [kn] at hg; cases hg
      · rw [hg] at kg; cases kg
        exact Or.inr ⟨g, hg, kh, hh, kr, hr⟩
    · refine ⟨tr, stH, _, rx, hp, hx, hv.symm, ?_⟩
      rw [hxh, hph]
      exact ⟨rfl, rfl, rfl, rfl, Or.inl ⟨hv, rfl, rfl, by simp [Folded.echo], by simp [FoldedX.echo]⟩⟩

/-! ### the verdict does not depend on the counters -/

/-- the library calls the loop makes, and what it finds (hit, attempt records), do not depend on the counters it
    starts from -/
theorem loopG_counters_irrelevant (att : Strategy → W κ α) (valid : α → Bool) (err : α → Option ErrTag) :
    ∀ (strs : List Strategy) (st st' : Stats) (atts : List AttRec),
    (loopG att valid err strs st atts).trace = (loopG att valid err strs st' atts).trace ∧
    (loopG att valid err strs st atts).res.map (fun o => (o.hit, o.attempts)) =
      (loopG att valid err strs st' atts).res.map (fun o => (o.hit, o.attempts)) := by
  intro strs
  induction strs with
  | nil => intro st st' atts; exact ⟨rfl, rfl⟩
  | cons s rest ih =>
    intro st st' atts
    unfold loopG
    cases hres : (att s).res with
    | ok a =>
      by_cases hv : valid a = true
      · simp [hv]
      · have h := ih ⟨st.total, st.successful, st.succ, bump st.att s⟩ ⟨st'.total, st'.successful, st'.succ, bump st'.att s⟩
          (atts ++ [⟨s, false, err a⟩])
        simp [hv, h.1, h.2]
    | raise e =>
      have h := ih ⟨st.total, st.successful, st.succ, bump st.att s⟩ ⟨st'.total, st'.successful, st'.succ, bump st'.att s⟩
        (atts ++ [⟨s, false, some (.msg e)⟩])
      simp [h.1, h.2]

/-- what `fold_enhanced` returns, from what its loop found -/
def finishX (raw : Text) (n : Nat) (hit : Option (Strategy × X S C)) (atts : List AttRec) : FoldedX S C :=
  match hit with
  | some (s, x) => ⟨x.valid, x.struct, raw, x.err.map .attempt, atts ++ [⟨s, true, none⟩], x.confidence, x.coercions,
                    x.strategyUsed⟩
  | none => ⟨false, none, raw, some (.allFailed n), atts, cFailed, [], none⟩

theorem foldX_as_loop (env : Env J S C) (cfg : Cfg) (st : Stats) (raw : Text) (call : List Strategy) :
    (foldX env cfg st raw call).trace =
      (loopX env raw (effective cfg call) ⟨st.total + 1, st.successful, st.succ, st.att⟩ []).trace ∧
    (foldX env cfg st raw call).res.map (·.2) =
      (loopX env raw (effective cfg call) ⟨st.total + 1, st.successful, st.succ, st.att⟩ []).res.map
        (fun o => finishX raw (effective cfg call).length o.hit o.attempts) := by
  unfold foldX
  rcases hw : loopX env raw (effective cfg call) ⟨st.total + 1, st.successful, st.succ, st.att⟩ [] with ⟨tr, o | e⟩
  · obtain ⟨os, oh, oa⟩ := o
    cases oh with
    | none => simp [hw, finishX]
    | some p => obtain ⟨s, x⟩ := p; simp [hw, finishX]
  · simp [hw]

/-- `fold_enhanced` makes the same library calls and returns the same report whatever the counters of the instance
    are, and whichever instance it is called on, as long as the strategy list in force is the same -/
theorem foldX_counters_irrelevant (env : Env J S C) (cfg cfg' : Cfg) (st st' : Stats) (raw : Text)
    (call call' : List Strategy) (heff : effective cfg call = effective cfg' call') :
    (foldX env cfg st raw call).trace = (foldX env cfg' st' raw call').trace ∧
    (foldX env cfg st raw call).res.map (·.2) = (foldX env cfg' st' raw call').res.map (·.2) := by
  obtain ⟨h1, h2⟩ := foldX_as_loop env cfg st raw call
  obtain ⟨h1', h2'⟩ := foldX_as_loop env cfg' st' raw call'
  rw [h1, h2, h1', h2', heff, loopX_eq_loopG, loopX_eq_loopG]
  obtain ⟨k1, k2⟩ := loopG_counters_irrelevant (attemptX env raw) (·.valid) (·.err) (effective cfg' call')
    ⟨st.total + 1, st.successful, st.succ, st.att⟩ ⟨st'.total + 1, st'.successful, st'.succ, st'.att⟩ []
  refine ⟨k1, ?_⟩
  cases ha : (loopG (attemptX env raw) (·.valid) (·.err) (effective cfg' call')
      ⟨st.total + 1, st.successful, st.succ, st.att⟩ []).res <;>
    cases hb : (loopG (attemptX env raw) (·.valid) (·.err) (effective cfg' call')
      ⟨st'.total + 1, st'.successful, st'.succ, st'.att⟩ []).res <;>
    rw [ha, hb] at k2 <;> simp at k2 ⊢
  · obtain ⟨k3, k4⟩ := k2; rw [k3, k4]
  · exact k2

/-- the first element of a list that does not have `P`, after elements that all have it, is unique -/
theorem first_success_unique {P : Strategy → Prop} : ∀ (pre pre' : List Strategy) (a a' : Strategy)
    (post post' : List Strategy), pre ++ a :: post = pre' ++ a' :: post' → (∀ s ∈ pre, P s) → ¬ P a →
    (∀ s ∈ pre', P s) → ¬ P a' → pre = pre' ∧ a = a' := by
  intro pre
  induction pre with
  | nil =>
    intro pre' a a' post post' h _ ha hp' _
    cases pre' with
    | nil => simp at h; exact ⟨rfl, h.1⟩
    | cons b pre'' =>
      simp at h
      exact absurd (h.1 ▸ hp' b (by simp)) ha
  | cons c pre ih =>
    intro pre' a a' post post' h hp ha hp' ha'
    cases pre' with
    | nil =>
      simp at h
      exact absurd (h.1 ▸ hp c (by simp)) ha'
    | cons b pre'' =>
      simp at h
      obtain ⟨hcb, htl⟩ := h
      obtain ⟨h1, h2⟩ := ih pre'' a a' post post' htl (fun s hs => hp s (by simp [hs])) ha
        (fun s hs => hp' s (by simp [hs])) ha'
      exact ⟨by rw [hcb, h1], h2⟩

/-- one call in a history on one Chaperone whose configuration, schema (environment) and callbacks may change between
    calls (in-place edits of the strategy list, re-assigned tables, another schema, registered callbacks) -/
inductive HistOp (J S C : Type) where
  | fold (env : Env J S C) (hk : Hooks S C) (cfg : Cfg) (raw : Text) (call : List Strategy)
  | foldX (env : Env J S C) (hk : Hooks S C) (cfg : Cfg) (raw : Text) (call : List Strategy)
  | reset

def runHistOp (st : Stats) : HistOp J S C → Stats
  | .fold env hk cfg raw call => (foldH env hk cfg st raw call).stats
  | .foldX env hk cfg raw call => (foldXH env hk cfg st raw call).stats
  | .reset => Stats.zero

def runHist (ops : List (HistOp J S C)) : Stats := ops.foldl runHistOp Stats.zero

/-! ### list objects -/

theorem Heap.construct_alias (h : Heap) (k : Nat) (l : List Strategy) (hk : h.cells[k]? = some l) (hl : l ≠ []) :
    h.construct (some k) = ⟨h.cells, h.insts ++ [(k, Stats.zero)]⟩ := by
  have : l.isEmpty = false := by cases l <;> simp_all
  simp [Heap.construct, hk, this]

theorem Heap.construct_fresh (h : Heap) (arg : Option Nat)
    (ha : arg = none ∨ ∃ k, arg = some k ∧ (h.cells[k]? = none ∨ h.cells[k]? = some [])) :
    h.construct arg = ⟨h.cells ++ [defaultStrategies], h.insts ++ [(h.cells.length, Stats.zero)]⟩ := by
  rcases ha with rfl | ⟨k, rfl, hk | hk⟩
  · simp [Heap.construct]
  · simp [Heap.construct, hk]
  · simp [Heap.construct, hk]

theorem Heap.construct_cases (h : Heap) (arg : Option Nat) :
    (∃ k l, arg = some k ∧ h.cells[k]? = some l ∧ l ≠ []) ∨
    (arg = none ∨ ∃ k, arg = some k ∧ (h.cells[k]? = none ∨ h.cells[k]? = some [])) := by
  cases arg with
  | none => exact Or.inr (Or.inl rfl)
  | some k =>
    cases hk : h.cells[k]? with
    | none => exact Or.inr (Or.inr ⟨k, rfl, Or.inl hk⟩)
    | some l =>
      by_cases hl : l = []
      · subst hl; exact Or.inr (Or.inr ⟨k, rfl, Or.inr hk⟩)
      · exact Or.inl ⟨k, l, rfl, hk, hl⟩

/-- adding an instance at the end, and list objects at the end, leaves what the earlier instances see -/
theorem Heap.extend_old (h : Heap) (hwf : h.WF) (extra : List (List Strategy)) (e : Nat × Stats) (i : Nat)
    (hi : i < h.insts.length) :
    Heap.cellOf ⟨h.cells ++ extra, h.insts ++ [e]⟩ i = h.cellOf i ∧
    Heap.cfgOf ⟨h.cells ++ extra, h.insts ++ [e]⟩ i = h.cfgOf i ∧
    ∃ k, h.cellOf i = some k ∧ k < h.cells.length := by
  have hc : Heap.cellOf ⟨h.cells ++ extra, h.insts ++ [e]⟩ i = h.cellOf i := by
    simp [Heap.cellOf, List.getElem?_append_left hi]
  have hk : h.cellOf i = some (h.insts[i]).1 := by simp [Heap.cellOf, List.getElem?_eq_getElem hi]
  have hlt : (h.insts[i]).1 < h.cells.length := hwf _ (List.getElem_mem hi)
  refine ⟨hc, ?_, _, hk, hlt⟩
  simp only [Heap.cfgOf, hc, hk, Option.bind_some]
  rw [List.getElem?_append_left hlt]

/-! ### clean input through STRICT -/

theorem foldStrictX_clean (env : Env J S C) (raw : Text) (d : J) (v : S)
    (hl : env.loads (strip raw) = .ok d) (hv : env.validate d = .ok v) :
    foldStrictX env raw = ⟨[.loads (strip raw) (.ok d), .validate d (.ok v)],
      .ok ⟨true, some v, none, 1, [], some .strict⟩⟩ := by
  unfold foldStrictX cLoads cValidate
  simp [hl, hv]

/-! ### every recorded call is a genuine call of the environment -/

/-- the result stored in a trace entry is what the environment answers for that argument -/
def Call.Faithful (env : Env J S C) : Call J S C → Prop
  | .loads t r => r = env.loads t
  | .findall i t r => r = env.findall i t
  | .sub i t r => r = env.sub i t
  | .validate d r => r = env.validate d
  | .coerce d r => r = env.coerce d

def W.Faithful (env : Env J S C) (x : W (Call J S C) α) : Prop := ∀ c ∈ x.trace, c.Faithful env

theorem W.faithful_pure (env : Env J S C) (a : α) : (Pure.pure a : W (Call J S C) α).Faithful env := by
  intro c hc; simp at hc

theorem W.faithful_bind (env : Env J S C) (x : W (Call J S C) α) (f : α → W (Call J S C) β)
    (hx : x.Faithful env) (hf : ∀ a, (f a).Faithful env) : (x >>= f).Faithful env := by
  rcases x with ⟨t, a | e⟩
  · intro c hc
    simp at hc
    rcases hc with h | h
    · exact hx c h
    · exact hf a c h
  · intro c hc
    simp at hc
    exact hx c hc

theorem W.faithful_tryCatch (env : Env J S C) (x : W (Call J S C) α) (h : Exc → Option α)
    (hx : x.Faithful env) : (W.tryCatch x h).Faithful env := by
  rcases x with ⟨t, a | e⟩
  · simpa using hx
  · intro c hc
    simp at hc
    exact hx c hc

theorem faithful_cLoads (env : Env J S C) (t : Text) : (cLoads env t).Faithful env := by
  intro c hc; simp [cLoads] at hc; subst hc; rfl
theorem faithful_cFindall (env : Env J S C) (i : Nat) (t : Text) : (cFindall env i t).Faithful env := by
  intro c hc; simp [cFindall] at hc; subst hc; rfl
theorem faithful_cSub (env : Env J S C) (i : Nat) (t : Text) : (cSub env i t).Faithful env := by
  intro c hc; simp [cSub] at hc; subst hc; rfl
theorem faithful_cValidate (env : Env J S C) (d : J) : (cValidate env d).Faithful env := by
  intro c hc; simp [cValidate] at hc; subst hc; rfl
theorem faithful_cCoerce (env : Env J S C) (d : J) : (cCoerce env d).Faithful env := by
  intro c hc; simp [cCoerce] at hc; subst hc; rfl

/-- one step of a faithfulness proof: peel the outermost combinator -/
macro "faithful_step" : tactic =>
  `(tactic| first
    | apply W.faithful_pure
    | apply faithful_cLoads
    | apply faithful_cFindall
    | apply faithful_cSub
    | apply faithful_cValidate
    | apply faithful_cCoerce
    | apply W.faithful_tryCatch
    | refine W.faithful_bind _ _ _ ?_ (fun _ => ?_)
    | assumption
    | split)

theorem faithful_tryOne (env : Env J S C) (m : Text) : (tryOne env m).Faithful env := by
  unfold tryOne; repeat faithful_step

theorem faithful_firstValid (env : Env J S C) : ∀ ms : List Text, (firstValid env ms).Faithful env := by
  intro ms
  induction ms with
  | nil => unfold firstValid; faithful_step
  | cons m ms ih =>
    unfold firstValid
    apply W.faithful_bind _ _ _ (faithful_tryOne env m)
    intro r; cases r
    · exact ih
    · apply W.faithful_pure

theorem faithful_scanPatterns (env : Env J S C) (raw : Text) : ∀ is : List Nat,
    (scanPatterns env raw is).Faithful env := by
  intro is
  induction is with
  | nil => unfold scanPatterns; faithful_step
  | cons i is ih =>
    unfold scanPatterns
    apply W.faithful_bind _ _ _ (faithful_cFindall env i raw)
    intro ms
    apply W.faithful_bind _ _ _ (faithful_firstValid env ms)
    intro r; cases r
    · exact ih
    · apply W.faithful_pure

theorem faithful_loadOne (env : Env J S C) (m : Text) : (loadOne env m).Faithful env := by
  unfold loadOne; repeat faithful_step

theorem faithful_firstLoad (env : Env J S C) : ∀ ms : List Text, (firstLoad env ms).Faithful env := by
  intro ms
  induction ms with
  | nil => unfold firstLoad; faithful_step
  | cons m ms ih =>
    unfold firstLoad
    apply W.faithful_bind _ _ _ (faithful_loadOne env m)
    intro r; cases r
    · exact ih
    · apply W.faithful_pure

theorem faithful_scanLoad (env : Env J S C) (raw : Text) : ∀ is : List Nat,
    (scanLoad env raw is).Faithful env := by
  intro is
  induction is with
  | nil => unfold scanLoad; faithful_step
  | cons i is ih =>
    unfold scanLoad
    apply W.faithful_bind _ _ _ (faithful_cFindall env i raw)
    intro ms
    apply W.faithful_bind _ _ _ (faithful_firstLoad env ms)
    intro r; cases r
    · exact ih
    · apply W.faithful_pure

theorem faithful_extractJson (env : Env J S C) (raw : Text) : (extractJson env raw).Faithful env := by
  unfold extractJson
  apply W.faithful_bind _ _ _ (faithful_scanLoad env raw env.patterns)
  intro r; cases r
  · exact faithful_loadOne env raw
  · apply W.faithful_pure

theorem faithful_repairChainX (env : Env J S C) : ∀ (is : List Nat) (t : Text) (names : List Nat),
    (repairChainX env is t names).Faithful env := by
  intro is
  induction is with
  | nil => intro t names; unfold repairChainX; faithful_step
  | cons i is ih =>
    intro t names
    unfold repairChainX
    apply W.faithful_bind _ _ _ (faithful_cSub env i t)
    intro t'
    split
    · exact ih _ _
    · exact ih _ _

theorem faithful_attemptX (env : Env J S C) (raw : Text) (s : Strategy) : (attemptX env raw s).Faithful env := by
  cases s
  · unfold attemptX foldStrictX; repeat faithful_step
  · unfold attemptX foldExtractionX
    apply W.faithful_bind _ _ _ (faithful_scanPatterns env raw env.patterns)
    intro r; rcases r with _ | ⟨i, s⟩ <;> apply W.faithful_pure
  · unfold attemptX foldLenientX
    apply W.faithful_bind _ _ _ (faithful_extractJson env raw)
    intro r; cases r
    · apply W.faithful_pure
    · split
      · apply W.faithful_pure
      · repeat faithful_step
  · unfold attemptX foldRepairX
    apply W.faithful_bind _ _ _ (faithful_repairChainX env env.repairs (strip raw) [])
    intro rn
    repeat faithful_step

theorem faithful_loopG (env : Env J S C) (att : Strategy → W (Call J S C) α) (valid : α → Bool)
    (err : α → Option ErrTag) (hatt : ∀ s, (att s).Faithful env) :
    ∀ (strs : List Strategy) (st : Stats) (atts : List AttRec), (loopG att valid err strs st atts).Faithful env := by
  intro strs
  induction strs with
  | nil => intro st atts c hc; simp [loopG] at hc
  | cons s rest ih =>
    intro st atts c hc
    unfold loopG at hc
    split at hc
    · split at hc
      · exact hatt s c hc
      · simp at hc
        rcases hc with h | h
        · exact hatt s c h
        · exact ih _ _ c h
    · simp at hc
      rcases hc with h | h
      · exact hatt s c h
      · exact ih _ _ c h

theorem faithful_foldX (env : Env J S C) (cfg : Cfg) (st : Stats) (raw : Text) (call : List Strategy) :
    (foldX env cfg st raw call).Faithful env := by
  unfold foldX
  apply W.faithful_bind
  · rw [loopX_eq_loopG]
    exact faithful_loopG env _ _ _ (faithful_attemptX env raw) _ _ _
  · intro o
    split <;> apply W.faithful_pure

/-! ### statistics -/

/-- what `get_statistics()` should always satisfy -/
def Stats.Consistent (st : Stats) : Prop :=
  st.successful = st.succ .strict + st.succ .extraction + st.succ .lenient + st.succ .repair ∧
  (∀ s, st.succ s ≤ st.att s) ∧ st.successful ≤ st.total

theorem bump_ge (f : Strategy → Nat) (s x : Strategy) : f x ≤ bump f s x := by
  unfold bump; split <;> omega

theorem bump_self (f : Strategy → Nat) (s : Strategy) : bump f s s = f s + 1 := by simp [bump]

theorem bumpAll_ge : ∀ (l : List Strategy) (f : Strategy → Nat) (x : Strategy), f x ≤ bumpAll f l x := by
  intro l
  induction l with
  | nil => intro f x; exact Nat.le_refl _
  | cons a l ih =>
    intro f x
    have h1 := bump_ge f a x
    have h2 := ih (bump f a) x
    simp only [bumpAll, List.foldl_cons] at h2 ⊢
    omega

theorem bumpAll_mem : ∀ (l : List Strategy) (f : Strategy → Nat) (s : Strategy), s ∈ l → f s + 1 ≤ bumpAll f l s := by
  intro l
  induction l with
  | nil => intro f s h; simp at h
  | cons a l ih =>
    intro f s h
    simp only [bumpAll, List.foldl_cons]
    rcases List.mem_cons.mp h with rfl | h'
    · have h2 := bumpAll_ge l (bump f s) s
      simp only [bumpAll] at h2
      rw [bump_self] at h2
      exact h2
    · have h1 := bump_ge f a s
      have h2 := ih (bump f a) s h'
      simp only [bumpAll] at h2
      omega

theorem bump_sum (f : Strategy → Nat) (s : Strategy) :
    bump f s .strict + bump f s .extraction + bump f s .lenient + bump f s .repair =
      f .strict + f .extraction + f .lenient + f .repair + 1 := by
  cases s <;> simp [bump] <;> omega

/-- a history of calls on one Chaperone -/
inductive Op where
  | fold (raw : Text) (call : List Strategy)
  | foldX (raw : Text) (call : List Strategy)
  | reset

def statsOf (x : W κ (Stats × β)) (st : Stats) : Stats :=
  match x.res with
  | .ok p => p.1
  | .raise _ => st

def runOp (env : Env J S C) (cfg : Cfg) (st : Stats) : Op → Stats
  | .fold raw call => statsOf (fold env cfg st raw call) st
  | .foldX raw call => statsOf (foldX env cfg st raw call) st
  | .reset => Stats.zero

def runOps (env : Env J S C) (cfg : Cfg) (ops : List Op) : Stats := ops.foldl (runOp env cfg) Stats.zero

theorem consistent_fail (st : Stats) (strs : List Strategy) (h : st.Consistent) :
    Stats.Consistent ⟨st.total + 1, st.successful, st.succ, bumpAll st.att strs⟩ := by
  obtain ⟨h1, h2, h3⟩ := h
  refine ⟨h1, ?_, by simp; omega⟩
  intro s
  have := bumpAll_ge strs st.att s
  have := h2 s
  simp; omega

theorem consistent_hit (st : Stats) (pre : List Strategy) (s : Strategy) (h : st.Consistent) :
    Stats.Consistent ⟨st.total + 1, st.successful + 1, bump st.succ s, bumpAll st.att (pre ++ [s])⟩ := by
  obtain ⟨h1, h2, h3⟩ := h
  refine ⟨by simp [bump_sum]; omega, ?_, by simp; omega⟩
  intro x
  simp only
  by_cases hx : x = s
  · subst hx
    have := bumpAll_mem (pre ++ [x]) st.att x (by simp)
    have := h2 x
    rw [bump_self]; omega
  · have := bumpAll_ge (pre ++ [s]) st.att x
    have := h2 x
    simp [bump, hx]; omega

theorem runOp_consistent (env : Env J S C) (cfg : Cfg) (st : Stats) (op : Op) (h : st.Consistent) :
    (runOp env cfg st op).Consistent := by
  cases op with
  | reset => exact ⟨rfl, fun _ => Nat.le_refl _, Nat.le_refl _⟩
  | fold raw call =>
    rcases foldBoth_spec env cfg st raw call with ⟨tr, _, _, hf⟩ | ⟨tpre, pre, s, post, x, _, _, _, _, _, hf⟩
    · simp only [runOp, statsOf, hf]; exact consistent_fail st _ h
    · simp only [runOp, statsOf, hf]; exact consistent_hit st pre s h
  | foldX raw call =>
    rcases foldBoth_spec env cfg st raw call with ⟨tr, _, hf, _⟩ | ⟨tpre, pre, s, post, x, _, _, _, _, hf, _⟩
    · simp only [runOp, statsOf, hf]; exact consistent_fail st _ h
    · simp only [runOp, statsOf, hf]; exact consistent_hit st pre s h

/-! ### the healing loop -/

theorem foldX_total (env : Env J S C) (cfg : Cfg) (st : Stats) (raw : Text) (call : List Strategy) :
    ∃ p, (foldX env cfg st raw call).res = .ok p := by
  rcases foldBoth_spec env cfg st raw call with ⟨tr, _, hx, _⟩ | ⟨tpre, pre, s, post, x, _, _, _, _, hx, _⟩
  · exact ⟨_, by rw [hx]⟩
  · exact ⟨_, by rw [hx]⟩

/-- the failed attempts numbered k, k+1, … -/
def failedAtts (k n : Nat) : List HealAtt := (List.range' k n).map fun i => ⟨i, false, 0⟩

/-- what the healing loop does with a valid fold obtained at attempt `j` -/
def healedFold (decay : Rat) (j : Nat) (r : FoldedX S C) : FoldedX S C :=
  ⟨r.valid, r.struct, r.raw, r.err, r.attempts, ratMin r.confidence (healCeiling decay j), r.coercions, r.strategyUsed⟩

/-- Complete description of the healing loop: it never raises; either every attempt misfolded (one failed
    record per attempt, nothing returned), or the result is the first valid fold, at some attempt `j` within the
    budget, with its confidence capped by the ceiling of that attempt. -/
theorem healFrom_spec (env : Env J S C) (cfg : Cfg) (decay : Rat) (gen : Nat → Text) :
    ∀ (fuel k : Nat) (st : Stats) (atts : List HealAtt),
    ∃ st' h, (healFrom env cfg decay gen fuel k st atts).res = .ok (st', h) ∧
      ((h.outcome = .degraded ∧ h.folded = none ∧ h.finalConfidence = 0 ∧ h.tagged = true ∧
          h.attempts = atts ++ failedAtts k fuel) ∨
       (∃ j stj stj' r, k ≤ j ∧ j < k + fuel ∧ (foldX env cfg stj (gen j) []).res = .ok (stj', r) ∧ r.valid = true ∧
          h.folded = some (healedFold decay j r) ∧
          h.finalConfidence = ratMin r.confidence (healCeiling decay j) ∧ h.tagged = false ∧
          h.outcome = (if j = 0 then .validFirstTry else .healed) ∧
          h.attempts = atts ++ failedAtts k (j - k) ++ [⟨j, true, healCeiling decay j⟩])) := by
  intro fuel
  induction fuel with
  | zero =>
    intro k st atts
    exact ⟨st, _, rfl, Or.inl ⟨rfl, rfl, rfl, rfl, by simp [failedAtts]⟩⟩
  | succ fuel ih =>
    intro k st atts
    obtain ⟨p, hp⟩ := foldX_total env cfg st (gen k) []
    rcases hx : foldX env cfg st (gen k) [] with ⟨t, res⟩
    rw [hx] at hp
    simp at hp
    subst hp
    unfold healFrom
    rw [hx]
    by_cases hv : p.2.valid = true
    · refine ⟨p.1, ⟨if k = 0 then .validFirstTry else .healed, some (healedFold decay k p.2),
          atts ++ [⟨k, true, healCeiling decay k⟩], ratMin p.2.confidence (healCeiling decay k), false⟩,
        by simp [hv, healedFold],
        Or.inr ⟨k, st, p.1, p.2, Nat.le_refl _, by omega, by rw [hx], hv, rfl, rfl, rfl, rfl, ?_⟩⟩
      simp [failedAtts]
    · obtain ⟨st', h, hres, hcase⟩ := ih (k + 1) p.1 (atts ++ [⟨k, false, 0⟩])
      refine ⟨st', h, by simp [hv, hres], ?_⟩
      rcases hcase with ⟨h1, h2, h3, h4, h5⟩ | ⟨j, stj, stj', r, hkj, hjf, hfold, hrv, h2, h3, h4, h5, h6⟩
      · refine Or.inl ⟨h1, h2, h3, h4, ?_⟩
        rw [h5]
        simp [failedAtts, List.range'_succ]
      · refine Or.inr ⟨j, stj, stj', r, by omega, by omega, hfold, hrv, h2, h3, h4, h5, ?_⟩
        rw [h6]
        have hjk : j - k = (j - (k + 1)) + 1 := by omega
        rw [hjk]
        simp [failedAtts, List.range'_succ]

theorem healCeiling_nonneg (decay : Rat) (k : Nat) : 0 ≤ healCeiling decay k := by
  unfold healCeiling ratMax
  split <;> grind

theorem healCeiling_zero (decay : Rat) : healCeiling decay 0 = 1 := by
  unfold healCeiling ratMax
  simp
  grind

/-! ### the healing loop over an instance with callbacks -/

/-- without callbacks `fold_enhanced` with callbacks is `fold_enhanced` -/
theorem foldXH_absent (env : Env J S C) (cfg : Cfg) (st : Stats) (raw : Text) (call : List Strategy) :
    ∃ st' x, foldX env cfg st raw call = ⟨(foldX env cfg st raw call).trace, .ok (st', x)⟩ ∧
      foldXH env Hooks.absent cfg st raw call = ⟨st', [], (foldX env cfg st raw call).trace, .ok x⟩ := by
  obtain ⟨tr, st', p, x, hp, hx, _, h1, h2, h3, h4, hcase⟩ :=
    foldHBoth_spec env Hooks.absent cfg st raw raw call (Or.inl ⟨rfl, rfl⟩)
  have hxr : x.raw = raw := by
    rcases foldBoth_spec env cfg st raw call with ⟨tr', _, hx', _⟩ | ⟨tpre, pre, s, post, x', _, _, _, _, hx', _⟩
    · rw [hx] at hx'; simp at hx'; obtain ⟨_, _, rfl⟩ := hx'; rfl
    · rw [hx] at hx'; simp at hx'; obtain ⟨_, _, rfl⟩ := hx'; rfl
  have hxe : x.echo raw = x := by cases x; simp [FoldedX.echo] at hxr ⊢; exact hxr.symm
  have hres : (foldXH env Hooks.absent cfg st raw call).hooks = [] ∧
      (foldXH env Hooks.absent cfg st raw call).res = .ok x := by
    rcases hcase with ⟨_, _, b, _, d⟩ | ⟨_, _, ⟨_, _, b, _, d⟩ | ⟨g, hg, _⟩⟩
    · rw [hxe] at d; exact ⟨b, d⟩
    · rw [hxe] at d; exact ⟨b, d⟩
    · cases hg
  obtain ⟨b, d⟩ := hres
  refine ⟨st', x, by rw [hx], ?_⟩
  rw [hx]
  cases hf : foldXH env Hooks.absent cfg st raw call
  rw [hf] at h2 h4 b d; simp at h2 h4 b d; subst h2 h4 b d; rfl

/-- The loop over an instance without callbacks is the loop of the section above (same result, same counters, same
    library calls, no callback invoked). -/
theorem healHFrom_absent (env : Env J S C) (cfg : Cfg) (decay : Rat) (gen : Nat → Text) :
    ∀ (fuel k : Nat) (st : Stats) (atts : List HealAtt) (hs : List (HookCall S C)) (tr : Tr J S C),
    ∃ st' h, (healFrom env cfg decay gen fuel k st atts).res = .ok (st', h) ∧
      healHFrom env Hooks.absent cfg decay gen fuel k st atts hs tr =
        ⟨st', hs, tr ++ (healFrom env cfg decay gen fuel k st atts).trace, .ok h⟩ := by
  intro fuel
  induction fuel with
  | zero => intro k st atts hs tr; exact ⟨st, _, rfl, by simp [healHFrom, healFrom, pure, W.pure]⟩
  | succ fuel ih =>
    intro k st atts hs tr
    obtain ⟨st1, x, hx, hxh⟩ := foldXH_absent env cfg st (gen k) []
    unfold healHFrom healFrom
    rw [hxh]
    by_cases hv : x.valid = true
    · refine ⟨st1, ⟨if k = 0 then .validFirstTry else .healed,
          some ⟨x.valid, x.struct, x.raw, x.err, x.attempts, ratMin x.confidence (healCeiling decay k), x.coercions,
            x.strategyUsed⟩,
          atts ++ [⟨k, true, healCeiling decay k⟩], ratMin x.confidence (healCeiling decay k), false⟩, ?_, ?_⟩
      · rw [hx]; simp [bind, W.bind, hv, pure, W.pure]
      · rw [hx]; simp [bind, W.bind, hv, pure, W.pure]
    · obtain ⟨st', h, hres, heq⟩ := ih (k + 1) st1 (atts ++ [⟨k, false, 0⟩]) (hs ++ []) (tr ++ (foldX env cfg st (gen k) []).trace)
      refine ⟨st', h, ?_, ?_⟩
      · rw [hx]; simp [bind, W.bind, hv, hres]
      · rw [hx]; simp [bind, W.bind, hv]
        simp at heq
        rw [heq]

/-- Complete description of the healing loop over an instance with callbacks: every attempt misfolded (degraded,
    nothing returned), or the result is the first valid `fold_enhanced` report (attempt `j`, confidence capped by the
    ceiling of that attempt), or an exception left `fold_enhanced` at some attempt `j` and that exception leaves `heal`. -/
theorem healHFrom_spec (env : Env J S C) (hk : Hooks S C) (cfg : Cfg) (decay : Rat) (gen : Nat → Text) :
    ∀ (fuel k : Nat) (st : Stats) (atts : List HealAtt) (hs : List (HookCall S C)) (tr : Tr J S C),
    (∃ h, (healHFrom env hk cfg decay gen fuel k st atts hs tr).res = .ok h ∧
        h.outcome = .degraded ∧ h.folded = none ∧ h.finalConfidence = 0 ∧ h.tagged = true ∧
        h.attempts = atts ++ failedAtts k fuel) ∨
    (∃ h j stj r, (healHFrom env hk cfg decay gen fuel k st atts hs tr).res = .ok h ∧ k ≤ j ∧ j < k + fuel ∧
        (foldXH env hk cfg stj (gen j) []).res = .ok r ∧ r.valid = true ∧
        h.folded = some (healedFold decay j r) ∧
        h.finalConfidence = ratMin r.confidence (healCeiling decay j) ∧ h.tagged = false ∧
        h.outcome = (if j = 0 then .validFirstTry else .healed) ∧
        h.attempts = atts ++ failedAtts k (j - k) ++ [⟨j, true, healCeiling decay j⟩]) ∨
    (∃ e j stj, (healHFrom env hk cfg decay gen fuel k st atts hs tr).res = .raise e ∧ k ≤ j ∧ j < k + fuel ∧
        (foldXH env hk cfg stj (gen j) []).res = .raise e) := by
  intro fuel
  induction fuel with
  | zero =>
    intro k st atts hs tr
    exact Or.inl ⟨_, rfl, rfl, rfl, rfl, rfl, by simp [failedAtts]⟩
  | succ fuel ih =>
    intro k st atts hs tr
    unfold healHFrom
    rcases hx : foldXH env hk cfg st (gen k) [] with ⟨st1, hs1, tr1, res⟩
    cases res with
    | raise e =>
      exact Or.inr (Or.inr ⟨e, k, st, rfl, Nat.le_refl _, by omega, by rw [hx]⟩)
    | ok r =>
      by_cases hv : r.valid = true
      · refine Or.inr (Or.inl ⟨_, k, st, r, by simp [hv]; rfl, Nat.le_refl _, by omega, by rw [hx], hv, by simp [healedFold, hv], rfl, rfl, rfl, ?_⟩)
        simp [failedAtts]
      · simp only [hv]
        rcases ih (k + 1) st1 (atts ++ [⟨k, false, 0⟩]) (hs ++ hs1) (tr ++ tr1) with
          ⟨h, h0, h1, h2, h3, h4, h5⟩ | ⟨h, j, stj, r', h0, hkj, hjf, hfold, hrv, h2, h3, h4, h5, h6⟩ |
          ⟨e, j, stj, h0, hkj, hjf, hfold⟩
        · refine Or.inl ⟨h, by simpa using h0, h1, h2, h3, h4, ?_⟩
          rw [h5]
          simp [failedAtts, List.range'_succ]
        · refine Or.inr (Or.inl ⟨h, j, stj, r', by simpa using h0, by omega, by omega, hfold, hrv, h2, h3, h4, h5, ?_⟩)
          rw [h6]
          have hjk : j - k = (j - (k + 1)) + 1 := by omega
          rw [hjk]
          simp [failedAtts, List.range'_succ]
        · exact Or.inr (Or.inr ⟨e, j, stj, by simpa using h0, by omega, by omega, hfold⟩)

/-! ### `fold_enhanced` with callbacks does not depend on the counters -/

/-- the callbacks `fold_enhanced` invokes, given the text fed and the report `x` of the fold on that text -/
def xhHooks (hk : Hooks S C) (raw t : Text) (x : FoldedX S C) : List (HookCall S C) :=
  preHooks hk raw t ++
    (if x.valid then [] else
      match hk.onMisfold with
      | none => []
      | some g => [.misfold (x.echo raw) (g (x.echo raw))])

/-- what `fold_enhanced` returns / raises, given the report `x` of the fold on the text fed -/
def xhRes (hk : Hooks S C) (raw : Text) (x : FoldedX S C) : Res (FoldedX S C) :=
  if x.valid then .ok (x.echo raw) else
    match hk.onMisfold with
    | none => .ok (x.echo raw)
    | some g => match g (x.echo raw) with | .ok _ => .ok (x.echo raw) | .raise e => .raise e

theorem foldXH_determined (env : Env J S C) (hk : Hooks S C) (cfg : Cfg) (st : Stats) (raw t : Text)
    (call : List Strategy) (hfeeds : hk.Feeds raw t) :
    ∃ st' x, foldX env cfg st t call = ⟨(foldX env cfg st t call).trace, .ok (st', x)⟩ ∧
      (foldXH env hk cfg st raw call).stats = st' ∧
      (foldXH env hk cfg st raw call).trace = (foldX env cfg st t call).trace ∧
      (foldXH env hk cfg st raw call).hooks = xhHooks hk raw t x ∧
      (foldXH env hk cfg st raw call).res = xhRes hk raw x := by
  obtain ⟨tr, st', p, x, hp, hx, _, h1, h2, h3, h4, hcase⟩ := foldHBoth_spec env hk cfg st raw t call hfeeds
  refine ⟨st', x, by rw [hx], h2, by rw [h4, hx], ?_, ?_⟩
  · rcases hcase with ⟨hv, _, b, _, _⟩ | ⟨hv, _, ⟨hn, _, b, _, _⟩ | ⟨g, hg, _, b, _, _⟩⟩
    · rw [b]; simp [xhHooks, hv]
    · rw [b]; simp [xhHooks, hv, hn]
    · rw [b]; simp [xhHooks, hv, hg]
  · rcases hcase with ⟨hv, _, _, _, d⟩ | ⟨hv, _, ⟨hn, _, _, _, d⟩ | ⟨g, hg, _, _, _, d⟩⟩
    · rw [d]; simp [xhRes, hv]
    · rw [d]; simp [xhRes, hv, hn]
    · rw [d]; simp [xhRes, hv, hg]

/-- `fold_enhanced` on an instance with callbacks: the callbacks invoked, the library calls made and the report
    (or the exception) do not depend on the counters. -/
theorem foldXH_counters_irrelevant (env : Env J S C) (hk : Hooks S C) (cfg : Cfg) (st st' : Stats) (raw : Text)
    (call : List Strategy) :
    (foldXH env hk cfg st raw call).hooks = (foldXH env hk cfg st' raw call).hooks ∧
    (foldXH env hk cfg st raw call).trace = (foldXH env hk cfg st' raw call).trace ∧
    (foldXH env hk cfg st raw call).res = (foldXH env hk cfg st' raw call).res := by
  rcases foldH_cases env hk cfg st raw call with ⟨f, e, hp, hr, _, hXH⟩ | ⟨t, hfeeds, _, _⟩
  · rcases foldH_cases env hk cfg st' raw call with ⟨f', e', hp', hr', _, hXH'⟩ | ⟨t', hfeeds', _, _⟩
    · rw [hp] at hp'; cases hp'; rw [hr] at hr'; cases hr'
      rw [hXH, hXH']; exact ⟨rfl, rfl, rfl⟩
    · exact absurd hr (hfeeds'.not_raise f e hp)
  · obtain ⟨s1, x, hx, _, htr, hh, hres⟩ := foldXH_determined env hk cfg st raw t call hfeeds
    obtain ⟨s1', x', hx', _, htr', hh', hres'⟩ := foldXH_determined env hk cfg st' raw t call hfeeds
    obtain ⟨k1, k2⟩ := foldX_counters_irrelevant env cfg cfg st st' t call call rfl
    have hxx : x = x' := by
      rw [hx, hx'] at k2; simpa [Res.map] using k2
    subst hxx
    exact ⟨by rw [hh, hh'], by rw [htr, htr', k1], by rw [hres, hres']⟩

/-! ### the coercion helper -/

section Coercion
variable {K V : Type} [DecidableEq K]

theorem lookupKey_mem (d : List (K × V)) (k : K) (v : V) (h : lookupKey d k = some v) : (k, v) ∈ d := by
  unfold lookupKey at h
  cases hf : d.find? (fun e => e.1 == k) with
  | none => simp [hf] at h
  | some e =>
    simp [hf] at h
    have hp := List.find?_some hf
    have hm := List.mem_of_find?_eq_some hf
    simp at hp
    subst h
    rw [← hp]
    exact hm

theorem setKey_keys (d : List (K × V)) (k : K) (v : V) : (setKey d k v).map (·.1) = d.map (·.1) := by
  unfold setKey
  induction d with
  | nil => rfl
  | cons e d ih =>
    simp only [List.map_cons, ih]
    by_cases h : e.1 = k <;> simp [h]

theorem mem_setKey (d : List (K × V)) (k : K) (v : V) (e : K × V) (h : e ∈ setKey d k v) :
    e ∈ d ∨ (e = (k, v) ∧ ∃ w, (k, w) ∈ d) := by
  unfold setKey at h
  obtain ⟨e0, he0, rfl⟩ := List.mem_map.mp h
  by_cases hk : e0.1 = k
  · right
    simp [hk]
    exact ⟨e0.2, by rw [← hk]; exact he0⟩
  · left
    simpa [hk] using he0

/-- `v'` is `v`, or arises from `v` by conversions of the coercion table that the schema allows for key `k` -/
inductive FromConv (c : CEnv J K V) (k : K) : V → V → Prop where
  | refl (v : V) : FromConv c k v v
  | step {v w w' : V} (a : Ann) (cv : Conv) : FromConv c k v w → (k, a) ∈ c.fields →
      convert c a w = some (w', cv) → FromConv c k v w'

omit [DecidableEq K] in
theorem FromConv.trans {c : CEnv J K V} {k : K} {u v w : V} (h1 : FromConv c k u v) (h2 : FromConv c k v w) :
    FromConv c k u w := by
  induction h2 with
  | refl => exact h1
  | step a cv _ hmem hconv ih => exact FromConv.step a cv ih hmem hconv

/-- what a label of `coercions_applied` certifies -/
def LabelOk (c : CEnv J K V) (l : K × Conv) : Prop :=
  ∃ a v v', (l.1, a) ∈ c.fields ∧ convert c a v = some (v', l.2)

theorem coerceFields_spec (c : CEnv J K V) : ∀ (fs : List (K × Ann)) (d : List (K × V)) (ls : List (K × Conv)),
    (∀ x ∈ fs, x ∈ c.fields) →
    (coerceFields c fs d ls).1.map (·.1) = d.map (·.1) ∧
    (∀ e ∈ (coerceFields c fs d ls).1, ∃ v, (e.1, v) ∈ d ∧ FromConv c e.1 v e.2) ∧
    (∃ new, (coerceFields c fs d ls).2 = ls ++ new ∧ new.length ≤ fs.length ∧ ∀ l ∈ new, LabelOk c l) := by
  intro fs
  induction fs with
  | nil =>
    intro d ls _
    refine ⟨rfl, ?_, [], by simp [coerceFields], Nat.le_refl _, by simp⟩
    intro e he
    exact ⟨e.2, he, FromConv.refl _⟩
  | cons f fs ih =>
    intro d ls hsub
    obtain ⟨k, a⟩ := f
    have hsub' : ∀ x ∈ fs, x ∈ c.fields := fun x hx => hsub x (List.mem_cons_of_mem _ hx)
    have hka : (k, a) ∈ c.fields := hsub (k, a) (List.mem_cons_self ..)
    cases hl : lookupKey d k with
    | none =>
      rw [show coerceFields c ((k, a) :: fs) d ls = coerceFields c fs d ls from by simp [coerceFields, hl]]
      obtain ⟨h1, h2, new, h3, h4, h5⟩ := ih d ls hsub'
      exact ⟨h1, h2, new, h3, by simp; omega, h5⟩
    | some v =>
      cases hc : convert c a v with
      | none =>
        rw [show coerceFields c ((k, a) :: fs) d ls = coerceFields c fs d ls from by simp [coerceFields, hl, hc]]
        obtain ⟨h1, h2, new, h3, h4, h5⟩ := ih d ls hsub'
        exact ⟨h1, h2, new, h3, by simp; omega, h5⟩
      | some r =>
        obtain ⟨v', cv⟩ := r
        rw [show coerceFields c ((k, a) :: fs) d ls = coerceFields c fs (setKey d k v') (ls ++ [(k, cv)]) from by
          simp [coerceFields, hl, hc]]
        obtain ⟨h1, h2, new, h3, h4, h5⟩ := ih (setKey d k v') (ls ++ [(k, cv)]) hsub'
        refine ⟨by simpa [setKey_keys] using h1, ?_, (k, cv) :: new, by simp [h3], by simp; omega, ?_⟩
        · intro e he
          obtain ⟨w, hw, hfc⟩ := h2 e he
          rcases mem_setKey d k v' (e.1, w) hw with hin | ⟨heq, _⟩
          · exact ⟨w, hin, hfc⟩
          · have hk : e.1 = k := by simpa using congrArg Prod.fst heq
            have hwv : w = v' := by simpa using congrArg Prod.snd heq
            subst hwv
            refine ⟨v, by rw [hk]; exact lookupKey_mem d k v hl, ?_⟩
            rw [hk] at hfc ⊢
            exact FromConv.trans (FromConv.step a cv (FromConv.refl v) hka hc) hfc
        · intro l hl'
          rcases List.mem_cons.mp hl' with rfl | h
          · exact ⟨a, v, v', hka, hc⟩
          · exact h5 l h

/-- With distinct field names (pydantic's `model_fields` is a dict) every value is converted at most once. -/
theorem coerceFields_once (c : CEnv J K V) : ∀ (fs : List (K × Ann)) (d : List (K × V)) (ls : List (K × Conv)),
    (fs.map (·.1)).Nodup →
    ∀ e ∈ (coerceFields c fs d ls).1, ∃ v, (e.1, v) ∈ d ∧
      (e.2 = v ∨ ∃ a cv, (e.1, a) ∈ fs ∧ convert c a v = some (e.2, cv)) := by
  intro fs
  induction fs with
  | nil => intro d ls _ e he; exact ⟨e.2, he, Or.inl rfl⟩
  | cons f fs ih =>
    intro d ls hnd e he
    obtain ⟨k, a⟩ := f
    have hnd' : (fs.map (·.1)).Nodup := (List.nodup_cons.mp hnd).2
    have hk : ∀ a', (k, a') ∉ fs := by
      intro a' hmem
      exact (List.nodup_cons.mp hnd).1 (List.mem_map.mpr ⟨(k, a'), hmem, rfl⟩)
    cases hl : lookupKey d k with
    | none =>
      rw [show coerceFields c ((k, a) :: fs) d ls = coerceFields c fs d ls from by simp [coerceFields, hl]] at he
      obtain ⟨v, hv, h⟩ := ih d ls hnd' e he
      refine ⟨v, hv, h.imp id ?_⟩
      rintro ⟨a', cv, hm, hc⟩
      exact ⟨a', cv, List.mem_cons_of_mem _ hm, hc⟩
    | some v0 =>
      cases hc : convert c a v0 with
      | none =>
        rw [show coerceFields c ((k, a) :: fs) d ls = coerceFields c fs d ls from by
          simp [coerceFields, hl, hc]] at he
        obtain ⟨v, hv, h⟩ := ih d ls hnd' e he
        refine ⟨v, hv, h.imp id ?_⟩
        rintro ⟨a', cv, hm, hc'⟩
        exact ⟨a', cv, List.mem_cons_of_mem _ hm, hc'⟩
      | some r =>
        obtain ⟨v', cv⟩ := r
        rw [show coerceFields c ((k, a) :: fs) d ls = coerceFields c fs (setKey d k v') (ls ++ [(k, cv)]) from by
          simp [coerceFields, hl, hc]] at he
        obtain ⟨w, hw, h⟩ := ih (setKey d k v') (ls ++ [(k, cv)]) hnd' e he
        rcases mem_setKey d k v' (e.1, w) hw with hin | ⟨heq, _⟩
        · refine ⟨w, hin, h.imp id ?_⟩
          rintro ⟨a', cv', hm, hc'⟩
          exact ⟨a', cv', List.mem_cons_of_mem _ hm, hc'⟩
        · have hek : e.1 = k := by simpa using congrArg Prod.fst heq
          have hwv : w = v' := by simpa using congrArg Prod.snd heq
          subst hwv
          refine ⟨v0, by rw [hek]; exact lookupKey_mem d k v0 hl, ?_⟩
          rcases h with h | ⟨a', cv', hm, _⟩
          · right
            exact ⟨a, cv, by rw [hek]; exact List.mem_cons_self .., by rw [h]; exact hc⟩
          · rw [hek] at hm
            exact absurd hm (hk a')

/-- Complete description of `_coerce_types_tracked`: a list is returned untouched; a scalar makes `dict()` raise;
    for a dict the result has the same keys in the same order, every value is the old value of that key or a
    table conversion of it that the schema's annotation for that key allows, and every label names a conversion
    that was applied. -/
theorem coerceModel_spec (c : CEnv J K V) (j : J) :
    (c.isList j = true ∧ coerceModel c j = .ok (j, [])) ∨
    (c.isList j = false ∧ ∃ e, c.toDict j = .raise e ∧ coerceModel c j = .raise e) ∨
    (c.isList j = false ∧ ∃ d out ls, c.toDict j = .ok d ∧ coerceModel c j = .ok (c.ofDict out, ls) ∧
      out.map (·.1) = d.map (·.1) ∧ (∀ e ∈ out, ∃ v, (e.1, v) ∈ d ∧ FromConv c e.1 v e.2) ∧
      ls.length ≤ c.fields.length ∧ ∀ l ∈ ls, LabelOk c l) := by
  unfold coerceModel
  cases hl : c.isList j with
  | true => left; simp
  | false =>
    right
    cases hd : c.toDict j with
    | raise e => left; exact ⟨rfl, e, rfl, by simp⟩
    | ok d =>
      right
      obtain ⟨h1, h2, new, h3, h4, h5⟩ := coerceFields_spec c c.fields d [] (fun _ h => h)
      refine ⟨rfl, d, (coerceFields c c.fields d []).1, (coerceFields c c.fields d []).2, rfl, by simp, h1, h2, ?_, ?_⟩
      · rw [h3]; simpa using h4
      · rw [h3]; simpa using h5

end Coercion

/-! ### `str.strip()` -/

theorem dropWhile_head_not (p : Nat → Bool) (l : List Nat) (c : Nat) (h : (l.dropWhile p).head? = some c) : p c = false := by
  induction l with
  | nil => simp at h
  | cons x xs ih =>
    rw [List.dropWhile_cons] at h
    split at h
    · exact ih h
    · simp at h; subst h; simp_all

theorem takeWhile_all (p : Nat → Bool) (l : List Nat) : ∀ c ∈ l.takeWhile p, p c = true := by
  induction l with
  | nil => simp
  | cons x xs ih =>
    intro c hc
    rw [List.takeWhile_cons] at hc
    split at hc
    · simp at hc
      rcases hc with rfl | hc
      · assumption
      · exact ih c hc
    · simp at hc

theorem strip_spec (t : Text) :
    ∃ a b, t = a ++ strip t ++ b ∧ (∀ c ∈ a, isSpace c = true) ∧ (∀ c ∈ b, isSpace c = true) ∧
      (∀ c, (strip t).head? = some c → isSpace c = false) ∧ (∀ c, (strip t).getLast? = some c → isSpace c = false) := by
  have h1 : t = t.takeWhile isSpace ++ t.dropWhile isSpace := (List.takeWhile_append_dropWhile).symm
  have h2 : (t.dropWhile isSpace).reverse = (t.dropWhile isSpace).reverse.takeWhile isSpace ++
      (t.dropWhile isSpace).reverse.dropWhile isSpace := (List.takeWhile_append_dropWhile).symm
  have h3 : t.dropWhile isSpace = strip t ++ ((t.dropWhile isSpace).reverse.takeWhile isSpace).reverse := by
    have := congrArg List.reverse h2
    rw [List.reverse_reverse, List.reverse_append] at this
    exact this
  refine ⟨t.takeWhile isSpace, ((t.dropWhile isSpace).reverse.takeWhile isSpace).reverse, ?_, ?_, ?_, ?_, ?_⟩
  · rw [List.append_assoc, ← h3]; exact h1
  · intro c hc; exact takeWhile_all _ _ c hc
  · intro c hc; exact takeWhile_all _ _ c (List.mem_reverse.mp hc)
  · intro c hc
    -- the head of `strip t` is the head of `t.dropWhile isSpace`
    apply dropWhile_head_not isSpace t c
    rw [h3]
    cases hs : strip t with
    | nil => rw [hs] at hc; simp at hc
    | cons x xs => rw [hs] at hc; simp at hc; subst hc; simp
  · intro c hc
    unfold strip at hc
    rw [List.getLast?_reverse] at hc
    exact dropWhile_head_not isSpace _ c hc

theorem strip_keeps_head (c : Nat) (t : Text) (hc : isSpace c = false) : (strip (c :: t)).head? = some c := by
  obtain ⟨a, b, h, ha, hb, _, _⟩ := strip_spec (c :: t)
  cases a with
  | nil =>
    cases hs : strip (c :: t) with
    | nil =>
      rw [hs] at h
      simp at h
      have := hb c (by rw [← h]; simp)
      simp [hc] at this
    | cons x xs => rw [hs] at h; simp at h; simp [h.1]
  | cons x xs =>
    simp at h
    have := ha x (by simp)
    rw [← h.1] at this
    simp [hc] at this


end Operon.Chaperone
