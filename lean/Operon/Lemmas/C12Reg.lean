import Operon.Model.Ribosome
/-!
# C12 — the registry of a live instance (helper lemmas)

* `lookup_updKey`: `dict.__setitem__` then `dict.__getitem__`;
* `lookup_regRun`: after any history of registrations a key resolves to the last sequence written under it;
* `translate_reg_ext`: a render reads the registry only through `lookup` — two registries that resolve every name alike
  give the same result (text, warnings, error), for every template, context, mode and include depth.
-/
namespace Operon.Ribosome

theorem lookup_append_single {α : Type} (k k' : Str) (v : α) (ts : List (Str × α)) :
    lookup k (ts ++ [(k', v)]) = match lookup k ts with
      | some x => some x
      | none => if k' = k then some v else none := by
  induction ts with
  | nil => simp [lookup]
  | cons p r ih =>
    obtain ⟨a, b⟩ := p
    by_cases h : a = k <;> simp [lookup, h, ih]

theorem any_key_eq_isSome {α : Type} (k : Str) (ts : List (Str × α)) :
    ts.any (fun p => p.1 == k) = (lookup k ts).isSome := by
  induction ts with
  | nil => simp [lookup]
  | cons p r ih =>
    obtain ⟨a, b⟩ := p
    by_cases h : a = k <;> simp [lookup, h, ih]

theorem lookup_map_upd (k k' : Str) (v : Str) (ts : List (Str × Str)) :
    lookup k (ts.map (fun p => if p.1 = k' then (k', v) else p))
      = if k' = k then (lookup k ts).map (fun _ => v) else lookup k ts := by
  induction ts with
  | nil => simp [lookup]
  | cons p r ih =>
    obtain ⟨a, b⟩ := p
    by_cases h1 : a = k' <;> by_cases h2 : k' = k <;> by_cases h3 : a = k <;> simp_all [lookup]

/-- `d[k'] = v` then `d[k]` -/
theorem lookup_updKey (k k' v : Str) (ts : List (Str × Str)) :
    lookup k (updKey ts k' v) = if k' = k then some v else lookup k ts := by
  unfold updKey
  rw [any_key_eq_isSome]
  by_cases h : (lookup k' ts).isSome
  · rw [if_pos h, lookup_map_upd]
    by_cases h2 : k' = k
    · subst h2
      cases hl : lookup k' ts with
      | none => simp [hl] at h
      | some x => simp
    · simp [h2]
  · rw [if_neg h, lookup_append_single]
    by_cases h2 : k' = k
    · subst h2
      cases hl : lookup k' ts with
      | none => simp
      | some x => simp [hl] at h
    · cases hl : lookup k ts <;> simp [h2]

theorem lookup_regStep (k : Str) (ts : List (Str × Str)) (op : RegOp) :
    lookup k (regStep ts op) = if op.key = some k then some op.seq else lookup k ts := by
  unfold regStep
  cases hk : op.key with
  | none => simp
  | some k' => simp [lookup_updKey]

theorem lastWrite_append (k : Str) (ops : List RegOp) (op : RegOp) :
    lastWrite k (ops ++ [op]) = if op.key = some k then some op.seq else lastWrite k ops := by
  induction ops with
  | nil => simp [lastWrite]
  | cons o r ih =>
    simp only [List.cons_append, lastWrite, ih]
    by_cases h : op.key = some k
    · simp [h]
    · simp [h]

/-- after any history of registrations a key resolves to the LAST sequence written under it (and to what the
    instance started with when the history never wrote under it) -/
theorem lookup_regRun (k : Str) (ops : List RegOp) (ts : List (Str × Str)) :
    lookup k (regRun ts ops) = match lastWrite k ops with
      | some s => some s
      | none => lookup k ts := by
  induction ops generalizing ts with
  | nil => simp [regRun, lastWrite]
  | cons op r ih =>
    have : regRun ts (op :: r) = regRun (regStep ts op) r := by simp [regRun]
    rw [this, ih, lookup_regStep]
    simp only [lastWrite]
    cases lastWrite k r with
    | some s => rfl
    | none => by_cases h : op.key = some k <;> simp [h]

/-! ### a render reads the registry only through `lookup` -/

theorem requiredVars_withReg (cfg : Cfg) (r : List (Str × Str)) : requiredVars (withReg cfg r) = requiredVars cfg := rfl
theorem processConditionals_withReg (cfg : Cfg) (r : List (Str × Str)) :
    processConditionals (withReg cfg r) = processConditionals cfg := rfl
theorem processLoops_withReg (cfg : Cfg) (r : List (Str × Str)) : processLoops (withReg cfg r) = processLoops cfg := rfl
theorem processVariables_withReg (cfg : Cfg) (r : List (Str × Str)) :
    processVariables (withReg cfg r) = processVariables cfg := rfl
theorem matchWordTag_withReg (cfg : Cfg) (r : List (Str × Str)) : matchWordTag (withReg cfg r) = matchWordTag cfg := rfl

theorem translate_reg_ext (cfg : Cfg) (r1 r2 : List (Str × Str)) (h : ∀ n, lookup n r1 = lookup n r2) (ctx : Ctx) :
    ∀ (fuel : Nat) (s : Str), translate (withReg cfg r1) ctx fuel s = translate (withReg cfg r2) ctx fuel s := by
  intro fuel
  induction fuel with
  | zero => intro s; rfl
  | succ f ih =>
    intro s
    have hrec : incRepl (withReg cfg r1) (translate (withReg cfg r1) ctx f)
        = incRepl (withReg cfg r2) (translate (withReg cfg r2) ctx f) := by
      funext n
      have e1 : (withReg cfg r1).templates = r1 := rfl
      have e2 : (withReg cfg r2).templates = r2 := rfl
      unfold incRepl
      rw [e1, e2, h n]
      cases lookup n r2 with
      | none => rfl
      | some t => simp only [ih t]
    simp only [translate, requiredVars_withReg, processConditionals_withReg, processLoops_withReg,
      processVariables_withReg, matchWordTag_withReg, hrec]
    rfl

theorem translateNamed_reg_ext (cfg : Cfg) (r1 r2 : List (Str × Str)) (h : ∀ n, lookup n r1 = lookup n r2) (ctx : Ctx)
    (name : Str) : translateNamed (withReg cfg r1) ctx name = translateNamed (withReg cfg r2) ctx name := by
  have e1 : (withReg cfg r1).templates = r1 := rfl
  have e2 : (withReg cfg r2).templates = r2 := rfl
  unfold translateNamed
  rw [e1, e2, h name]
  cases lookup name r2 with
  | none => rfl
  | some t => exact translate_reg_ext cfg r1 r2 h ctx defaultFuel t

/-! ### several instances: an operation touches the addressed instance only -/

theorem instGet_instSet (w : List (String × Inst)) (j i : String) (x : Inst) :
    instGet (instSet w j x) i = if j = i then some x else instGet w i := by
  induction w with
  | nil => simp [instSet, instGet]
  | cons p r ih =>
    obtain ⟨k, v⟩ := p
    by_cases h1 : k = j
    · subst h1
      by_cases h2 : k = i <;> simp [instSet, instGet, h2]
    · by_cases h2 : k = i
      · subst h2
        have : ¬ j = k := fun e => h1 e.symm
        simp [instSet, instGet, h1, this]
      · simp [instSet, instGet, h1, h2, ih]

theorem instGet_worldStep (w : List (String × Inst)) (p : String × InstOp) (i : String) :
    instGet (worldStep w p) i = if p.1 = i then ownStep (instGet w p.1) p.2 else instGet w i := by
  obtain ⟨j, op⟩ := p
  unfold worldStep ownStep
  cases op with
  | create s f es => simp [instGet_instSet]
  | setStrict b =>
    cases h : instGet w j with
    | none =>
      by_cases e : j = i
      · subst e; simp [h]
      · simp [e]
    | some x => simp [instGet_instSet]
  | setFilters f =>
    cases h : instGet w j with
    | none =>
      by_cases e : j = i
      · subst e; simp [h]
      · simp [e]
    | some x => simp [instGet_instSet]
  | reg o =>
    cases h : instGet w j with
    | none =>
      by_cases e : j = i
      · subst e; simp [h]
      · simp [e]
    | some x => simp [instGet_instSet]

/-- after any interleaved history over any number of instances, instance `i` is in the state its OWN operations
    (in their order) lead to -/
theorem instGet_worldRun (ops : List (String × InstOp)) (w : List (String × Inst)) (i : String) :
    instGet (worldRun w ops) i = ((ops.filter (fun p => p.1 = i)).map (·.2)).foldl ownStep (instGet w i) := by
  induction ops generalizing w with
  | nil => simp [worldRun]
  | cons p r ih =>
    have : worldRun w (p :: r) = worldRun (worldStep w p) r := by simp [worldRun]
    rw [this, ih, instGet_worldStep]
    by_cases h : p.1 = i
    · simp [h]
    · simp [h]

end Operon.Ribosome
