import Operon.Lemmas.C04
/-! Overlapping calls (`Operon.Atp.race`): one call runs to completion while the other is parked at a lock acquisition.
    Everything follows from the per-call facts of `Lemmas/C04.lean` (`step_wf`, `step_pot`, `withdraw_spec`). -/
namespace Operon.Atp

theorem set_wf {sys : Sys} (wf : Sys.WF sys) (i : Nat) (x : Store) (hx : x.WF) : Sys.WF (sys.set i x) := by
  intro j s hs
  by_cases e : i = j
  · subst e
    have hlt : i < sys.length := by have := lt_of_get hs; simpa using this
    rw [List.getElem?_set_self hlt] at hs; cases hs; exact hx
  · rw [List.getElem?_set_ne e] at hs; exact wf j s hs

/-- the second half of a transfer (`other.regenerate`) on the colony adds at most the amount -/
theorem step_regenerate_pot {g : Store → Int} (hg : Pot g) (cls : Classifier) (obs : Nat → Obs) (sys : Sys) (j n : Nat) (cur : Cur) :
    sumOf g (step cls obs sys (.regenerate j n cur)).1 ≤ sumOf g sys + n := by
  simp only [step]; rw [onStore_sum]
  cases hj : sys[j]? with
  | none => simp; omega
  | some t => have := hg.deposit cls (obs j) t n cur; simp only []; omega

theorem race_wf (cls : Classifier) (o1 o2 : Nat → Obs) (sys : Sys) (k : Nat) (a b : Op) (wf : Sys.WF sys) :
    Sys.WF (race cls o1 o2 sys k a b).1 := by
  unfold race
  split
  · exact step_wf _ _ _ _ (step_wf _ _ _ _ wf)
  · split
    · split
      · rename_i s _ hi _
        split
        · exact step_wf _ _ _ _ (step_wf _ _ _ _ (set_wf wf _ _ ((withdraw_spec _ _ _).wf (wf _ _ hi))))
        · exact step_wf _ _ _ _ (step_wf _ _ _ _ wf)
      · exact step_wf _ _ _ _ (step_wf _ _ _ _ wf)
    · exact step_wf _ _ _ _ (step_wf _ _ _ _ wf)

/-- Overlapping calls create nothing: for a money-like quantity (net worth, room) and two calls that bring no energy in,
    what the colony holds afterwards plus what the two calls successfully spent is at most what it held. -/
theorem race_pot {g : Store → Int} (hg : Pot g) (cls : Classifier) (o1 o2 : Nat → Obs) (sys : Sys) (k : Nat) (a b : Op)
    (wf : Sys.WF sys) (ha : a.inflow = false) (hb : b.inflow = false) :
    sumOf g (race cls o1 o2 sys k a b).1 + paid a (race cls o1 o2 sys k a b).2.1 + paid b (race cls o1 o2 sys k a b).2.2
      ≤ sumOf g sys := by
  have seqAB : sumOf g (step cls o2 (step cls o1 sys a).1 b).1 + paid a (step cls o1 sys a).2
      + paid b (step cls o2 (step cls o1 sys a).1 b).2 ≤ sumOf g sys := by
    have h1 := step_pot hg cls o1 sys a (fun _ _ => wf) ha
    have h2 := step_pot hg cls o2 (step cls o1 sys a).1 b (fun _ _ => step_wf cls o1 sys a wf) hb
    omega
  unfold race
  split
  · have h1 := step_pot hg cls o1 sys b (fun _ _ => wf) hb
    have h2 := step_pot hg cls o2 (step cls o1 sys b).1 a (fun _ _ => step_wf cls o1 sys b wf) ha
    simp only []; omega
  · split
    · rename_i i j n cur
      split
      · rename_i s _ hi _
        split
        · rename_i hw
          have hs := wf _ _ hi
          have wf0 := set_wf wf i _ ((withdraw_spec s n cur).wf hs)
          have h0 : sumOf g (sys.set i (withdraw s n cur).1) = sumOf g sys - n := by
            rw [sumOf_set g sys i s _ hi, hg.withdraw s n cur hw.1]; omega
          have h1 := step_pot hg cls o1 (sys.set i (withdraw s n cur).1) b (fun _ _ => wf0) hb
          have h2 := step_regenerate_pot hg cls o2 (step cls o1 (sys.set i (withdraw s n cur).1) b).1 j n cur
          have hp : ∀ r, paid (.transfer i j n cur) r = 0 := fun r => by simp [paid]
          simp only [hp]; omega
        · exact seqAB
      · exact seqAB
    · exact seqAB

/-- With silent observers neither of two overlapping calls raises. -/
theorem race_no_raise (cls : Classifier) (o1 o2 : Nat → Obs) (sys : Sys) (k : Nat) (a b : Op)
    (h1 : ∀ j st, o1 j st = none) (h2 : ∀ j st, o2 j st = none) (e : Exc) :
    (race cls o1 o2 sys k a b).2.1 ≠ .raised e ∧ (race cls o1 o2 sys k a b).2.2 ≠ .raised e := by
  have n1 := fun sys' op e' => step_no_raise cls o1 sys' op h1 e'
  have n2 := fun sys' op e' => step_no_raise cls o2 sys' op h2 e'
  unfold race
  split
  · exact ⟨n2 _ _ e, n1 _ _ e⟩
  · split
    · split
      · split
        · refine ⟨?_, n1 _ _ e⟩
          intro hc
          simp only [] at hc
          split at hc
          · rename_i e' he'; exact n2 _ _ e' he'
          · cases hc
        · exact ⟨n1 _ _ e, n2 _ _ e⟩
      · exact ⟨n1 _ _ e, n2 _ _ e⟩
    · exact ⟨n1 _ _ e, n2 _ _ e⟩

/-- assigning a non-negative int to a public attribute keeps the store well-formed -/
theorem assign_wf (s : Store) (f : Field) (v : Nat) (h : s.WF) : (s.assign f v).WF := by
  cases f <;> simp only [Store.assign] <;> (obtain ⟨h1, h2, h3, h4, h5, h6, h7⟩ := h; constructor <;> (try dsimp only) <;> omega)

end Operon.Atp
