import Operon.Lemmas.C15Life
/-! Waiting lists are sorted by priority (highest first) in every reachable state: `_add_to_waiting` sorts, everything
    else leaves the order alone or filters (C14: discharges the `hsorted` hypothesis of `c14_unobtained_untouched`). -/
namespace Operon.Coord

theorem mem_insDesc {x b : Nat × Int} : ∀ {l : List (Nat × Int)}, b ∈ insDesc x l → b = x ∨ b ∈ l
  | [], h => by simp [insDesc] at h; exact Or.inl h
  | y :: ys, h => by
    unfold insDesc at h
    split at h
    · simp only [List.mem_cons] at h ⊢
      rcases h with h | h | h
      · exact Or.inl h
      · exact Or.inr (Or.inl h)
      · exact Or.inr (Or.inr h)
    · simp only [List.mem_cons] at h ⊢
      rcases h with h | h
      · exact Or.inr (Or.inl h)
      · rcases mem_insDesc h with h | h
        · exact Or.inl h
        · exact Or.inr (Or.inr h)

theorem insDesc_sorted (x : Nat × Int) : ∀ {l : List (Nat × Int)}, SortedDesc l → SortedDesc (insDesc x l)
  | [], _ => by simp [insDesc, SortedDesc]
  | y :: ys, h => by
    unfold SortedDesc at h ⊢
    rw [List.pairwise_cons] at h
    unfold insDesc
    split
    · rename_i hlt
      rw [List.pairwise_cons, List.pairwise_cons]
      refine ⟨?_, h.1, h.2⟩
      intro b hb
      simp only [List.mem_cons] at hb
      rcases hb with rfl | hb
      · omega
      · have := h.1 b hb; omega
    · rename_i hge
      rw [List.pairwise_cons]
      refine ⟨?_, insDesc_sorted x (l := ys) h.2⟩
      intro b hb
      rcases mem_insDesc hb with rfl | hb
      · omega
      · exact h.1 b hb

theorem foldl_insDesc_sorted' : ∀ (l acc : List (Nat × Int)), SortedDesc acc →
    SortedDesc (l.foldl (fun acc x => insDesc x acc) acc)
  | [], _, h => h
  | x :: xs, acc, h => foldl_insDesc_sorted' xs (insDesc x acc) (insDesc_sorted x h)

/-- the stable descending sort sorts -/
theorem sortDesc_is_sorted (l : List (Nat × Int)) : SortedDesc (sortDesc l) :=
  foldl_insDesc_sorted' l [] (by simp [SortedDesc])

/-- whatever the waiting list looked like, after `_add_to_waiting` it is sorted by priority, highest first -/
theorem addWaiting_sorted (w : List (Nat × Int)) (o : Nat) (p : Int) : SortedDesc (addWaiting w o p) :=
  sortDesc_is_sorted _

/-- every registered lock's waiting list is sorted by priority, highest first -/
def AllSorted (s : Sys) : Prop := ∀ r l, s.locks r = some l → SortedDesc l.waiting

theorem tryAcquire_sorted {l : Lock} (o : Nat) (p : Int) (h : SortedDesc l.waiting) :
    SortedDesc (l.tryAcquire o p).1.waiting := by
  unfold Lock.tryAcquire
  split
  · exact h
  · split
    · exact h
    · split
      · exact addWaiting_sorted _ _ _
      · exact addWaiting_sorted _ _ _

theorem release_lock_sorted {l : Lock} (o : Nat) (h : SortedDesc l.waiting) : SortedDesc (l.release o).1.waiting := by
  unfold Lock.release
  split
  · split <;> exact h
  · exact h

theorem allSorted_setLock {s : Sys} {r : Nat} {l : Lock} (h : AllSorted s) (hl : SortedDesc l.waiting) :
    AllSorted (s.setLock r l) := by
  intro x lx hx
  simp only [Sys.setLock] at hx
  split at hx
  · cases hx; exact hl
  · exact h x lx hx

theorem allSorted_of_locks {s s' : Sys} (h : AllSorted s) (hl : s'.locks = s.locks) : AllSorted s' := by
  intro r l hx; rw [hl] at hx; exact h r l hx

theorem allSorted_acquire {s : Sys} (h : AllSorted s) (c : Ctx) (r : Nat) : AllSorted (acquire s c r).1 := by
  cases hl : s.locks r with
  | none => rw [acquire_unknown hl]; exact h
  | some l =>
    have hs := tryAcquire_sorted c.id c.prio (h r l hl)
    by_cases hres : (l.tryAcquire c.id c.prio).2 = .blocked
    · rw [acquire_blocked hl hres]
      exact allSorted_of_locks (allSorted_setLock (r := r) h (addWaiting_sorted l.waiting c.id c.prio)) rfl
    · rw [acquire_ok hl hres]
      exact allSorted_of_locks (allSorted_setLock (r := r) h hs) rfl

theorem allSorted_release {s : Sys} (h : AllSorted s) (c : Ctx) (r : Nat) : AllSorted (release s c r).1 := by
  by_cases hh : r ∈ c.acquired ∧ Owns s c.id r
  · obtain ⟨hr, l, hl, ho⟩ := hh
    have hw := h r l hl
    by_cases h1 : l.hold ≤ 1
    · rw [release_last hr hl ho h1]
      exact allSorted_of_locks (allSorted_setLock (r := r) (l := l.freed) h hw) rfl
    · rw [release_more hr hl ho h1]
      exact allSorted_of_locks (allSorted_setLock (r := r) (l := { l with hold := l.hold - 1 }) h hw) rfl
  · rw [release_not_owned hh]; exact h

theorem allSorted_releaseLoop (r : Nat) : ∀ (f : Nat) {s : Sys} (c : Ctx), AllSorted s → AllSorted (releaseLoop f s c r).1
  | 0, _, _, h => h
  | f + 1, s, c, h => by
    have h1 := allSorted_release h c r
    unfold releaseLoop
    generalize release s c r = q at h1
    obtain ⟨s', c', b⟩ := q
    cases b with
    | false => exact h1
    | true =>
      simp only
      split
      · exact allSorted_releaseLoop r f c' h1
      · exact h1

theorem allSorted_releaseKeys : ∀ (ks : List Nat) {s : Sys} (c : Ctx), AllSorted s → AllSorted (releaseKeys ks s c).1
  | [], _, _, h => h
  | r :: rs, s, c, h => by
    unfold releaseKeys
    exact allSorted_releaseKeys rs _ (allSorted_releaseLoop r _ c h)

theorem allSorted_finish {s : Sys} (h : AllSorted s) (c : Ctx) : AllSorted (finish s c).1 := by
  have h1 : AllSorted (releaseAll s c).1 := allSorted_releaseKeys c.acquired c h
  intro r l hl
  simp only [finish, forgetWaiter] at hl
  cases hx : (releaseAll s c).1.locks r with
  | none => rw [hx] at hl; cases hl
  | some lx =>
    rw [hx] at hl
    simp only [Option.map_some, Option.some.injEq] at hl
    subst hl
    exact List.Pairwise.filter _ (h1 r lx hx)

theorem allSorted_empty : AllSorted ({} : Sys) := by
  intro r l h
  cases h

theorem allSorted_setCtx {s : Sys} (h : AllSorted s) (c : Ctx) : AllSorted (s.setCtx c) := h

theorem allSorted_start {s : Sys} (h : AllSorted s) (o : Nat) (p : Int) : AllSorted (s.start o p).1 := by
  unfold Sys.start
  split <;> exact h

theorem allSorted_abortById {s : Sys} (h : AllSorted s) (o : Nat) : AllSorted (abortById s o) := by
  unfold abortById
  split
  · exact h
  · exact allSorted_finish h _

theorem allSorted_abortMany : ∀ (ids : List Nat) {s : Sys}, AllSorted s → AllSorted (abortMany s ids)
  | [], _, h => h
  | o :: os, s, h => by
    unfold abortMany
    simp only [List.foldl_cons]
    exact allSorted_abortMany os (allSorted_abortById h o)

theorem allSorted_applyAct {s : Sys} (h : AllSorted s) (a : WorkAct) : AllSorted (applyAct s a) := by
  cases a with
  | none => exact h
  | kill t => exact allSorted_abortById h t
  | shutdown => exact allSorted_of_locks (allSorted_abortMany (s.active.map (·.id)) h) rfl
  | watchdog => exact allSorted_abortMany _ h
  | maint =>
    simp only [applyAct, maintenance, wdExecute]
    exact allSorted_abortMany _ (allSorted_of_locks h (sameOwn_checkAndBoost s).locks)

theorem allSorted_cbAct {s : Sys} (h : AllSorted s) (c : Ctx) (a : WorkAct) (tick : Nat) :
    AllSorted (cbAct s c a tick).1 :=
  allSorted_applyAct (s := { s with now := s.now + tick }) h a

theorem allSorted_advanceCb {s : Sys} (h : AllSorted s) (c : Ctx) (adv : Adv) (i : Nat) :
    AllSorted (advanceCb s c adv i).1 := by
  have h1 := allSorted_cbAct h c (adv.cpAct i) (adv.cpTick i)
  unfold advanceCb
  simp only
  split
  · exact h1
  · exact h1

theorem allSorted_acqLoop : ∀ (req : List Nat) {s : Sys} (c : Ctx), AllSorted s → AllSorted (acqLoop req s c).1
  | [], _, _, h => h
  | r :: rs, s, c, h => by
    have h1 := allSorted_acquire h c r
    unfold acqLoop
    generalize acquire s c r = q at h1
    obtain ⟨s', c', res⟩ := q
    cases res with
    | none => exact h1
    | some lr => cases lr <;> first | exact h1 | exact allSorted_acqLoop rs c' h1

theorem allSorted_failWith {s : Sys} (h : AllSorted s) (c : Ctx) (log : List Ev) (aw : Option Sys) :
    AllSorted (failWith s c log aw).sys := allSorted_finish h c

theorem allSorted_execCommit {s : Sys} (h : AllSorted s) (c : Ctx) (adv : Adv) (log : List Ev) (aw : Option Sys) :
    AllSorted (execCommit s c adv log aw).sys := by
  unfold execCommit
  simp only
  have h1 := allSorted_advanceCb (s := s.setCtx { c with valPassed := true }) h { c with valPassed := true } adv 3
  generalize advanceCb (s.setCtx { c with valPassed := true }) { c with valPassed := true } adv 3 = a at h1 ⊢
  split
  · exact allSorted_finish h1 _
  · exact allSorted_failWith h1 _ _ _

theorem allSorted_execValidate {s : Sys} (h : AllSorted s) (c : Ctx) (adv : Adv) (log : List Ev) (aw : Option Sys) :
    AllSorted (execValidate s c adv log aw).sys := by
  unfold execValidate
  simp only
  have h1 := allSorted_advanceCb h c adv 2
  generalize advanceCb s c adv 2 = a at h1 ⊢
  have h2 := allSorted_cbAct h1 a.2.1 adv.valAct adv.valTick
  generalize cbAct a.1 a.2.1 adv.valAct adv.valTick = p at h2 ⊢
  split
  · split
    · exact allSorted_execCommit h1 _ _ _ _
    · exact allSorted_execCommit h2 _ _ _ _
    · exact allSorted_failWith h2 _ _ _
    · exact allSorted_failWith h2 _ _ _
  · exact allSorted_failWith h1 _ _ _

theorem allSorted_execWork {s : Sys} (h : AllSorted s) (c : Ctx) (adv : Adv) (log : List Ev) :
    AllSorted (execWork s c adv log).sys := by
  unfold execWork
  simp only
  have h1 := allSorted_cbAct h c adv.act adv.tick
  generalize cbAct s c adv.act adv.tick = p at h1 ⊢
  split
  · exact allSorted_execValidate (s := p.1.setCtx { p.2 with execDone := true }) h1 _ _ _ _
  · exact allSorted_failWith h1 _ _ _

/-- `execute_operation` keeps every waiting list sorted, whatever happens inside -/
theorem allSorted_exec {s : Sys} (h : AllSorted s) (op : Nat) (prio : Int) (req : List Nat) (adv : Adv) :
    AllSorted (exec s op prio req adv).sys := by
  unfold exec
  simp only
  have h0 := allSorted_advanceCb (allSorted_start h op prio) (s.start op prio).2 adv 0
  generalize advanceCb (s.start op prio).1 (s.start op prio).2 adv 0 = a0 at h0 ⊢
  have hq := allSorted_acqLoop req a0.2.1 h0
  generalize acqLoop req a0.1 a0.2.1 = q at hq ⊢
  split
  · have h1 := allSorted_advanceCb (s := q.1.setCtx { q.2.1 with resAcq := true }) hq { q.2.1 with resAcq := true } adv 1
    generalize advanceCb (q.1.setCtx { q.2.1 with resAcq := true }) { q.2.1 with resAcq := true } adv 1 = a1 at h1 ⊢
    split
    · split
      · exact allSorted_execWork h1 _ _ _
      · exact allSorted_failWith h1 _ _ _
    · exact allSorted_failWith h1 _ _ _
  · exact allSorted_failWith hq _ _ _

theorem allSorted_hstep {h : HSt} (hs : AllSorted h.sys) (op : HOp) : AllSorted (hstep h op).sys := by
  cases op with
  | start o p => exact allSorted_start hs o p
  | acq o r =>
    simp only [hstep]
    cases hc : h.sys.ctx? o with
    | none => exact hs
    | some c =>
      have t := allSorted_acquire hs c r
      simp only
      generalize acquire h.sys c r = q at t ⊢
      obtain ⟨s', c', res⟩ := q
      cases res with
      | none => exact t
      | some lr => cases lr <;> exact t
  | rel o r =>
    simp only [hstep]
    cases hc : h.sys.ctx? o with
    | none => exact hs
    | some c => exact allSorted_release hs c r
  | finish o =>
    simp only [hstep]
    cases hc : h.sys.ctx? o with
    | none => exact hs
    | some c => exact allSorted_finish hs c

theorem allSorted_xrun : ∀ (ops : List XOp) {h : HSt}, AllSorted h.sys → AllSorted (xrun h ops).sys
  | [], _, hs => hs
  | .ctl op :: ops, h, hs => by
    unfold xrun
    simp only [List.foldl_cons]
    exact allSorted_xrun ops (allSorted_hstep hs op)
  | .life l :: ops, h, hs => by
    unfold xrun
    simp only [List.foldl_cons]
    exact allSorted_xrun ops (h := { h with sys := lstep h.sys l }) (allSorted_of_locks hs (lifeSame_lstep h.sys l).locks)

theorem allSorted_register {s : Sys} (h : AllSorted s) (r : Nat) (pre : Bool) : AllSorted (s.register r pre) := by
  intro x l hl
  simp only [Sys.register] at hl
  split at hl
  · cases hl; simp [SortedDesc]
  · exact h x l hl

end Operon.Coord
