import Operon.Lemmas.C06
import Operon.Model.QuorumTab
/-!
# C06 - the evaluated decision tables (`Operon.Gen.QuorumTables`) against the model

* `CountTableOk`: every row of the count table equals the model's outcome digits, computed in a kernel-cheap form
  (natural-number cross-multiplication on forced literals); it is established by `decide +kernel` inside the property
  theorem.  `fastRow_sound` / `countRow_sound` prove that the cheap form IS `countOutcome`, and `outcome_eq_count` that
  for the counting strategies the outcome of `runVote` on ANY electorate is `countOutcome` of its (permit, block,
  abstain, defer) profile.
* `ClassTableOk`: the classification table is reproduced by `toVote`.
* facts about `profilesUpTo`, `plainVoters`, `classifyAction` used by the property theorems.
-/
namespace Operon.Quorum
open Operon.Gen.Quorum

theorem rat_eq_nat_div {t : Rat} (ht : 0 ≤ t) : t = (t.num.toNat : Rat) / (t.den : Rat) := by
  have h1 : (0 : Int) ≤ t.num := Rat.num_nonneg.mpr ht
  have h2 : ((t.num.toNat : Nat) : Int) = t.num := Int.toNat_of_nonneg h1
  have h3 : ((t.num.toNat : Nat) : Rat) = (t.num : Rat) := by
    have : (((t.num.toNat : Nat) : Int) : Rat) = (t.num : Rat) := by rw [h2]
    exact_mod_cast this
  rw [h3]
  exact (Rat.num_div_den t).symm

theorem rat_mul_lt_iff {t : Rat} (ht : 0 ≤ t) (m p : Nat) :
    t * (m : Rat) < (p : Rat) ↔ t.num.toNat * m < p * t.den := by
  have hd : (0 : Rat) < (t.den : Rat) := by exact_mod_cast t.den_pos
  conv_lhs => rw [rat_eq_nat_div ht]
  rw [div_mul_eq_mul_div, div_lt_iff₀ hd]
  constructor
  · intro h; exact_mod_cast h
  · intro h; exact_mod_cast h

theorem rat_mul_le_iff {t : Rat} (ht : 0 ≤ t) (m p : Nat) :
    t * (m : Rat) ≤ (p : Rat) ↔ t.num.toNat * m ≤ p * t.den := by
  have hd : (0 : Rat) < (t.den : Rat) := by exact_mod_cast t.den_pos
  conv_lhs => rw [rat_eq_nat_div ht]
  rw [div_mul_eq_mul_div, div_le_iff₀ hd]
  constructor
  · intro h; exact_mod_cast h
  · intro h; exact_mod_cast h

theorem rat_le_nat_iff {t : Rat} (ht : 0 ≤ t) (p : Nat) : t ≤ (p : Rat) ↔ t.num.toNat ≤ p * t.den := by
  have := rat_mul_le_iff ht 1 p
  simpa using this

theorem rat_lt_one_iff {t : Rat} (ht : 0 ≤ t) : t < 1 ↔ t.num.toNat < t.den := by
  have := rat_mul_lt_iff ht 1 1
  simpa using this

theorem rat_eq_zero_iff (t : Rat) : t = 0 ↔ t.num = 0 := Rat.zero_iff_num_zero

/-! ### kernel-cheap evaluation of the counting strategies (natural-number arithmetic on forced literals) -/

/-- forces `n` to a literal before `k` uses it (the kernel evaluates call-by-name) -/
def forceNat {α : Type} (n : Nat) (k : Nat → α) : α :=
  match n with
  | 0 => k 0
  | m + 1 => k (m + 1)

theorem forceNat_eq {α : Type} (n : Nat) (k : Nat → α) : forceNat n k = k n := by
  cases n <;> rfl

def shareOutcome (tn td mv : Nat) (pr : Nat × Nat × Nat × Nat) : Nat :=
  if pr.1 + pr.2.1 < mv then 4 else if tn * (pr.1 + pr.2.1) < pr.1 * td then 1 else 2

def unanOutcome (mv : Nat) (pr : Nat × Nat × Nat × Nat) : Nat :=
  if pr.1 + pr.2.1 < mv then 4 else if pr.2.1 = 0 ∧ 0 < pr.1 then 1 else 2

/-- kind 0: default (majority of the colony); 1: share of the colony, at least one; 2: count -/
def thrMet (kind tn td n p : Nat) : Bool :=
  match kind with
  | 0 => decide (n / 2 + 1 ≤ p)
  | 1 => decide (tn * n ≤ p * td) && decide (1 ≤ p)
  | _ => decide (tn ≤ p * td)

def thrOutcome (kind tn td mv : Nat) (pr : Nat × Nat × Nat × Nat) : Nat :=
  if pr.1 + pr.2.1 < mv then 4
  else if pr.1 + pr.2.1 + pr.2.2.1 + pr.2.2.2 = 0 then 8
  else if thrMet kind tn td (pr.1 + pr.2.1 + pr.2.2.1 + pr.2.2.2) pr.1 then 1 else 2

def digitsOk (packed : Nat) (f : Nat × Nat × Nat × Nat → Nat) : Bool :=
  decide (unpack (profilesUpTo countMaxVoters).length packed = (profilesUpTo countMaxVoters).map f)

def shareRow (t : Rat) (mv packed : Nat) : Bool :=
  forceNat t.num.toNat fun tn => forceNat t.den fun td => forceNat mv fun mv' =>
    digitsOk packed (shareOutcome tn td mv')

def thrKind (tn td : Nat) : Nat := if tn = 0 then 0 else if tn < td then 1 else 2

def thrRow (custom : Option Rat) (mv packed : Nat) : Bool :=
  match custom with
  | none => forceNat mv fun mv' => digitsOk packed (thrOutcome 0 0 1 mv')
  | some t => forceNat t.num.toNat fun tn => forceNat t.den fun td => forceNat mv fun mv' =>
      digitsOk packed (thrOutcome (thrKind tn td) tn td mv')

def fastRow (cfg : Cfg) (packed : Nat) : Bool :=
  match cfg.strategy with
  | .majority => shareRow (effThreshold cfg.custom majorityThreshold) cfg.minVoters packed
  | .supermajority => shareRow (effThreshold cfg.custom supermajorityThreshold) cfg.minVoters packed
  | .unanimous => forceNat cfg.minVoters fun mv' => digitsOk packed (unanOutcome mv')
  | .threshold => thrRow cfg.custom cfg.minVoters packed
  | _ => false

def countRowOk (row : (Nat × Option Rat × Nat) × Nat) : Bool :=
  match cfgOfCode row.1 with
  | some cfg => decide (0 ≤ cfg.custom.getD 0) && fastRow cfg row.2
  | none => false

/-- "every row of the evaluated count table is reproduced by the (kernel-cheap form of the) model": established with
    `decide +kernel` inside `c06_count_tables_agree` (so that a table that no longer agrees breaks that theorem only) -/
def CountTableOk : Prop := countTable.all countRowOk = true

/-! ### the kernel-cheap forms are the model -/

theorem mem_profilesUpTo (n p b a d : Nat) : (p, b, a, d) ∈ profilesUpTo n ↔ p + b + a + d ≤ n := by
  simp only [profilesUpTo, List.mem_flatMap, List.mem_map, List.mem_range, Prod.mk.injEq]
  constructor
  · rintro ⟨tot, ht, p', hp, b', hb, a', ha, rfl, rfl, rfl, rfl⟩; omega
  · intro h
    exact ⟨p + b + a + d, by omega, p, by omega, b, by omega, a, by omega, rfl, rfl, rfl, by omega⟩

theorem profileOf_eq (voters : List Voter) :
    profileOf voters = (nP (collect voters), nB (collect voters), nA (collect voters), nD (collect voters)) := rfl

theorem profileOf_sum (voters : List Voter) :
    (profileOf voters).1 + (profileOf voters).2.1 + (profileOf voters).2.2.1 + (profileOf voters).2.2.2 = voters.length := by
  rw [profileOf_eq, ← collect_length voters, length_partition (collect voters)]

theorem bool_eq_of_iff {b c : Bool} (h : b = true ↔ c = true) : b = c := by
  cases b <;> cases c <;> simp_all

theorem codeOf_decisionOf (r : Bool) : codeOf r (decisionOf r) = if r then 1 else 2 := by
  cases r <;> rfl

/-- for the counting strategies the outcome of a vote depends on the ballot only through its profile -/
theorem outcome_eq_count (cfg : Cfg) (hc : cfg.strategy.counting = true) (voters : List Voter) :
    outcomeCode cfg voters = countOutcome cfg (profileOf voters) := by
  have hsum := profileOf_sum voters
  rw [profileOf_eq] at hsum ⊢
  simp only at hsum
  unfold outcomeCode countOutcome runVoteRaises
  simp only [activeCount_eq]
  by_cases hg : nP (collect voters) + nB (collect voters) < cfg.minVoters
  · have hr : (runVote cfg voters).reached = false := by
      cases h : (runVote cfg voters).reached
      · rfl
      · have := ((run_reached_iff cfg voters).mp h).1; omega
    have hd : (runVote cfg voters).decision = .abstain := by
      unfold runVote; rw [decision_eq]; simp [hg]
    simp [hg, hr, hd, codeOf]
  · simp only [hg, if_false, decide_false, Bool.not_false, Bool.and_true]
    rw [hsum]
    cases hz : (decide (voters.length = 0) && decide (cfg.strategy = .threshold))
    · simp only [Bool.false_eq_true, if_false]
      have hd : (runVote cfg voters).decision = decisionOf (runVote cfg voters).reached := by
        unfold runVote; rw [decision_eq]; simp [hg]
      rw [hd, codeOf_decisionOf]
      have hiff : (runVote cfg voters).reached = countReached cfg voters.length (nP (collect voters)) (nB (collect voters)) := by
        have h1 := run_reached_iff cfg voters
        have hmv : cfg.minVoters ≤ nP (collect voters) + nB (collect voters) := by omega
        simp only [hmv, true_and] at h1
        unfold StratReached at h1
        unfold countReached
        apply bool_eq_of_iff
        rw [h1]
        cases hs : cfg.strategy <;> simp only [hs] at hc ⊢ <;> first | (exact absurd hc (by decide)) | simp
      rw [hiff]
    · simp




theorem share_decide {t : Rat} (ht : 0 ≤ t) (p b : Nat) :
    decide ((if p + b = 0 then (0 : Rat) else natR p / natR (p + b)) > t) = decide (t.num.toNat * (p + b) < p * t.den) := by
  rw [decide_eq_decide, count_share, shareGt_iff (by positivity) (by positivity) ht]
  have : (p : Rat) + (b : Rat) = ((p + b : Nat) : Rat) := by push_cast; rfl
  rw [this]
  exact rat_mul_lt_iff ht (p + b) p

theorem nonneg_of_getD {cfg : Cfg} (h : 0 ≤ cfg.custom.getD 0) : NonNegThreshold cfg := by
  intro t ht
  rw [ht] at h
  exact h

theorem shareOutcome_eq (cfg : Cfg) (d : Rat) (hd : 0 ≤ d) (hn : NonNegThreshold cfg)
    (hcr : ∀ n p b, countReached cfg n p b =
      decide ((if p + b = 0 then (0 : Rat) else natR p / natR (p + b)) > effThreshold cfg.custom d))
    (hs : cfg.strategy ≠ .threshold) (pr : Nat × Nat × Nat × Nat) :
    shareOutcome (effThreshold cfg.custom d).num.toNat (effThreshold cfg.custom d).den cfg.minVoters pr
      = countOutcome cfg pr := by
  unfold shareOutcome countOutcome
  have ht : 0 ≤ effThreshold cfg.custom d := effThreshold_nonneg hd hn
  simp only [hcr, share_decide ht, hs, decide_false, Bool.and_false, Bool.false_eq_true, if_false, decide_eq_true_eq]

theorem unanOutcome_eq (cfg : Cfg) (hs : cfg.strategy = .unanimous) (pr : Nat × Nat × Nat × Nat) :
    unanOutcome cfg.minVoters pr = countOutcome cfg pr := by
  unfold unanOutcome countOutcome countReached
  simp [hs]

theorem thrMet_iff (cfg : Cfg) (hn : NonNegThreshold cfg) (n p : Nat) :
    (match cfg.custom with
      | none => thrMet 0 0 1 n p
      | some t => thrMet (thrKind t.num.toNat t.den) t.num.toNat t.den n p) = true ↔ CountMet cfg n p := by
  unfold CountMet
  cases hc : cfg.custom with
  | none => simp [thrMet]
  | some t =>
    have ht : 0 ≤ t := hn t hc
    have hnum : (0 : Int) ≤ t.num := Rat.num_nonneg.mpr ht
    have hz : t.num.toNat = 0 ↔ t = 0 := by
      rw [rat_eq_zero_iff]; omega
    simp only
    unfold thrKind
    by_cases h0 : t = 0
    · simp [h0, thrMet]
    · have h0' : ¬ t.num.toNat = 0 := fun h => h0 (hz.mp h)
      simp only [h0', h0, if_false]
      by_cases h1 : t < 1
      · have h1' := (rat_lt_one_iff ht).mp h1
        simp only [h1', h1, if_true, thrMet, Bool.and_eq_true, decide_eq_true_eq]
        rw [rat_mul_le_iff ht]
      · have h1' : ¬ t.num.toNat < t.den := fun h => h1 ((rat_lt_one_iff ht).mpr h)
        simp only [h1', h1, if_false, thrMet, decide_eq_true_eq]
        rw [rat_le_nat_iff ht]

theorem thrOutcome_eq (cfg : Cfg) (hs : cfg.strategy = .threshold) (hn : NonNegThreshold cfg)
    (pr : Nat × Nat × Nat × Nat) :
    (match cfg.custom with
      | none => thrOutcome 0 0 1 cfg.minVoters pr
      | some t => thrOutcome (thrKind t.num.toNat t.den) t.num.toNat t.den cfg.minVoters pr) = countOutcome cfg pr := by
  have hm := thrMet_iff cfg hn (pr.1 + pr.2.1 + pr.2.2.1 + pr.2.2.2) pr.1
  have hcr : countReached cfg (pr.1 + pr.2.1 + pr.2.2.1 + pr.2.2.2) pr.1 pr.2.1 = true ↔
      CountMet cfg (pr.1 + pr.2.1 + pr.2.2.1 + pr.2.2.2) pr.1 := by
    unfold countReached; simp only [hs, decide_eq_true_eq]
    exact thresholdCount_le_iff cfg hn _ _
  unfold countOutcome
  simp only [hs, decide_true, Bool.and_true, decide_eq_true_eq]
  cases hc : cfg.custom with
  | none =>
    simp only [hc] at hm
    unfold thrOutcome
    by_cases h1 : countReached cfg (pr.1 + pr.2.1 + pr.2.2.1 + pr.2.2.2) pr.1 pr.2.1 = true
    · simp [h1, hm.mpr (hcr.mp h1)]
    · have : ¬ thrMet 0 0 1 (pr.1 + pr.2.1 + pr.2.2.1 + pr.2.2.2) pr.1 = true := fun h => h1 (hcr.mpr (hm.mp h))
      simp [h1, this]
  | some t =>
    simp only [hc] at hm
    unfold thrOutcome
    by_cases h1 : countReached cfg (pr.1 + pr.2.1 + pr.2.2.1 + pr.2.2.2) pr.1 pr.2.1 = true
    · simp [h1, hm.mpr (hcr.mp h1)]
    · have : ¬ thrMet (thrKind t.num.toNat t.den) t.num.toNat t.den (pr.1 + pr.2.1 + pr.2.2.1 + pr.2.2.2) pr.1 = true :=
        fun h => h1 (hcr.mpr (hm.mp h))
      simp [h1, this]

theorem digitsOk_congr {packed : Nat} {f g : Nat × Nat × Nat × Nat → Nat} (h : ∀ pr, f pr = g pr)
    (hf : digitsOk packed f = true) :
    unpack (profilesUpTo countMaxVoters).length packed = (profilesUpTo countMaxVoters).map g := by
  unfold digitsOk at hf
  rw [decide_eq_true_eq] at hf
  rw [hf]
  exact List.map_congr_left (fun pr _ => h pr)

/-- a row accepted by the kernel-cheap check carries exactly the model's outcome digits -/
theorem fastRow_sound (cfg : Cfg) (packed : Nat) (hn : NonNegThreshold cfg) (h : fastRow cfg packed = true) :
    cfg.strategy.counting = true ∧
    unpack (profilesUpTo countMaxVoters).length packed = (profilesUpTo countMaxVoters).map (countOutcome cfg) := by
  unfold fastRow at h
  cases hs : cfg.strategy <;> simp only [hs] at h
  · refine ⟨by simp [Strategy.counting], ?_⟩
    unfold shareRow at h
    simp only [forceNat_eq] at h
    exact digitsOk_congr (shareOutcome_eq cfg majorityThreshold const_facts.1 hn
      (fun n p b => by unfold countReached; simp only [hs]) (by rw [hs]; decide)) h
  · refine ⟨by simp [Strategy.counting], ?_⟩
    unfold shareRow at h
    simp only [forceNat_eq] at h
    exact digitsOk_congr (shareOutcome_eq cfg supermajorityThreshold const_facts.2.2.1 hn
      (fun n p b => by unfold countReached; simp only [hs]) (by rw [hs]; decide)) h
  · refine ⟨by simp [Strategy.counting], ?_⟩
    simp only [forceNat_eq] at h
    exact digitsOk_congr (unanOutcome_eq cfg hs) h
  · cases h
  · cases h
  · cases h
  · refine ⟨by simp [Strategy.counting], ?_⟩
    unfold thrRow at h
    have hh := thrOutcome_eq cfg hs hn
    cases hc : cfg.custom with
    | none =>
      simp only [hc, forceNat_eq] at h hh
      exact digitsOk_congr hh h
    | some t =>
      simp only [hc, forceNat_eq] at h hh
      exact digitsOk_congr hh h


theorem zip_map_self {α β : Type} (l : List α) (f : α → β) : l.zip (l.map f) = l.map (fun x => (x, f x)) := by
  induction l with
  | nil => rfl
  | cons x xs ih => simp [ih]

/-- what `countTable_fast_ok` says about one row, in terms of the model itself -/
theorem countRow_sound (hok : CountTableOk) (row : (Nat × Option Rat × Nat) × Nat) (hrow : row ∈ countTable) :
    ∃ cfg, cfgOfCode row.1 = some cfg ∧ NonNegThreshold cfg ∧ cfg.strategy.counting = true ∧
      decodeCount row.2 = (profilesUpTo countMaxVoters).map (fun pr => (pr, countOutcome cfg pr)) := by
  have h := List.all_eq_true.mp hok row hrow
  unfold countRowOk at h
  cases hc : cfgOfCode row.1 with
  | none => simp [hc] at h
  | some cfg =>
    simp only [hc, Bool.and_eq_true, decide_eq_true_eq] at h
    have hn := nonneg_of_getD h.1
    obtain ⟨h1, h2⟩ := fastRow_sound cfg row.2 hn h.2
    refine ⟨cfg, rfl, hn, h1, ?_⟩
    unfold decodeCount
    rw [h2, zip_map_self]

/-! ### the classification table -/

/-- "every row of the evaluated classification table is reproduced by `toVote` on `classifyAction` / `confOfPayload`" -/
def ClassTableOk : Prop :=
  classTable.all (fun row => decide (observedVote (toVote (rowVoter row.1)) = rowObserved row.2)) = true

theorem classifyAction_spec (s : List Nat) :
    (classifyAction s = .permit ↔ s = permitCps) ∧ (classifyAction s = .execute ↔ s = executeCps) ∧
    (classifyAction s = .block ↔ s = blockCps) ∧ (classifyAction s = .defer ↔ s = deferCps) ∧
    classifyAction s ≠ .raises := by
  unfold classifyAction
  by_cases h1 : s = permitCps
  · subst h1; decide
  by_cases h2 : s = executeCps
  · subst h2; decide
  by_cases h3 : s = blockCps
  · subst h3; decide
  by_cases h4 : s = deferCps
  · subst h4; decide
  simp [h1, h2, h3, h4]

/-! ### the plain electorate of a profile -/

theorem ofKind_append (k : VoteType) (a b : List Vote) : ofKind k (a ++ b) = ofKind k a ++ ofKind k b := by
  unfold ofKind; simp

theorem ofKind_replicate (k : VoteType) (n : Nat) (v : Vote) :
    (ofKind k (List.replicate n v)).length = if v.kind = k then n else 0 := by
  unfold ofKind
  by_cases h : v.kind = k
  · simp [h, List.filter_replicate]
  · simp [h, List.filter_replicate]

theorem profileOf_plain (pr : Nat × Nat × Nat × Nat) : profileOf (plainVoters pr) = pr := by
  obtain ⟨p, b, a, d⟩ := pr
  unfold profileOf plainVoters collect
  simp only [List.map_append, List.map_replicate, ofKind_append, List.length_append, ofKind_replicate]
  simp [toVote, voteTypeOf]

theorem plainVoters_valid (pr : Nat × Nat × Nat × Nat) : ∀ v ∈ plainVoters pr, v.Valid := by
  intro v hv
  unfold plainVoters at hv
  simp only [List.mem_append, List.mem_replicate] at hv
  have h01 : (0 : Rat) ≤ 1 := by norm_num
  rcases hv with ((⟨-, rfl⟩ | ⟨-, rfl⟩) | ⟨-, rfl⟩) | ⟨-, rfl⟩ <;>
    exact ⟨h01, h01⟩

/-! ### the collection loop as written is `collect` / `afterVote` -/

theorem classifyAction_ne_raises (s : List Nat) : classifyAction s ≠ .raises := by
  unfold classifyAction
  repeat' split
  all_goals simp

theorem turn_vote (m : Member) (a : Answer) :
    toVote (voterOfMember m (answerBehaviour a)) = (proteinToVote m a).getD ⟨.abstain, 0, m.weight⟩ := by
  cases a with
  | raised => rfl
  | unusable => rfl
  | protein s p =>
    have hk := classifyAction_ne_raises s
    cases p <;> simp only [answerBehaviour, voterOfMember, proteinToVote, confOfPayload, toVote, failedVote, Option.getD] <;>
      cases h : classifyAction s <;> simp_all

theorem turn_failed (m : Member) (a : Answer) :
    (answerBehaviour a).failed = (proteinToVote m a).isNone := by
  cases a with
  | raised => rfl
  | unusable => rfl
  | protein s p =>
    have hk := classifyAction_ne_raises s
    cases p <;> simp [answerBehaviour, proteinToVote, confOfPayload, Behaviour.failed, hk]

theorem fault_iff (m : Member) (a : Answer) : (proteinToVote m a).isNone = a.faultPoint.isSome := by
  cases a with
  | raised => rfl
  | unusable => rfl
  | protein s p => cases p <;> rfl

theorem collectLoop_refines (beh : Nat → Behaviour) :
    ∀ (c : List Member) (as : List Answer) (i : Nat), as.length = c.length →
      (∀ j (h : j < as.length), beh (i + j) = answerBehaviour as[j]) →
      collectLoop c as = (collect (electorateFrom beh i c), afterVoteFrom beh i c) := by
  intro c
  induction c with
  | nil => intro as i h _; cases as <;> simp_all [collectLoop, electorateFrom, afterVoteFrom, collect]
  | cons m ms ih =>
    intro as i hlen hb
    cases as with
    | nil => simp at hlen
    | cons a as =>
      have h0 : beh i = answerBehaviour a := by
        have := hb 0 (by simp)
        simp only [Nat.add_zero, List.getElem_cons_zero] at this
        exact this
      have htail := ih as (i + 1) (by simpa using hlen) (fun j hj => by
        have := hb (j + 1) (by simp; omega)
        simp only [List.getElem_cons_succ] at this
        rw [← this]; congr 1; omega)
      have hv := turn_vote m a
      have hf := turn_failed m a
      unfold collectLoop
      rw [htail]
      simp only [electorateFrom, afterVoteFrom, collect, List.map_cons, h0]
      cases hp : proteinToVote m a with
      | none => rw [hp] at hv hf; simp_all
      | some v => rw [hp] at hv hf; simp_all

theorem collectLoop_fst (c : List Member) (as : List Answer) :
    (collectLoop c as).1 = collect (answerVoters c as) := by
  induction c generalizing as with
  | nil => simp [collectLoop, answerVoters, collect]
  | cons m ms ih =>
    cases as with
    | nil => simp [collectLoop, answerVoters, collect]
    | cons a as =>
      have hv := turn_vote m a
      unfold collectLoop
      cases hp : proteinToVote m a <;> rw [hp] at hv <;>
        simp_all [answerVoters, collect]

theorem answerVoters_length (c : List Member) (as : List Answer) (h : as.length = c.length) :
    (answerVoters c as).length = c.length := by
  simp [answerVoters, h]

theorem collectLoop_getElem? (c : List Member) (as : List Answer) (i : Nat) (m : Member) (a : Answer)
    (hm : c[i]? = some m) (ha : as[i]? = some a) :
    (collectLoop c as).1[i]? = some ((proteinToVote m a).getD ⟨.abstain, 0, m.weight⟩) ∧
    (collectLoop c as).2[i]? = some (if (proteinToVote m a).isSome then ⟨m.name, m.weight, m.rel, m.votesCast + 1, m.correct⟩ else m) := by
  induction c generalizing as i with
  | nil => simp at hm
  | cons m0 ms ih =>
    cases as with
    | nil => simp at ha
    | cons a0 as =>
      cases i with
      | zero =>
        simp only [List.getElem?_cons_zero, Option.some.injEq] at hm ha
        subst hm; subst ha
        unfold collectLoop
        cases hp : proteinToVote m0 a0 <;> simp
      | succ i =>
        simp only [List.getElem?_cons_succ] at hm ha
        have := ih as i hm ha
        unfold collectLoop
        cases hp : proteinToVote m0 a0 <;> simpa using this

theorem answerVoters_no_permit (c : List Member) (as : List Answer) (hall : ∀ a ∈ as, a.faultPoint.isSome) :
    ∀ v ∈ answerVoters c as, (toVote v).kind ≠ .permit := by
  induction c generalizing as with
  | nil => simp [answerVoters]
  | cons m ms ih =>
    cases as with
    | nil => simp [answerVoters]
    | cons a as =>
      intro v hv
      simp only [answerVoters, List.zipWith_cons_cons, List.mem_cons] at hv
      rcases hv with rfl | hv
      · have hf := hall a (by simp)
        rw [← fault_iff m a] at hf
        rw [turn_vote]
        cases hp : proteinToVote m a <;> simp_all
      · exact ih as (fun a ha => hall a (by simp [ha])) v hv

/-! ### the ledger: statistics and capped history -/

theorem lastN_of_le {α : Type} (n : Nat) (xs : List α) (h : xs.length ≤ n) : lastN n xs = xs := by
  unfold lastN; rw [Nat.sub_eq_zero_of_le h]; rfl

theorem lastN_length {α : Type} (n : Nat) (xs : List α) : (lastN n xs).length ≤ n := by
  unfold lastN; rw [List.length_drop]; omega

theorem lastN_lastN_append {α : Type} (n : Nat) (xs ys : List α) :
    lastN n (lastN n xs ++ ys) = lastN n (xs ++ ys) := by
  by_cases h : xs.length ≤ n
  · rw [lastN_of_le n xs h]
  · have hk : xs.length - n ≤ xs.length := Nat.sub_le _ _
    unfold lastN
    rw [List.length_append, List.length_drop, List.length_append]
    have e1 : xs.length - (xs.length - n) + ys.length - n = ys.length := by omega
    have e2 : xs.length + ys.length - n = (xs.length - n) + ys.length := by omega
    rw [e1, e2, ← List.drop_drop, List.drop_append_of_le_length hk]

theorem record_history (l : Ledger) (r : Result) : (l.record r).history = lastN historyCap (l.history ++ [r]) := by
  unfold Ledger.record
  simp only
  split
  · rfl
  · rw [lastN_of_le]; omega

theorem recordAll_history (rs : List Result) : ∀ (l : Ledger) (xs : List Result), l.history = lastN historyCap xs →
    (l.recordAll rs).history = lastN historyCap (xs ++ rs) := by
  induction rs with
  | nil => intro l xs h; simpa [Ledger.recordAll] using h
  | cons r rs ih =>
    intro l xs h
    have := ih (l.record r) (xs ++ [r]) (by rw [record_history, h, lastN_lastN_append])
    simpa [Ledger.recordAll, List.append_assoc] using this

theorem recordAll_counts (rs : List Result) : ∀ (l : Ledger),
    (l.recordAll rs).totalVotes = l.totalVotes + sumN (rs.map (·.votes.length)) ∧
    (l.recordAll rs).reached = l.reached + (rs.filter (·.reached)).length ∧
    (l.recordAll rs).failed = l.failed + (rs.filter (fun r => !r.reached)).length := by
  induction rs with
  | nil => intro l; simp [Ledger.recordAll, sumN]
  | cons r rs ih =>
    intro l
    obtain ⟨h1, h2, h3⟩ := ih (l.record r)
    simp only [Ledger.recordAll, List.foldl_cons] at h1 h2 h3 ⊢
    rw [h1, h2, h3]
    cases hr : r.reached <;> simp [Ledger.record, hr, sumN] <;> omega

theorem filter_partition (rs : List Result) :
    (rs.filter (·.reached)).length + (rs.filter (fun r => !r.reached)).length = rs.length := by
  induction rs with
  | nil => rfl
  | cons r rs ih => cases hr : r.reached <;> simp [hr] <;> omega

end Operon.Quorum
