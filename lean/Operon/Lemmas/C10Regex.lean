import Operon.Model.Regex
/-!
Lemmas about the regex model of the shipped signature tables (C10): a match of an anchor-free expression survives a
separated embedding of the text.

The proof relates a position of `text` to the corresponding position of `pre ++ text ++ post` (`StR`): the rest of the
text is the old rest followed by `post`; the code point before the position is the same, except at the very beginning
of `text`, where it is now the last code point of `pre`.  The only supported constructs that look outside the matched
segment are `\b` / `\B`; under a separated embedding they see a non-word neighbour where they saw no neighbour.
-/
namespace Operon.Gates.Rx

/-- corresponding positions of `text` and of `pre ++ text ++ post` -/
def StR (pre post : Str) (p : Option Nat) (s : Str) (p' : Option Nat) (s' : Str) : Prop :=
  s' = s ++ post ∧ (match p with | some c => p' = some c | none => p' = lastOr none pre)


/-- continuations that accept `R`-related positions -/
def KRelG (R : Option Nat → Str → Option Nat → Str → Prop) (k k' : K) : Prop :=
  ∀ p s p' s', R p s p' s' → k p s = true → k' p' s' = true

/-- continuations that accept corresponding positions of `text` and `pre ++ text ++ post` -/
abbrev KRel (pre post : Str) (k k' : K) : Prop := KRelG (StR pre post) k k'

theorem wordAt_prev (ce : CharEnv) (pre post : Str) (hsep : Separated ce pre post)
    {p : Option Nat} {s : Str} {p' : Option Nat} {s' : Str} (h : StR pre post p s p' s') :
    wordAt ce p' = wordAt ce p := by
  obtain ⟨-, hp⟩ := h
  cases p with
  | some c => simp only at hp; rw [hp]
  | none => simp only at hp; rw [hp, hsep.1]; rfl

theorem wordAt_next (ce : CharEnv) (pre post : Str) (hsep : Separated ce pre post)
    {p : Option Nat} {s : Str} {p' : Option Nat} {s' : Str} (h : StR pre post p s p' s') :
    wordAt ce s'.head? = wordAt ce s.head? := by
  obtain ⟨hs, -⟩ := h
  subst hs
  cases s with
  | nil => simp only [List.nil_append, List.head?_nil]; rw [hsep.2]; rfl
  | cons c r => rfl

theorem stepChar_transfer (pre post : Str) (f : Nat → Bool) {p : Option Nat} {s : Str} {p' : Option Nat} {s' : Str}
    {k k' : K} (h : StR pre post p s p' s') (hk : KRel pre post k k') (hm : stepChar f s k = true) :
    stepChar f s' k' = true := by
  obtain ⟨hs, -⟩ := h
  subst hs
  cases s with
  | nil => simp [stepChar] at hm
  | cons c r =>
    simp only [stepChar, List.cons_append, Bool.and_eq_true] at hm ⊢
    exact ⟨hm.1, hk (some c) r (some c) (r ++ post) ⟨rfl, rfl⟩ hm.2⟩

/-- the repetition loop on related positions, for any relation under which the rest of the text grows by a constant
    (so "this iteration consumed something" is preserved) -/
theorem repLoop_transfer_gen (R : Option Nat → Str → Option Nat → Str → Prop) (d : Nat)
    (hlen : ∀ p s p' s', R p s p' s' → s'.length = s.length + d)
    (step : Option Nat → Str → K → Bool)
    (hstep : ∀ p s p' s' k k', R p s p' s' → KRelG R k k' → step p s k = true → step p' s' k' = true) :
    ∀ (f f' : Nat), f ≤ f' → ∀ (mn : Nat) (mx : Option Nat) p s p' s' k k', R p s p' s' → KRelG R k k' →
      repLoop step f mn mx p s k = true → repLoop step f' mn mx p' s' k' = true := by
  intro f
  induction f with
  | zero =>
    intro f' _ mn mx p s p' s' k k' hst hk hm
    simp only [repLoop, Bool.and_eq_true, beq_iff_eq] at hm
    obtain ⟨hmn, hkk⟩ := hm
    subst hmn
    have hk' := hk p s p' s' hst hkk
    cases f' with
    | zero => simp [repLoop, hk']
    | succ g => simp [repLoop, hk']
  | succ f ih =>
    intro f' hle mn mx p s p' s' k k' hst hk hm
    cases f' with
    | zero => omega
    | succ g =>
      have hfg : f ≤ g := by omega
      simp only [repLoop] at hm ⊢
      by_cases hmn : mn = 0
      · simp only [hmn, ↓reduceIte, Bool.or_eq_true, Bool.and_eq_true] at hm ⊢
        rcases hm with hkk | ⟨hmx, hs⟩
        · exact Or.inl (hk p s p' s' hst hkk)
        · refine Or.inr ⟨hmx, hstep p s p' s' _ _ hst ?_ hs⟩
          intro q t q' t' hqt hcont
          simp only [Bool.and_eq_true, decide_eq_true_eq] at hcont ⊢
          refine ⟨?_, ih g hfg 0 _ q t q' t' k k' hqt hk hcont.2⟩
          have h1 := hlen _ _ _ _ hqt
          have h2 := hlen _ _ _ _ hst
          omega
      · simp only [hmn, ↓reduceIte, Bool.and_eq_true] at hm ⊢
        refine ⟨hm.1, hstep p s p' s' _ _ hst ?_ hm.2⟩
        intro q t q' t' hqt hcont
        exact ih g hfg _ _ q t q' t' k k' hqt hk hcont

/-- the matcher on corresponding positions: a match of an anchor-free expression in `text` is a match in
    `pre ++ text ++ post` -/
theorem m_transfer (ce : CharEnv) (pre post : Str) (hsep : Separated ce pre post) :
    ∀ (r : Re), r.anchorFree = true → ∀ p s p' s' k k', StR pre post p s p' s' → KRel pre post k k' →
      r.m ce p s k = true → r.m ce p' s' k' = true := by
  intro r
  induction r with
  | eps => intro _ p s p' s' k k' hst hk hm; exact hk p s p' s' hst hm
  | lit a => intro _ p s p' s' k k' hst hk hm; exact stepChar_transfer pre post _ hst hk hm
  | notLit a => intro _ p s p' s' k k' hst hk hm; exact stepChar_transfer pre post _ hst hk hm
  | any => intro _ p s p' s' k k' hst hk hm; exact stepChar_transfer pre post _ hst hk hm
  | set neg items => intro _ p s p' s' k k' hst hk hm; exact stepChar_transfer pre post _ hst hk hm
  | seq a b iha ihb =>
    intro haf p s p' s' k k' hst hk hm
    simp only [Re.anchorFree, Bool.and_eq_true] at haf
    simp only [Re.m] at hm ⊢
    refine iha haf.1 p s p' s' _ _ hst ?_ hm
    intro q t q' t' hqt hb
    exact ihb haf.2 q t q' t' k k' hqt hk hb
  | alt a b iha ihb =>
    intro haf p s p' s' k k' hst hk hm
    simp only [Re.anchorFree, Bool.and_eq_true] at haf
    simp only [Re.m, Bool.or_eq_true] at hm ⊢
    rcases hm with h | h
    · exact Or.inl (iha haf.1 p s p' s' k k' hst hk h)
    · exact Or.inr (ihb haf.2 p s p' s' k k' hst hk h)
  | rep mn mx r ih =>
    intro haf p s p' s' k k' hst hk hm
    simp only [Re.anchorFree] at haf
    simp only [Re.m] at hm ⊢
    have hlen : ∀ p s p' s', StR pre post p s p' s' → s'.length = s.length + post.length := by
      intro p s p' s' h; rw [h.1, List.length_append]
    refine repLoop_transfer_gen (StR pre post) post.length hlen (r.m ce) (ih haf) _ _ ?_ mn mx p s p' s' k k' hst hk hm
    have := hlen _ _ _ _ hst
    omega
  | «at» a =>
    intro haf p s p' s' k k' hst hk hm
    cases a with
    | wordB =>
      simp only [Re.m, At.test, Bool.and_eq_true] at hm ⊢
      rw [wordAt_prev ce pre post hsep hst, wordAt_next ce pre post hsep hst]
      exact ⟨hm.1, hk p s p' s' hst hm.2⟩
    | notWordB =>
      simp only [Re.m, At.test, Bool.and_eq_true] at hm ⊢
      rw [wordAt_prev ce pre post hsep hst, wordAt_next ce pre post hsep hst]
      exact ⟨hm.1, hk p s p' s' hst hm.2⟩
    | bos => simp [Re.anchorFree] at haf
    | eos => simp [Re.anchorFree] at haf
    | eosStrict => simp [Re.anchorFree] at haf
  | unsupported w => intro haf; simp [Re.anchorFree] at haf

theorem searchFrom_of_m (ce : CharEnv) (r : Re) (p : Option Nat) (s : Str)
    (h : r.m ce p s (fun _ _ => true) = true) : searchFrom ce r p s = true := by
  cases s with
  | nil => simpa [searchFrom] using h
  | cons c t => simp [searchFrom, h]

theorem searchFrom_transfer (ce : CharEnv) (pre post : Str) (hsep : Separated ce pre post) (r : Re)
    (haf : r.anchorFree = true) :
    ∀ (s : Str) p p' s', StR pre post p s p' s' → searchFrom ce r p s = true → searchFrom ce r p' s' = true := by
  have hk : KRel pre post (fun _ _ => true) (fun _ _ => true) := fun _ _ _ _ _ _ => rfl
  intro s
  induction s with
  | nil =>
    intro p p' s' hst h
    simp only [searchFrom] at h
    exact searchFrom_of_m ce r p' s' (m_transfer ce pre post hsep r haf p [] p' s' _ _ hst hk h)
  | cons c t ih =>
    intro p p' s' hst h
    have hs := hst.1
    simp only [searchFrom, Bool.or_eq_true] at h
    rcases h with h | h
    · exact searchFrom_of_m ce r p' s' (m_transfer ce pre post hsep r haf p (c :: t) p' s' _ _ hst hk h)
    · subst hs
      simp only [List.cons_append, searchFrom, Bool.or_eq_true]
      exact Or.inr (ih (some c) (some c) (t ++ post) ⟨rfl, rfl⟩ h)

theorem searchFrom_prefix (ce : CharEnv) (r : Re) :
    ∀ (pre : Str) (q : Option Nat) (s : Str), searchFrom ce r (lastOr q pre) s = true →
      searchFrom ce r q (pre ++ s) = true := by
  intro pre
  induction pre with
  | nil => intro q s h; simpa [lastOr] using h
  | cons a pre ih =>
    intro q s h
    simp only [lastOr] at h
    simp only [List.cons_append, searchFrom, Bool.or_eq_true]
    exact Or.inr (ih (some a) s h)

/-- **Embedding stability of an anchor-free regex**, for every text, every surrounding text whose neighbouring code
    points are not word characters, and whatever `re`'s character tables are. -/
theorem search_embedding_stable (ce : CharEnv) (r : Re) (haf : r.anchorFree = true) (text pre post : Str)
    (hsep : Separated ce pre post) (h : search ce r text = true) :
    search ce r (pre ++ text ++ post) = true := by
  unfold search at h ⊢
  rw [List.append_assoc]
  apply searchFrom_prefix
  exact searchFrom_transfer ce pre post hsep r haf text none (lastOr none pre) (text ++ post) ⟨rfl, rfl⟩ h

/-! ### case changes

`CaseEqv ce a b` (Model/Regex.lean): `re`'s tables cannot tell the code points `a` and `b` apart.  Texts related code
point by code point give the same positions, so EVERY expression (anchors included) that matches one matches the
other. -/

/-- positions of two texts that are `CaseEqv` code point by code point -/
def CvR (ce : CharEnv) (p : Option Nat) (s : Str) (p' : Option Nat) (s' : Str) : Prop :=
  CaseVar ce s s' ∧
  (match p, p' with | none, none => True | some a, some b => CaseEqv ce a b | _, _ => False)

theorem caseVar_length (ce : CharEnv) {s t : Str} (h : CaseVar ce s t) : t.length = s.length := by
  induction h with
  | nil => rfl
  | cons _ _ ih => simp [ih]

theorem cvr_len (ce : CharEnv) : ∀ p s p' s', CvR ce p s p' s' → s'.length = s.length + 0 := by
  intro p s p' s' h
  simpa using caseVar_length ce h.1

theorem stepChar_cv (ce : CharEnv) (f : Nat → Bool) (hf : ∀ a b, CaseEqv ce a b → f a = f b)
    {p : Option Nat} {s : Str} {p' : Option Nat} {s' : Str} {k k' : K}
    (h : CvR ce p s p' s') (hk : KRelG (CvR ce) k k') (hm : stepChar f s k = true) : stepChar f s' k' = true := by
  obtain ⟨hs, -⟩ := h
  cases hs with
  | nil => simp [stepChar] at hm
  | @cons a b t t' hab htt =>
    simp only [stepChar, Bool.and_eq_true] at hm ⊢
    exact ⟨by rw [← hf a b hab]; exact hm.1, hk (some a) t (some b) t' ⟨htt, hab⟩ hm.2⟩

theorem wordAt_cv_prev (ce : CharEnv) {p : Option Nat} {s : Str} {p' : Option Nat} {s' : Str} (h : CvR ce p s p' s') :
    wordAt ce p' = wordAt ce p := by
  obtain ⟨-, hp⟩ := h
  cases p <;> cases p' <;> simp only at hp
  · rfl
  · exact hp.2.2.1.symm

theorem wordAt_cv_next (ce : CharEnv) {p : Option Nat} {s : Str} {p' : Option Nat} {s' : Str} (h : CvR ce p s p' s') :
    wordAt ce s'.head? = wordAt ce s.head? := by
  obtain ⟨hs, -⟩ := h
  cases hs with
  | nil => rfl
  | cons hab _ => exact hab.2.2.1.symm

theorem setItem_cv (ce : CharEnv) (i : SetItem) (a b : Nat) (h : CaseEqv ce a b) : i.test ce a = i.test ce b := by
  obtain ⟨hd, hsp, hw, hceq, hr, -⟩ := h
  cases i with
  | lit x => exact hceq x
  | range lo hi => exact hr lo hi
  | cat k neg => cases k <;> simp [SetItem.test, Cat.test, hd, hsp, hw]

theorem items_any_cv (ce : CharEnv) (a b : Nat) (h : CaseEqv ce a b) :
    ∀ items : List SetItem, (items.any fun i => i.test ce a) = (items.any fun i => i.test ce b) := by
  intro items
  induction items with
  | nil => rfl
  | cons i rest ih => simp only [List.any_cons, ih, setItem_cv ce i a b h]

theorem at_cv (ce : CharEnv) (a : At) {p : Option Nat} {s : Str} {p' : Option Nat} {s' : Str} (h : CvR ce p s p' s') :
    a.test ce p' s' = a.test ce p s := by
  cases a with
  | wordB => simp only [At.test]; rw [wordAt_cv_prev ce h, wordAt_cv_next ce h]
  | notWordB => simp only [At.test]; rw [wordAt_cv_prev ce h, wordAt_cv_next ce h]
  | bos =>
    obtain ⟨-, hp⟩ := h
    cases p <;> cases p' <;> simp_all [At.test]
  | eos =>
    obtain ⟨hs, -⟩ := h
    cases hs with
    | nil => rfl
    | @cons a b t t' hab htt =>
      cases htt with
      | nil =>
        have h10 := hab.2.2.2.2.2
        simp [At.test]
        exact h10.symm
      | cons _ _ => simp [At.test]
  | eosStrict =>
    obtain ⟨hs, -⟩ := h
    cases hs <;> simp [At.test]

/-- the matcher on texts that differ by case only -/
theorem m_cv (ce : CharEnv) :
    ∀ (r : Re) p s p' s' k k', CvR ce p s p' s' → KRelG (CvR ce) k k' →
      r.m ce p s k = true → r.m ce p' s' k' = true := by
  intro r
  induction r with
  | eps => intro p s p' s' k k' hst hk hm; exact hk p s p' s' hst hm
  | lit x =>
    intro p s p' s' k k' hst hk hm
    exact stepChar_cv ce _ (fun a b h => h.2.2.2.1 x) hst hk hm
  | notLit x =>
    intro p s p' s' k k' hst hk hm
    exact stepChar_cv ce _ (fun a b h => by simp only [h.2.2.2.1 x]) hst hk hm
  | any =>
    intro p s p' s' k k' hst hk hm
    refine stepChar_cv ce _ (fun a b h => ?_) hst hk hm
    have h10 := h.2.2.2.2.2
    simp only [bne, h10]
  | set neg items =>
    intro p s p' s' k k' hst hk hm
    refine stepChar_cv ce _ (fun a b h => ?_) hst hk hm
    rw [items_any_cv ce a b h items]
  | seq a b iha ihb =>
    intro p s p' s' k k' hst hk hm
    simp only [Re.m] at hm ⊢
    refine iha p s p' s' _ _ hst ?_ hm
    intro q t q' t' hqt hb
    exact ihb q t q' t' k k' hqt hk hb
  | alt a b iha ihb =>
    intro p s p' s' k k' hst hk hm
    simp only [Re.m, Bool.or_eq_true] at hm ⊢
    rcases hm with h | h
    · exact Or.inl (iha p s p' s' k k' hst hk h)
    · exact Or.inr (ihb p s p' s' k k' hst hk h)
  | rep mn mx r ih =>
    intro p s p' s' k k' hst hk hm
    simp only [Re.m] at hm ⊢
    refine repLoop_transfer_gen (CvR ce) 0 (cvr_len ce) (r.m ce) ih _ _ ?_ mn mx p s p' s' k k' hst hk hm
    have := cvr_len ce _ _ _ _ hst
    omega
  | «at» a =>
    intro p s p' s' k k' hst hk hm
    simp only [Re.m, Bool.and_eq_true] at hm ⊢
    rw [at_cv ce a hst]
    exact ⟨hm.1, hk p s p' s' hst hm.2⟩
  | unsupported w => intro p s p' s' k k' _ _ hm; simp [Re.m] at hm

theorem searchFrom_cv (ce : CharEnv) (r : Re) :
    ∀ (s : Str) p p' s', CvR ce p s p' s' → searchFrom ce r p s = true → searchFrom ce r p' s' = true := by
  have hk : KRelG (CvR ce) (fun _ _ => true) (fun _ _ => true) := fun _ _ _ _ _ _ => rfl
  intro s
  induction s with
  | nil =>
    intro p p' s' hst h
    simp only [searchFrom] at h
    exact searchFrom_of_m ce r p' s' (m_cv ce r p [] p' s' _ _ hst hk h)
  | cons c t ih =>
    intro p p' s' hst h
    simp only [searchFrom, Bool.or_eq_true] at h
    rcases h with h | h
    · exact searchFrom_of_m ce r p' s' (m_cv ce r p (c :: t) p' s' _ _ hst hk h)
    · obtain ⟨hs, -⟩ := hst
      cases hs with
      | @cons a b t2 t' hab htt =>
        simp only [searchFrom, Bool.or_eq_true]
        exact Or.inr (ih (some c) (some b) t' ⟨htt, hab⟩ h)

/-- **Case stability of a regex**: texts that `re`'s tables cannot tell apart code point by code point are matched by
    the same expressions — every expression, anchors included. -/
theorem search_case_stable (ce : CharEnv) (r : Re) (text text' : Str)
    (hcv : CaseVar ce text text') (h : search ce r text = true) : search ce r text' = true :=
  searchFrom_cv ce r text none none text' ⟨hcv, trivial⟩ h

end Operon.Gates.Rx
