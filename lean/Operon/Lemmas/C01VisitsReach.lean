import Operon.Lemmas.C01Reach
import Operon.Model.MitoWork
/-! C01 helper: the number of walker invocations (`visits`, the quantity the harness counts on the real engine and
    compares with the model on every `met` / `dg` line) is the length of the list of reached nodes (`reached`, the object
    the evaluation-path theorems speak about).  So `reached` is tied to the code through the measured count. -/
namespace Operon.Mito
open R

section vr
variable (T : Tables) (env : Env)

mutual
theorem visits_eq_reached : ∀ e, visits T env e = (reached T env e).length
  | .const _ => by simp [visits, reached]
  | .name _ => by simp [visits, reached]
  | .other _ _ => by simp [visits, reached]
  | .binop k l r => by
    unfold visits reached
    simp only [List.length_cons, List.length_append, visits_eq_reached l]
    cases (walk T env l).2 <;> simp [visits_eq_reached r] <;> omega
  | .unop k e => by
    unfold visits reached
    simp only [List.length_cons, visits_eq_reached e]; omega
  | .call f args kn kv => by
    unfold visits reached
    cases f <;> simp only [List.length_cons, List.length_nil] <;> try omega
    rename_i fn
    split
    · split
      · simp
      · simp only [List.length_append, visitsList_eq_reached args]
        cases (walkList T env args).2 <;> simp [visitsKws_eq_reached kn kv] <;> omega
    · simp
  | .list es => by
    unfold visits reached
    simp only [List.length_cons, visitsList_eq_reached es]; omega
  | .tuple es => by
    unfold visits reached
    simp only [List.length_cons, visitsList_eq_reached es]; omega
  | .compare l ops cs => by
    unfold visits reached
    simp only [List.length_cons, List.length_append, visits_eq_reached l]
    cases h : (walk T env l).2 with
    | error _ => simp; omega
    | ok a => simp [visitsCmp_eq_reached a ops cs]; omega
  | .boolop k es => by
    unfold visits reached
    simp only [List.length_cons]
    split
    · simp [visitsBool_eq_reached k es]; omega
    · simp
  | .ifexp c t e => by
    unfold visits reached
    simp only [List.length_cons, List.length_append, visits_eq_reached c]
    cases (walk T env c).2 with
    | error _ => simp; omega
    | ok cv =>
      simp only
      cases (truthyR env cv).2 with
      | error _ => simp; omega
      | ok b => cases b <;> simp [visits_eq_reached t, visits_eq_reached e] <;> omega

theorem visitsList_eq_reached : ∀ es, visitsList T env es = (reachedList T env es).length
  | [] => by simp [visitsList, reachedList]
  | e :: es => by
    unfold visitsList reachedList
    simp only [List.length_append, visits_eq_reached e]
    cases (walk T env e).2 <;> simp [visitsList_eq_reached es]

theorem visitsKws_eq_reached (names : List (Option String)) :
    ∀ es, visitsKws T env names es = (reachedKws T env names es).length
  | [] => by simp [visitsKws, reachedKws]
  | e :: es => by
    unfold visitsKws reachedKws
    split
    · rename_i n ns
      simp only [List.length_append, visits_eq_reached e]
      cases (walk T env e).2 <;> simp [visitsKws_eq_reached ns es]
    · simp

theorem visitsCmp_eq_reached (left : Val) (ops : List CmpK) :
    ∀ cs, visitsCmp T env left ops cs = (reachedCmp T env left ops cs).length
  | [] => by simp [visitsCmp, reachedCmp]
  | c :: cs => by
    unfold visitsCmp reachedCmp
    split
    · simp
    · rename_i op ops'
      simp only [List.length_append, visits_eq_reached c]
      cases (walk T env c).2 with
      | error _ => simp
      | ok right =>
        simp only
        cases T.cmp.lookup op with
        | none => simp
        | some p =>
          simp only
          cases env.prim p [left, right] with
          | error _ => simp
          | ok r =>
            simp only
            cases (truthyR env r).2 with
            | error _ => simp
            | ok b => cases b <;> simp [visitsCmp_eq_reached right ops' cs]

theorem visitsBool_eq_reached (k : BoolK) : ∀ es, visitsBool T env k es = (reachedBool T env k es).length
  | [] => by simp [visitsBool, reachedBool]
  | e :: es => by
    unfold visitsBool reachedBool
    split
    · exact visits_eq_reached e
    · simp only [List.length_append, visits_eq_reached e]
      cases (walk T env e).2 with
      | error _ => simp
      | ok v =>
        simp only
        cases (truthyR env v).2 with
        | error _ => simp
        | ok b =>
          simp only
          split
          · simp
          · rename_i e' es' _
            simp [visitsBool_eq_reached k (e' :: es')]
end

end vr
end Operon.Mito
