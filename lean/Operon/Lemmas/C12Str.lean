import Operon.Lemmas.C12
/-! C12, string layer vs. token layer: the scanner-level argument, carried out for the simple-variable sub-pass
    (`\{\{(\w+)\}\}`), with the generic part (`scan_skip`, `scan_print`) stated for any matcher. -/
namespace Operon.Tmpl
open Operon.Ribosome

/-- the character classes of the environment are sane: none of the delimiter characters is a word character -/
structure CfgSane (cfg : Cfg) : Prop where
  lb : cfg.isWord 123 = false
  rb : cfg.isWord 125 = false
  q : cfg.isWord 63 = false
  hash : cfg.isWord 35 = false
  slash : cfg.isWord 47 = false
  gt : cfg.isWord 62 = false
  dot : cfg.isWord 46 = false
  bar : cfg.isWord 124 = false

def WordName (cfg : Cfg) (n : Str) : Prop := n ≠ [] ∧ ∀ c ∈ n, cfg.isWord c = true

/-- a token whose printed form lexes back to itself as far as `{` is concerned: text without `{`, names made of word
    characters, default / whitespace without `{` -/
def Tok.wfp (cfg : Cfg) : Tok → Prop
  | .text s => 123 ∉ s
  | .val s => 123 ∉ s
  | .var n => WordName cfg n
  | .opt n => WordName cfg n
  | .inc n => WordName cfg n
  | .pipe n a => WordName cfg n ∧ 123 ∉ a
  | .ifO ws n => 123 ∉ ws ∧ WordName cfg n
  | .eachO ws n => 123 ∉ ws ∧ WordName cfg n
  | _ => True

/-! ### generic: scanning through text in which the matcher never fires -/

theorem scan_nil {α : Type} (m : Str → Option (α × Str)) (f : Nat) : scan m f [] = [] := by
  cases f <;> rfl

theorem scan_skip {α : Type} (m : Str → Option (α × Str)) (u rest : Str) (f : Nat)
    (h : ∀ i, i < u.length → m (u.drop i ++ rest) = none) :
    scan m (u.length + f) (u ++ rest) = u.map Sum.inl ++ scan m f rest := by
  induction u with
  | nil => simp
  | cons c u ih =>
    have h0 := h 0 (by simp)
    simp only [List.drop_zero, List.cons_append] at h0
    have : (c :: u).length + f = (u.length + f) + 1 := by simp; omega
    rw [this]
    simp only [List.cons_append, scan, h0, List.map_cons]
    rw [ih (fun i hi => by have := h (i + 1) (by simp; omega); simpa using this)]

/-! ### the simple-variable matcher on printed tokens -/

theorem stripLL_ne (c : Nat) (s : Str) (hc : c ≠ 123) : stripPrefix LL (c :: s) = none := by
  have h : (123 = c) = False := by simp; omega
  simp [stripPrefix, LL, h]

theorem stripLL_one (c : Nat) (s : Str) (hc : c ≠ 123) : stripPrefix LL (123 :: c :: s) = none := by
  have h : (123 = c) = False := by simp; omega
  simp [stripPrefix, LL, h]

theorem stripLL_two (s : Str) : stripPrefix LL (123 :: 123 :: s) = some s := by
  simp [stripPrefix, LL]

theorem mSimple_ne (cfg : Cfg) (c : Nat) (s : Str) (hc : c ≠ 123) : matchWordTag cfg LL (c :: s) = none := by
  simp [matchWordTag, stripLL_ne c s hc]

theorem mSimple_one (cfg : Cfg) (c : Nat) (s : Str) (hc : c ≠ 123) : matchWordTag cfg LL (123 :: c :: s) = none := by
  simp [matchWordTag, stripLL_one c s hc]

theorem spanP_word (f : Nat → Bool) (n : Str) (c : Nat) (r : Str) (hn : ∀ x ∈ n, f x = true) (hc : f c = false) :
    spanP f (n ++ c :: r) = (n, c :: r) := by
  induction n with
  | nil => simp [spanP, hc]
  | cons x n ih =>
    have hx := hn x (by simp)
    have := ih (fun y hy => hn y (by simp [hy]))
    simp [spanP, hx, this]

/-- `{{` followed by a non-word character: no simple variable here -/
theorem mSimple_nonword (cfg : Cfg) (c : Nat) (s : Str) (hc : cfg.isWord c = false) :
    matchWordTag cfg LL (123 :: 123 :: c :: s) = none := by
  simp [matchWordTag, stripLL_two, spanP, hc]

/-- `{{name|…`: no simple variable here -/
theorem mSimple_pipe (cfg : Cfg) (hs : CfgSane cfg) (n : Str) (hn : WordName cfg n) (s : Str) :
    matchWordTag cfg LL (123 :: 123 :: (n ++ 124 :: s)) = none := by
  simp only [matchWordTag, stripLL_two, spanP_word cfg.isWord n 124 s hn.2 hs.bar]
  simp [hn.1, stripPrefix, RR]

/-- `{{name}}`: a hit, and the scan resumes right behind it -/
theorem mSimple_hit (cfg : Cfg) (hs : CfgSane cfg) (n : Str) (hn : WordName cfg n) (s : Str) :
    matchWordTag cfg LL (123 :: 123 :: (n ++ 125 :: 125 :: s)) = some (n, s) := by
  simp only [matchWordTag, stripLL_two, spanP_word cfg.isWord n 125 (125 :: s) hn.2 hs.rb]
  simp [hn.1, stripPrefix, RR]

/-- a printed tag `{{c…` whose third character is not `{` and whose tail holds no `{`: once the matcher fails at its
    first character it fails at every later one -/
theorem skip_tag (cfg : Cfg) (c : Nat) (tail rest : Str) (hc : c ≠ 123) (ht : 123 ∉ tail)
    (h0 : matchWordTag cfg LL (123 :: 123 :: c :: tail ++ rest) = none) :
    ∀ i, i < (123 :: 123 :: c :: tail).length →
      matchWordTag cfg LL ((123 :: 123 :: c :: tail).drop i ++ rest) = none := by
  intro i hi
  match i with
  | 0 => simpa using h0
  | 1 => simpa using mSimple_one cfg c (tail ++ rest) hc
  | 2 => simpa using mSimple_ne cfg c (tail ++ rest) hc
  | i + 3 =>
    simp only [List.drop_succ_cons]
    have hlen : i < tail.length := by simp at hi; omega
    cases hd : tail.drop i with
    | nil =>
      have := List.drop_eq_nil_iff.mp hd
      omega
    | cons x xs =>
      have hx : x ∈ tail := by
        have : x ∈ tail.drop i := by rw [hd]; simp
        exact List.mem_of_mem_drop this
      have : x ≠ 123 := fun e => ht (e ▸ hx)
      simpa using mSimple_ne cfg x (xs ++ rest) this

/-- what the simple-variable scan sees of one token -/
def scanTokD : Tok → List (Sum Nat Str)
  | .var n => [.inr n]
  | t => t.print.map Sum.inl

theorem mem_of_word_ne {cfg : Cfg} (hs : CfgSane cfg) {n : Str} (hn : WordName cfg n) : 123 ∉ n := by
  intro h
  have := hn.2 123 h
  rw [hs.lb] at this
  cases this

theorem head_word_ne {cfg : Cfg} (hs : CfgSane cfg) {n : Str} (hn : WordName cfg n) :
    ∃ c t, n = c :: t ∧ c ≠ 123 ∧ 123 ∉ t := by
  cases hn' : n with
  | nil => exact absurd hn' hn.1
  | cons c t =>
    have hnot := mem_of_word_ne hs hn
    rw [hn'] at hnot
    exact ⟨c, t, rfl, fun e => hnot (by simp [e]), fun h => hnot (by simp [h])⟩

/-- one non-variable token is scanned through character by character -/
theorem scan_tok_skip (cfg : Cfg) (hs : CfgSane cfg) (t : Tok) (hw : t.wfp cfg) (hnv : ∀ n, t ≠ .var n)
    (rest : Str) (f : Nat) :
    scan (matchWordTag cfg LL) (t.print.length + f) (t.print ++ rest)
      = t.print.map Sum.inl ++ scan (matchWordTag cfg LL) f rest := by
  apply scan_skip
  have plain : ∀ s : Str, 123 ∉ s → ∀ i, i < s.length → matchWordTag cfg LL (s.drop i ++ rest) = none := by
    intro s hs' i hi
    cases hd : s.drop i with
    | nil => have := List.drop_eq_nil_iff.mp hd; omega
    | cons x xs =>
      have hx : x ∈ s := List.mem_of_mem_drop (by rw [hd]; simp)
      simpa using mSimple_ne cfg x (xs ++ rest) (fun e => hs' (e ▸ hx))
  cases t with
  | text s => exact plain s hw
  | val s => exact plain s hw
  | var n => exact absurd rfl (hnv n)
  | dot =>
    have := skip_tag cfg 46 [125, 125] rest (by decide) (by decide) (by simpa using mSimple_nonword cfg 46 _ hs.dot)
    simpa [Tok.print, tagOf, kDot, LL, RR] using this
  | opt n =>
    have hn := mem_of_word_ne hs hw
    have := skip_tag cfg 63 (n ++ [125, 125]) rest (by decide) (by simp [hn])
      (by simpa using mSimple_nonword cfg 63 _ hs.q)
    simpa [Tok.print, OPTH, RR] using this
  | inc n =>
    have hn := mem_of_word_ne hs hw
    have := skip_tag cfg 62 (n ++ [125, 125]) rest (by decide) (by simp [hn])
      (by simpa using mSimple_nonword cfg 62 _ hs.gt)
    simpa [Tok.print, INCH, RR] using this
  | els =>
    have := skip_tag cfg 35 [101, 108, 115, 101, 125, 125] rest (by decide) (by decide)
      (by simpa using mSimple_nonword cfg 35 _ hs.hash)
    simpa [Tok.print, ELSE] using this
  | ifC =>
    have := skip_tag cfg 47 [105, 102, 125, 125] rest (by decide) (by decide)
      (by simpa using mSimple_nonword cfg 47 _ hs.slash)
    simpa [Tok.print, ENDIF] using this
  | eachC =>
    have := skip_tag cfg 47 [101, 97, 99, 104, 125, 125] rest (by decide) (by decide)
      (by simpa using mSimple_nonword cfg 47 _ hs.slash)
    simpa [Tok.print, ENDEACH] using this
  | ifO ws n =>
    have hn := mem_of_word_ne hs hw.2
    have := skip_tag cfg 35 ([105, 102] ++ ws ++ n ++ [125, 125]) rest (by decide) (by simp [hn, hw.1])
      (by simpa using mSimple_nonword cfg 35 _ hs.hash)
    simpa [Tok.print, IFH, RR] using this
  | eachO ws n =>
    have hn := mem_of_word_ne hs hw.2
    have := skip_tag cfg 35 ([101, 97, 99, 104] ++ ws ++ n ++ [125, 125]) rest (by decide) (by simp [hn, hw.1])
      (by simpa using mSimple_nonword cfg 35 _ hs.hash)
    simpa [Tok.print, EACHH, RR] using this
  | pipe n a =>
    obtain ⟨c, tl, hn, hc, htl⟩ := head_word_ne hs hw.1
    have h0 := mSimple_pipe cfg hs n hw.1 (a ++ [125, 125] ++ rest)
    have := skip_tag cfg c (tl ++ 124 :: a ++ [125, 125]) rest hc (by simp [htl, hw.2])
      (by subst hn; simpa using h0)
    subst hn
    simpa [Tok.print, pipeTag, LL, RR, BAR] using this

/-- the simple-variable scan over printed tokens finds exactly the `var` tokens -/
theorem scan_print (cfg : Cfg) (hs : CfgSane cfg) (ts : List Tok) (hw : ∀ t ∈ ts, t.wfp cfg) :
    ∀ f, (printToks ts).length ≤ f →
      scan (matchWordTag cfg LL) f (printToks ts) = ts.flatMap scanTokD := by
  induction ts with
  | nil => intro f _; simp [printToks, scan_nil]
  | cons t ts ih =>
    intro f hf
    have hwt := hw t (by simp)
    have ih' := ih (fun x hx => hw x (by simp [hx]))
    have hpt : printToks (t :: ts) = t.print ++ printToks ts := by simp [printToks]
    rw [hpt] at hf ⊢
    rw [List.flatMap_cons]
    rw [List.length_append] at hf
    by_cases hv : ∃ n, t = .var n
    · obtain ⟨n, rfl⟩ := hv
      have hp : (Tok.var n).print ++ printToks ts = 123 :: 123 :: (n ++ 125 :: 125 :: printToks ts) := by
        simp [Tok.print, tagOf, LL, RR]
      have hl : (Tok.var n).print.length = n.length + 4 := by simp [Tok.print, tagOf, LL, RR]
      obtain ⟨f', rfl⟩ : ∃ f', f = f' + 1 := ⟨f - 1, by omega⟩
      have hit := mSimple_hit cfg hs n hwt (printToks ts)
      rw [hp]
      simp only [scan, hit, scanTokD, List.cons_append, List.nil_append]
      rw [ih' f' (by omega)]
    · have hnv : ∀ n, t ≠ .var n := fun n e => hv ⟨n, e⟩
      have hsplit : f = t.print.length + (f - t.print.length) := by omega
      rw [hsplit, scan_tok_skip cfg hs t hwt hnv]
      rw [ih' _ (by omega)]
      have : scanTokD t = t.print.map Sum.inl := by
        cases t <;> first | rfl | exact absurd rfl (hnv _)
      rw [this]

/-! ### from the scan to the sub-pass -/

theorem subM_inl {α : Type} (g : α → Except Err (Str × List Str)) (u : Str) (r : List (Sum Nat α)) :
    subM g (u.map Sum.inl ++ r)
      = match subM g r with
        | .ok (s, w) => .ok (u ++ s, w)
        | .error e => .error e := by
  induction u with
  | nil => simp; cases subM g r with
    | error e => rfl
    | ok p => rfl
  | cons c u ih =>
    simp only [List.map_cons, List.cons_append, subM, ih]
    cases subM g r with
    | error e => rfl
    | ok p => rfl

/-- PARTIAL of the stretch goal, for the simple-variable sub-pass (`\{\{(\w+)\}\}`, the last of the variable pass):
    on the printed form of any well-formed token list — text, values, defaults and whitespace without `{`, names made
    of word characters — the string layer's regex sub-pass computes exactly the token layer's `tokD`, text and
    warnings, provided bound values contain no `{`. -/
theorem passSimple_print (cfg : Cfg) (hs : CfgSane cfg) (ctx : Ctx) (htext : ∀ n, NoLB (textOf ctx n))
    (ts : List Tok) (hw : ∀ t ∈ ts, t.wfp cfg) :
    passSimple cfg ctx (printToks ts)
      = .ok (printToks (ts.flatMap (tokD cfg ctx)), ts.flatMap (warnD ctx)) := by
  unfold passSimple scanStr
  rw [scan_print cfg hs ts hw _ (by omega)]
  induction ts with
  | nil => rfl
  | cons t ts ih =>
    have ih' := ih (fun x hx => hw x (by simp [hx]))
    simp only [List.flatMap_cons]
    by_cases hv : ∃ n, t = .var n
    · obtain ⟨n, rfl⟩ := hv
      simp only [scanTokD, List.cons_append, List.nil_append, subM, ih']
      by_cases hb : isBound ctx n = true
      · simp [hb, tokD, warnD, lexVal_noLB cfg _ (htext n), valTok, printToks, Tok.print]
      · simp [hb, tokD, warnD, printToks, Tok.print]
    · have hnv : ∀ n, t ≠ .var n := fun n e => hv ⟨n, e⟩
      have h1 : scanTokD t = t.print.map Sum.inl := by
        cases t <;> first | rfl | exact absurd rfl (hnv _)
      have h2 : tokD cfg ctx t = [t] := by
        cases t <;> first | rfl | exact absurd rfl (hnv _)
      have h3 : warnD ctx t = [] := by
        cases t <;> first | rfl | exact absurd rfl (hnv _)
      rw [h1, subM_inl, ih', h2, h3]
      simp [printToks]

/-! ### the optional-variable sub-pass (`\{\{\?(\w+)\}\}`) by the same argument -/

theorem stripOPT_ne (c : Nat) (s : Str) (hc : c ≠ 123) : stripPrefix OPTH (c :: s) = none := by
  have h : (123 = c) = False := by simp; omega
  simp [stripPrefix, OPTH, h]

theorem stripOPT_one (c : Nat) (s : Str) (hc : c ≠ 123) : stripPrefix OPTH (123 :: c :: s) = none := by
  have h : (123 = c) = False := by simp; omega
  simp [stripPrefix, OPTH, h]

theorem stripOPT_two (c : Nat) (s : Str) (hc : c ≠ 63) : stripPrefix OPTH (123 :: 123 :: c :: s) = none := by
  have h : (63 = c) = False := by simp; omega
  simp [stripPrefix, OPTH, h]

theorem mOpt_ne (cfg : Cfg) (c : Nat) (s : Str) (hc : c ≠ 123) : matchWordTag cfg OPTH (c :: s) = none := by
  simp [matchWordTag, stripOPT_ne c s hc]

theorem mOpt_one (cfg : Cfg) (c : Nat) (s : Str) (hc : c ≠ 123) : matchWordTag cfg OPTH (123 :: c :: s) = none := by
  simp [matchWordTag, stripOPT_one c s hc]

theorem mOpt_two (cfg : Cfg) (c : Nat) (s : Str) (hc : c ≠ 63) : matchWordTag cfg OPTH (123 :: 123 :: c :: s) = none := by
  simp [matchWordTag, stripOPT_two c s hc]

theorem mOpt_hit (cfg : Cfg) (hs : CfgSane cfg) (n : Str) (hn : WordName cfg n) (s : Str) :
    matchWordTag cfg OPTH (123 :: 123 :: 63 :: (n ++ 125 :: 125 :: s)) = some (n, s) := by
  have : stripPrefix OPTH (123 :: 123 :: 63 :: (n ++ 125 :: 125 :: s)) = some (n ++ 125 :: 125 :: s) := by
    simp [stripPrefix, OPTH]
  simp only [matchWordTag, this, spanP_word cfg.isWord n 125 (125 :: s) hn.2 hs.rb]
  simp [hn.1, stripPrefix, RR]

theorem skip_tag_opt (cfg : Cfg) (c : Nat) (tail rest : Str) (hc : c ≠ 123) (hq : c ≠ 63) (ht : 123 ∉ tail) :
    ∀ i, i < (123 :: 123 :: c :: tail).length →
      matchWordTag cfg OPTH ((123 :: 123 :: c :: tail).drop i ++ rest) = none := by
  intro i hi
  match i with
  | 0 => simpa using mOpt_two cfg c (tail ++ rest) hq
  | 1 => simpa using mOpt_one cfg c (tail ++ rest) hc
  | 2 => simpa using mOpt_ne cfg c (tail ++ rest) hc
  | i + 3 =>
    simp only [List.drop_succ_cons]
    have hlen : i < tail.length := by simp at hi; omega
    cases hd : tail.drop i with
    | nil =>
      have := List.drop_eq_nil_iff.mp hd
      omega
    | cons x xs =>
      have hx : x ∈ tail := List.mem_of_mem_drop (by rw [hd]; simp)
      have : x ≠ 123 := fun e => ht (e ▸ hx)
      simpa using mOpt_ne cfg x (xs ++ rest) this

def scanTokC : Tok → List (Sum Nat Str)
  | .opt n => [.inr n]
  | t => t.print.map Sum.inl

theorem scan_tok_skip_opt (cfg : Cfg) (hs : CfgSane cfg) (t : Tok) (hw : t.wfp cfg) (hnv : ∀ n, t ≠ .opt n)
    (rest : Str) (f : Nat) :
    scan (matchWordTag cfg OPTH) (t.print.length + f) (t.print ++ rest)
      = t.print.map Sum.inl ++ scan (matchWordTag cfg OPTH) f rest := by
  apply scan_skip
  have plain : ∀ s : Str, 123 ∉ s → ∀ i, i < s.length → matchWordTag cfg OPTH (s.drop i ++ rest) = none := by
    intro s hs' i hi
    cases hd : s.drop i with
    | nil => have := List.drop_eq_nil_iff.mp hd; omega
    | cons x xs =>
      have hx : x ∈ s := List.mem_of_mem_drop (by rw [hd]; simp)
      simpa using mOpt_ne cfg x (xs ++ rest) (fun e => hs' (e ▸ hx))
  have word : ∀ n : Str, WordName cfg n → ∀ tail' : Str, 123 ∉ tail' → ∀ i, i < (123 :: 123 :: (n ++ tail')).length →
      matchWordTag cfg OPTH ((123 :: 123 :: (n ++ tail')).drop i ++ rest) = none := by
    intro n hn tail' ht'
    obtain ⟨c, tl, hnn, hc, htl⟩ := head_word_ne hs hn
    subst hnn
    have hq : c ≠ 63 := by
      intro e
      have := hn.2 c (by simp)
      rw [e, hs.q] at this
      cases this
    simpa using skip_tag_opt cfg c (tl ++ tail') rest hc hq (by simp [htl, ht'])
  cases t with
  | text s => exact plain s hw
  | val s => exact plain s hw
  | opt n => exact absurd rfl (hnv n)
  | var n =>
    have := word n hw [125, 125] (by decide)
    simpa [Tok.print, tagOf, LL, RR] using this
  | pipe n a =>
    have := word n hw.1 (124 :: a ++ [125, 125]) (by simp [hw.2])
    simpa [Tok.print, pipeTag, LL, RR, BAR] using this
  | dot =>
    have := skip_tag_opt cfg 46 [125, 125] rest (by decide) (by decide) (by decide)
    simpa [Tok.print, tagOf, kDot, LL, RR] using this
  | inc n =>
    have hn := mem_of_word_ne hs hw
    have := skip_tag_opt cfg 62 (n ++ [125, 125]) rest (by decide) (by decide) (by simp [hn])
    simpa [Tok.print, INCH, RR] using this
  | els =>
    have := skip_tag_opt cfg 35 [101, 108, 115, 101, 125, 125] rest (by decide) (by decide) (by decide)
    simpa [Tok.print, ELSE] using this
  | ifC =>
    have := skip_tag_opt cfg 47 [105, 102, 125, 125] rest (by decide) (by decide) (by decide)
    simpa [Tok.print, ENDIF] using this
  | eachC =>
    have := skip_tag_opt cfg 47 [101, 97, 99, 104, 125, 125] rest (by decide) (by decide) (by decide)
    simpa [Tok.print, ENDEACH] using this
  | ifO ws n =>
    have hn := mem_of_word_ne hs hw.2
    have := skip_tag_opt cfg 35 ([105, 102] ++ ws ++ n ++ [125, 125]) rest (by decide) (by decide) (by simp [hn, hw.1])
    simpa [Tok.print, IFH, RR] using this
  | eachO ws n =>
    have hn := mem_of_word_ne hs hw.2
    have := skip_tag_opt cfg 35 ([101, 97, 99, 104] ++ ws ++ n ++ [125, 125]) rest (by decide) (by decide)
      (by simp [hn, hw.1])
    simpa [Tok.print, EACHH, RR] using this

theorem scan_print_opt (cfg : Cfg) (hs : CfgSane cfg) (ts : List Tok) (hw : ∀ t ∈ ts, t.wfp cfg) :
    ∀ f, (printToks ts).length ≤ f →
      scan (matchWordTag cfg OPTH) f (printToks ts) = ts.flatMap scanTokC := by
  induction ts with
  | nil => intro f _; simp [printToks, scan_nil]
  | cons t ts ih =>
    intro f hf
    have hwt := hw t (by simp)
    have ih' := ih (fun x hx => hw x (by simp [hx]))
    have hpt : printToks (t :: ts) = t.print ++ printToks ts := by simp [printToks]
    rw [hpt] at hf ⊢
    rw [List.flatMap_cons]
    rw [List.length_append] at hf
    by_cases hv : ∃ n, t = .opt n
    · obtain ⟨n, rfl⟩ := hv
      have hp : (Tok.opt n).print ++ printToks ts = 123 :: 123 :: 63 :: (n ++ 125 :: 125 :: printToks ts) := by
        simp [Tok.print, OPTH, RR]
      have hl : (Tok.opt n).print.length = n.length + 5 := by simp [Tok.print, OPTH, RR]
      obtain ⟨f', rfl⟩ : ∃ f', f = f' + 1 := ⟨f - 1, by omega⟩
      have hit := mOpt_hit cfg hs n hwt (printToks ts)
      rw [hp]
      simp only [scan, hit, scanTokC, List.cons_append, List.nil_append]
      rw [ih' f' (by omega)]
    · have hnv : ∀ n, t ≠ .opt n := fun n e => hv ⟨n, e⟩
      have hsplit : f = t.print.length + (f - t.print.length) := by omega
      rw [hsplit, scan_tok_skip_opt cfg hs t hwt hnv]
      rw [ih' _ (by omega)]
      have : scanTokC t = t.print.map Sum.inl := by
        cases t <;> first | rfl | exact absurd rfl (hnv _)
      rw [this]

theorem subWith_inl {α : Type} (g : α → Str) (u : Str) (r : List (Sum Nat α)) :
    subWith g (u.map Sum.inl ++ r) = u ++ subWith g r := by
  induction u with
  | nil => rfl
  | cons c u ih => simp [subWith, ih]

/-- the optional-variable sub-pass of the string layer = `tokC` of the token layer, on printed well-formed tokens -/
theorem passOptional_print (cfg : Cfg) (hs : CfgSane cfg) (ctx : Ctx) (htext : ∀ n, NoLB (textOf ctx n))
    (ts : List Tok) (hw : ∀ t ∈ ts, t.wfp cfg) :
    passOptional cfg ctx (printToks ts) = printToks (ts.flatMap (tokC cfg ctx)) := by
  unfold passOptional scanStr
  rw [scan_print_opt cfg hs ts hw _ (by omega)]
  induction ts with
  | nil => rfl
  | cons t ts ih =>
    have ih' := ih (fun x hx => hw x (by simp [hx]))
    simp only [List.flatMap_cons]
    by_cases hv : ∃ n, t = .opt n
    · obtain ⟨n, rfl⟩ := hv
      simp [scanTokC, subWith, ih', tokC, lexVal_noLB cfg _ (htext n), valTok, printToks, Tok.print]
    · have hnv : ∀ n, t ≠ .opt n := fun n e => hv ⟨n, e⟩
      have h1 : scanTokC t = t.print.map Sum.inl := by
        cases t <;> first | rfl | exact absurd rfl (hnv _)
      have h2 : tokC cfg ctx t = [t] := by
        cases t <;> first | rfl | exact absurd rfl (hnv _)
      rw [h1, subWith_inl, ih', h2]
      simp [printToks]

/-- `tokC` keeps token lists well formed (what it splices in is a value without `{`) -/
theorem tokC_wfp (cfg : Cfg) (ctx : Ctx) (htext : ∀ n, NoLB (textOf ctx n)) (ts : List Tok)
    (hw : ∀ t ∈ ts, t.wfp cfg) : ∀ t ∈ ts.flatMap (tokC cfg ctx), t.wfp cfg := by
  intro x hx
  obtain ⟨t, ht, hxt⟩ := List.mem_flatMap.mp hx
  cases t with
  | opt n =>
    simp only [tokC, lexVal_noLB cfg _ (htext n)] at hxt
    rw [mem_valTok hxt]
    exact htext n
  | _ => simp [tokC] at hxt; subst hxt; exact hw _ ht

end Operon.Tmpl
