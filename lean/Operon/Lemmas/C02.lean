import Operon.Lemmas.Mito
/-! C02 helper lemmas: the walker simulates Python's evaluation (same trace, same value) unless it fails. -/
set_option linter.unusedSectionVars false
namespace Operon.Mito
open R

/-- every entry of the operator tables is the `operator.*` function Python itself uses for that AST class -/
structure TablesSound (T : Tables) : Prop where
  bin : ∀ k p, T.bin.lookup k = some p → p = specBin k
  un : ∀ k p, T.un.lookup k = some p → specUn k = some p
  cmp : ∀ k p, T.cmp.lookup k = some p → p = specCmp k

/-- comparisons of the values at hand produce Python booleans (true of numbers, strings, lists, tuples) -/
def CmpReturnsBool (env : Env) : Prop :=
  ∀ k a b v, env.prim (specCmp k) [a, b] = .ok v → ∃ t, v = .bool t

variable (T : Tables) (env : Env) (hT : TablesSound T) (hc : CmpReturnsBool env)

include hT hc in
mutual
theorem walk_sim : ∀ e, Sim (walk T env e) (pyEval T.names env e)
  | .const v => by unfold walk pyEval; exact Sim.refl _
  | .name id => by unfold walk pyEval; split <;> first | exact Sim.refl _ | exact Sim.of_failed (failed_fail _)
  | .binop k l r => by
    unfold walk pyEval
    refine Sim.bind (walk_sim l) fun a => Sim.bind (walk_sim r) fun b => ?_
    split
    · exact Sim.of_failed (failed_fail _)
    · rename_i p hp; rw [hT.bin k p hp]; exact Sim.refl _
  | .unop k e => by
    unfold walk pyEval
    refine Sim.bind (walk_sim e) fun a => ?_
    by_cases hk : k = .not
    · subst hk; simp only [if_true, specUn]; exact Sim.refl _
    · simp only [hk, if_false]
      split
      · exact Sim.of_failed (failed_fail _)
      · rename_i p hp; rw [hT.un k p hp]; exact Sim.refl _
  | .call f args kn kv => by
    unfold walk
    split
    · rename_i fn
      split
      · rename_i hmem
        split
        · exact Sim.of_failed (failed_fail _)
        · rename_i hdup
          unfold pyEval
          rw [if_neg hdup]
          have : pyEval T.names env (.name fn) = R.act (.lookup fn) (.ok (env.lookup fn)) := by
            unfold pyEval; simp [hmem]
          rw [this]
          exact Sim.bind (Sim.refl _) fun fv => Sim.bind (walkList_sim args) fun as =>
            Sim.bind (walkKws_sim kn kv) fun ks => Sim.refl _
      · exact Sim.of_failed (failed_fail _)
    · exact Sim.of_failed (failed_fail _)
  | .list es => by unfold walk pyEval; exact Sim.bind (walkList_sim es) fun _ => Sim.refl _
  | .tuple es => by unfold walk pyEval; exact Sim.bind (walkList_sim es) fun _ => Sim.refl _
  | .compare l ops cs => by
    unfold walk pyEval; exact Sim.bind (walk_sim l) fun a => walkCmp_sim a ops cs
  | .boolop k es => by
    unfold walk pyEval
    split
    · exact walkBool_sim k es
    · exact Sim.of_failed (failed_fail _)
  | .ifexp c t e => by
    unfold walk pyEval
    refine Sim.bind (walk_sim c) fun cv => Sim.bind (Sim.refl _) fun b => ?_
    split
    · exact walk_sim t
    · exact walk_sim e
  | .other _ _ => by unfold walk; exact Sim.of_failed (failed_fail _)

theorem walkList_sim : ∀ es, Sim (walkList T env es) (pyList T.names env es)
  | [] => by unfold walkList pyList; exact Sim.refl _
  | e :: es => by
    unfold walkList pyList
    exact Sim.bind (walk_sim e) fun v => Sim.bind (walkList_sim es) fun vs => Sim.refl _

theorem walkKws_sim (kn : List (Option String)) : ∀ es, Sim (walkKws T env kn es) (pyKws T.names env kn es)
  | [] => by unfold walkKws pyKws; exact Sim.refl _
  | e :: es => by
    unfold walkKws pyKws
    split
    · exact Sim.refl _
    · exact Sim.of_failed (failed_fail _)
    · rename_i n ns
      exact Sim.bind (walk_sim e) fun v => Sim.bind (walkKws_sim ns es) fun r => Sim.refl _

theorem walkCmp_sim (a : Val) (ops : List CmpK) : ∀ cs, Sim (walkCmp T env a ops cs) (pyCmp T.names env a ops cs)
  | [] => by unfold walkCmp pyCmp; exact Sim.refl _
  | c :: cs => by
    unfold walkCmp pyCmp
    split
    · exact Sim.refl _
    · rename_i op ops'
      refine Sim.bind (walk_sim c) fun right => ?_
      split
      · exact Sim.of_failed (failed_fail _)
      · rename_i p hp
        rw [hT.cmp op p hp]
        refine Sim.bind' (Sim.refl _) fun r hr => ?_
        obtain ⟨t, ht⟩ := hc op a right r (by simpa using hr)
        subst ht
        cases cs with
        | nil =>
          cases t
          · simp [truthyR]; exact Sim.refl _
          · simp [truthyR]; unfold walkCmp; exact Sim.refl _
        | cons c' cs' =>
          cases t
          · simp [truthyR]; exact Sim.refl _
          · simp [truthyR]; exact walkCmp_sim right ops' (c' :: cs')

theorem walkBool_sim (k : BoolK) : ∀ es, Sim (walkBool T env k es) (pyBool T.names env k es)
  | [] => by unfold walkBool; exact Sim.of_failed (failed_fail _)
  | e :: es => by
    unfold walkBool pyBool
    split
    · exact walk_sim e
    · refine Sim.bind (walk_sim e) fun v => Sim.bind (Sim.refl _) fun b => ?_
      cases k <;> cases b <;> simp <;> first | exact Sim.refl _ | exact walkBool_sim _ _
end

def tablesSoundB (T : Tables) : Bool :=
  T.bin.all (fun kp => decide (kp.2 = specBin kp.1)) &&
  T.un.all (fun kp => decide (specUn kp.1 = some kp.2)) &&
  T.cmp.all (fun kp => decide (kp.2 = specCmp kp.1))

theorem tablesSound_of_check (T : Tables) (h : tablesSoundB T = true) : TablesSound T := by
  simp only [tablesSoundB, Bool.and_eq_true, List.all_eq_true, decide_eq_true_eq] at h
  exact ⟨fun k p hl => h.1.1 (k, p) (lookup_mem _ _ _ hl), fun k p hl => h.1.2 (k, p) (lookup_mem _ _ _ hl),
         fun k p hl => h.2 (k, p) (lookup_mem _ _ _ hl)⟩

end Operon.Mito
