import Operon.Model.Wiring
/-! Helper lemmas for the typed-wiring theorems (C16). -/
namespace Operon.Wiring

end Operon.Wiring
